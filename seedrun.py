#!/usr/bin/env python3
"""seedrun.py - confirm a seeded change and run the property's check against it.

  ./seedrun.py confirm <seeded-dir> [demo-dest-dir-relative-to-repo-root]
        in a scratch worktree of /repo's HEAD (under /tmp, removed afterwards): the demonstration passes
        without the patch, fails with it, the patched tree builds and passes the baseline suite.
  ./seedrun.py detect <seeded-dir> [tier] [extra property ids...]
        git -C /repo apply patch.diff; ./vcheck <property> <tier>; git -C /repo checkout -- .
Results are appended to <seeded-dir>/meta.json under "confirmation" / "detection".
"""
import json, os, re, shutil, subprocess, sys, time

ROOT = os.path.dirname(os.path.abspath(__file__))
ENV = dict(os.environ, GOFLAGS="-mod=mod", GOPROXY="off", GOSUMDB="off", GOTOOLCHAIN="local")
BASELINE = ["go", "test", "-vet=off", "-count=1", "./codec/", "./socket/", "./utils/", "./xfer/gzip/", "./mixer/websocket/websocket/"]


def sh(cmd, cwd, timeout=1800, shell=False):
    p = subprocess.run(cmd, cwd=cwd, env=ENV, stdout=subprocess.PIPE, stderr=subprocess.STDOUT, text=True, timeout=timeout, shell=shell)
    return p.returncode, p.stdout


def load_meta(d):
    p = os.path.join(d, "meta.json")
    return json.load(open(p)) if os.path.exists(p) else {}


def save_meta(d, m):
    json.dump(m, open(os.path.join(d, "meta.json"), "w"), indent=1)


def demo_files(d):
    return [f for f in os.listdir(d) if f.endswith("_test.go") or (f.endswith(".go") and f != "meta.json")]


def confirm(d, dest_rel=None):
    m = load_meta(d)
    wt = "/tmp/wt_confirm_%d" % os.getpid()
    sh(["git", "-C", "/repo", "worktree", "add", "-q", "--detach", wt, "HEAD"], "/")
    try:
        cmd = m.get("demo_cmd", "")
        cmd = re.sub(r"export [^;]*;\s*", "", cmd)
        cmd = re.sub(r"^cd \S+\s*&&\s*", "", cmd)
        cmd = re.sub(r"\s+\(.*$", "", cmd).strip()  # drop trailing remarks
        files = demo_files(d)
        mapping = m.get("demo_files") or {}
        patch = os.path.join(os.path.abspath(d), "patch.diff")
        rca, outa = sh(["git", "apply", patch], wt)
        if rca != 0:
            res = {"applies_to_head": False, "apply_output": outa[-500:]}
        else:
            # 1. the patched tree builds and passes the baseline suite (demonstration files not yet present)
            rcb, outb = sh(["go", "build", "-tags", "verif", ".", "./codec/", "./socket/", "./utils/", "./xfer/...", "./proto/...", "./plugin/...", "./mixer/websocket/..."], wt)
            rct, outt = sh(BASELINE, wt)
            # 2. the demonstration fails with the change ...
            for f in files:
                dest = dest_rel
                if dest is None:
                    v = mapping.get(f, "") if isinstance(mapping, dict) else ""
                    if v == f or v.endswith("/" + f):
                        # the mapping is the path of the file relative to the repository root
                        dest = os.path.dirname(v) or "."
                        os.makedirs(os.path.join(wt, dest), exist_ok=True)
                        shutil.copy(os.path.join(d, f), os.path.join(wt, dest, f))
                        continue
                    mm = re.search(r"(plugin/\w+|codec|socket|utils|xfer/\w+|proto/\w+|mixer/[\w/]+)", v)
                    dest = mm.group(1) if mm else None
                if dest is None:
                    mm = re.search(r"\./((?:plugin|codec|socket|utils|xfer|proto|mixer)[\w/]*)/?\s*$", cmd)
                    dest = mm.group(1) if mm and "e2e" not in f else "."
                shutil.copy(os.path.join(d, f), os.path.join(wt, dest, f))
            rc1, out1 = sh(cmd, wt, shell=True)
            # 3. ... and passes without it
            sh(["git", "apply", "-R", patch], wt)
            rc0, out0 = sh(cmd, wt, shell=True)
            res = {"applies_to_head": True, "repo_head": sh(["git", "-C", "/repo", "rev-parse", "--short", "HEAD"], "/")[1].strip(),
                   "builds_with_change": rcb == 0, "demo_cmd": cmd, "demo_without_change_rc": rc0, "demo_with_change_rc": rc1,
                   "demo_with_change_tail": out1[-600:], "baseline_with_change_rc": rct, "baseline_tail": outt[-300:],
                   "confirmed": rc0 == 0 and rc1 != 0 and rcb == 0 and rct == 0}
            if rc0 != 0:
                res["demo_without_change_tail"] = out0[-600:]
        m["confirmation"] = res
        save_meta(d, m)
        print(json.dumps(res, indent=1)[:1500])
    finally:
        sh(["git", "-C", "/repo", "worktree", "remove", "--force", wt], "/")
        shutil.rmtree(wt, ignore_errors=True)


def detect(d, tier="quick", props=None):
    m = load_meta(d)
    prop = (m.get("property") or os.path.basename(os.path.normpath(d)).split("-")[0]).split()[0]
    props = props or [prop]
    st = sh(["git", "-C", "/repo", "status", "--porcelain"], "/")[1].strip()
    if st:
        print("refusing: /repo is not clean:\n" + st)
        sys.exit(2)
    rc, out = sh(["git", "-C", "/repo", "apply", os.path.join(os.path.abspath(d), "patch.diff")], "/")
    if rc != 0:
        print("patch does not apply to /repo HEAD:\n" + out)
        sys.exit(2)
    det = m.get("detection", {})
    try:
        for p in props:
            t0 = time.time()
            rc, out = sh([os.path.join(ROOT, "vcheck"), p, tier], ROOT, timeout=7200)
            fps = re.findall(r"fingerprint=(\S+)", out)
            det["%s/%s" % (p, tier)] = {"exit": rc, "detected": rc == 1, "fingerprints": fps[:12], "wall_s": round(time.time() - t0, 1),
                                       "seed": int(os.environ.get("VERIF_SEED", "1"))}
            print("%s %s -> exit %d, %d fingerprints %s" % (p, tier, rc, len(fps), fps[:4]))
    finally:
        sh(["git", "-C", "/repo", "checkout", "--", "."], "/")
        sh(["git", "-C", "/repo", "clean", "-fdq"], "/")
    m["detection"] = det
    save_meta(d, m)


def detect_copy(d, tier="quick", props=None):
    """Like detect, but on private copies of /repo (worktree + patch) and /verif, so that nothing running
    concurrently from /repo or /verif is disturbed."""
    m = load_meta(d)
    prop = (m.get("property") or os.path.basename(os.path.normpath(d)).split("-")[0]).split()[0]
    props = props or [prop]
    rc_dir = "/tmp/rseed_%d" % os.getpid()
    vc_dir = "/tmp/vseed_%d" % os.getpid()
    sh(["git", "-C", "/repo", "worktree", "add", "-q", "--detach", rc_dir, "HEAD"], "/")
    try:
        rc, out = sh(["git", "apply", os.path.join(os.path.abspath(d), "patch.diff")], rc_dir)
        if rc != 0:
            print("patch does not apply to /repo HEAD:\n" + out)
            return
        sh(["rsync", "-a", "--exclude", ".git", "--exclude", "out", "--exclude", "harness/bin", "--exclude", "seeded", ROOT + "/", vc_dir + "/"], "/")
        det = m.get("detection", {})
        env = dict(ENV, VERIF_REPO=rc_dir)
        for p in props:
            t0 = time.time()
            pr = subprocess.run([os.path.join(vc_dir, "vcheck"), p, tier], cwd=vc_dir, env=env, stdout=subprocess.PIPE, stderr=subprocess.STDOUT, text=True, timeout=7200)
            fps = re.findall(r"fingerprint=(\S+)", pr.stdout)
            det["%s/%s" % (p, tier)] = {"exit": pr.returncode, "detected": pr.returncode == 1, "fingerprints": fps[:12], "wall_s": round(time.time() - t0, 1),
                                       "seed": int(os.environ.get("VERIF_SEED", "1")), "how": "private copies of /repo (HEAD + patch) and /verif"}
            print("%s %s -> exit %d, %d fingerprints %s" % (p, tier, pr.returncode, len(fps), fps[:4]))
            if pr.returncode not in (0, 1):
                print(pr.stdout[-800:])
        m["detection"] = det
        save_meta(d, m)
    finally:
        sh(["git", "-C", "/repo", "worktree", "remove", "--force", rc_dir], "/")
        shutil.rmtree(rc_dir, ignore_errors=True)
        shutil.rmtree(vc_dir, ignore_errors=True)


def matrix():
    """Print the detection matrix recorded in seeded/*/meta.json."""
    base = os.path.join(ROOT, "seeded")
    for d in sorted(os.listdir(base)):
        m = load_meta(os.path.join(base, d))
        conf = (m.get("confirmation") or {}).get("confirmed")
        det = m.get("detection") or {}
        hits = ["%s%s" % (k, "" if v.get("detected") else "(missed)") for k, v in sorted(det.items())]
        print("%-8s confirmed=%-5s %s" % (d, conf, " ".join(hits)))


if __name__ == "__main__":
    a = sys.argv[1:]
    if a[0] == "confirm":
        confirm(a[1], a[2] if len(a) > 2 else None)
    elif a[0] == "detect":
        detect(a[1], a[2] if len(a) > 2 else "quick", a[3:] or None)
    elif a[0] == "matrix":
        matrix()
    elif a[0] == "detect-copy":
        detect_copy(a[1], a[2] if len(a) > 2 else "quick", a[3:] or None)
