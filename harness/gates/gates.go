// Package gates drives the verif-tag gate points of eRPC: observation (hit log),
// seeded delays between critical sections, and programmable parking.
package gates

import (
	"runtime"
	"sync"
	"sync/atomic"
	"time"

	erpc "github.com/henrylee2cn/erpc/v6"
)

// Hit is one recorded gate hit.
type Hit struct {
	Point string
	Sess  erpc.Session
}

// Trap parks goroutines arriving at a point (optionally only for a given session).
type Trap struct {
	Point   string
	Match   func(sess erpc.Session) bool
	Max     int32 // park at most this many arrivals (0 = 1)
	arrived chan struct{}
	release chan struct{}
	count   int32
	relOnce sync.Once
	armed   int32
}

// Arrived is closed... it receives one token per parked arrival.
func (t *Trap) Arrived() <-chan struct{} { return t.arrived }

// WaitArrived waits for one arrival; false when the watchdog fires (ordering infeasible).
func (t *Trap) WaitArrived(d time.Duration) bool {
	select {
	case <-t.arrived:
		return true
	case <-time.After(d):
		return false
	}
}

// Release lets all parked (and future) arrivals through.
func (t *Trap) Release() {
	t.relOnce.Do(func() { close(t.release) })
}

// Count returns how many goroutines were parked by this trap so far.
func (t *Trap) Count() int { return int(atomic.LoadInt32(&t.count)) }

type state struct {
	mu        sync.Mutex
	traps     []*Trap
	delayP    uint32 // probability in 1/1000
	seed      uint64
	record    bool
	hits      []Hit
	counts    map[string]int64
	parked    int32
	onHit     func(point string, sess erpc.Session)
	hitsTotal int64
}

var st = &state{counts: map[string]int64{}}

// Install activates the gate callback in eRPC. Call once per worker process.
func Install() {
	erpc.VerifSetGate(gate)
}

// Reset clears traps, delay policy and recorded hits.
func Reset() {
	st.mu.Lock()
	for _, t := range st.traps {
		t.Release()
	}
	st.traps = nil
	st.delayP = 0
	st.record = false
	st.hits = nil
	st.onHit = nil
	st.mu.Unlock()
}

// SetDelay enables seeded perturbation: with probability p/1000 a hit yields or sleeps 0-200us.
func SetDelay(seed int64, pPerMille int) {
	st.mu.Lock()
	st.seed = uint64(seed)*0x9E3779B97F4A7C15 + 1
	st.delayP = uint32(pPerMille)
	st.mu.Unlock()
}

// Record turns hit recording on or off.
func Record(on bool) {
	st.mu.Lock()
	st.record = on
	if on {
		st.hits = nil
	}
	st.mu.Unlock()
}

// OnHit installs an observer called for every hit (outside the gate lock).
func OnHit(f func(point string, sess erpc.Session)) {
	st.mu.Lock()
	st.onHit = f
	st.mu.Unlock()
}

// Hits returns the recorded hits.
func Hits() []Hit {
	st.mu.Lock()
	h := append([]Hit(nil), st.hits...)
	st.mu.Unlock()
	return h
}

// Counts returns hit counts per point since process start.
func Counts() map[string]int64 {
	st.mu.Lock()
	m := make(map[string]int64, len(st.counts))
	for k, v := range st.counts {
		m[k] = v
	}
	st.mu.Unlock()
	return m
}

// Total returns the total number of hits since process start.
func Total() int64 { return atomic.LoadInt64(&st.hitsTotal) }

// Parked returns the number of goroutines currently parked at traps.
func Parked() int { return int(atomic.LoadInt32(&st.parked)) }

// Park arms a trap at point for sessions matched by match (nil = any) and returns it.
func Park(point string, match func(erpc.Session) bool) *Trap {
	t := &Trap{Point: point, Match: match, Max: 1, arrived: make(chan struct{}, 64), release: make(chan struct{}), armed: 1}
	st.mu.Lock()
	st.traps = append(st.traps, t)
	st.mu.Unlock()
	return t
}

// ParkN is Park for up to n arrivals.
func ParkN(point string, n int, match func(erpc.Session) bool) *Trap {
	t := Park(point, match)
	t.Max = int32(n)
	return t
}

func gate(point string, sess erpc.Session) {
	atomic.AddInt64(&st.hitsTotal, 1)
	st.mu.Lock()
	st.counts[point]++
	if st.record {
		st.hits = append(st.hits, Hit{point, sess})
	}
	var trap *Trap
	for _, t := range st.traps {
		if t.Point == point && (t.Match == nil || (sess != nil && t.Match(sess))) {
			if atomic.LoadInt32(&t.count) < t.Max {
				atomic.AddInt32(&t.count, 1)
				trap = t
				break
			}
		}
	}
	var delay uint64
	if trap == nil && st.delayP > 0 {
		st.seed ^= st.seed << 13
		st.seed ^= st.seed >> 7
		st.seed ^= st.seed << 17
		if uint32(st.seed%1000) < st.delayP {
			delay = 1 + (st.seed>>20)%8
		}
	}
	onHit := st.onHit
	st.mu.Unlock()
	if onHit != nil {
		onHit(point, sess)
	}
	if trap != nil {
		atomic.AddInt32(&st.parked, 1)
		select {
		case trap.arrived <- struct{}{}:
		default:
		}
		<-trap.release
		atomic.AddInt32(&st.parked, -1)
		return
	}
	switch {
	case delay == 0:
	case delay <= 4:
		runtime.Gosched()
	default:
		time.Sleep(time.Duration(delay-4) * 50 * time.Microsecond)
	}
}
