// Package bed builds real eRPC peers joined by harness-owned in-memory connections.
package bed

import (
	"fmt"
	"sync"
	"time"

	erpc "github.com/henrylee2cn/erpc/v6"
	"github.com/henrylee2cn/erpc/v6/codec"

	"verifharness/memconn"
)

// Init sets the process-global knobs of eRPC explicitly (importing thriftproto or building
// httproto changes them as a side effect).
func Init(logLevel string) {
	erpc.SetServiceMethodMapper(erpc.HTTPServiceMethodMapper)
	erpc.SetDefaultBodyCodec(codec.ID_JSON)
	if logLevel == "" {
		logLevel = "OFF"
	}
	erpc.SetLoggerLevel(logLevel)
}

// Link is one established connection between two peers.
type Link struct {
	A, B   erpc.Session  // A: session on the "client" peer, B: on the "server" peer
	CA, CB *memconn.Conn // the ends used by A and B
}

// Connect joins peers a and b with a new in-memory connection (both sides through ServeConn;
// the server side is started first in its own goroutine because accept plug-ins may block on I/O).
func Connect(a, b erpc.Peer, pfA, pfB erpc.ProtoFunc, prep func(ca, cb *memconn.Conn)) (*Link, error) {
	ca, cb := memconn.NewPair()
	if prep != nil {
		prep(ca, cb)
	}
	l := &Link{CA: ca, CB: cb}
	var wg sync.WaitGroup
	var sb *erpc.Status
	wg.Add(1)
	go func() {
		defer wg.Done()
		l.B, sb = b.ServeConn(cb, pfB)
	}()
	var sa *erpc.Status
	l.A, sa = a.ServeConn(ca, pfA)
	wg.Wait()
	if !sa.OK() || !sb.OK() {
		ca.Close()
		cb.Close()
		return nil, fmt.Errorf("connect failed: a=%v b=%v", sa, sb)
	}
	return l, nil
}

// WaitUntil polls cond (no verdict depends on it; callers treat expiry as inconclusive).
func WaitUntil(d time.Duration, cond func() bool) bool {
	deadline := time.Now().Add(d)
	for !cond() {
		if time.Now().After(deadline) {
			return false
		}
		time.Sleep(200 * time.Microsecond)
	}
	return true
}
