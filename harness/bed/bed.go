// Package bed builds real eRPC peers joined by harness-owned in-memory connections.
package bed

import (
	"fmt"
	"net"
	"net/http"
	"reflect"
	"strings"
	"sync"
	"time"

	erpc "github.com/henrylee2cn/erpc/v6"
	"github.com/henrylee2cn/erpc/v6/codec"
	"github.com/henrylee2cn/erpc/v6/mixer/websocket"
	ws "github.com/henrylee2cn/erpc/v6/mixer/websocket/websocket"

	"verifharness/memconn"
)

// Init sets the process-global knobs of eRPC explicitly (importing thriftproto or building
// httproto changes them as a side effect).
func Init(logLevel string) {
	erpc.SetServiceMethodMapper(erpc.HTTPServiceMethodMapper)
	erpc.SetDefaultBodyCodec(codec.ID_JSON)
	if logLevel == "" {
		logLevel = "OFF"
	}
	erpc.SetLoggerLevel(logLevel)
}

// Link is one established connection between two peers.
type Link struct {
	A, B   erpc.Session  // A: session on the "client" peer, B: on the "server" peer
	CA, CB *memconn.Conn // the ends used by A and B
}

// Connect joins peers a and b with a new in-memory connection (both sides through ServeConn;
// the server side is started first in its own goroutine because accept plug-ins may block on I/O).
func Connect(a, b erpc.Peer, pfA, pfB erpc.ProtoFunc, prep func(ca, cb *memconn.Conn)) (*Link, error) {
	ca, cb := memconn.NewPair()
	if prep != nil {
		prep(ca, cb)
	}
	l := &Link{CA: ca, CB: cb}
	var wg sync.WaitGroup
	var sb *erpc.Status
	wg.Add(1)
	go func() {
		defer wg.Done()
		l.B, sb = b.ServeConn(cb, pfB)
	}()
	var sa *erpc.Status
	l.A, sa = a.ServeConn(ca, pfA)
	wg.Wait()
	if !sa.OK() || !sb.OK() {
		ca.Close()
		cb.Close()
		return nil, fmt.Errorf("connect failed: a=%v b=%v", sa, sb)
	}
	return l, nil
}

// WaitUntil polls cond (no verdict depends on it; callers treat expiry as inconclusive).
func WaitUntil(d time.Duration, cond func() bool) bool {
	deadline := time.Now().Add(d)
	for !cond() {
		if time.Now().After(deadline) {
			return false
		}
		time.Sleep(200 * time.Microsecond)
	}
	return true
}

// oneShotListener hands out a single in-memory connection to an http.Server.
type oneShotListener struct {
	c    chan net.Conn
	done chan struct{}
	once sync.Once
	addr net.Addr
}

func (l *oneShotListener) Accept() (net.Conn, error) {
	select {
	case c := <-l.c:
		return c, nil
	case <-l.done:
		return nil, fmt.Errorf("listener closed")
	}
}
func (l *oneShotListener) Close() error   { l.once.Do(func() { close(l.done) }); return nil }
func (l *oneShotListener) Addr() net.Addr { return l.addr }

// ConnectWS joins peers a (client) and b (server) through a real websocket handshake and
// framing over an in-memory connection: b serves through mixer/websocket's http handler,
// a upgrades its end with the websocket client and serves it with the websocket protocol
// wrapper around the given sub-protocol.
// wsHandler returns THE websocket handler of a peer for a sub-protocol: as in a real server, one handler (one
// wrapped protocol function) accepts every connection of that peer.
func wsHandler(b erpc.Peer, sub erpc.ProtoFunc) http.Handler {
	k := wsKey{b, reflect.ValueOf(sub).Pointer()}
	if h, ok := wsHandlers.Load(k); ok {
		return h.(http.Handler)
	}
	h, _ := wsHandlers.LoadOrStore(k, websocket.NewServeHandler(b, nil, sub))
	return h.(http.Handler)
}

type wsKey struct {
	peer erpc.Peer
	sub  uintptr
}

var wsHandlers sync.Map

func ConnectWS(a, b erpc.Peer, sub erpc.ProtoFunc, prep func(ca, cb *memconn.Conn)) (*Link, error) {
	ca, cb := memconn.NewPair()
	if prep != nil {
		prep(ca, cb)
	}
	l := &Link{CA: ca, CB: cb}
	lis := &oneShotListener{c: make(chan net.Conn, 1), done: make(chan struct{}), addr: cb.LocalAddr()}
	lis.c <- cb
	srv := &http.Server{Handler: wsHandler(b, sub)}
	go srv.Serve(lis)
	cfg, err := ws.NewConfig("ws://"+cb.LocalAddr().String()+"/", "ws://"+ca.LocalAddr().String()+"/")
	if err != nil {
		return nil, err
	}
	wc, err := ws.NewClient(cfg, ca)
	if err != nil {
		lis.Close()
		return nil, fmt.Errorf("websocket handshake: %v", err)
	}
	var sa *erpc.Status
	l.A, sa = a.ServeConn(wc, websocket.NewWsProtoFunc(sub))
	if !sa.OK() {
		lis.Close()
		return nil, fmt.Errorf("client ServeConn: %v", sa)
	}
	want := ca.LocalAddr().String()
	ok := WaitUntil(10*time.Second, func() bool {
		b.RangeSession(func(s erpc.Session) bool {
			if strings.Contains(s.RemoteAddr().String(), want) {
				l.B = s
				return false
			}
			return true
		})
		return l.B != nil
	})
	lis.Close()
	if !ok {
		return nil, fmt.Errorf("server side websocket session did not appear")
	}
	return l, nil
}

// RawWS is the client end of a websocket connection whose handshake was done by the real client
// code; afterwards the harness writes raw bytes (hand-built frames) and collects what the server writes.
type RawWS struct {
	c    *memconn.Conn
	mu   sync.Mutex
	buf  []byte
	eof  bool
	done chan struct{}
}

func (r *RawWS) Write(b []byte) { r.c.Write(b) }

// Received returns what the server wrote since the handshake and whether it closed.
func (r *RawWS) Received() ([]byte, bool) {
	r.mu.Lock()
	defer r.mu.Unlock()
	return append([]byte(nil), r.buf...), r.eof
}

// Close closes the client end and waits for the collector.
func (r *RawWS) Close() {
	r.c.Close()
	<-r.done
}

// ServeWSRaw lets peer b serve a websocket connection (mixer/websocket handler over an in-memory
// connection, real handshake) and returns the raw client end plus b's session.
func ServeWSRaw(b erpc.Peer, sub erpc.ProtoFunc) (*RawWS, erpc.Session, error) {
	ca, cb := memconn.NewPair()
	lis := &oneShotListener{c: make(chan net.Conn, 1), done: make(chan struct{}), addr: cb.LocalAddr()}
	lis.c <- cb
	srv := &http.Server{Handler: wsHandler(b, sub)}
	go srv.Serve(lis)
	defer lis.Close()
	cfg, err := ws.NewConfig("ws://"+cb.LocalAddr().String()+"/", "ws://"+ca.LocalAddr().String()+"/")
	if err != nil {
		return nil, nil, err
	}
	if _, err = ws.NewClient(cfg, ca); err != nil {
		return nil, nil, fmt.Errorf("websocket handshake: %v", err)
	}
	r := &RawWS{c: ca, done: make(chan struct{})}
	go func() {
		defer close(r.done)
		tmp := make([]byte, 32*1024)
		for {
			n, err := ca.Read(tmp)
			r.mu.Lock()
			r.buf = append(r.buf, tmp[:n]...)
			if err != nil {
				r.eof = true
				r.mu.Unlock()
				return
			}
			r.mu.Unlock()
		}
	}()
	var sess erpc.Session
	want := ca.LocalAddr().String()
	ok := WaitUntil(10*time.Second, func() bool {
		b.RangeSession(func(s erpc.Session) bool {
			if strings.Contains(s.RemoteAddr().String(), want) {
				sess = s
				return false
			}
			return true
		})
		return sess != nil
	})
	if !ok {
		r.Close()
		return nil, nil, fmt.Errorf("server side websocket session did not appear")
	}
	return r, sess, nil
}
