// Package core is the worker side of the worker/driver protocol: JSON lines on
// stdout prefixed with "@@V ", one "case" line before a case executes and one
// "result" line after it; counters and samples at exit.
package core

import (
	"encoding/json"
	"fmt"
	"os"
	"sort"
	"sync"
)

var (
	mu      sync.Mutex
	stats   = map[string]int64{}
	maxs    = map[string]int64{}
	sets    = map[string]map[string]struct{}{}
	samples []interface{}
	// Prop is the property id the worker runs for.
	Prop string
)

func emit(v interface{}) {
	b, err := json.Marshal(v)
	if err != nil {
		b, _ = json.Marshal(map[string]interface{}{"t": "error", "err": err.Error()})
	}
	mu.Lock()
	os.Stdout.Write(append(append([]byte("@@V "), b...), '\n'))
	mu.Unlock()
}

var firstCase interface{}

// Begin announces a case before it is executed (so a crash can be attributed).
func Begin(id string, desc interface{}) {
	mu.Lock()
	if firstCase == nil && desc != nil {
		firstCase = desc
	}
	mu.Unlock()
	emit(map[string]interface{}{"t": "case", "id": id, "desc": desc})
}

// Verdicts
const (
	Held         = "held"
	Violated     = "violated"
	Inconclusive = "inconclusive"
)

// R is a case result.
type R struct {
	ID         string      `json:"id"`
	Verdict    string      `json:"verdict"`
	FP         string      `json:"fp,omitempty"`   // structural fingerprint of a violation
	What       string      `json:"what,omitempty"` // one line
	Witness    interface{} `json:"witness,omitempty"`
	Sig        string      `json:"sig,omitempty"` // signature for distinct counting
	Nontrivial bool        `json:"nontrivial"`
	Desc       interface{} `json:"desc,omitempty"` // case description for replay (violations)
}

// Result reports the outcome of a case.
func Result(r R) {
	emit(map[string]interface{}{"t": "result", "r": r})
}

// Add adds n to a counter.
func Add(key string, n int64) {
	mu.Lock()
	stats[key] += n
	mu.Unlock()
}

// Max records a maximum.
func Max(key string, n int64) {
	mu.Lock()
	if n > maxs[key] {
		maxs[key] = n
	}
	mu.Unlock()
}

// Distinct records a member of a named set whose cardinality is reported.
func Distinct(set, member string) {
	mu.Lock()
	m := sets[set]
	if m == nil {
		m = map[string]struct{}{}
		sets[set] = m
	}
	if len(m) < 200000 {
		m[member] = struct{}{}
	}
	mu.Unlock()
}

// Sample records a literal case for the evidence file (only the first few are kept).
func Sample(v interface{}) {
	mu.Lock()
	if len(samples) < 4 {
		samples = append(samples, v)
	}
	mu.Unlock()
}

// Finish emits counters, set members (for cross-batch union) and samples. Call at the end of a batch.
func Finish() {
	mu.Lock()
	s := map[string]int64{}
	for k, v := range stats {
		s[k] = v
	}
	m := map[string]int64{}
	for k, v := range maxs {
		m[k] = v
	}
	d := map[string][]string{}
	for k, v := range sets {
		l := make([]string, 0, len(v))
		for x := range v {
			l = append(l, x)
		}
		sort.Strings(l)
		d[k] = l
	}
	sm := samples
	if len(sm) == 0 && firstCase != nil {
		sm = []interface{}{firstCase} // a worker that sampled nothing still shows one literal case it ran
	}
	mu.Unlock()
	emit(map[string]interface{}{"t": "finish", "stats": s, "max": m, "sets": d, "samples": sm})
}

// Fatalf reports a harness failure (broken check, not a violation) and exits 3.
func Fatalf(format string, a ...interface{}) {
	emit(map[string]interface{}{"t": "harness_error", "msg": fmt.Sprintf(format, a...)})
	os.Exit(3)
}

// Rand is a small deterministic PRNG (splitmix64).
type Rand struct{ s uint64 }

// NewRand seeds a PRNG from any number of integers.
func NewRand(seeds ...int64) *Rand {
	r := &Rand{0x9E3779B97F4A7C15}
	for _, s := range seeds {
		r.s = r.s*0xBF58476D1CE4E5B9 + uint64(s) + 0x94D049BB133111EB
		r.Uint64()
	}
	return r
}

// Uint64 returns the next value.
func (r *Rand) Uint64() uint64 {
	r.s += 0x9E3779B97F4A7C15
	z := r.s
	z = (z ^ (z >> 30)) * 0xBF58476D1CE4E5B9
	z = (z ^ (z >> 27)) * 0x94D049BB133111EB
	return z ^ (z >> 31)
}

// Intn returns a value in [0,n).
func (r *Rand) Intn(n int) int {
	if n <= 0 {
		return 0
	}
	return int(r.Uint64() % uint64(n))
}

// Bytes returns n pseudo-random bytes.
func (r *Rand) Bytes(n int) []byte {
	b := make([]byte, n)
	for i := 0; i < n; i += 8 {
		v := r.Uint64()
		for j := 0; j < 8 && i+j < n; j++ {
			b[i+j] = byte(v >> (8 * uint(j)))
		}
	}
	return b
}

// Pick returns one of the strings.
func (r *Rand) Pick(s ...string) string { return s[r.Intn(len(s))] }

// Chance returns true with probability num/den.
func (r *Rand) Chance(num, den int) bool { return r.Intn(den) < num }
