// Package tok implements token traffic: every message carries a token T; the body
// payload, the metadata and the expected reply are pure functions of T, so any
// receiver can check self-consistency locally and any foreign byte is attributable.
package tok

import (
	"fmt"
	"runtime"
	"strings"
	"sync"
	"sync/atomic"

	erpc "github.com/henrylee2cn/erpc/v6"
	"github.com/henrylee2cn/erpc/v6/codec"
	"github.com/henrylee2cn/erpc/v6/proto/pbproto/pb"

	"verifharness/wire"
)

// Arg is the body type for the json, xml and form codecs.
type Arg struct {
	Tok string `json:"tok" xml:"tok" form:"tok"`
	Pay string `json:"pay" xml:"pay" form:"pay"`
}

// Kinds of bodies (body codec x Go type).
var Kinds = []string{"bytes", "json", "form", "xml", "plain", "nstr", "pb", "thrift"}

// NStr is a named string type (plain codec, decoded through reflection rather than the *string fast path).
type NStr string

// CodecID returns the body codec id used for a kind.
func CodecID(kind string) byte {
	switch kind {
	case "bytes", "plain", "nstr":
		return codec.ID_PLAIN
	case "json":
		return codec.ID_JSON
	case "form":
		return codec.ID_FORM
	case "xml":
		return codec.ID_XML
	case "pb":
		return codec.ID_PROTOBUF
	case "thrift":
		return codec.ID_THRIFT
	}
	panic(kind)
}

const alpha = "abcdefghijklmnopqrstuvwxyzABCDEFGHIJKLMNOPQRSTUVWXYZ0123456789"

func hash(s string) uint64 {
	h := uint64(14695981039346656037)
	for i := 0; i < len(s); i++ {
		h ^= uint64(s[i])
		h *= 1099511628211
	}
	return h
}

// MaxLen bounds payload lengths (set by the worker before traffic starts).
var MaxLen = 70000

// Len is the payload length for a token.
func Len(tok string) int {
	h := hash("L" + tok)
	var n int
	switch h % 16 {
	case 0:
		n = 0
	case 1:
		n = 1
	case 2:
		n = 255
	case 3:
		n = 256
	case 4:
		n = 4096
	case 5:
		if (h>>8)%8 == 0 {
			n = 65536
		} else {
			n = 1024
		}
	default:
		n = int((h >> 8) % 2000)
	}
	if n > MaxLen {
		n = MaxLen
	}
	return n
}

// Payload is the printable payload derived from a token: a 61-byte token-specific block
// (prime period, so shifted or foreign content cannot match) repeated up to Len(tok) bytes.
func Payload(tok string) string {
	n := Len(tok)
	if n == 0 {
		return ""
	}
	var blk [61]byte
	x := hash(tok) | 1
	for i := range blk {
		x ^= x << 13
		x ^= x >> 7
		x ^= x << 17
		blk[i] = alpha[x%uint64(len(alpha))]
	}
	return strings.Repeat(string(blk[:]), n/61+1)[:n]
}

// ReplyPayload is the payload of the reply to token tok.
func ReplyPayload(tok string) string { return Payload("R:" + tok) }

// MetaVal is a metadata value derived from the token.
func MetaVal(tok string, i int) string { return fmt.Sprintf("%x", hash(fmt.Sprintf("m%d:%s", i, tok))) }

// EscVal is a token-derived metadata value made of bytes that the wire protocols must escape (percent-escapes
// of the metadata query string, JSON string escapes): control bytes, separators, non-ASCII text, high bytes.
// It travels in the pair "Esc" (reply: "Resc") of the messages that carry a repeated key (announced by Dn=2).
func EscVal(tok string) string {
	tbl := []string{"\t", ")", "\xc3\xa9", "%", "&", "=", "+", " ", "\x99", "\xf9", "\xe2\x82\xac", "\x19", "\"", "\\", "i9", "~\x7f", "\xf0\x9f\x99\x89", "%9", "%zz"}
	x := hash("esc:" + tok)
	out := ""
	for i := 0; i < 6; i++ {
		out += tbl[x%uint64(len(tbl))]
		x /= uint64(len(tbl))
	}
	return out
}

// TailMeta is the value of the last metadata pair "Ztail" of the message with that token:
// "-" = the pair is absent, "" = present with an empty value, otherwise a token-derived value.
func TailMeta(tok string) string {
	switch hash("Z"+tok) % 3 {
	case 0:
		return "-"
	case 1:
		return ""
	}
	return MetaVal(tok, 3)
}

// Build makes the body value for a kind. For "bytes" the returned slice lives in a larger
// buffer whose spare capacity carries a canary (see CanaryOK).
func Build(kind, tok, pay string) interface{} {
	switch kind {
	case "bytes":
		s := tok + "|" + pay
		buf := make([]byte, len(s), len(s)+32)
		copy(buf, s)
		spare := buf[len(s) : len(s)+32]
		for i := range spare {
			spare[i] = 0xC5
		}
		return buf
	case "plain":
		s := tok + "|" + pay
		return &s
	case "nstr":
		s := NStr(tok + "|" + pay)
		return &s
	case "json", "form", "xml":
		return &Arg{Tok: tok, Pay: pay}
	case "pb":
		return &pb.Payload{ServiceMethod: tok, Body: []byte(pay)}
	case "thrift":
		return &wire.TStruct{S: tok, D: []byte(pay), A: int32(len(pay))}
	}
	panic(kind)
}

// CanaryOK checks the spare capacity of a "bytes" body built by Build.
func CanaryOK(v interface{}) bool {
	b, ok := v.([]byte)
	if !ok {
		return true
	}
	spare := b[len(b):cap(b)]
	for _, c := range spare {
		if c != 0xC5 {
			return false
		}
	}
	return true
}

// NewResult makes the receiver for a reply of that kind.
func NewResult(kind string) interface{} {
	switch kind {
	case "bytes":
		return new([]byte)
	case "plain":
		return new(string)
	case "nstr":
		return new(NStr)
	case "json", "form", "xml":
		return new(Arg)
	case "pb":
		return new(pb.Payload)
	case "thrift":
		return new(wire.TStruct)
	}
	panic(kind)
}

// Decode extracts (token, payload) from a received value.
func Decode(v interface{}) (tok, pay string, ok bool) {
	switch x := v.(type) {
	case *[]byte:
		return split(string(*x))
	case []byte:
		return split(string(x))
	case *string:
		return split(*x)
	case *NStr:
		return split(string(*x))
	case *Arg:
		return x.Tok, x.Pay, true
	case *pb.Payload:
		return x.ServiceMethod, string(x.Body), true
	case *wire.TStruct:
		return x.S, string(x.D), true
	}
	return "", "", false
}

func split(s string) (string, string, bool) {
	i := strings.IndexByte(s, '|')
	if i < 0 {
		return s, "", false
	}
	return s[:i], s[i+1:], true
}

// Monitor receives the observations of the handlers of this process.
type Monitor struct {
	// Report is called for a violation seen by a handler: symptom is a short class, kind the body kind.
	Report func(symptom, kind, detail string)
	// Yield is called inside handlers between the entry and the exit check (may park, sleep or yield).
	Yield func(kind, tok string)
	// OnPush is called for every push received with a consistent token.
	OnPush func(kind, tok string)
	// OnCall is called at handler entry with the token.
	OnCall func(kind, tok string)

	Handled   int64
	Pushed    int64
	InFlight  int64
	MaxFlight int64
	ctxMu     sync.Mutex
	ctxSeen   map[string]int
	Recycles  int64
}

// Mon is the monitor used by the handlers registered from this package.
var Mon atomic.Value // *Monitor

func mon() *Monitor {
	m, _ := Mon.Load().(*Monitor)
	return m
}

// Lean disables the monitor's own locking (race-detector runs).
var Lean bool

// NoteCtx records the identity of a handler context (measures pooled-context recycling).
func (m *Monitor) NoteCtx(p interface{}) {
	if Lean {
		return
	}
	k := fmt.Sprintf("%p", p)
	m.ctxMu.Lock()
	if m.ctxSeen == nil {
		m.ctxSeen = map[string]int{}
	}
	m.ctxSeen[k]++
	if m.ctxSeen[k] == 2 {
		atomic.AddInt64(&m.Recycles, 1)
	}
	m.ctxMu.Unlock()
}

type inCtx interface {
	PeekMeta(key string) []byte
	VisitMeta(f func(key, value []byte))
	ServiceMethod() string
}

// BareEnabled switches on bare messages (set by the traffic worker before any traffic).
var BareEnabled bool

// Bare says whether the message of a token (and the reply to it) is sent without any metadata.
func Bare(tok string) bool { return BareEnabled && hash("bare:"+tok)%8 == 0 }

// EmptyReply says whether the handler answers the call of this token with the EMPTY value of its kind (zero-length
// bytes, empty string, all-zero protobuf message): such a result is what the caller must see, whatever its receiver held.
func EmptyReply(kind, tok string) bool {
	if !BareEnabled || Bare(tok) {
		return false
	}
	switch kind {
	case "bytes", "plain", "pb":
		return hash("er:"+tok)%16 == 0
	}
	return false
}

// IsEmpty reports whether a received value is the empty value of its kind.
func IsEmpty(v interface{}) bool {
	switch x := v.(type) {
	case *[]byte:
		return len(*x) == 0
	case *string:
		return *x == ""
	case *pb.Payload:
		return x.Seq == 0 && x.Mtype == 0 && x.ServiceMethod == "" && len(x.Status) == 0 && len(x.Meta) == 0 && x.BodyCodec == 0 && len(x.Body) == 0
	}
	return false
}

var ourKeys = []string{"Tok", "M1", "Ztail", "Dup", "Dn", "Esc", "Rtok", "R1", "Resc"}

// DupMeta says whether the message of a token carries a repeated metadata key (two "Dup" pairs, announced by "Dn").
func DupMeta(tok string) bool { return hash("dup:"+tok)%4 == 0 }

// check verifies the self-consistency of what a handler received.
func check(m *Monitor, kind, phase string, ctx inCtx, arg interface{}, wantMethod string) (tok string, ok bool) {
	tok, pay, dec := Decode(arg)
	if !dec {
		m.Report("handler-arg-garbled/"+phase, kind, fmt.Sprintf("argument carries no token separator: %.80q", tok))
		return tok, false
	}
	if want := Payload(tok); pay != want {
		m.Report("handler-arg-foreign/"+phase, kind, fmt.Sprintf("token %q: payload (len %d) %.60q is not the payload of that token (len %d) %.60q", tok, len(pay), pay, len(want), want))
		return tok, false
	}
	if Bare(tok) {
		// sent without metadata: nothing of another message's metadata may show
		for _, k := range ourKeys {
			if v := ctx.PeekMeta(k); len(v) > 0 {
				m.Report("handler-meta-foreign/"+phase, kind, fmt.Sprintf("token %q was sent without metadata, the handler sees %s=%q", tok, k, v))
				return tok, false
			}
		}
		if sm := ctx.ServiceMethod(); sm != wantMethod {
			m.Report("handler-method/"+phase, kind, fmt.Sprintf("token %q: service method %q want %q", tok, sm, wantMethod))
			return tok, false
		}
		return tok, true
	}
	if mt := string(ctx.PeekMeta("Tok")); mt != tok {
		m.Report("handler-meta-foreign/"+phase, kind, fmt.Sprintf("argument token %q but metadata Tok=%q", tok, mt))
		return tok, false
	}
	if mv := string(ctx.PeekMeta("M1")); mv != MetaVal(tok, 1) {
		m.Report("handler-meta-foreign/"+phase, kind, fmt.Sprintf("token %q: metadata M1=%q want %q", tok, mv, MetaVal(tok, 1)))
		return tok, false
	}
	if want := TailMeta(tok); want != "-" {
		if got := string(ctx.PeekMeta("Ztail")); got != want {
			m.Report("handler-meta-foreign/"+phase, kind, fmt.Sprintf("token %q: last metadata pair Ztail=%q, sent %q", tok, got, want))
			return tok, false
		}
	}
	if string(ctx.PeekMeta("Dn")) == "2" {
		// a repeated key arrives with both values, in the order they were added
		var got []string
		ctx.VisitMeta(func(k, v []byte) {
			if string(k) == "Dup" {
				got = append(got, string(v))
			}
		})
		if len(got) != 2 || got[0] != MetaVal(tok, 3) || got[1] != MetaVal(tok, 4) {
			m.Report("handler-meta-foreign/"+phase, kind, fmt.Sprintf("token %q: repeated metadata key Dup arrived as %q, sent [%q %q]", tok, got, MetaVal(tok, 3), MetaVal(tok, 4)))
			return tok, false
		}
		if got := string(ctx.PeekMeta("Esc")); got != EscVal(tok) {
			m.Report("handler-meta-foreign/"+phase, kind, fmt.Sprintf("token %q: metadata Esc=%q, sent %q", tok, got, EscVal(tok)))
			return tok, false
		}
	}
	if sm := ctx.ServiceMethod(); sm != wantMethod {
		m.Report("handler-method/"+phase, kind, fmt.Sprintf("token %q: service method %q want %q", tok, sm, wantMethod))
		return tok, false
	}
	return tok, true
}

func handleCall(kind, route string, ctx erpc.CallCtx, arg interface{}) (interface{}, *erpc.Status) {
	m := mon()
	if m == nil {
		return nil, erpc.NewStatus(599, "no monitor", "")
	}
	n := atomic.AddInt64(&m.InFlight, 1)
	for {
		old := atomic.LoadInt64(&m.MaxFlight)
		if n <= old || atomic.CompareAndSwapInt64(&m.MaxFlight, old, n) {
			break
		}
	}
	defer atomic.AddInt64(&m.InFlight, -1)
	atomic.AddInt64(&m.Handled, 1)
	m.NoteCtx(ctx)
	tok, ok := check(m, kind, "entry", ctx, arg, route)
	if !ok {
		return nil, erpc.NewStatus(598, "inconsistent request", tok)
	}
	if m.OnCall != nil {
		m.OnCall(kind, tok)
	}
	if m.Yield != nil {
		m.Yield(kind, tok)
	} else {
		runtime.Gosched()
	}
	// the argument must still be what it was: it belongs to this handler until it returns
	if _, ok := check(m, kind, "exit", ctx, arg, route); !ok {
		return nil, erpc.NewStatus(598, "request changed while being handled", tok)
	}
	if !Bare(tok) {
		ctx.SetMeta("Rtok", tok)
		ctx.SetMeta("R1", MetaVal(tok, 2))
		if string(ctx.PeekMeta("Dn")) == "2" {
			ctx.SetMeta("Resc", EscVal("R:"+tok))
		}
		if v := TailMeta("R:" + tok); v != "-" {
			ctx.SetMeta("Ztail", v)
		}
	}
	if EmptyReply(kind, tok) {
		switch kind {
		case "bytes":
			return []byte{}, nil
		case "plain":
			return new(string), nil
		case "pb":
			return new(pb.Payload), nil
		}
	}
	rp := ReplyPayload(tok)
	switch kind {
	case "bytes":
		return []byte(tok + "|" + rp), nil
	case "plain":
		s := tok + "|" + rp
		return &s, nil
	case "nstr":
		s := NStr(tok + "|" + rp)
		return &s, nil
	}
	return Build(kind, tok, rp), nil
}

func handlePush(kind, route string, ctx erpc.PushCtx, arg interface{}) *erpc.Status {
	m := mon()
	if m == nil {
		return nil
	}
	atomic.AddInt64(&m.Pushed, 1)
	m.NoteCtx(ctx)
	tok, ok := check(m, kind, "entry", ctx, arg, route)
	if !ok {
		return nil
	}
	if m.Yield != nil {
		m.Yield(kind, tok)
	} else {
		runtime.Gosched()
	}
	if _, ok := check(m, kind, "exit", ctx, arg, route); !ok {
		return nil
	}
	if m.OnPush != nil {
		m.OnPush(kind, tok)
	}
	return nil
}

// Function handlers (routes /c_bytes ... and /p_bytes ...).

func CBytes(ctx erpc.CallCtx, arg *[]byte) ([]byte, *erpc.Status) {
	r, s := handleCall("bytes", CallRoute("bytes", false), ctx, arg)
	if s != nil {
		return nil, s
	}
	return r.([]byte), nil
}
func CPlain(ctx erpc.CallCtx, arg *string) (*string, *erpc.Status) {
	r, s := handleCall("plain", CallRoute("plain", false), ctx, arg)
	if s != nil {
		return nil, s
	}
	return r.(*string), nil
}
func CNstr(ctx erpc.CallCtx, arg *NStr) (*NStr, *erpc.Status) {
	r, s := handleCall("nstr", CallRoute("nstr", false), ctx, arg)
	if s != nil {
		return nil, s
	}
	return r.(*NStr), nil
}
func CJson(ctx erpc.CallCtx, arg *Arg) (*Arg, *erpc.Status) {
	r, s := handleCall("json", CallRoute("json", false), ctx, arg)
	if s != nil {
		return nil, s
	}
	return r.(*Arg), nil
}
func CForm(ctx erpc.CallCtx, arg *Arg) (*Arg, *erpc.Status) {
	r, s := handleCall("form", CallRoute("form", false), ctx, arg)
	if s != nil {
		return nil, s
	}
	return r.(*Arg), nil
}
func CXml(ctx erpc.CallCtx, arg *Arg) (*Arg, *erpc.Status) {
	r, s := handleCall("xml", CallRoute("xml", false), ctx, arg)
	if s != nil {
		return nil, s
	}
	return r.(*Arg), nil
}
func CPb(ctx erpc.CallCtx, arg *pb.Payload) (*pb.Payload, *erpc.Status) {
	r, s := handleCall("pb", CallRoute("pb", false), ctx, arg)
	if s != nil {
		return nil, s
	}
	return r.(*pb.Payload), nil
}
func CThrift(ctx erpc.CallCtx, arg *wire.TStruct) (*wire.TStruct, *erpc.Status) {
	r, s := handleCall("thrift", CallRoute("thrift", false), ctx, arg)
	if s != nil {
		return nil, s
	}
	return r.(*wire.TStruct), nil
}

func PBytes(ctx erpc.PushCtx, arg *[]byte) *erpc.Status {
	return handlePush("bytes", PushRoute("bytes"), ctx, arg)
}
func PPlain(ctx erpc.PushCtx, arg *string) *erpc.Status {
	return handlePush("plain", PushRoute("plain"), ctx, arg)
}
func PNstr(ctx erpc.PushCtx, arg *NStr) *erpc.Status {
	return handlePush("nstr", PushRoute("nstr"), ctx, arg)
}
func PJson(ctx erpc.PushCtx, arg *Arg) *erpc.Status {
	return handlePush("json", PushRoute("json"), ctx, arg)
}
func PForm(ctx erpc.PushCtx, arg *Arg) *erpc.Status {
	return handlePush("form", PushRoute("form"), ctx, arg)
}
func PXml(ctx erpc.PushCtx, arg *Arg) *erpc.Status {
	return handlePush("xml", PushRoute("xml"), ctx, arg)
}
func PPb(ctx erpc.PushCtx, arg *pb.Payload) *erpc.Status {
	return handlePush("pb", PushRoute("pb"), ctx, arg)
}
func PThrift(ctx erpc.PushCtx, arg *wire.TStruct) *erpc.Status {
	return handlePush("thrift", PushRoute("thrift"), ctx, arg)
}

// Ctl is a controller struct (exercises the pooled controller path of the router): routes /ctl/json etc.
type Ctl struct{ erpc.CallCtx }

func (c *Ctl) Json(arg *Arg) (*Arg, *erpc.Status) {
	r, s := handleCall("json", CallRoute("json", true), c, arg)
	if s != nil {
		return nil, s
	}
	return r.(*Arg), nil
}
func (c *Ctl) Bytes(arg *[]byte) ([]byte, *erpc.Status) {
	r, s := handleCall("bytes", CallRoute("bytes", true), c, arg)
	if s != nil {
		return nil, s
	}
	return r.([]byte), nil
}
func (c *Ctl) Form(arg *Arg) (*Arg, *erpc.Status) {
	r, s := handleCall("form", CallRoute("form", true), c, arg)
	if s != nil {
		return nil, s
	}
	return r.(*Arg), nil
}
func (c *Ctl) Plain(arg *string) (*string, *erpc.Status) {
	r, s := handleCall("plain", CallRoute("plain", true), c, arg)
	if s != nil {
		return nil, s
	}
	return r.(*string), nil
}
func (c *Ctl) Nstr(arg *NStr) (*NStr, *erpc.Status) {
	r, s := handleCall("nstr", CallRoute("nstr", true), c, arg)
	if s != nil {
		return nil, s
	}
	return r.(*NStr), nil
}
func (c *Ctl) Pb(arg *pb.Payload) (*pb.Payload, *erpc.Status) {
	r, s := handleCall("pb", CallRoute("pb", true), c, arg)
	if s != nil {
		return nil, s
	}
	return r.(*pb.Payload), nil
}
func (c *Ctl) Xml(arg *Arg) (*Arg, *erpc.Status) {
	r, s := handleCall("xml", CallRoute("xml", true), c, arg)
	if s != nil {
		return nil, s
	}
	return r.(*Arg), nil
}
func (c *Ctl) Thrift(arg *wire.TStruct) (*wire.TStruct, *erpc.Status) {
	r, s := handleCall("thrift", CallRoute("thrift", true), c, arg)
	if s != nil {
		return nil, s
	}
	return r.(*wire.TStruct), nil
}

var (
	routeMu    sync.Mutex
	callRoutes = map[string]string{} // kind -> function route
	ctlRoutes  = map[string]string{} // kind -> controller route
	pushRoutes = map[string]string{}
)

// Register installs all token handlers on a peer and records the service-method names the
// registrations returned (HTTP service-method mapper assumed to be in force).
func Register(p erpc.Peer) {
	routeMu.Lock()
	defer routeMu.Unlock()
	kinds := []string{"bytes", "plain", "json", "form", "xml", "pb", "thrift", "nstr"}
	for i, f := range []interface{}{CBytes, CPlain, CJson, CForm, CXml, CPb, CThrift, CNstr} {
		callRoutes[kinds[i]] = p.RouteCallFunc(f)
	}
	for i, f := range []interface{}{PBytes, PPlain, PJson, PForm, PXml, PPb, PThrift, PNstr} {
		pushRoutes[kinds[i]] = p.RoutePushFunc(f)
	}
	for _, name := range p.RouteCall(new(Ctl)) {
		ctlRoutes[name[strings.LastIndexByte(name, '/')+1:]] = name
	}
}

// CallRoute returns the call route for a kind (ctl: through the controller struct).
func CallRoute(kind string, ctl bool) string {
	routeMu.Lock()
	defer routeMu.Unlock()
	if ctl {
		return ctlRoutes[kind]
	}
	return callRoutes[kind]
}

// PushRoute returns the push route for a kind.
func PushRoute(kind string) string {
	routeMu.Lock()
	defer routeMu.Unlock()
	return pushRoutes[kind]
}
