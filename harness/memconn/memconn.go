// Package memconn is a harness-owned in-memory duplex net.Conn with byte-exact
// fault injection (cut after k bytes), read chunking and write taps.
// Nothing here is driven by wall-clock time except read/write deadlines, which
// the system under test may set.
package memconn

import (
	"errors"
	"fmt"
	"io"
	"net"
	"os"
	"sync"
	"sync/atomic"
	"time"
)

// ErrReset is returned to a reader whose stream was cut with the reset flavour.
var ErrReset = errors.New("memconn: connection reset by peer")

// ErrClosed is returned for operations on a locally closed end.
var ErrClosed = errors.New("memconn: use of closed connection")

// ErrBrokenPipe is returned to a writer whose peer is gone.
var ErrBrokenPipe = errors.New("memconn: broken pipe")

var portCounter int32 = 1000

// half is one direction of the connection.
type half struct {
	mu       sync.Mutex
	cond     *sync.Cond
	buf      []byte
	wclosed  bool  // writer side closed: reader gets EOF after draining
	reset    bool  // reader gets ErrReset after draining
	rclosed  bool  // reader side closed: writes fail
	total    int64 // bytes accepted so far
	cutAt    int64 // -1: never; otherwise the stream is severed after this many bytes
	cutReset bool
	onCut    func()
	chunk    func(avail int) int // how many bytes a single Read may return
	tap      func(p []byte, total int64)
	deadline time.Time
	timer    *time.Timer
	stalled  bool
	consumed int64
}

func newHalf() *half {
	h := &half{cutAt: -1}
	h.cond = sync.NewCond(&h.mu)
	return h
}

// Conn is one end of an in-memory connection.
type Conn struct {
	in, out       *half
	local, remote net.Addr
	closed        int32
	wdeadline     atomic.Value // time.Time
	peer          *Conn
	name          string
}

// Options configure a new pair.
type Options struct {
	Network string // default tcp
}

type addr struct {
	network, s string
}

func (a addr) Network() string { return a.network }
func (a addr) String() string  { return a.s }

// NewPair returns the two ends (a: "client" side, b: "server" side) of a new connection
// with process-unique fake addresses.
func NewPair() (a, b *Conn) {
	p := atomic.AddInt32(&portCounter, 2)
	aa := addr{"tcp", fmt.Sprintf("10.%d.%d.1:%d", (p>>16)&0xff, (p>>8)&0xff, 1024+int(p)%60000)}
	ba := addr{"tcp", fmt.Sprintf("10.%d.%d.2:%d", (p>>16)&0xff, (p>>8)&0xff, 1025+int(p)%60000)}
	ab, ba2 := newHalf(), newHalf()
	a = &Conn{in: ba2, out: ab, local: aa, remote: ba, name: "a"}
	b = &Conn{in: ab, out: ba2, local: ba, remote: aa, name: "b"}
	a.peer, b.peer = b, a
	return
}

// SetReadChunk installs the chunking policy for reads on this end.
func (c *Conn) SetReadChunk(f func(avail int) int) {
	c.in.mu.Lock()
	c.in.chunk = f
	c.in.mu.Unlock()
}

// SetWriteTap installs a tap called (under the direction's lock) for every accepted Write of this end.
func (c *Conn) SetWriteTap(f func(p []byte, total int64)) {
	c.out.mu.Lock()
	c.out.tap = f
	c.out.mu.Unlock()
}

// CutWritesAfter severs the stream written by this end after exactly k bytes in total
// (counting from the start of the connection). With reset the reader sees ErrReset,
// otherwise EOF, once it has drained what was delivered. The writer's Write that
// crosses the offset reports an error, as do later ones. Both directions die:
// the opposite direction is severed at its current length when the cut triggers.
func (c *Conn) CutWritesAfter(k int64, reset bool, onCut func()) {
	h := c.out
	h.mu.Lock()
	h.cutAt = k
	h.cutReset = reset
	h.onCut = onCut
	trigger := h.total >= k
	h.mu.Unlock()
	if trigger {
		c.sever(reset)
		if onCut != nil {
			onCut()
		}
	}
}

// Sever cuts both directions now.
func (c *Conn) Sever(reset bool) { c.sever(reset) }

func (c *Conn) sever(reset bool) {
	for _, h := range []*half{c.out, c.in} {
		h.mu.Lock()
		h.wclosed = true
		h.rclosed = true
		if reset {
			h.reset = true
		}
		h.cond.Broadcast()
		h.mu.Unlock()
	}
}

// Stall makes reads on this end block even if data is available, until Resume.
func (c *Conn) Stall() {
	c.in.mu.Lock()
	c.in.stalled = true
	c.in.mu.Unlock()
}

// Resume undoes Stall.
func (c *Conn) Resume() {
	c.in.mu.Lock()
	c.in.stalled = false
	c.in.cond.Broadcast()
	c.in.mu.Unlock()
}

// Pending reports the number of bytes written to this end and not yet read by it.
func (c *Conn) Pending() int {
	c.in.mu.Lock()
	n := len(c.in.buf)
	c.in.mu.Unlock()
	return n
}

// Written returns the number of bytes this end has written so far.
func (c *Conn) Written() int64 {
	c.out.mu.Lock()
	n := c.out.total
	c.out.mu.Unlock()
	return n
}

// Consumed returns the number of bytes this end has read so far.
func (c *Conn) Consumed() int64 {
	c.in.mu.Lock()
	n := c.in.consumed
	c.in.mu.Unlock()
	return n
}

type timeoutError struct{}

func (timeoutError) Error() string   { return "memconn: i/o timeout" }
func (timeoutError) Timeout() bool   { return true }
func (timeoutError) Temporary() bool { return true }
func (timeoutError) Unwrap() error   { return os.ErrDeadlineExceeded }

func (c *Conn) Read(p []byte) (int, error) {
	h := c.in
	h.mu.Lock()
	defer h.mu.Unlock()
	for {
		if atomic.LoadInt32(&c.closed) != 0 {
			return 0, ErrClosed
		}
		if len(h.buf) > 0 && !h.stalled {
			n := len(h.buf)
			if n > len(p) {
				n = len(p)
			}
			if h.chunk != nil {
				if k := h.chunk(n); k > 0 && k < n {
					n = k
				}
			}
			copy(p, h.buf[:n])
			h.buf = h.buf[n:]
			if len(h.buf) == 0 {
				h.buf = nil
			}
			h.consumed += int64(n)
			return n, nil
		}
		if len(h.buf) == 0 {
			if h.reset {
				return 0, ErrReset
			}
			if h.wclosed {
				return 0, io.EOF
			}
		}
		if !h.deadline.IsZero() && !time.Now().Before(h.deadline) {
			return 0, timeoutError{}
		}
		if len(p) == 0 {
			return 0, nil
		}
		h.cond.Wait()
	}
}

func (c *Conn) Write(p []byte) (int, error) {
	if atomic.LoadInt32(&c.closed) != 0 {
		return 0, ErrClosed
	}
	if d, _ := c.wdeadline.Load().(time.Time); !d.IsZero() && !time.Now().Before(d) {
		return 0, timeoutError{}
	}
	h := c.out
	h.mu.Lock()
	if h.rclosed || h.wclosed {
		h.mu.Unlock()
		return 0, ErrBrokenPipe
	}
	n := len(p)
	cut := false
	if h.cutAt >= 0 && h.total+int64(n) >= h.cutAt {
		n = int(h.cutAt - h.total)
		if n < 0 {
			n = 0
		}
		cut = true
	}
	if n > 0 {
		h.buf = append(h.buf, p[:n]...)
		h.total += int64(n)
		if h.tap != nil {
			h.tap(p[:n], h.total)
		}
		h.cond.Broadcast()
	}
	var onCut func()
	reset := h.cutReset
	if cut {
		onCut = h.onCut
		h.cutAt = -1
	}
	h.mu.Unlock()
	if cut {
		c.sever(reset)
		if onCut != nil {
			onCut()
		}
		if n < len(p) {
			return n, ErrBrokenPipe
		}
		return n, nil
	}
	return n, nil
}

// Close closes this end: local reads and writes fail, the peer reads EOF after
// draining and its writes fail.
func (c *Conn) Close() error {
	if !atomic.CompareAndSwapInt32(&c.closed, 0, 1) {
		return nil
	}
	c.out.mu.Lock()
	c.out.wclosed = true
	c.out.cond.Broadcast()
	c.out.mu.Unlock()
	c.in.mu.Lock()
	c.in.rclosed = true
	c.in.cond.Broadcast()
	c.in.mu.Unlock()
	return nil
}

// CloseWrite half-closes: the peer reads EOF after draining, this end can still read.
func (c *Conn) CloseWrite() {
	c.out.mu.Lock()
	c.out.wclosed = true
	c.out.cond.Broadcast()
	c.out.mu.Unlock()
}

// IsClosed tells whether Close was called on this end.
func (c *Conn) IsClosed() bool { return atomic.LoadInt32(&c.closed) != 0 }

// PeerGone tells whether this end can no longer receive anything new (peer closed or severed) .
func (c *Conn) PeerGone() bool {
	c.in.mu.Lock()
	g := c.in.wclosed
	c.in.mu.Unlock()
	return g
}

func (c *Conn) LocalAddr() net.Addr  { return c.local }
func (c *Conn) RemoteAddr() net.Addr { return c.remote }

func (c *Conn) SetDeadline(t time.Time) error {
	c.SetReadDeadline(t)
	c.SetWriteDeadline(t)
	return nil
}

func (c *Conn) SetReadDeadline(t time.Time) error {
	h := c.in
	h.mu.Lock()
	h.deadline = t
	if h.timer != nil {
		h.timer.Stop()
		h.timer = nil
	}
	if !t.IsZero() {
		d := time.Until(t)
		if d < 0 {
			d = 0
		}
		h.timer = time.AfterFunc(d, func() {
			h.mu.Lock()
			h.cond.Broadcast()
			h.mu.Unlock()
		})
	}
	h.cond.Broadcast()
	h.mu.Unlock()
	return nil
}

func (c *Conn) SetWriteDeadline(t time.Time) error {
	c.wdeadline.Store(t)
	return nil
}

// Chunkers

// ChunkWhole delivers everything available.
func ChunkWhole(avail int) int { return avail }

// ChunkOne delivers one byte per read.
func ChunkOne(avail int) int { return 1 }

// ChunkFixed returns a policy delivering at most n bytes per read.
func ChunkFixed(n int) func(int) int { return func(int) int { return n } }

// ChunkRand returns a seeded policy delivering 1..max bytes per read.
func ChunkRand(seed int64, max int) func(int) int {
	x := uint64(seed)*2862933555777941757 + 3037000493
	return func(avail int) int {
		x ^= x << 13
		x ^= x >> 7
		x ^= x << 17
		return 1 + int(x%uint64(max))
	}
}
