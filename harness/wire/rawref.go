package wire

// rawref.go - a reference encoder / decoder of the documented raw wire format that shares no code with
// the system under test (socket/protocol.go documents the layout). It covers frames without a transfer
// filter pipe. Scripted peers use it so that a slip that the SUT's packer and parser share (or that only
// shows in what the SUT writes) is not hidden by building and reading the script with the SUT's own code.
//
//	{4 bytes message length, big endian, counts itself}
//	(the comment in socket/protocol.go also lists a protocol version byte here; the pinned implementation neither
//	writes nor reads one, both directions agree, and no property speaks about it: the reference follows the code)
//	{1 byte pipe length}{pipe ids}
//	{1 byte sequence length}{sequence: base-36 text of the int32}
//	{1 byte message type}
//	{1 byte service method length}{service method}
//	{2 bytes status length}{status, urlencoded code=&msg=&cause=}
//	{2 bytes metadata length}{metadata, urlencoded pairs}
//	{1 byte body codec id}{body}

import (
	"encoding/binary"
	"errors"
	"fmt"
	"strconv"

	"verifharness/protos"
)

const digits36 = "0123456789abcdefghijklmnopqrstuvwxyz"

// base36 writes v in base 36 (independent of strconv), sign first.
func base36(v int32) string {
	n := int64(v)
	neg := n < 0
	if neg {
		n = -n
	}
	if n == 0 {
		return "0"
	}
	var b []byte
	for n > 0 {
		b = append([]byte{digits36[n%36]}, b...)
		n /= 36
	}
	if neg {
		b = append([]byte{'-'}, b...)
	}
	return string(b)
}

func parse36(s string) (int32, error) {
	if s == "" {
		return 0, errors.New("empty sequence field")
	}
	neg := false
	i := 0
	if s[0] == '-' || s[0] == '+' {
		neg = s[0] == '-'
		i = 1
	}
	if i == len(s) {
		return 0, fmt.Errorf("sequence field %q has no digits", s)
	}
	var n int64
	for ; i < len(s); i++ {
		c := s[i]
		var d int64
		switch {
		case c >= '0' && c <= '9':
			d = int64(c - '0')
		case c >= 'a' && c <= 'z':
			d = int64(c-'a') + 10
		case c >= 'A' && c <= 'Z':
			d = int64(c-'A') + 10
		default:
			return 0, fmt.Errorf("sequence field %q: bad digit", s)
		}
		n = n*36 + d
		if n > 1<<31 {
			return 0, fmt.Errorf("sequence field %q out of range", s)
		}
	}
	if neg {
		n = -n
	}
	if n > 1<<31-1 || n < -(1<<31) {
		return 0, fmt.Errorf("sequence field %q out of range", s)
	}
	return int32(n), nil
}

func escape(s string) string {
	var b []byte
	for i := 0; i < len(s); i++ {
		c := s[i]
		switch {
		case c >= 'a' && c <= 'z', c >= 'A' && c <= 'Z', c >= '0' && c <= '9', c == '-', c == '_', c == '.', c == '~':
			b = append(b, c)
		case c == ' ':
			b = append(b, '+')
		default:
			b = append(b, '%', "0123456789ABCDEF"[c>>4], "0123456789ABCDEF"[c&15])
		}
	}
	return string(b)
}

func unhex(c byte) (byte, bool) {
	switch {
	case c >= '0' && c <= '9':
		return c - '0', true
	case c >= 'a' && c <= 'f':
		return c - 'a' + 10, true
	case c >= 'A' && c <= 'F':
		return c - 'A' + 10, true
	}
	return 0, false
}

func unescape(s string) string {
	var b []byte
	for i := 0; i < len(s); i++ {
		c := s[i]
		switch {
		case c == '+':
			b = append(b, ' ')
		case c == '%' && i+2 < len(s):
			h, ok1 := unhex(s[i+1])
			l, ok2 := unhex(s[i+2])
			if ok1 && ok2 {
				b = append(b, h<<4|l)
				i += 2
			} else {
				b = append(b, c)
			}
		default:
			b = append(b, c)
		}
	}
	return string(b)
}

// pairs splits an urlencoded list of pairs, keeping order and repeated keys.
func pairs(s string) []KV {
	var out []KV
	for len(s) > 0 {
		var item string
		if i := indexByte(s, '&'); i >= 0 {
			item, s = s[:i], s[i+1:]
		} else {
			item, s = s, ""
		}
		if item == "" {
			continue
		}
		k, v := item, ""
		if i := indexByte(item, '='); i >= 0 {
			k, v = item[:i], item[i+1:]
		}
		out = append(out, KV{K: unescape(k), V: unescape(v)})
	}
	return out
}

func indexByte(s string, c byte) int {
	for i := 0; i < len(s); i++ {
		if s[i] == c {
			return i
		}
	}
	return -1
}

// RawEncode builds the frame for s by the documented layout. ok is false when s is outside what this
// reference covers (a filter pipe, a thrift struct body) or outside what the format can carry.
func RawEncode(s Spec) (frame []byte, ok bool) {
	if len(s.Pipe) != 0 || s.TS != nil || len(s.Method) > 255 {
		return nil, false
	}
	status := ""
	if s.Stat != nil {
		status = "code=" + strconv.Itoa(int(s.Stat.Code)) + "&msg=" + escape(s.Stat.Msg) + "&cause=" + escape(s.Stat.Cause)
	}
	meta := ""
	for i, kv := range s.Meta {
		if i > 0 {
			meta += "&"
		}
		meta += escape(kv.K) + "=" + escape(kv.V)
	}
	if len(status) > 65535 || len(meta) > 65535 {
		return nil, false
	}
	seq := base36(s.Seq)
	b := []byte{0, 0, 0, 0, 0}
	b = append(b, byte(len(seq)))
	b = append(b, seq...)
	b = append(b, s.Mtype, byte(len(s.Method)))
	b = append(b, s.Method...)
	b = append(b, byte(len(status)>>8), byte(len(status)))
	b = append(b, status...)
	b = append(b, byte(len(meta)>>8), byte(len(meta)))
	b = append(b, meta...)
	b = append(b, s.Codec)
	b = append(b, s.Body...)
	binary.BigEndian.PutUint32(b, uint32(len(b)))
	return b, true
}

// RawDecode splits a byte stream into frames of the documented layout. Frames that name a filter pipe
// are returned with Pipe set and the (still filtered) payload in Body, Codec 0. rest holds trailing bytes
// of an incomplete frame.
func RawDecode(b []byte) (out []Spec, rest []byte, err error) {
	for len(b) > 0 {
		if len(b) < 4 {
			return out, b, nil
		}
		n := int(binary.BigEndian.Uint32(b))
		if n < 5 {
			return out, b, fmt.Errorf("frame length %d below the fixed part", n)
		}
		if n > len(b) {
			return out, b, nil
		}
		f := b[4:n]
		b = b[n:]
		pl := int(f[0])
		if 1+pl > len(f) {
			return out, b, errors.New("pipe length beyond the frame")
		}
		s := Spec{Class: map[string]string{}}
		if pl > 0 {
			s.Pipe = append([]byte(nil), f[1:1+pl]...)
			s.Body = append([]byte(nil), f[1+pl:]...)
			out = append(out, s)
			continue
		}
		p := f[1:]
		take := func(k int) ([]byte, error) {
			if k > len(p) {
				return nil, errors.New("field beyond the frame")
			}
			v := p[:k]
			p = p[k:]
			return v, nil
		}
		one := func() (int, error) {
			v, e := take(1)
			if e != nil {
				return 0, e
			}
			return int(v[0]), nil
		}
		two := func() (int, error) {
			v, e := take(2)
			if e != nil {
				return 0, e
			}
			return int(v[0])<<8 | int(v[1]), nil
		}
		k, e := one()
		if e != nil {
			return out, b, e
		}
		sq, e := take(k)
		if e != nil {
			return out, b, e
		}
		if s.Seq, e = parse36(string(sq)); e != nil {
			return out, b, e
		}
		mt, e := one()
		if e != nil {
			return out, b, e
		}
		s.Mtype = byte(mt)
		if k, e = one(); e != nil {
			return out, b, e
		}
		sm, e := take(k)
		if e != nil {
			return out, b, e
		}
		s.Method = string(sm)
		if k, e = two(); e != nil {
			return out, b, e
		}
		st, e := take(k)
		if e != nil {
			return out, b, e
		}
		if len(st) > 0 {
			t := protos.Triple{}
			for _, kv := range pairs(string(st)) {
				switch kv.K {
				case "code":
					c, ce := strconv.ParseInt(kv.V, 10, 32)
					if ce != nil {
						return out, b, fmt.Errorf("status code %q", kv.V)
					}
					t.Code = int32(c)
				case "msg":
					t.Msg = kv.V
				case "cause":
					t.Cause = kv.V
				}
			}
			if t != (protos.Triple{}) {
				s.Stat = &t
			}
		}
		if k, e = two(); e != nil {
			return out, b, e
		}
		md, e := take(k)
		if e != nil {
			return out, b, e
		}
		s.Meta = pairs(string(md))
		c, e := one()
		if e != nil {
			return out, b, e
		}
		s.Codec = byte(c)
		s.Body = append([]byte(nil), p...)
		out = append(out, s)
	}
	return out, nil, nil
}
