// Package wire holds helpers shared by the protocol-level engines: message specs,
// construction of socket messages from specs, field-wise comparison, a chunking
// reader, a hand-written thrift struct and the filter registrations.
package wire

import (
	"bytes"
	"context"
	"fmt"
	"io"
	"sync"

	"git.apache.org/thrift.git/lib/go/thrift"
	erpc "github.com/henrylee2cn/erpc/v6"
	"github.com/henrylee2cn/erpc/v6/socket"
	"github.com/henrylee2cn/erpc/v6/xfer/gzip"
	"github.com/henrylee2cn/erpc/v6/xfer/md5"

	"verifharness/core"
	"verifharness/protos"
)

// Filter ids registered by every worker.
const (
	FGzip1 = 'z'
	FGzip9 = 'g'
	FMd5   = 'm'
)

var regOnce sync.Once

// RegFilters registers the transfer filters used by the harness (idempotent).
func RegFilters() {
	regOnce.Do(func() {
		gzip.Reg(FGzip1, "gzip-1", 1)
		gzip.Reg(FGzip9, "gzip-9", 9)
		md5.Reg(FMd5, "md5")
	})
}

// KV is one metadata pair.
type KV struct{ K, V string }

// Spec is a protocol-independent description of a message.
type Spec struct {
	Seq    int32
	Mtype  byte
	Method string
	Stat   *protos.Triple // nil = OK
	Meta   []KV
	Codec  byte
	Body   []byte
	Pipe   []byte
	TS     *TStruct          // body for thrift-struct
	Class  map[string]string // field -> generator class label
}

// Clone copies the spec.
func (s Spec) Clone() Spec {
	c := s
	c.Meta = append([]KV(nil), s.Meta...)
	c.Body = append([]byte(nil), s.Body...)
	c.Pipe = append([]byte(nil), s.Pipe...)
	if s.Stat != nil {
		t := *s.Stat
		c.Stat = &t
	}
	if s.TS != nil {
		t := *s.TS
		c.TS = &t
	}
	c.Class = map[string]string{}
	for k, v := range s.Class {
		c.Class[k] = v
	}
	return c
}

// JSON renders the spec for logs (bytes as quoted strings).
func (s Spec) JSON() map[string]interface{} {
	m := map[string]interface{}{"seq": s.Seq, "mtype": s.Mtype, "method": fmt.Sprintf("%q", s.Method), "codec": s.Codec,
		"body": fmt.Sprintf("%q", trunc(s.Body, 96)), "bodyLen": len(s.Body), "pipe": fmt.Sprintf("%q", s.Pipe), "class": s.Class}
	if s.Stat != nil {
		m["status"] = fmt.Sprintf("%d/%q/%q", s.Stat.Code, trunc([]byte(s.Stat.Msg), 64), trunc([]byte(s.Stat.Cause), 64))
	}
	var meta []string
	for _, kv := range s.Meta {
		meta = append(meta, fmt.Sprintf("%q=%q", trunc([]byte(kv.K), 48), trunc([]byte(kv.V), 48)))
	}
	m["meta"] = meta
	if s.TS != nil {
		m["tstruct"] = fmt.Sprintf("%+v", *s.TS)
	}
	return m
}

func trunc(b []byte, n int) []byte {
	if len(b) > n {
		return b[:n]
	}
	return b
}

// Build creates a socket message from the spec (body as []byte, or the TStruct for thrift-struct).
func Build(s Spec, p protos.P) (erpc.Message, error) {
	m := socket.NewMessage()
	m.SetSeq(s.Seq)
	m.SetMtype(s.Mtype)
	m.SetServiceMethod(s.Method)
	if s.Stat != nil {
		m.SetStatus(erpc.NewStatus(s.Stat.Code, s.Stat.Msg, causeOf(s.Stat.Cause)))
	}
	for _, kv := range s.Meta {
		m.Meta().Add(kv.K, kv.V)
	}
	m.SetBodyCodec(s.Codec)
	if p.Struct {
		if s.TS != nil {
			m.SetBody(s.TS)
		} else {
			m.SetBody(&TStruct{})
		}
	} else {
		m.SetBody(s.Body)
	}
	if len(s.Pipe) > 0 {
		if err := m.XferPipe().Append(s.Pipe...); err != nil {
			return nil, err
		}
	}
	return m, nil
}

func causeOf(c string) interface{} {
	if c == "" {
		return nil
	}
	return c
}

// NewReceiver creates the message an Unpack writes into.
func NewReceiver(p protos.P) erpc.Message {
	m := socket.NewMessage()
	if p.Struct {
		m.SetNewBody(func(erpc.Header) interface{} { return &TStruct{} })
	} else {
		m.SetNewBody(func(erpc.Header) interface{} { return new([]byte) })
	}
	return m
}

// ResetReceiver prepares a used receiver for the next frame the way a session recycles its input message.
func ResetReceiver(m erpc.Message, p protos.P) {
	m.Reset()
	if p.Struct {
		m.SetNewBody(func(erpc.Header) interface{} { return &TStruct{} })
	} else {
		m.SetNewBody(func(erpc.Header) interface{} { return new([]byte) })
	}
}

// Extract reads a received message back into a spec.
func Extract(m erpc.Message, p protos.P) Spec {
	s := Spec{Seq: m.Seq(), Mtype: m.Mtype(), Method: m.ServiceMethod(), Codec: m.BodyCodec()}
	if st := m.Status(); st != nil {
		t := protos.StatusTriple(st)
		if t != (protos.Triple{}) {
			s.Stat = &t
		}
	}
	m.Meta().VisitAll(func(k, v []byte) { s.Meta = append(s.Meta, KV{string(k), string(v)}) })
	switch b := m.Body().(type) {
	case *[]byte:
		if b != nil {
			s.Body = append([]byte(nil), (*b)...)
		}
	case []byte:
		s.Body = append([]byte(nil), b...)
	case *TStruct:
		t := *b
		s.TS = &t
	}
	s.Pipe = m.XferPipe().IDs()
	return s
}

// RW joins a reader and a writer.
type RW struct {
	io.Reader
	io.Writer
}

// ChunkReader delivers the underlying bytes in chunks decided by a policy.
type ChunkReader struct {
	B      []byte
	Off    int
	Policy func() int // max bytes for the next read; <=0 means all
}

func (c *ChunkReader) Read(p []byte) (int, error) {
	if c.Off >= len(c.B) {
		return 0, io.EOF
	}
	if len(p) == 0 {
		return 0, nil
	}
	n := len(c.B) - c.Off
	if n > len(p) {
		n = len(p)
	}
	if c.Policy != nil {
		if k := c.Policy(); k > 0 && k < n {
			n = k
		}
	}
	copy(p, c.B[c.Off:c.Off+n])
	c.Off += n
	return n, nil
}

// Policies returns the named chunk policies.
func Policy(name string, r *core.Rand) func() int {
	switch name {
	case "one":
		return func() int { return 1 }
	case "prime":
		return func() int { return 7 }
	case "rand":
		return func() int { return 1 + r.Intn(64) }
	}
	return nil
}

// PolicyNames lists the chunk policies.
var PolicyNames = []string{"whole", "one", "prime", "rand"}

// TStruct is a hand-written thrift struct (i32, i64, string, binary, list<i32>).
type TStruct struct {
	A int32
	B int64
	S string
	D []byte
	L []int32
}

func (t *TStruct) Write(p thrift.TProtocol) error {
	if err := p.WriteStructBegin("TStruct"); err != nil {
		return err
	}
	w := func(name string, typ thrift.TType, id int16, f func() error) error {
		if err := p.WriteFieldBegin(name, typ, id); err != nil {
			return err
		}
		if err := f(); err != nil {
			return err
		}
		return p.WriteFieldEnd()
	}
	if err := w("a", thrift.I32, 1, func() error { return p.WriteI32(t.A) }); err != nil {
		return err
	}
	if err := w("b", thrift.I64, 2, func() error { return p.WriteI64(t.B) }); err != nil {
		return err
	}
	if err := w("s", thrift.STRING, 3, func() error { return p.WriteString(t.S) }); err != nil {
		return err
	}
	if err := w("d", thrift.STRING, 4, func() error { return p.WriteBinary(t.D) }); err != nil {
		return err
	}
	if err := w("l", thrift.LIST, 5, func() error {
		if err := p.WriteListBegin(thrift.I32, len(t.L)); err != nil {
			return err
		}
		for _, v := range t.L {
			if err := p.WriteI32(v); err != nil {
				return err
			}
		}
		return p.WriteListEnd()
	}); err != nil {
		return err
	}
	if err := p.WriteFieldStop(); err != nil {
		return err
	}
	return p.WriteStructEnd()
}

func (t *TStruct) Read(p thrift.TProtocol) error {
	if _, err := p.ReadStructBegin(); err != nil {
		return err
	}
	for {
		_, typ, id, err := p.ReadFieldBegin()
		if err != nil {
			return err
		}
		if typ == thrift.STOP {
			break
		}
		switch {
		case id == 1 && typ == thrift.I32:
			t.A, err = p.ReadI32()
		case id == 2 && typ == thrift.I64:
			t.B, err = p.ReadI64()
		case id == 3 && typ == thrift.STRING:
			t.S, err = p.ReadString()
		case id == 4 && typ == thrift.STRING:
			t.D, err = p.ReadBinary()
		case id == 5 && typ == thrift.LIST:
			var n int
			_, n, err = p.ReadListBegin()
			if err != nil {
				return err
			}
			if n < 0 || n > 1<<20 {
				return fmt.Errorf("bad list size %d", n)
			}
			t.L = make([]int32, 0, n)
			for i := 0; i < n; i++ {
				v, e := p.ReadI32()
				if e != nil {
					return e
				}
				t.L = append(t.L, v)
			}
			err = p.ReadListEnd()
		default:
			err = p.Skip(typ)
		}
		if err != nil {
			return err
		}
		if err = p.ReadFieldEnd(); err != nil {
			return err
		}
	}
	return p.ReadStructEnd()
}

// Equal compares two TStructs (nil and empty slices are equal).
func (t *TStruct) Equal(o *TStruct) bool {
	if t == nil || o == nil {
		return t == o
	}
	if t.A != o.A || t.B != o.B || t.S != o.S || !bytes.Equal(t.D, o.D) || len(t.L) != len(o.L) {
		return false
	}
	for i := range t.L {
		if t.L[i] != o.L[i] {
			return false
		}
	}
	return true
}

var _ = context.Background
