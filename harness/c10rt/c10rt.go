// Package c10rt is the runtime linked into the programs generated for property C10 (routing).
//
// A generated program only contains what has to be source code: handler functions and
// controller structs with generated Go identifiers, and a Program literal listing the
// registrations to perform. Everything else lives here: performing the registrations on real
// peers, recording the names returned by Route*, deriving probes from the returned names,
// probing over a real session (two peers joined by an in-memory connection), recording which
// handler ran for which probe, and running colliding registrations in grandchild processes.
//
// The runtime does NOT judge: it writes a Report (observations only); the oracle lives in the
// worker (harness/cmd/c10).
package c10rt

import (
	"encoding/json"
	"flag"
	"fmt"
	"os"
	"os/exec"
	"runtime"
	"sort"
	"strings"
	"sync"
	"sync/atomic"
	"time"
	"unicode"
	"unicode/utf8"

	erpc "github.com/henrylee2cn/erpc/v6"
	"github.com/henrylee2cn/erpc/v6/codec"
	"github.com/henrylee2cn/erpc/v6/plugin/ignorecase"
	"github.com/henrylee2cn/erpc/v6/socket"

	"verifharness/bed"
)

// Registration kinds.
const (
	CallFunc   = "call-func"
	PushFunc   = "push-func"
	CallStruct = "call-struct"
	PushStruct = "push-struct"
)

// Peer classes.
const (
	LateUnknown  = "late-unknown"  // register, probe without unknown-handlers, set unknown-call, probe, set unknown-push, probe
	EarlyUnknown = "early-unknown" // set the unknown-handlers on the peer first, then register, probe
	SubUnknown   = "sub-unknown"   // register, set the unknown-handlers through SubRouter.ToRouter(), probe
	// rename dimension: a header-stage plug-in on the peer rewrites the service method (ResetServiceMethod in
	// PostReadCallHeader / PostReadPushHeader); dispatch must follow the FINAL name. Probed without, then with
	// both unknown-handlers.
	RenameIgnoreCase = "rename-ignorecase" // the shipped plugin/ignorecase (final name = strings.ToLower(request))
	RenameAlias      = "rename-alias"      // a harness alias plug-in (final name = alias table, applied once)
)

// Reg is one registration to perform.
type Reg struct {
	ID    string
	Group []string    // chain of SubRoute prefixes (depth 0..3)
	Kind  string      // CallFunc, PushFunc, CallStruct, PushStruct
	V     interface{} // the function or the controller pointer
	Tags  []string    // identities of the handlers this registration carries
	Form  string      // func, methodexpr, ctlfunc, struct (only used to spread the concurrent workload over the forms)
	Fresh bool        // build a new SubRouter chain instead of reusing a cached one
}

// PeerSpec is one server peer with its registrations.
type PeerSpec struct {
	Class        string
	Regs         []Reg
	UnknownGroup []string // SubUnknown: the group through which the unknown-handlers are set
}

// Collision is a pair of registrations executed in a grandchild process.
type Collision struct {
	ID     string
	Class  string
	A, B   Reg
	Single bool // only A is performed: ONE registration (a controller) whose own names may collide
}

// Program is what a generated main package hands to Main.
type Program struct {
	Mapper     string // "http" or "rpc"
	Peers      []PeerSpec
	Collisions []Collision
	Direct     [][2]string // (prefix, name) pairs evaluated directly on the mapper
	Seed       int64       // PRNG seed of the concurrent phase (yields, workload)
	Rounds     int         // concurrent phase: rounds per peer (0 = none)
}

// ---------- report ----------

// Event is one handler invocation.
type Event struct {
	Tag  string `json:"tag"`
	Kind string `json:"kind"`          // call, push, ucall, upush; guard: a controller was used by two invocations at once (SM = detail)
	SM   string `json:"sm"`            // service method the handler saw
	Arg  string `json:"arg,omitempty"` // the request id the handler found in its argument (the event is filed under the id in the metadata)
}

// RegReport is the observation of one registration.
type RegReport struct {
	ID    string   `json:"id"`
	Kind  string   `json:"kind"`
	Names []string `json:"names"`
}

// ProbeReport is the observation of one probe.
type ProbeReport struct {
	ID     string  `json:"id"`
	Phase  string  `json:"phase"` // A: no unknown-handler set; C: only unknown-call set; B: both set on the peer; S: both set through a sub-router
	Kind   string  `json:"kind"`  // call or push
	Name   string  `json:"name"`
	Final  string  `json:"final"` // the name after the peer's header-stage plug-ins (= Name on peers without one)
	Class  string  `json:"class"`
	Src    string  `json:"src"` // the registered name the probe was derived from
	Code   int32   `json:"code"`
	Msg    string  `json:"msg,omitempty"`
	Result string  `json:"result,omitempty"` // calls: the handler identity named by the reply
	RArg   string  `json:"rarg,omitempty"`   // calls: the request id from the handler's argument, as echoed in the reply
	RMeta  string  `json:"rmeta,omitempty"`  // calls: the request id from the handler's ctx metadata, as echoed in the reply
	RSeq   int32   `json:"rseq,omitempty"`   // calls: ctx.Seq() as echoed in the reply
	Seq    int32   `json:"seq,omitempty"`    // calls: the sequence number of the request message
	Events []Event `json:"events"`
}

// PeerReport holds the observations on one server peer.
type PeerReport struct {
	Class  string        `json:"class"`
	Regs   []RegReport   `json:"regs"`
	Probes []ProbeReport `json:"probes"`
	// concurrent phase: what the handlers measured
	ConcOps          int    `json:"conc_ops,omitempty"`
	MaxInFlight      int64  `json:"max_in_flight,omitempty"`      // handlers running at once (all routes)
	MaxInFlightSame  int64  `json:"max_in_flight_same,omitempty"` // invocations of ONE handler running at once
	OverlappedInvocs int64  `json:"overlapped_invocs,omitempty"`  // invocations that started while the same handler was running
	Problem          string `json:"problem,omitempty"`            // harness-level trouble (connect failed, ...)
}

// CollisionReport is the observation of one grandchild run.
type CollisionReport struct {
	ID       string   `json:"id"`
	Exit     int      `json:"exit"`
	Output   string   `json:"output"`
	Survived bool     `json:"survived"`
	NamesA   []string `json:"names_a"`
	NamesB   []string `json:"names_b"`
	Shadow   string   `json:"shadow,omitempty"` // who answered the shared name when both registrations survived
	// Single runs that survived: every distinct returned name was requested; the handler tags that ran
	Answers map[string][]string `json:"answers,omitempty"`
	Problem string              `json:"problem,omitempty"`
}

// DirectReport is one direct evaluation of the mapper.
type DirectReport struct {
	Prefix string `json:"prefix"`
	Name   string `json:"name"`
	Out    string `json:"out"`
	Panic  string `json:"panic,omitempty"`
}

// Report is everything a generated program observed.
type Report struct {
	Mapper     string            `json:"mapper"`
	Direct     []DirectReport    `json:"direct"`
	Peers      []PeerReport      `json:"peers"`
	Collisions []CollisionReport `json:"collisions"`
	Orphans    []Event           `json:"orphans,omitempty"` // events that carried no known probe id
	Complete   bool              `json:"complete"`          // false: the program died before all peers were done
}

// ---------- handler side ----------

var (
	evMu     sync.Mutex
	events   = map[string][]Event{}
	orphans  []Event
	probeSet = map[string]bool{}
)

func record(pid, tag, kind, sm, arg string) {
	evMu.Lock()
	if probeSet[pid] {
		events[pid] = append(events[pid], Event{tag, kind, sm, arg})
	} else if len(orphans) < 100 {
		orphans = append(orphans, Event{tag, kind + ":" + pid, sm, arg})
	}
	evMu.Unlock()
}

// concurrency instrumentation of the handlers
var (
	yieldOn      int32
	yieldSeed    uint64
	yieldCtr     uint64
	inFlight     int64
	maxInFlight  int64
	maxSame      int64
	overlapped   int64
	flightByTag  sync.Map // tag -> *int64
	invocCounter uint64
)

func atomicMax(p *int64, v int64) {
	for {
		o := atomic.LoadInt64(p)
		if v <= o || atomic.CompareAndSwapInt64(p, o, v) {
			return
		}
	}
}

func enterHandler(tag string) *int64 {
	atomicMax(&maxInFlight, atomic.AddInt64(&inFlight, 1))
	c, _ := flightByTag.LoadOrStore(tag, new(int64))
	n := atomic.AddInt64(c.(*int64), 1)
	if n > 1 {
		atomic.AddInt64(&overlapped, 1)
	}
	atomicMax(&maxSame, n)
	return c.(*int64)
}

func leaveHandler(c *int64) {
	atomic.AddInt64(c, -1)
	atomic.AddInt64(&inFlight, -1)
}

// yield makes invocations overlap during the concurrent phase (PRNG-driven, no verdict depends on time).
func yield() {
	if atomic.LoadInt32(&yieldOn) == 0 {
		return
	}
	z := atomic.AddUint64(&yieldCtr, 0x9E3779B97F4A7C15) + yieldSeed
	z = (z ^ (z >> 30)) * 0xBF58476D1CE4E5B9
	z = (z ^ (z >> 27)) * 0x94D049BB133111EB
	switch v := (z ^ (z >> 31)) % 20; {
	case v < 9:
		runtime.Gosched()
	case v < 14:
		for i := 0; i < 4; i++ {
			runtime.Gosched()
		}
	case v < 18:
		time.Sleep(20 * time.Microsecond)
	default:
		time.Sleep(200 * time.Microsecond)
	}
}

// Guard is a field of every generated controller: a controller object must never be used by two
// invocations at once (the router takes controllers from a pool per invocation).
type Guard struct {
	n   int32
	tok uint64
}

func (g *Guard) enter() (tok uint64, shared string) {
	tok = atomic.AddUint64(&invocCounter, 1)
	if n := atomic.AddInt32(&g.n, 1); n != 1 {
		shared = fmt.Sprintf("controller entered while %d other invocation(s) were using it", n-1)
	}
	atomic.StoreUint64(&g.tok, tok)
	return
}

func (g *Guard) exit(tok uint64) (shared string) {
	if t := atomic.LoadUint64(&g.tok); t != tok {
		shared = "another invocation entered this controller before this one left it"
	}
	atomic.AddInt32(&g.n, -1)
	return
}

// MetaPID is the metadata key carrying the probe id.
const MetaPID = "pid"

// Call is the body of every generated CALL handler: it reports the handler's identity.
// The reply names the handler, the request id found in the argument, the request id found in the
// ctx metadata and ctx.Seq(), the last three read again after yielding.
func Call(tag string, ctx erpc.CallCtx, arg *string) (string, *erpc.Status) {
	c := enterHandler(tag)
	defer leaveHandler(c)
	a := ""
	if arg != nil {
		a = *arg
	}
	record(string(ctx.PeekMeta(MetaPID)), tag, "call", ctx.ServiceMethod(), a)
	yield()
	if arg != nil {
		a = *arg
	}
	return fmt.Sprintf("%s|%s|%s|%d", tag, a, ctx.PeekMeta(MetaPID), ctx.Seq()), nil
}

// Push is the body of every generated PUSH handler.
func Push(tag string, ctx erpc.PushCtx, arg *string) *erpc.Status {
	c := enterHandler(tag)
	defer leaveHandler(c)
	a := ""
	if arg != nil {
		a = *arg
	}
	record(string(ctx.PeekMeta(MetaPID)), tag, "push", ctx.ServiceMethod(), a)
	yield()
	return nil
}

// CallCtl is the body of generated CALL handlers that run on a controller object.
func CallCtl(tag string, g *Guard, ctx erpc.CallCtx, arg *string) (string, *erpc.Status) {
	pid := string(ctx.PeekMeta(MetaPID))
	tok, shared := g.enter()
	if shared != "" {
		record(pid, tag, "guard", shared, "")
	}
	res, st := Call(tag, ctx, arg)
	if shared = g.exit(tok); shared != "" {
		record(pid, tag, "guard", shared, "")
	}
	return res, st
}

// PushCtl is the body of generated PUSH handlers that run on a controller object.
func PushCtl(tag string, g *Guard, ctx erpc.PushCtx, arg *string) *erpc.Status {
	pid := string(ctx.PeekMeta(MetaPID))
	tok, shared := g.enter()
	if shared != "" {
		record(pid, tag, "guard", shared, "")
	}
	st := Push(tag, ctx, arg)
	if shared = g.exit(tok); shared != "" {
		record(pid, tag, "guard", shared, "")
	}
	return st
}

// splitReply parses a handler's reply.
func splitReply(res string) (tag, arg, meta string, seq int32) {
	p := strings.SplitN(res, "|", 4)
	tag = p[0]
	if len(p) == 4 {
		arg, meta = p[1], p[2]
		fmt.Sscanf(p[3], "%d", &seq)
	}
	return
}

// ---------- mapper ----------

// MapperFunc returns the mapper by name.
func MapperFunc(name string) erpc.ServiceMethodMapper {
	if name == "rpc" {
		return erpc.RPCServiceMethodMapper
	}
	return erpc.HTTPServiceMethodMapper
}

// SafeMap evaluates a mapper and converts a panic into a string.
func SafeMap(m erpc.ServiceMethodMapper, prefix, name string) (out, panicked string) {
	defer func() {
		if p := recover(); p != nil {
			panicked = fmt.Sprint(p)
		}
	}()
	return m(prefix, name), ""
}

// ---------- registration ----------

type router interface {
	SubRoute(prefix string, plugin ...erpc.Plugin) *erpc.SubRouter
	RouteCall(ctrl interface{}, plugin ...erpc.Plugin) []string
	RouteCallFunc(fn interface{}, plugin ...erpc.Plugin) string
	RoutePush(ctrl interface{}, plugin ...erpc.Plugin) []string
	RoutePushFunc(fn interface{}, plugin ...erpc.Plugin) string
}

type regCtx struct {
	peer  erpc.Peer
	cache map[string]*erpc.SubRouter
}

func (rc *regCtx) group(chain []string, fresh bool) router {
	if len(chain) == 0 {
		return rc.peer
	}
	key := strings.Join(chain, "\x00")
	if !fresh {
		if g, ok := rc.cache[key]; ok {
			return g
		}
	}
	var g *erpc.SubRouter
	if len(chain) == 1 || fresh {
		g = rc.peer.SubRoute(chain[0])
		for _, s := range chain[1:] {
			g = g.SubRoute(s)
		}
	} else {
		parent := rc.group(chain[:len(chain)-1], false).(*erpc.SubRouter)
		g = parent.SubRoute(chain[len(chain)-1])
	}
	if !fresh {
		rc.cache[key] = g
	}
	return g
}

func (rc *regCtx) do(r Reg) []string {
	g := rc.group(r.Group, r.Fresh)
	switch r.Kind {
	case CallFunc:
		return []string{g.RouteCallFunc(r.V)}
	case PushFunc:
		return []string{g.RoutePushFunc(r.V)}
	case CallStruct:
		return g.RouteCall(r.V)
	case PushStruct:
		return g.RoutePush(r.V)
	}
	panic("c10rt: unknown registration kind " + r.Kind)
}

func isCallKind(k string) bool { return k == CallFunc || k == CallStruct }

// ---------- probes ----------

type probe struct {
	id, kind, name, class, src string
	final                      string // "" = name
}

// aliasPlugin rewrites service methods at the header stage, separately for CALL and PUSH.
type aliasPlugin struct {
	mu         sync.RWMutex
	call, push map[string]string
}

var (
	_ erpc.PostReadCallHeaderPlugin = new(aliasPlugin)
	_ erpc.PostReadPushHeaderPlugin = new(aliasPlugin)
)

func (a *aliasPlugin) Name() string { return "c10-alias" }

func (a *aliasPlugin) rewrite(m map[string]string, ctx erpc.ReadCtx) {
	a.mu.RLock()
	to, ok := m[ctx.ServiceMethod()]
	a.mu.RUnlock()
	if ok {
		ctx.ResetServiceMethod(to)
	}
}

func (a *aliasPlugin) PostReadCallHeader(ctx erpc.ReadCtx) *erpc.Status {
	a.rewrite(a.call, ctx)
	return nil
}

func (a *aliasPlugin) PostReadPushHeader(ctx erpc.ReadCtx) *erpc.Status {
	a.rewrite(a.push, ctx)
	return nil
}

func sortedKeys(m map[string]bool) []string {
	l := make([]string, 0, len(m))
	for k := range m {
		l = append(l, k)
	}
	sort.Strings(l)
	return l
}

// renameClass labels a probe of the rename dimension by what is registered (in the probe's namespace)
// under the requested and under the final spelling.
func renameClass(orig, final string, own, other map[string]bool) string {
	o := "orig-unreg"
	if own[orig] {
		o = "orig-reg"
	}
	switch {
	case orig == final && own[final]:
		return "rename:" + o + ".unchanged"
	case orig == final:
		return "rename:" + o + ".unchanged-unreg"
	case own[final] && own[orig]:
		return "rename:" + o + ".final-other-handler"
	case own[final]:
		return "rename:" + o + ".final-reg"
	case other[final]:
		return "rename:" + o + ".final-other-namespace"
	}
	return "rename:" + o + ".final-unreg"
}

// mkIgnoreCaseProbes: requests in several spellings; the final name is the lower-case spelling.
func mkIgnoreCaseProbes(phase string, calls, pushes map[string]bool) []probe {
	var ps []probe
	for _, kind := range []string{"call", "push"} {
		own, other := calls, pushes
		if kind == "push" {
			own, other = pushes, calls
		}
		seen := map[string]bool{}
		add := func(name, src string) {
			if name == "" || len(name) > 250 || seen[name] {
				return
			}
			seen[name] = true
			final := strings.ToLower(name)
			probeSeq++
			ps = append(ps, probe{fmt.Sprintf("%s%d", phase, probeSeq), kind, name, renameClass(name, final, own, other), src, final})
		}
		for _, n := range sortedKeys(own) {
			add(n, n)
			for _, nm := range NearMisses(n) {
				if nm[0] == "case" {
					add(nm[1], n)
				}
			}
			add(strings.Title(n), n)
			add(n+"X", n)
			add(strings.ToUpper(n)+"/x", n)
		}
		for _, n := range sortedKeys(other) {
			if !own[n] {
				add(n, n)
				add(strings.ToUpper(n), n)
			}
		}
	}
	return ps
}

// mkAliasTable builds the alias tables from the names the registrations returned, and the probes.
func mkAliasProbes(phase string, calls, pushes map[string]bool, ap *aliasPlugin, fill bool) []probe {
	var ps []probe
	for _, kind := range []string{"call", "push"} {
		own, other := calls, pushes
		tbl := ap.call
		if kind == "push" {
			own, other = pushes, calls
			tbl = ap.push
		}
		L := sortedKeys(own)
		var O []string
		for _, n := range sortedKeys(other) {
			if !own[n] {
				O = append(O, n)
			}
		}
		if fill {
			ap.mu.Lock()
			for i, n := range L {
				switch i % 5 {
				case 0:
					tbl[fmt.Sprintf("alias*%d", i)] = n
				case 1:
					if len(L) > 1 {
						tbl[n] = L[(i+1)%len(L)]
					}
				case 2:
					tbl[n] = fmt.Sprintf("gone*%d", i)
				case 3:
					tbl[fmt.Sprintf("alias*u%d", i)] = fmt.Sprintf("nowhere*%d", i)
				case 4:
					if len(O) > 0 {
						tbl[n] = O[i%len(O)]
					}
				}
			}
			// an unregistered spelling that is an alias of a name that is itself aliased away: one step only
			if len(L) > 2 {
				tbl["alias*chain"] = L[1%len(L)]
			}
			ap.mu.Unlock()
		}
		seen := map[string]bool{}
		add := func(name, src string) {
			if name == "" || len(name) > 250 || seen[name] {
				return
			}
			seen[name] = true
			final, ok := tbl[name]
			if !ok {
				final = name
			}
			probeSeq++
			ps = append(ps, probe{fmt.Sprintf("%s%d", phase, probeSeq), kind, name, renameClass(name, final, own, other), src, final})
		}
		srcOf := func(orig, final string) string {
			switch {
			case own[orig]:
				return orig
			case own[final]:
				return final
			case other[final]:
				return final
			}
			if len(L) > 0 {
				return L[0]
			}
			return orig
		}
		var origs []string
		for o := range tbl {
			origs = append(origs, o)
		}
		sort.Strings(origs)
		for _, o := range origs {
			add(o, srcOf(o, tbl[o]))
			add(o, srcOf(o, tbl[o]))
			add(o+"x", srcOf(o, tbl[o])) // not in the table: stays as it is
			if _, also := tbl[tbl[o]]; !also {
				add(tbl[o], srcOf(tbl[o], tbl[o])) // the final spelling requested directly
			}
		}
		for _, n := range L {
			add(n, n) // registered names the table does not mention: unchanged
		}
	}
	return ps
}

var seps = []string{"/", ".", "_"}

func swapCase(r rune) rune {
	switch {
	case unicode.IsUpper(r):
		return unicode.ToLower(r)
	case unicode.IsLower(r):
		return unicode.ToUpper(r)
	}
	return r
}

// NearMisses derives unregistered-looking names from a registered name. Purely syntactic.
func NearMisses(n string) [][2]string {
	var out [][2]string
	add := func(class, s string) { out = append(out, [2]string{class, s}) }
	rs := []rune(n)
	// case
	for i, r := range rs {
		if s := swapCase(r); s != r {
			c := append([]rune{}, rs...)
			c[i] = s
			add("case", string(c))
			break
		}
	}
	for i := len(rs) - 1; i >= 0; i-- {
		if s := swapCase(rs[i]); s != rs[i] {
			c := append([]rune{}, rs...)
			c[i] = s
			add("case", string(c))
			break
		}
	}
	add("case", strings.ToUpper(n))
	add("case", strings.ToLower(n))
	// separators
	for _, s := range seps {
		add("trailing-sep", n+s)
		add("leading-sep", s+n)
		if strings.HasPrefix(n, s) {
			add("leading-sep", n[len(s):])
		}
		if strings.HasSuffix(n, s) {
			add("trailing-sep", n[:len(n)-len(s)])
		}
		if i := strings.Index(n, s); i >= 0 {
			add("doubled-sep", n[:i]+s+n[i:])
			add("removed-sep", n[:i]+n[i+len(s):])
		}
		if i := strings.LastIndex(n, s); i >= 0 {
			add("doubled-sep", n[:i]+s+n[i:])
			for _, t := range seps {
				if t != s {
					add("sep-swap", n[:i]+t+n[i+len(s):])
				}
			}
		}
		add("extension", n+s+"x")
	}
	add("extension", n+"x")
	add("extension", n+"0")
	add("extension", n+n)
	add("unclean-path", n+"/.")
	add("unclean-path", n+"/..")
	add("unclean-path", n+"/x/..")
	if strings.HasPrefix(n, "/") {
		add("unclean-path", "/."+n)
	}
	add("space", n+" ")
	add("space", " "+n)
	add("space", n+"\x00")
	// proper prefixes
	for i, r := range n {
		if i > 0 && strings.ContainsRune("/._", r) {
			add("prefix", n[:i])
			add("prefix", n[:i+utf8.RuneLen(r)])
		}
	}
	if len(rs) > 1 {
		add("prefix", string(rs[:len(rs)-1]))
		add("suffix", string(rs[1:]))
	}
	return out
}

var probeSeq int

func mkProbes(phase string, calls, pushes map[string]bool, onlyClasses map[string]bool) []probe {
	var ps []probe
	seen := map[string]bool{}
	add := func(kind, name, class, src string) {
		if name == "" || len(name) > 250 {
			return
		}
		if class != "registered" {
			if seen[kind+"\x00"+name] {
				return
			}
			seen[kind+"\x00"+name] = true
		}
		if onlyClasses != nil && !onlyClasses[class] {
			return
		}
		probeSeq++
		ps = append(ps, probe{id: fmt.Sprintf("%s%d", phase, probeSeq), kind: kind, name: name, class: class, src: src})
	}
	sorted := func(m map[string]bool) []string {
		l := make([]string, 0, len(m))
		for k := range m {
			l = append(l, k)
		}
		sort.Strings(l)
		return l
	}
	for _, kind := range []string{"call", "push"} {
		own, other := calls, pushes
		if kind == "push" {
			own, other = pushes, calls
		}
		for _, n := range sorted(own) {
			add(kind, n, "registered", n)
			add(kind, n, "registered", n)
		}
		for _, n := range sorted(other) {
			if !own[n] {
				add(kind, n, "cross-namespace", n)
			}
		}
		for _, n := range sorted(own) {
			for _, nm := range NearMisses(n) {
				if own[nm[1]] {
					continue // happens to be registered as well
				}
				add(kind, nm[1], nm[0], n)
			}
		}
	}
	return ps
}

// ---------- probing ----------

// C10Sentinel is the harness's own barrier route (registered on every server peer after the
// generated registrations; the name the router returns for it is used and never probed).
func C10Sentinel(ctx erpc.CallCtx, arg *string) (string, *erpc.Status) { return "SENTINEL", nil }

// c10sentinel is the barrier route of the rename peers (its name has no upper-case letter under either mapper).
func c10sentinel(ctx erpc.CallCtx, arg *string) (string, *erpc.Status) { return "SENTINEL", nil }

func runProbes(srv erpc.Peer, phase string, ps []probe, sentName string) ([]ProbeReport, string) {
	cli := erpc.NewPeer(erpc.PeerConfig{})
	defer cli.Close()
	evMu.Lock()
	for _, p := range ps {
		probeSet[p.id] = true
	}
	evMu.Unlock()
	l, err := bed.Connect(cli, srv, socket.RawProtoFunc, socket.RawProtoFunc, nil)
	if err != nil {
		return nil, "connect: " + err.Error()
	}
	out := make([]ProbeReport, len(ps))
	sentinel := func() string {
		var res string
		st := l.A.Call(sentName, "s", &res).Status()
		if !st.OK() || res != "SENTINEL" {
			return fmt.Sprintf("sentinel call %q failed: %v %q", sentName, st, res)
		}
		return ""
	}
	pushes := 0
	for i, p := range ps {
		r := ProbeReport{ID: p.id, Phase: phase, Kind: p.kind, Name: p.name, Final: p.final, Class: p.class, Src: p.src}
		if r.Final == "" {
			r.Final = p.name
		}
		if p.kind == "call" {
			var res string
			cmd := l.A.Call(p.name, p.id, &res, erpc.WithSetMeta(MetaPID, p.id))
			st := cmd.Status()
			r.Code = st.Code()
			if !st.OK() {
				r.Msg = st.Msg()
			}
			r.Result, r.RArg, r.RMeta, r.RSeq = splitReply(res)
			r.Seq = cmd.Output().Seq()
		} else {
			st := l.A.Push(p.name, p.id, erpc.WithSetMeta(MetaPID, p.id))
			r.Code = st.Code()
			if !st.OK() {
				r.Msg = st.Msg()
			}
			pushes++
			if pushes%32 == 0 {
				if s := sentinel(); s != "" {
					return nil, s
				}
			}
		}
		out[i] = r
	}
	// barrier: the sentinel's reply proves that the server's read loop has dispatched every
	// earlier message; closing the server-side session then waits for all handler contexts
	if s := sentinel(); s != "" {
		return nil, s
	}
	l.B.Close()
	l.A.Close()
	evMu.Lock()
	for i := range out {
		out[i].Events = append([]Event{}, events[out[i].ID]...)
	}
	evMu.Unlock()
	return out, ""
}

// creq is one request of the concurrent phase: a spelling whose final name is registered.
type creq struct{ kind, name, final, form string }

type concStats struct {
	ops                               int
	maxInFlight, maxSame, overlapping int64
}

// runConcurrent: several sessions and goroutines request the same route and different routes at
// the same time; every request carries its own id in the argument and in the metadata. Each round
// has one hot route (taken in turn from every registration form), hammered by all goroutines.
func runConcurrent(srv erpc.Peer, phase string, reqs []creq, sentName string, rounds int, seed uint64) ([]ProbeReport, concStats, string) {
	const sessions, perSession, opsPerG = 3, 4, 16
	var st concStats
	if len(reqs) == 0 || rounds == 0 {
		return nil, st, ""
	}
	cli := erpc.NewPeer(erpc.PeerConfig{})
	defer cli.Close()
	var links []*bed.Link
	for i := 0; i < sessions; i++ {
		l, err := bed.Connect(cli, srv, socket.RawProtoFunc, socket.RawProtoFunc, nil)
		if err != nil {
			return nil, st, "connect: " + err.Error()
		}
		links = append(links, l)
	}
	groups := map[string][]creq{}
	for _, r := range reqs {
		groups[r.kind+"/"+r.form] = append(groups[r.kind+"/"+r.form], r)
	}
	var gkeys []string
	for k := range groups {
		gkeys = append(gkeys, k)
	}
	sort.Strings(gkeys)
	rs := seed | 1
	rnd := func(n int) int {
		rs += 0x9E3779B97F4A7C15
		z := rs
		z = (z ^ (z >> 30)) * 0xBF58476D1CE4E5B9
		z = (z ^ (z >> 27)) * 0x94D049BB133111EB
		return int((z ^ (z >> 31)) % uint64(n))
	}
	atomic.StoreInt64(&maxInFlight, 0)
	atomic.StoreInt64(&maxSame, 0)
	atomic.StoreInt64(&overlapped, 0)
	yieldSeed = seed
	atomic.StoreInt32(&yieldOn, 1)
	defer atomic.StoreInt32(&yieldOn, 0)
	var out []ProbeReport
	G := sessions * perSession
	for round := 0; round < rounds; round++ {
		grp := groups[gkeys[round%len(gkeys)]]
		hot := grp[rnd(len(grp))]
		plan := make([][]ProbeReport, G)
		evMu.Lock()
		for g := 0; g < G; g++ {
			for i := 0; i < opsPerG; i++ {
				r := hot
				if rnd(10) >= 7 {
					r = reqs[rnd(len(reqs))]
				}
				probeSeq++
				id := fmt.Sprintf("%s%d", phase, probeSeq)
				probeSet[id] = true
				plan[g] = append(plan[g], ProbeReport{ID: id, Phase: phase, Kind: r.kind, Name: r.name, Final: r.final, Class: "concurrent:" + r.form, Src: r.final})
			}
		}
		evMu.Unlock()
		var wg sync.WaitGroup
		for g := 0; g < G; g++ {
			wg.Add(1)
			go func(g int) {
				defer wg.Done()
				sess := links[g%sessions].A
				for i := range plan[g] {
					p := &plan[g][i]
					if p.Kind == "call" {
						var res string
						cmd := sess.Call(p.Name, p.ID, &res, erpc.WithSetMeta(MetaPID, p.ID))
						stt := cmd.Status()
						p.Code = stt.Code()
						if !stt.OK() {
							p.Msg = stt.Msg()
						}
						p.Result, p.RArg, p.RMeta, p.RSeq = splitReply(res)
						p.Seq = cmd.Output().Seq()
					} else {
						stt := sess.Push(p.Name, p.ID, erpc.WithSetMeta(MetaPID, p.ID))
						p.Code = stt.Code()
						if !stt.OK() {
							p.Msg = stt.Msg()
						}
					}
				}
			}(g)
		}
		wg.Wait()
		for g := 0; g < G; g++ {
			out = append(out, plan[g]...)
		}
	}
	// barrier per session, then wait for the handler contexts of every session
	for _, l := range links {
		var res string
		if stt := l.A.Call(sentName, "s", &res).Status(); !stt.OK() || res != "SENTINEL" {
			return nil, st, fmt.Sprintf("sentinel call %q failed: %v %q", sentName, stt, res)
		}
	}
	for _, l := range links {
		l.B.Close()
		l.A.Close()
	}
	evMu.Lock()
	for i := range out {
		out[i].Events = append([]Event{}, events[out[i].ID]...)
	}
	evMu.Unlock()
	st = concStats{len(out), atomic.LoadInt64(&maxInFlight), atomic.LoadInt64(&maxSame), atomic.LoadInt64(&overlapped)}
	return out, st, ""
}

func runPeer(idx int, spec PeerSpec) (rep PeerReport) {
	rep.Class = spec.Class
	var plugins []erpc.Plugin
	ap := &aliasPlugin{call: map[string]string{}, push: map[string]string{}}
	switch spec.Class {
	case RenameIgnoreCase:
		plugins = append(plugins, ignorecase.NewIgnoreCase())
	case RenameAlias:
		plugins = append(plugins, ap)
	}
	rename := len(plugins) > 0
	srv := erpc.NewPeer(erpc.PeerConfig{}, plugins...)
	defer srv.Close()
	rc := &regCtx{peer: srv, cache: map[string]*erpc.SubRouter{}}
	utag := fmt.Sprintf("U%d", idx)
	ucall := func(ctx erpc.UnknownCallCtx) (interface{}, *erpc.Status) {
		record(string(ctx.PeekMeta(MetaPID)), utag, "ucall", ctx.ServiceMethod(), "")
		return utag, nil
	}
	upush := func(ctx erpc.UnknownPushCtx) *erpc.Status {
		record(string(ctx.PeekMeta(MetaPID)), utag, "upush", ctx.ServiceMethod(), "")
		return nil
	}
	if spec.Class == EarlyUnknown {
		srv.SetUnknownCall(ucall)
		srv.SetUnknownPush(upush)
	}
	calls, pushes := map[string]bool{}, map[string]bool{}
	formOf := map[string]string{} // kind + "\x00" + name -> registration form
	for _, r := range spec.Regs {
		names := rc.do(r)
		rep.Regs = append(rep.Regs, RegReport{ID: r.ID, Kind: r.Kind, Names: names})
		for _, n := range names {
			if isCallKind(r.Kind) {
				calls[n] = true
				formOf["call\x00"+n] = r.Form
			} else {
				pushes[n] = true
				formOf["push\x00"+n] = r.Form
			}
		}
	}
	sentIdent, sentFn := "C10Sentinel", interface{}(C10Sentinel)
	if rename {
		sentIdent, sentFn = "c10sentinel", interface{}(c10sentinel)
	}
	sentName, _ := SafeMap(MapperFunc(currentMapper), "", sentIdent)
	if calls[sentName] || sentName == "" || (rename && sentName != strings.ToLower(sentName)) {
		rep.Problem = "sentinel name clashes with a generated route: " + sentName
		return
	}
	sentName = srv.RouteCallFunc(sentFn)
	runRename := func(phase string, fill bool) bool {
		var ps []probe
		if spec.Class == RenameIgnoreCase {
			ps = mkIgnoreCaseProbes(phase, calls, pushes)
		} else {
			ps = mkAliasProbes(phase, calls, pushes, ap, fill)
		}
		k := 0
		for _, p := range ps {
			if p.name != sentName && p.final != sentName {
				ps[k] = p
				k++
			}
		}
		out, problem := runProbes(srv, phase, ps[:k], sentName)
		if problem != "" {
			rep.Problem = problem
			return false
		}
		rep.Probes = append(rep.Probes, out...)
		return true
	}
	run := func(phase string, only map[string]bool) bool {
		ps := mkProbes(phase, calls, pushes, only)
		k := 0
		for _, p := range ps {
			if p.name != sentName { // never probe the sentinel's own name
				ps[k] = p
				k++
			}
		}
		out, problem := runProbes(srv, phase, ps[:k], sentName)
		if problem != "" {
			rep.Problem = problem
			return false
		}
		rep.Probes = append(rep.Probes, out...)
		return true
	}
	switch spec.Class {
	case LateUnknown:
		if !run("A", nil) {
			return
		}
		// only the unknown-CALL-handler: unregistered pushes must still reach nothing
		srv.SetUnknownCall(ucall)
		if !run("C", map[string]bool{"registered": true, "extension": true, "cross-namespace": true, "case": true, "prefix": true}) {
			return
		}
		srv.SetUnknownPush(upush)
		run("B", nil)
	case EarlyUnknown:
		run("B", nil)
	case RenameIgnoreCase, RenameAlias:
		if !runRename("A", true) {
			return
		}
		srv.SetUnknownCall(ucall)
		srv.SetUnknownPush(upush)
		runRename("B", false)
	case SubUnknown:
		g := rc.group(spec.UnknownGroup, true).(*erpc.SubRouter)
		g.ToRouter().SetUnknownCall(ucall)
		g.ToRouter().SetUnknownPush(upush)
		run("S", map[string]bool{"registered": true, "extension": true})
	}
	if rep.Problem != "" || concRounds == 0 {
		return
	}
	// concurrent phase (all unknown-handlers of this peer class are set by now): spellings whose
	// final name is registered
	var reqs []creq
	for _, kind := range []string{"call", "push"} {
		own, tbl := calls, ap.call
		if kind == "push" {
			own, tbl = pushes, ap.push
		}
		for _, n := range sortedKeys(own) {
			if n == sentName || n == "" || len(n) > 250 {
				continue
			}
			form := formOf[kind+"\x00"+n]
			switch spec.Class {
			case RenameIgnoreCase:
				if strings.ToLower(n) != n {
					continue // no spelling reaches it through the plug-in
				}
				reqs = append(reqs, creq{kind, n, n, form})
				if u := strings.ToUpper(n); u != n && strings.ToLower(u) == n {
					reqs = append(reqs, creq{kind, u, n, form})
				}
			case RenameAlias:
				if _, aliased := tbl[n]; !aliased {
					reqs = append(reqs, creq{kind, n, n, form})
				}
			default:
				reqs = append(reqs, creq{kind, n, n, form})
			}
		}
		if spec.Class == RenameAlias {
			var origs []string
			for o := range tbl {
				origs = append(origs, o)
			}
			sort.Strings(origs)
			for _, o := range origs {
				if f := tbl[o]; own[f] && f != sentName {
					reqs = append(reqs, creq{kind, o, f, formOf[kind+"\x00"+f]})
				}
			}
		}
	}
	out, cs, problem := runConcurrent(srv, "K", reqs, sentName, concRounds, uint64(concSeed)+uint64(idx)*7919)
	if problem != "" {
		rep.Problem = problem
		return
	}
	rep.Probes = append(rep.Probes, out...)
	rep.ConcOps, rep.MaxInFlight, rep.MaxInFlightSame, rep.OverlappedInvocs = cs.ops, cs.maxInFlight, cs.maxSame, cs.overlapping
	return
}

// ---------- collisions (grandchild processes) ----------

type collideOut struct {
	NamesA   []string            `json:"names_a"`
	NamesB   []string            `json:"names_b"`
	Survived bool                `json:"survived"`
	Shadow   string              `json:"shadow,omitempty"`
	Answers  map[string][]string `json:"answers,omitempty"`
	Problem  string              `json:"problem,omitempty"`
}

// collideMain runs inside the grandchild: two registrations on one peer.
func collideMain(c Collision, out string) {
	srv := erpc.NewPeer(erpc.PeerConfig{})
	rc := &regCtx{peer: srv, cache: map[string]*erpc.SubRouter{}}
	var o collideOut
	write := func() {
		b, _ := json.Marshal(o)
		if err := os.WriteFile(out, b, 0o644); err != nil {
			fmt.Fprintln(os.Stderr, "c10rt: "+err.Error())
			os.Exit(4)
		}
	}
	o.NamesA = rc.do(c.A)
	write()
	if c.Single {
		// one registration survived: request every distinct returned name and note who answers
		o.Survived = true
		write()
		kind := "push"
		if isCallKind(c.A.Kind) {
			kind = "call"
		}
		var ps []probe
		seen := map[string]bool{}
		for i, n := range o.NamesA {
			if n != "" && !seen[n] && len(n) <= 250 {
				seen[n] = true
				ps = append(ps, probe{id: fmt.Sprintf("X%d", i), kind: kind, name: n, class: "registered", src: n})
			}
		}
		sent := srv.RouteCallFunc(C10Sentinel)
		reps, problem := runProbes(srv, "X", ps, sent)
		if problem != "" {
			o.Problem = problem
		} else {
			o.Answers = map[string][]string{}
			for _, r := range reps {
				tags := []string{}
				for _, e := range r.Events {
					tags = append(tags, e.Tag)
				}
				o.Answers[r.Name] = tags
			}
		}
		write()
		os.Exit(0)
	}
	o.NamesB = rc.do(c.B)
	o.Survived = true
	write()
	// both registrations returned: if they share a name within one namespace, find out who answers
	if isCallKind(c.A.Kind) == isCallKind(c.B.Kind) {
		shared := ""
		for _, a := range o.NamesA {
			for _, b := range o.NamesB {
				if a == b && a != "" {
					shared = a
				}
			}
		}
		if shared != "" {
			kind := "push"
			if isCallKind(c.A.Kind) {
				kind = "call"
			}
			sent := srv.RouteCallFunc(C10Sentinel)
			reps, problem := runProbes(srv, "X", []probe{{id: "X1", kind: kind, name: shared, class: "registered", src: shared}}, sent)
			if problem != "" {
				o.Shadow = "?(" + problem + ")"
			} else {
				var tags []string
				for _, e := range reps[0].Events {
					tags = append(tags, e.Tag)
				}
				o.Shadow = strings.Join(tags, ",")
			}
			write()
		}
	}
	os.Exit(0)
}

func runCollisions(cs []Collision, dir string) []CollisionReport {
	exe, err := os.Executable()
	out := make([]CollisionReport, len(cs))
	if err != nil {
		for i := range out {
			out[i] = CollisionReport{ID: cs[i].ID, Problem: err.Error()}
		}
		return out
	}
	sem := make(chan struct{}, 6)
	var wg sync.WaitGroup
	for i := range cs {
		wg.Add(1)
		sem <- struct{}{}
		go func(i int) {
			defer wg.Done()
			defer func() { <-sem }()
			r := CollisionReport{ID: cs[i].ID}
			f := fmt.Sprintf("%s/collide_%d.json", dir, i)
			os.Remove(f)
			cmd := exec.Command(exe, "-collide", fmt.Sprint(i), "-out", f)
			done := make(chan struct{})
			var b []byte
			var err error
			go func() { b, err = cmd.CombinedOutput(); close(done) }()
			select {
			case <-done:
			case <-time.After(60 * time.Second):
				if cmd.Process != nil {
					cmd.Process.Kill()
				}
				<-done
				r.Problem = "grandchild watchdog"
			}
			if len(b) > 1500 {
				b = b[len(b)-1500:]
			}
			r.Output = string(b)
			if err != nil {
				if ee, ok := err.(*exec.ExitError); ok {
					r.Exit = ee.ExitCode()
				} else {
					r.Problem = err.Error()
					r.Exit = -1
				}
			}
			if jb, e := os.ReadFile(f); e == nil {
				var o collideOut
				if json.Unmarshal(jb, &o) == nil {
					r.NamesA, r.NamesB, r.Survived, r.Shadow, r.Answers = o.NamesA, o.NamesB, o.Survived, o.Shadow, o.Answers
					if o.Problem != "" {
						r.Problem = o.Problem
					}
				}
			}
			os.Remove(f)
			out[i] = r
		}(i)
	}
	wg.Wait()
	return out
}

// ---------- entry point ----------

var (
	currentMapper string
	concRounds    int
	concSeed      int64
)

// Main is the main function of every generated program.
//
//	prog -out report.json            registrations, probes, collisions (spawns itself per collision)
//	prog -collide i -out file.json   grandchild: only the i-th colliding pair
func Main(p Program) {
	out := flag.String("out", "", "report file")
	collide := flag.Int("collide", -1, "run only this collision pair (grandchild mode)")
	flag.Parse()
	if *out == "" {
		fmt.Fprintln(os.Stderr, "c10rt: -out required")
		os.Exit(4)
	}
	// process globals, set explicitly
	currentMapper = p.Mapper
	concRounds, concSeed = p.Rounds, p.Seed
	erpc.SetServiceMethodMapper(MapperFunc(p.Mapper))
	erpc.SetDefaultBodyCodec(codec.ID_JSON)
	erpc.SetLoggerLevel("CRITICAL") // the message of erpc.Fatalf must be visible
	if *collide >= 0 {
		if *collide >= len(p.Collisions) {
			os.Exit(4)
		}
		collideMain(p.Collisions[*collide], *out)
		return
	}
	rep := Report{Mapper: p.Mapper}
	m := MapperFunc(p.Mapper)
	for _, d := range p.Direct {
		o, pn := SafeMap(m, d[0], d[1])
		rep.Direct = append(rep.Direct, DirectReport{d[0], d[1], o, pn})
	}
	dir := "."
	if i := strings.LastIndex(*out, "/"); i >= 0 {
		dir = (*out)[:i]
	}
	write := func() {
		evMu.Lock()
		rep.Orphans = orphans
		evMu.Unlock()
		b, err := json.Marshal(rep)
		if err == nil {
			err = os.WriteFile(*out+".tmp", b, 0o644)
		}
		if err == nil {
			err = os.Rename(*out+".tmp", *out)
		}
		if err != nil {
			fmt.Fprintln(os.Stderr, "c10rt: "+err.Error())
			os.Exit(4)
		}
	}
	// the colliding pairs first (own processes); the report is written before the registrations of
	// this process start, so that it survives an os.Exit from a refused registration
	rep.Collisions = runCollisions(p.Collisions, dir)
	write()
	for i, ps := range p.Peers {
		rep.Peers = append(rep.Peers, runPeer(i, ps))
		write()
	}
	rep.Complete = true
	write()
	os.Exit(0)
}
