// Worker for C07: session lifecycle follows one state machine; the session index is exact.
//
// Three engines share one oracle:
//
//	history     seeded sequences of {accept, hook reject, accept with an id set in the hook, accept with a slow
//	            hook and a pre-loaded frame, SetID fresh / colliding / same, call, push, local Close, remote
//	            close, cut (EOF / reset), Peer.Close} run against a small sequential reference model; after every
//	            op the process is brought to quiescence and the clauses are evaluated. Failing histories are
//	            minimised (ops dropped while the fingerprint persists).
//	concurrent  the same ops from 8 goroutines on a handful of sessions; only the state predicates are judged,
//	            at the final quiescent point and again after Peer.Close.
//	gate        scripted orderings of Close() against a concurrent disconnect, of a frame against Close(), and of
//	            the id races, built from the verif-tag gate points of session.go.
//
// Both acceptance paths are driven: Peer.ServeConn over in-memory connections and the real accept loop
// (ListenAndServe on 127.0.0.1:0, clients through Peer.Dial or ServeConn over loopback TCP).
//
// The oracle asserts only the clauses of the statement:
//
//	(a) healthy / handler started before the accept or dial hooks returned OK;
//	(b) for a session the harness knows to be closed (local Close() returned, connection cut, far end closed,
//	    id taken over, Peer.Close() returned) at a quiescent point: Health() true, CloseNotify() open, a new
//	    Call / Push not failing with code 102 (or not returning), a handler entered after the Close-return /
//	    quiescent stamp, PostDisconnect count != 1 for an established session, a recorded status transition out
//	    of activeClosed / passiveClosed;
//	(c) at every quiescent point, per peer: a healthy established session that GetSession(its ID()) does not
//	    return, an index entry that is not healthy or is stored under another id, two healthy sessions with one
//	    id, CountSession() != number of healthy established sessions.
package main

import (
	"encoding/json"
	"flag"
	"fmt"
	"net"
	"os"
	"sort"
	"strings"
	"sync"
	"sync/atomic"
	"time"

	erpc "github.com/henrylee2cn/erpc/v6"
	"github.com/henrylee2cn/erpc/v6/codec"

	"verifharness/bed"
	"verifharness/core"
	"verifharness/gates"
	"verifharness/memconn"
	"verifharness/protos"
	"verifharness/quiesce"
	"verifharness/rawpeer"
	"verifharness/wire"
)

var (
	prop   = flag.String("prop", "C07", "")
	tier   = flag.String("tier", "quick", "")
	seed   = flag.Int64("seed", 1, "")
	batch  = flag.Int("batch", 0, "")
	nbatch = flag.Int("nbatch", 1, "")
	replay = flag.String("replay", "", "")
)

// ---------------------------------------------------------------------------------------------
// monitors

var (
	clock  int64    // the one logical clock
	reg    sync.Map // erpc.Session -> *sinfo
	nTrans int64
	nHand  int64
)

func tick() int64 { return atomic.AddInt64(&clock, 1) }

const (
	sideS = 0 // the accepting peer
	sideC = 1 // the far / dialling peer
)

var sideName = [2]string{"S", "C"}

const (
	mNone   = iota // not tracked by the model (never established through a path the model knows)
	mOK            // established and live
	mClosed        // closed
)

var mName = [3]string{"-", "ok", "closed"}

// sinfo is everything the monitors and the harness know about one session object.
type sinfo struct {
	n    int
	side int
	sess erpc.Session
	via  string // accept | dial
	raw  net.Conn
	link *link

	through      chan struct{} // closed when the accept/dial hook is about to return (either way)
	hookOK       int64         // stamp taken when the accept/dial hook was about to return OK (0: it did not)
	rejected     int32
	healthInHook int32
	disc         int32 // PostDisconnect invocations
	mu           sync.Mutex
	handlers     []int64    // handler-enter stamps
	left         [][2]int32 // transitions out of a closed state
	trans        [][2]int32 // first transitions (witness)
	why          string

	closeRet int64 // stamp taken after a local Close() returned (sequential engines only)
	deadAt   int64 // stamp of the first quiescent point at which the session had to be closed
	must     int32 // the harness knows: closed at the next quiescent point
	probed   bool

	m    int    // reference model: state
	mid  string // reference model: id
	lost bool   // reference model: closed because a newer session took its id over

	discRename atomic.Value // string: the PostDisconnect hook renames the (ended) session to this id
}

func (si *sinfo) name() string { return fmt.Sprintf("%s%d", sideName[si.side], si.n) }

func (si *sinfo) established() bool { return atomic.LoadInt64(&si.hookOK) != 0 }

func (si *sinfo) stamps() []int64 {
	si.mu.Lock()
	defer si.mu.Unlock()
	return append([]int64(nil), si.handlers...)
}

func (si *sinfo) partner() *sinfo {
	if si.link == nil {
		return nil
	}
	if si.link.a == si {
		return si.link.b
	}
	return si.link.a
}

func lookup(s interface{}) *sinfo {
	if s == nil {
		return nil
	}
	if v, ok := reg.Load(s); ok {
		return v.(*sinfo)
	}
	return nil
}

func observe(sess erpc.Session, old, new int32) {
	atomic.AddInt64(&nTrans, 1)
	si := lookup(sess)
	if si == nil {
		return
	}
	si.mu.Lock()
	if len(si.trans) < 16 {
		si.trans = append(si.trans, [2]int32{old, new})
	}
	if (old == 3 || old == 5) && new != old {
		si.left = append(si.left, [2]int32{old, new})
	}
	si.mu.Unlock()
}

func noteHandler(cs erpc.CtxSession) {
	st := tick()
	atomic.AddInt64(&nHand, 1)
	s, ok := cs.(erpc.Session)
	if !ok {
		return
	}
	if si := lookup(s); si != nil {
		si.mu.Lock()
		si.handlers = append(si.handlers, st)
		si.mu.Unlock()
	}
}

func hCall(ctx erpc.CallCtx, arg *[]byte) ([]byte, *erpc.Status) {
	noteHandler(ctx.Session())
	return []byte("ok"), nil
}

// parkState lets a script hold a call handler: the handler announces itself and waits for the release.
type parkState struct {
	arrived chan struct{}
	release chan struct{}
	cmd     chan func(erpc.CtxSession) // optional: work the parked handler does on its own session while it is held
	once    sync.Once
}

func (ps *parkState) free() { ps.once.Do(func() { close(ps.release) }) }

var parkCtl atomic.Value // *parkState (nil pointer: handlers do not park)

func hPark(ctx erpc.CallCtx, arg *[]byte) ([]byte, *erpc.Status) {
	noteHandler(ctx.Session())
	if ps, _ := parkCtl.Load().(*parkState); ps != nil {
		select {
		case ps.arrived <- struct{}{}:
		default:
		}
		for held := true; held; {
			select {
			case f := <-ps.cmd:
				f(ctx.Session())
			case <-ps.release:
				held = false
			}
		}
	}
	return []byte("parked-ok"), nil
}

func hPush(ctx erpc.PushCtx, arg *[]byte) *erpc.Status {
	noteHandler(ctx.Session())
	return nil
}

func stName(v int32) string {
	if v >= 0 && int(v) < len(erpc.VerifStatusNames) {
		return erpc.VerifStatusNames[v]
	}
	return fmt.Sprint(v)
}

// ---------------------------------------------------------------------------------------------
// world: two peers, the recording plug-in, connections

// wrapConn is a pass-through connection wrapper of the kind a hook installs with PreSession.ModifySocket.
type wrapConn struct{ net.Conn }

type directive struct {
	reject  bool
	park    bool
	steps   []string // what the hook does first, in order: "setid" (SetID(setid)), "wrap" (ModifySocket with a pass-through wrapper), "wrapproto" (wrapper + the same protocol function); default: "setid" if setid is set
	setid   string
	release chan struct{}
	once    sync.Once
	hold    chan struct{} // harness-internal: fixes the order in which the two ends get through their hooks
	hOnce   sync.Once
}

// free releases a parked hook (idempotent).
func (d *directive) free() {
	if d != nil && d.release != nil {
		d.once.Do(func() { close(d.release) })
	}
}

func (d *directive) unhold() {
	if d != nil && d.hold != nil {
		d.hOnce.Do(func() { close(d.hold) })
	}
}

type link struct {
	n            int
	a, b         *sinfo // a: session on peer C, b: session on peer S
	sdone, cdone chan struct{}
	via          string
}

type world struct {
	path      string
	tcp       bool
	peers     [2]erpc.Peer
	closed    [2]bool
	callRoute string
	pushRoute string
	parkRoute string
	addr      string
	mu        sync.Mutex
	all       []*sinfo
	dirs      [2][]*directive
	allDirs   []*directive
	parked    chan *sinfo
	links     []*link
	idn       int
	conns     []net.Conn
	useStamp  bool // record Close-return stamps (sequential engines)
}

type recorder struct {
	w      *world
	side   int
	addrCh chan string
}

func (r *recorder) Name() string { return "c07-recorder" }
func (r *recorder) PostListen(a net.Addr) error {
	select {
	case r.addrCh <- a.String():
	default:
	}
	return nil
}
func (r *recorder) PostAccept(s erpc.PreSession) *erpc.Status { return r.w.hook(r.side, s, "accept") }
func (r *recorder) PostDial(s erpc.PreSession, isRedial bool) *erpc.Status {
	return r.w.hook(r.side, s, "dial")
}
func (r *recorder) PostDisconnect(s erpc.BaseSession) *erpc.Status {
	if si := lookup(s); si != nil {
		atomic.AddInt32(&si.disc, 1)
		if id, _ := si.discRename.Load().(string); id != "" {
			// a disconnect hook that renames the session it is told about (e.g. to park it under a tombstone id)
			si.sess.SetID(id)
			core.Add("renames_in_disconnect_hook", 1)
		}
	}
	return nil
}

func (w *world) hook(side int, ps erpc.PreSession, via string) *erpc.Status {
	sess := ps.(erpc.Session)
	si := &sinfo{side: side, sess: sess, via: via, through: make(chan struct{})}
	defer close(si.through)
	ps.ModifySocket(func(c net.Conn) (net.Conn, erpc.ProtoFunc) { si.raw = c; return nil, nil })
	w.mu.Lock()
	si.n = len(w.all)
	w.all = append(w.all, si)
	var d *directive
	if q := w.dirs[side]; len(q) > 0 {
		d = q[0]
		w.dirs[side] = q[1:]
	}
	w.mu.Unlock()
	reg.Store(sess, si)
	core.Add("sessions_created", 1)
	if sess.Health() {
		atomic.StoreInt32(&si.healthInHook, 1)
	}
	if d != nil {
		steps := d.steps
		if len(steps) == 0 && d.setid != "" {
			steps = []string{"setid"}
		}
		for _, st := range steps {
			switch st {
			case "setid":
				ps.SetID(d.setid)
			case "wrap":
				ps.ModifySocket(func(c net.Conn) (net.Conn, erpc.ProtoFunc) { return wrapConn{c}, nil })
				core.Add("modifysocket_wraps", 1)
			case "wrapproto":
				pf := ps.GetProtoFunc()
				ps.ModifySocket(func(c net.Conn) (net.Conn, erpc.ProtoFunc) { return wrapConn{c}, pf })
				core.Add("modifysocket_wraps", 1)
			}
		}
		if d.hold != nil {
			<-d.hold
		}
		if d.park {
			w.parked <- si
			<-d.release
		}
		if d.reject {
			atomic.StoreInt32(&si.rejected, 1)
			return erpc.NewStatus(4007, "c07: rejected by the accept/dial hook", "")
		}
	}
	if sess.Health() {
		atomic.StoreInt32(&si.healthInHook, 1)
	}
	atomic.StoreInt64(&si.hookOK, tick())
	return nil
}

var portSeq int

// pickPort chooses the listen port. Port 0 is avoided on purpose: for a port-0 listener eRPC's graceful-restart
// bookkeeping (graceful.go popParentLaddr) re-uses the actual address of an EARLIER listener of this process, which
// by now may belong to somebody's outgoing connection - the bind fails and ListenAndServe ends the process through
// Fatalf. Ports are taken from a per-process block below the ephemeral range and probed first.
func pickPort() uint16 {
	base := 20000 + (os.Getpid()%400)*20
	for i := 0; i < 20; i++ {
		p := base + portSeq%20
		portSeq++
		l, err := net.Listen("tcp", fmt.Sprintf("127.0.0.1:%d", p))
		if err == nil {
			l.Close()
			return uint16(p)
		}
	}
	return 0
}

func newWorld(path string) *world {
	w := &world{path: path, tcp: path == "listener", parked: make(chan *sinfo, 64), useStamp: true}
	for side := 0; side < 2; side++ {
		rec := &recorder{w: w, side: side, addrCh: make(chan string, 1)}
		cfg := erpc.PeerConfig{}
		if w.tcp {
			cfg.LocalIP = "127.0.0.1"
			if side == sideS {
				cfg.ListenPort = pickPort()
			}
		}
		p := erpc.NewPeer(cfg, rec)
		w.callRoute = p.RouteCallFunc(hCall)
		w.pushRoute = p.RoutePushFunc(hPush)
		w.parkRoute = p.RouteCallFunc(hPark)
		w.peers[side] = p
		if w.tcp && side == sideS {
			go p.ListenAndServe()
			select {
			case w.addr = <-rec.addrCh:
			case <-time.After(20 * time.Second):
				core.Fatalf("listener did not come up")
			}
		}
	}
	return w
}

func (w *world) qopt() quiesce.Options {
	if w.tcp {
		return quiesce.Options{Samples: 5, Interval: 50 * time.Millisecond, Timeout: 30 * time.Second}
	}
	return quiesce.Options{Timeout: 30 * time.Second}
}

func (w *world) quiesce() bool {
	core.Add("quiescent_points", 1)
	return quiesce.Wait(w.qopt()).Quiescent
}

func (w *world) sessions() []*sinfo {
	w.mu.Lock()
	defer w.mu.Unlock()
	return append([]*sinfo(nil), w.all...)
}

// find returns the most recently created session satisfying f (addresses can be reused by the kernel).
func (w *world) find(f func(*sinfo) bool) *sinfo {
	all := w.sessions()
	for i := len(all) - 1; i >= 0; i-- {
		if f(all[i]) {
			return all[i]
		}
	}
	return nil
}

func (w *world) waitFind(f func(*sinfo) bool) *sinfo {
	var si *sinfo
	bed.WaitUntil(10*time.Second, func() bool { si = w.find(f); return si != nil })
	return si
}

// await waits for ch. "Stuck" is a state predicate: the process is quiescent and ch is still open.
func (w *world) await(ch <-chan struct{}) (done bool, watchdog bool) {
	fast := 40 * time.Millisecond
	if w.tcp {
		fast = 200 * time.Millisecond
	}
	select {
	case <-ch:
		return true, false
	case <-time.After(fast):
	}
	for i := 0; i < 2; i++ {
		q := quiesce.Wait(w.qopt())
		select {
		case <-ch:
			return true, false
		default:
		}
		if q.Quiescent {
			return false, false
		}
	}
	return false, true
}

func run(f func()) chan struct{} {
	ch := make(chan struct{})
	go func() { defer close(ch); f() }()
	return ch
}

func (w *world) mark(si *sinfo, why string) {
	if si == nil {
		return
	}
	si.mu.Lock()
	if atomic.LoadInt32(&si.must) == 0 {
		si.why = why
		atomic.StoreInt32(&si.must, 1)
	}
	si.mu.Unlock()
}

// goClose runs a local Close() of the session in its own goroutine and stamps its return.
func (w *world) goClose(si *sinfo) chan struct{} {
	return run(func() {
		si.sess.Close()
		if w.useStamp {
			atomic.CompareAndSwapInt64(&si.closeRet, 0, tick())
		}
	})
}

func (w *world) pushDirs(dS, dC *directive) {
	w.mu.Lock()
	w.allDirs = append(w.allDirs, dS, dC)
	w.dirs[sideS] = []*directive{dS}
	w.dirs[sideC] = []*directive{dC}
	w.mu.Unlock()
}

// connect creates one connection between C and S. With a parking directive on one side, or noWaitS, the
// corresponding ServeConn / Dial is left running and its completion channel is in the link.
// The order in which the two ends get through their hooks is fixed: the end that rejects goes last, otherwise the
// far end completes first. (ServeConn starts its read loop before the index insert; a connection that ends in
// that window is what the accept-insert gate script decides - here it would be a coin toss.)
func (w *world) connect(dS, dC *directive, via string, noWaitS bool) (*link, string) {
	if dS == nil {
		dS = &directive{}
	}
	if dC == nil {
		dC = &directive{}
	}
	l := &link{via: via}
	var isA func(*sinfo) bool
	if !w.tcp {
		w.pushDirs(dS, dC)
		ca, cb := memconn.NewPair()
		want := ca.LocalAddr().String()
		isA = func(si *sinfo) bool { return si.side == sideC && si.sess.LocalAddr().String() == want }
		startS := func() { l.sdone = run(func() { w.peers[sideS].ServeConn(cb) }) }
		startC := func() { l.cdone = run(func() { w.peers[sideC].ServeConn(ca) }) }
		switch {
		case dC.park:
			startC()
			if w.waitFind(isA) == nil {
				return nil, "the far-side session did not appear"
			}
			startS()
			if ok, _ := w.await(l.sdone); !ok {
				return nil, "the accepting side did not get through ServeConn"
			}
		case dC.reject:
			startS()
			if ok, _ := w.await(l.sdone); !ok {
				return nil, "the accepting side did not get through ServeConn"
			}
			startC()
			if ok, _ := w.await(l.cdone); !ok {
				return nil, "the far side did not get through ServeConn"
			}
		default:
			startC()
			if ok, _ := w.await(l.cdone); !ok {
				return nil, "the far side did not get through ServeConn"
			}
			startS()
			if !dS.park && !noWaitS {
				if ok, _ := w.await(l.sdone); !ok {
					return nil, "the accepting side did not get through ServeConn"
				}
			}
		}
	} else {
		if dC.reject {
			dC.hold = make(chan struct{})
		} else if !dC.park {
			dS.hold = make(chan struct{})
		}
		w.pushDirs(dS, dC)
		if via == "dial" {
			before := len(w.sessions())
			l.cdone = run(func() { w.peers[sideC].Dial(w.addr) })
			isA = func(si *sinfo) bool { return si.side == sideC && si.n >= before }
		} else {
			conn, err := net.Dial("tcp", w.addr)
			if err != nil {
				return nil, "tcp dial: " + err.Error()
			}
			w.conns = append(w.conns, conn)
			l.cdone = run(func() { w.peers[sideC].ServeConn(conn) })
			want := conn.LocalAddr().String()
			isA = func(si *sinfo) bool { return si.side == sideC && si.sess.LocalAddr().String() == want }
		}
	}
	l.a = w.waitFind(isA)
	if l.a == nil {
		return nil, "the far-side session did not appear"
	}
	l.a.link = l
	wantB := l.a.sess.LocalAddr().String()
	l.b = w.waitFind(func(si *sinfo) bool { return si.side == sideS && si.sess.RemoteAddr().String() == wantB })
	if l.b == nil {
		return nil, "the accepting-side session did not appear"
	}
	l.b.link = l
	if w.tcp {
		// the accept loop has no completion signal but the hook's return (index insert, status change and read loop
		// follow in the same goroutine; callers wait for quiescence before relying on them)
		l.sdone = l.b.through
		if dC.hold != nil {
			if ok, _ := w.await(l.sdone); !ok {
				return nil, "the accepting side did not get through its accept"
			}
			dC.unhold()
		}
		if !dC.park {
			if ok, _ := w.await(l.cdone); !ok {
				return nil, "the far side did not get through ServeConn / Dial"
			}
		}
		dS.unhold()
		if !dS.park && !noWaitS {
			if ok, _ := w.await(l.sdone); !ok {
				return nil, "the accepting side did not get through its accept"
			}
		}
	}
	l.n = len(w.links)
	w.links = append(w.links, l)
	return l, ""
}

func (w *world) plain() (*link, string) {
	via := "serveconn"
	if w.tcp {
		via = "dial"
	}
	return w.connect(nil, nil, via, false)
}

// cut severs the connection under both sessions (no Close() of either session is involved).
func (w *world) cut(l *link, reset bool) {
	for _, si := range []*sinfo{l.a, l.b} {
		if si == nil || si.raw == nil {
			continue
		}
		switch c := si.raw.(type) {
		case *memconn.Conn:
			c.Sever(reset)
			return
		case *net.TCPConn:
			if reset {
				c.SetLinger(0)
			}
			c.Close()
			return
		}
	}
}

func (w *world) teardown() {
	if ps, _ := parkCtl.Load().(*parkState); ps != nil {
		ps.free()
		parkCtl.Store((*parkState)(nil))
	}
	for _, si := range w.sessions() {
		si := si
		go si.sess.Close()
		if si.raw != nil {
			si.raw.Close()
		}
	}
	for side := 0; side < 2; side++ {
		if !w.closed[side] {
			w.closed[side] = true
			p := w.peers[side]
			go p.Close()
		}
	}
	for _, c := range w.conns {
		c.Close()
	}
	w.mu.Lock()
	ds := append([]*directive(nil), w.allDirs...)
	w.mu.Unlock()
	for _, d := range ds {
		d.unhold()
		d.free()
	}
	gates.Reset()
	quiesce.Wait(w.qopt())
	for _, si := range w.sessions() {
		reg.Delete(si.sess)
	}
}

// ---------------------------------------------------------------------------------------------
// the oracle

type viol struct{ sym, what string }

type vset struct{ vs []viol }

func (s *vset) add(sym, what string) {
	for _, v := range s.vs {
		if v.sym == sym {
			return
		}
	}
	s.vs = append(s.vs, viol{sym, what})
}

// settle stamps the quiescent point for sessions that have to be closed from now on.
func (w *world) settle() {
	for _, si := range w.sessions() {
		if atomic.LoadInt32(&si.must) != 0 && si.deadAt == 0 {
			si.deadAt = tick()
		}
	}
}

// check evaluates the clauses at a quiescent point. It never waits.
func (w *world) check(useModel bool) (out []viol, diverged string) {
	var vs vset
	all := w.sessions()
	for side := 0; side < 2; side++ {
		p := w.peers[side]
		var live []*sinfo
		for _, si := range all {
			if si.side != side || !si.sess.Health() {
				continue
			}
			if !si.established() {
				vs.add("healthy-before-hooks", fmt.Sprintf("%s reports Health()=true although its %s hook has not returned OK (status %s)", si.name(), si.via, stName(erpc.VerifStatus(si.sess))))
				continue
			}
			live = append(live, si)
		}
		byID := map[string][]*sinfo{}
		var ids []string
		for _, si := range live {
			id := si.sess.ID()
			if len(byID[id]) == 0 {
				ids = append(ids, id)
			}
			byID[id] = append(byID[id], si)
		}
		sort.Strings(ids)
		for _, id := range ids {
			if l := byID[id]; len(l) > 1 {
				vs.add("two-live-same-id", fmt.Sprintf("peer %s: sessions %s and %s are both healthy with ID()=%q", sideName[side], l[0].name(), l[1].name(), id))
			}
		}
		seen := map[erpc.Session]int{}
		var ranged []erpc.Session
		p.RangeSession(func(s erpc.Session) bool { ranged = append(ranged, s); seen[s]++; return true })
		for _, si := range live {
			id := si.sess.ID()
			g, ok := p.GetSession(id)
			switch {
			case ok && g == si.sess:
			case seen[si.sess] > 0:
				vs.add("indexed-under-wrong-id", fmt.Sprintf("peer %s: healthy session %s is in the index but GetSession(%q) (its current ID) does not return it", sideName[side], si.name(), id))
			default:
				got := "nothing"
				if ok {
					if o := lookup(g); o != nil {
						got = "session " + o.name()
					} else {
						got = "another session"
					}
				}
				vs.add("live-session-not-indexed", fmt.Sprintf("peer %s: healthy established session %s (id %q) is not in the index: GetSession returns %s; CountSession()=%d", sideName[side], si.name(), id, got, p.CountSession()))
			}
		}
		for _, e := range ranged {
			name := "?"
			if o := lookup(e); o != nil {
				name = o.name()
			}
			if !e.Health() {
				vs.add("stale-index-entry", fmt.Sprintf("peer %s: RangeSession yields %s (id %q) whose status is %s; CountSession()=%d with %d healthy established sessions", sideName[side], name, e.ID(), stName(erpc.VerifStatus(e)), p.CountSession(), len(live)))
				continue
			}
			if g, ok := p.GetSession(e.ID()); !ok || g != e || seen[e] > 1 {
				vs.add("indexed-under-wrong-id", fmt.Sprintf("peer %s: index entry for %s is stored under another key than its current ID() %q (entries for it: %d)", sideName[side], name, e.ID(), seen[e]))
			}
		}
		implied := false // a missing / stale / misplaced entry already explains a wrong count (its text carries CountSession)
		for _, v := range vs.vs {
			if strings.HasPrefix(v.what, "peer "+sideName[side]+":") && (v.sym == "live-session-not-indexed" || v.sym == "stale-index-entry" || v.sym == "indexed-under-wrong-id") {
				implied = true
			}
		}
		if n := p.CountSession(); n != len(live) && !implied {
			var names []string
			for _, si := range live {
				names = append(names, si.name())
			}
			vs.add("count-mismatch", fmt.Sprintf("peer %s: CountSession()=%d but %d healthy established sessions exist %v", sideName[side], n, len(live), names))
		}
	}
	for _, si := range all {
		est := si.established()
		hok := atomic.LoadInt64(&si.hookOK)
		hs := si.stamps()
		if atomic.LoadInt32(&si.healthInHook) != 0 {
			vs.add("healthy-before-hooks", fmt.Sprintf("%s reported Health()=true inside its %s hook", si.name(), si.via))
		}
		for _, h := range hs {
			if !est || h < hok {
				vs.add("handler-before-hooks", fmt.Sprintf("%s: a handler was entered at stamp %d, its %s hook returned OK at stamp %d (0 = never)", si.name(), h, si.via, hok))
				break
			}
		}
		si.mu.Lock()
		left := append([][2]int32(nil), si.left...)
		trans := append([][2]int32(nil), si.trans...)
		why := si.why
		si.mu.Unlock()
		if len(left) > 0 {
			vs.add("left-closed-state", fmt.Sprintf("%s: status transition %s -> %s recorded (all transitions: %s)", si.name(), stName(left[0][0]), stName(left[0][1]), transStr(trans)))
		}
		d := atomic.LoadInt32(&si.disc)
		if est && d > 1 {
			vs.add("disconnect-hook-count=2", fmt.Sprintf("%s: PostDisconnect ran %d times for one established session (transitions: %s)", si.name(), d, transStr(trans)))
		}
		if atomic.LoadInt32(&si.must) != 0 {
			if si.sess.Health() {
				vs.add("healthy-after-close", fmt.Sprintf("%s is Health()=true (status %s) although %s", si.name(), stName(erpc.VerifStatus(si.sess)), why))
			}
			select {
			case <-si.sess.CloseNotify():
			default:
				vs.add("closenotify-missing", fmt.Sprintf("%s: CloseNotify() is still open (status %s) although %s", si.name(), stName(erpc.VerifStatus(si.sess)), why))
			}
			if est && d == 0 {
				vs.add("disconnect-hook-count=0", fmt.Sprintf("%s: PostDisconnect never ran (status %s) although %s", si.name(), stName(erpc.VerifStatus(si.sess)), why))
			}
			limit, what := atomic.LoadInt64(&si.closeRet), "its Close() returned"
			if limit == 0 {
				limit, what = si.deadAt, "the quiescent point at which it had to be closed"
			}
			if limit > 0 {
				for _, h := range hs {
					if h > limit {
						vs.add("handler-after-close", fmt.Sprintf("%s: a handler was entered at stamp %d, after %s (stamp %d); %s", si.name(), h, what, limit, why))
						break
					}
				}
			}
		}
		if useModel && si.m == mOK && si.mid != "" && si.sess.Health() {
			if got := si.sess.ID(); got != si.mid {
				vs.add("id-changed-without-setid", fmt.Sprintf("%s: ID() reports %q, but the id it was given (by SetID, else its default) is %q and no SetID has changed it since", si.name(), got, si.mid))
			}
		}
		if useModel && si.m == mOK && !si.sess.Health() && diverged == "" {
			diverged = fmt.Sprintf("%s is live in the reference model but reports status %s", si.name(), stName(erpc.VerifStatus(si.sess)))
		}
	}
	return vs.vs, diverged
}

func transStr(t [][2]int32) string {
	var s []string
	for _, x := range t {
		s = append(s, stName(x[0])+">"+stName(x[1]))
	}
	return strings.Join(s, " ")
}

// probeAll issues one new Call and one new Push on every session that has to be closed and was not probed yet.
func (w *world) probeAll() (out []viol, inconcl string, n int) {
	var vs vset
	for _, si := range w.sessions() {
		if atomic.LoadInt32(&si.must) == 0 || si.probed {
			continue
		}
		si.probed = true
		n++
		core.Add("probes", 2)
		var cst, pst *erpc.Status
		cch := run(func() {
			var res []byte
			cst = si.sess.Call(w.callRoute, []byte("probe"), &res).Status()
		})
		if ok, wd := w.await(cch); !ok {
			if wd {
				return vs.vs, "watchdog while a probe call was running", n
			}
			vs.add("call-hung", fmt.Sprintf("%s: a new Call() on the closed session has not returned at quiescence", si.name()))
		} else if cst.Code() != erpc.CodeConnClosed {
			vs.add("call-not-102", fmt.Sprintf("%s: a new Call() on the closed session returned %s, want code %d", si.name(), statStr(cst), erpc.CodeConnClosed))
		}
		pch := run(func() { pst = si.sess.Push(w.pushRoute, []byte("probe")) })
		if ok, wd := w.await(pch); !ok {
			if wd {
				return vs.vs, "watchdog while a probe push was running", n
			}
			vs.add("push-hung", fmt.Sprintf("%s: a new Push() on the closed session has not returned at quiescence", si.name()))
		} else if pst.Code() != erpc.CodeConnClosed {
			vs.add("push-not-102", fmt.Sprintf("%s: a new Push() on the closed session returned %s, want code %d", si.name(), statStr(pst), erpc.CodeConnClosed))
		}
	}
	return vs.vs, "", n
}

func statStr(s *erpc.Status) string {
	if s == nil {
		return "OK (nil status)"
	}
	return s.String()
}

// judge = quiescence + settle + check + probes (+ re-check). inconcl != "" means no verdict.
func (w *world) judge(useModel bool) (vs []viol, inconcl string) {
	if !w.quiesce() {
		return nil, "watchdog: the process did not become quiescent"
	}
	w.settle()
	vs, div := w.check(useModel)
	pv, inc, n := w.probeAll()
	if inc != "" {
		return vs, inc
	}
	vs = append(vs, pv...)
	if n > 0 {
		if !w.quiesce() {
			return vs, "watchdog: the process did not become quiescent after the probes"
		}
		more, _ := w.check(useModel)
		for _, m := range more {
			dup := false
			for _, v := range vs {
				dup = dup || v.sym == m.sym
			}
			if !dup {
				vs = append(vs, m)
			}
		}
	}
	if len(vs) == 0 && div != "" {
		return nil, "reference model and implementation disagree on liveness without a clause being violated: " + div
	}
	return vs, ""
}

// dump renders the state for witnesses.
func (w *world) dump() map[string]interface{} {
	var rows []string
	for _, si := range w.sessions() {
		cn := "open"
		select {
		case <-si.sess.CloseNotify():
			cn = "fired"
		default:
		}
		si.mu.Lock()
		tr := transStr(si.trans)
		why := si.why
		si.mu.Unlock()
		rows = append(rows, fmt.Sprintf("%s via=%s id=%q status=%s health=%v closenotify=%s disconnect_hooks=%d handlers=%d established=%v model=%s/%q must_be_closed=%v(%s) transitions=[%s]",
			si.name(), si.via, si.sess.ID(), stName(erpc.VerifStatus(si.sess)), si.sess.Health(), cn, atomic.LoadInt32(&si.disc), len(si.stamps()), si.established(), mName[si.m], si.mid, atomic.LoadInt32(&si.must) != 0, why, tr))
	}
	idx := map[string]interface{}{}
	for side := 0; side < 2; side++ {
		var ent []string
		w.peers[side].RangeSession(func(s erpc.Session) bool {
			n := "?"
			if o := lookup(s); o != nil {
				n = o.name()
			}
			ent = append(ent, n+":"+s.ID())
			return true
		})
		sort.Strings(ent)
		idx[sideName[side]] = map[string]interface{}{"CountSession": w.peers[side].CountSession(), "RangeSession": ent}
	}
	return map[string]interface{}{"sessions": rows, "index": idx}
}

// ---------------------------------------------------------------------------------------------
// histories

type op struct {
	K    string `json:"k"`
	L    int    `json:"l"`
	Side int    `json:"side"`
	V    int    `json:"v"`
}

type caseDesc struct {
	Class  string      `json:"class"`
	Path   string      `json:"path"`
	Ops    []op        `json:"ops,omitempty"`
	Script *scriptDesc `json:"script,omitempty"`
	Conc   *concDesc   `json:"concurrent,omitempty"`
}

var modsockOrders = []string{"setid-wrap", "wrap-setid", "wrap", "wrap-wrap", "setid-wrapproto"}

// expectedID is the reference model's id of a session that has just got through its hook.
func expectedID(si *sinfo, d *directive) string {
	if d != nil && d.setid != "" {
		return d.setid
	}
	if si.via == "dial" {
		return si.sess.LocalAddr().String()
	}
	return si.sess.RemoteAddr().String()
}

func (w *world) mClose(si *sinfo, why string) {
	if si == nil {
		return
	}
	if si.m == mOK {
		si.m = mClosed
	}
	w.mark(si, why)
	if p := si.partner(); p != nil && p.m == mOK {
		p.m = mClosed
		w.mark(p, "the far end of its connection is gone ("+why+")")
	}
}

func (w *world) mTakeover(side int, id string, except *sinfo) bool {
	took := false
	for _, si := range w.sessions() {
		if si != except && si.side == side && si.m == mOK && si.mid == id {
			w.mClose(si, fmt.Sprintf("its id %q was taken over by the newer session %s", id, except.name()))
			si.lost = true
			took = true
		}
	}
	return took
}

// losers returns the closed takeover losers on a peer whose old id (the one they are still known under) is now
// held by a live session - renaming such a session must not touch the winner's index entry. Newest first.
func (w *world) losers(side int) []*sinfo {
	var out []*sinfo
	all := w.sessions()
	for i := len(all) - 1; i >= 0; i-- {
		si := all[i]
		if si.side != side || si.m != mClosed || !si.lost {
			continue
		}
		for _, o := range all {
			if o.side == side && o.m == mOK && o.mid == si.mid {
				out = append(out, si)
				break
			}
		}
	}
	return out
}

func (w *world) liveOn(side int, except *sinfo) []*sinfo {
	var out []*sinfo
	for _, si := range w.sessions() {
		if si.side == side && si.m == mOK && si != except {
			out = append(out, si)
		}
	}
	return out
}

func (w *world) pickLink(o op) *link {
	if len(w.links) == 0 {
		return nil
	}
	var live []*link
	for _, l := range w.links {
		if l.a != nil && l.b != nil && l.a.m == mOK && l.b.m == mOK {
			live = append(live, l)
		}
	}
	if o.V%8 == 7 || len(live) == 0 {
		return w.links[o.L%len(w.links)]
	}
	return live[o.L%len(live)]
}

type stepOut struct {
	label   string
	skipped bool
	early   []viol
	inconcl string
	note    string
}

func (w *world) exec(o op) (out stepOut) {
	out.label = o.K
	suffix := func(si *sinfo) {
		if si.m != mOK {
			out.label += "@closed"
		}
	}
	switch o.K {
	case "accept", "accept-reject", "reject-far", "accept-setid", "accept-slowhook", "hook-setid-reject", "hook-setid-accept", "hook-modsock":
		if w.closed[sideS] || w.closed[sideC] || len(w.links) >= 14 {
			out.skipped = true
			return
		}
		dS, dC := &directive{}, &directive{}
		via := "serveconn"
		if w.tcp && o.V%4 != 0 {
			via = "dial" // ServeConn'ed client connections to one listener share their default id (see scriptList)
		}
		var unknown *sinfo // live holder of an id that a REFUSED connection's hook named: only the index clauses are judged for it
		switch o.K {
		case "accept-reject":
			dS.reject = true
		case "reject-far":
			dC.reject = true
		case "hook-modsock":
			// the accept / dial hook wraps the connection with PreSession.ModifySocket (pass-through wrapper), before
			// or after naming the session, alone, or twice. ModifySocket never changes the session's id or the index.
			via = "serveconn"
			if w.tcp && o.V%2 == 1 {
				via = "dial"
			}
			d := dS
			if o.Side%2 == 1 {
				d = dC
			}
			ord := modsockOrders[(o.V>>2)%len(modsockOrders)]
			d.steps = strings.Split(ord, "-")
			out.label = "hook-modsock." + ord
			if o.Side%2 == 1 {
				out.label += "-far"
				if via == "dial" {
					out.label = "hook-modsock." + ord + "-dial"
				}
			}
			if strings.Contains(ord, "setid") {
				w.idn++
				d.setid = fmt.Sprintf("id%d", w.idn)
			}
		case "hook-setid-reject", "hook-setid-accept":
			// the accept / dial hook names the session (PreSession.SetID, which already stores it in the index) and
			// then refuses or accepts the connection. Side 0: the accepting peer's PostAccept hook; side 1: the far
			// peer's hook (PostAccept under ServeConn, PostDial when the far end dials).
			via = "serveconn"
			if w.tcp && o.V%2 == 1 {
				via = "dial"
			}
			side, d := sideS, dS
			if o.Side%2 == 1 {
				side, d = sideC, dC
				out.label += "-far"
				if via == "dial" {
					out.label = o.K + "-dial"
				}
			}
			cands := w.liveOn(side, nil)
			if o.V%4 >= 2 && len(cands) > 0 {
				h := cands[(o.V/4)%len(cands)]
				d.setid = h.mid
				out.label += "-collide"
				if o.K == "hook-setid-reject" {
					unknown = h
				}
			} else {
				w.idn++
				d.setid = fmt.Sprintf("id%d", w.idn)
			}
			d.reject = o.K == "hook-setid-reject"
		case "accept-setid":
			cands := w.liveOn(sideS, nil)
			if o.V%4 >= 2 && len(cands) > 0 {
				dS.setid = cands[(o.V/4)%len(cands)].mid
				out.label = "accept-setid-collide"
			} else {
				w.idn++
				dS.setid = fmt.Sprintf("id%d", w.idn)
				out.label = "accept-setid-fresh"
			}
		case "accept-slowhook":
			dS.park, dS.release = true, make(chan struct{})
		}
		l, err := w.connect(dS, dC, via, false)
		if err != "" {
			out.inconcl = "harness: " + err
			return
		}
		out.note = fmt.Sprintf("-> %s/%s via %s", l.a.name(), l.b.name(), via)
		if dS.park {
			select {
			case <-w.parked:
			case <-time.After(10 * time.Second):
				out.inconcl = "harness: the accept hook was not reached"
				return
			}
			// the far side is established: pre-load a frame while the accepting side is still in its hook
			var cch chan struct{}
			if o.Side%2 == 0 {
				l.a.sess.Push(w.pushRoute, []byte("early"))
			} else {
				cch = run(func() {
					var res []byte
					l.a.sess.Call(w.callRoute, []byte("early"), &res)
				})
			}
			core.Add("frames_preloaded_before_hook_return", 1)
			if !w.quiesce() {
				dS.free()
				out.inconcl = "watchdog: not quiescent while the hook was parked"
				return
			}
			var vs vset
			if l.b.sess.Health() {
				vs.add("healthy-before-hooks", fmt.Sprintf("%s reports Health()=true while its accept hook is still running", l.b.name()))
			}
			if n := len(l.b.stamps()); n > 0 {
				vs.add("handler-before-hooks", fmt.Sprintf("%s: %d handler(s) entered while its accept hook is still running", l.b.name(), n))
			}
			out.early = vs.vs
			dS.free()
			if ok, _ := w.await(l.sdone); !ok {
				out.inconcl = "harness: the accept did not complete after the hook was released"
				return
			}
			if cch != nil {
				if ok, _ := w.await(cch); !ok {
					out.inconcl = "a call issued before the far hook returned is incomplete at quiescence (C02's business)"
					return
				}
			}
		}
		a, b := l.a, l.b
		rejA, rejB := atomic.LoadInt32(&a.rejected) != 0, atomic.LoadInt32(&b.rejected) != 0
		// a newly established session takes over its id from an older live one (also with default ids: the far
		// ends of two ServeConn'ed connections to one listener both default to the listener's address)
		// The model's id: the one a hook set with SetID, else the default (remote address; a dialled session: its
		// local address). Nothing but SetID changes it - in particular not ModifySocket.
		if !rejA {
			a.m, a.mid = mOK, expectedID(a, dC)
			if w.mTakeover(sideC, a.mid, a) {
				core.Add("model_takeovers", 1)
			}
		}
		if !rejB {
			b.m, b.mid = mOK, expectedID(b, dS)
			if w.mTakeover(sideS, b.mid, b) {
				core.Add("model_takeovers", 1)
			}
		}
		if rejB {
			w.mark(b, "its accept hook rejected it and the peer closed it")
			w.mClose(a, "the accepting peer rejected the connection")
		}
		if rejA {
			if a.via != "dial" { // a failed Dial never hands out (or closes) the session object
				w.mark(a, "its accept hook rejected it and the peer closed it")
			}
			w.mClose(b, "the far peer rejected the connection")
		}
		if unknown != nil {
			// whether naming a connection that is then refused must already have closed the live holder of that id
			// is not something the statement decides: the holder (and the far end of its connection) leave the model
			unknown.m = mNone
			if p := unknown.partner(); p != nil {
				p.m = mNone
			}
		}
	case "setid-fresh", "setid-collide", "setid-same", "setid-loser":
		l := w.pickLink(o)
		if l == nil {
			out.skipped = true
			return
		}
		x := l.b
		if o.Side%2 == 1 {
			x = l.a
		}
		onLoser := false
		if ls := w.losers(x.side); len(ls) > 0 && (o.K == "setid-loser" || (o.V>>6)%4 == 0) {
			// rename the loser of a takeover whose old id now belongs to the live winner
			x, onLoser = ls[(o.V>>8)%len(ls)], true
		} else if o.K == "setid-loser" {
			out.skipped = true
			return
		}
		if x.m == mNone {
			out.skipped = true
			return
		}
		var id string
		switch o.K {
		case "setid-same":
			id = x.mid
		case "setid-collide":
			if c := w.liveOn(x.side, x); len(c) > 0 {
				id = c[(o.V/8)%len(c)].mid
			}
		}
		if id == "" {
			w.idn++
			id = fmt.Sprintf("id%d", w.idn)
			out.label = "setid-fresh"
		}
		if onLoser {
			out.label += "@loser"
		} else {
			suffix(x)
		}
		out.note = fmt.Sprintf("%s.SetID(%q)", x.name(), id)
		if ok, wd := w.await(run(func() { x.sess.SetID(id) })); !ok {
			out.inconcl = fmt.Sprintf("SetID did not return (watchdog=%v)", wd)
			return
		}
		if x.m == mOK && id != x.mid {
			if w.mTakeover(x.side, id, x) {
				core.Add("model_takeovers", 1)
			}
		}
		x.mid = id
	case "takeover-hook-rename":
		// y takes the id of the live x over (which closes x); x's PostDisconnect hook renames the ended x
		l := w.pickLink(o)
		if l == nil {
			out.skipped = true
			return
		}
		y := l.b
		if o.Side%2 == 1 {
			y = l.a
		}
		c := w.liveOn(y.side, y)
		if y.m != mOK || len(c) == 0 {
			out.skipped = true
			return
		}
		x := c[(o.V/8)%len(c)]
		w.idn++
		tomb := fmt.Sprintf("id%d", w.idn)
		x.discRename.Store(tomb)
		id := x.mid
		out.note = fmt.Sprintf("%s.SetID(%q) takes %s over; PostDisconnect renames %s to %q", y.name(), id, x.name(), x.name(), tomb)
		if ok, wd := w.await(run(func() { y.sess.SetID(id) })); !ok {
			out.inconcl = fmt.Sprintf("SetID did not return (watchdog=%v)", wd)
			return
		}
		if w.mTakeover(y.side, id, y) {
			core.Add("model_takeovers", 1)
		}
		y.mid = id
		x.mid, x.lost = tomb, false // renamed: it no longer shares an id with the winner
	case "call", "push":
		l := w.pickLink(o)
		if l == nil {
			out.skipped = true
			return
		}
		x := l.b
		if o.Side%2 == 1 {
			x = l.a
		}
		if x.m == mNone {
			out.skipped = true
			return
		}
		suffix(x)
		out.note = x.name()
		var st *erpc.Status
		ch := run(func() {
			if o.K == "call" {
				var res []byte
				st = x.sess.Call(w.callRoute, []byte("c"), &res).Status()
			} else {
				st = x.sess.Push(w.pushRoute, []byte("p"))
			}
		})
		if ok, _ := w.await(ch); !ok {
			if x.m == mOK {
				out.inconcl = "a " + o.K + " on a live session is incomplete at quiescence (C02's business)"
				return
			}
			out.early = []viol{{o.K + "-hung", fmt.Sprintf("%s: %s on the closed session has not returned at quiescence", x.name(), o.K)}}
			return
		}
		if x.m == mOK && l.a.m == mOK && l.b.m == mOK {
			if st.OK() {
				core.Add(o.K+"s_ok_on_live_sessions", 1)
			} else {
				core.Add(o.K+"s_failed_on_live_sessions", 1)
			}
		} else if atomic.LoadInt32(&x.must) != 0 && st.Code() != erpc.CodeConnClosed {
			out.early = []viol{{o.K + "-not-102", fmt.Sprintf("%s: a new %s on the closed session returned %s, want code %d", x.name(), o.K, statStr(st), erpc.CodeConnClosed)}}
		}
	case "close", "remote-close":
		l := w.pickLink(o)
		if l == nil {
			out.skipped = true
			return
		}
		x := l.b
		if o.K == "remote-close" {
			x = l.a
		}
		if x.m == mNone {
			out.skipped = true
			return
		}
		suffix(x)
		out.note = x.name() + ".Close()"
		if ok, wd := w.await(w.goClose(x)); !ok {
			out.inconcl = fmt.Sprintf("Close() did not return (watchdog=%v; C08's business)", wd)
			return
		}
		w.mClose(x, "its Close() returned")
	case "cut-eof", "cut-reset":
		l := w.pickLink(o)
		if l == nil {
			out.skipped = true
			return
		}
		if l.a.m != mOK && l.b.m != mOK {
			out.label += "@closed"
		}
		out.note = fmt.Sprintf("link %s/%s", l.a.name(), l.b.name())
		w.cut(l, o.K == "cut-reset")
		for _, si := range []*sinfo{l.a, l.b} {
			if si.m == mOK {
				w.mClose(si, "its connection was cut")
			}
		}
	case "peer-close":
		side := o.Side % 2
		if w.closed[side] {
			out.skipped = true
			return
		}
		out.note = "peer " + sideName[side]
		w.closed[side] = true
		p := w.peers[side]
		if ok, wd := w.await(run(func() { p.Close() })); !ok {
			out.inconcl = fmt.Sprintf("Peer.Close() did not return (watchdog=%v; C08's business)", wd)
			return
		}
		for _, si := range w.liveOn(side, nil) {
			w.mClose(si, "Peer.Close() of its peer returned")
		}
	default:
		out.skipped = true
	}
	return
}

type hres struct {
	viols   []viol
	step    int
	label   string
	inconcl string
	trace   []string
	dump    map[string]interface{}
	nops    int
}

// runHistory executes the ops on a fresh world; it stops at the first op after which a clause is violated.
func runHistory(path string, ops []op, counters bool) (r hres) {
	gates.Reset()
	w := newWorld(path)
	defer w.teardown()
	r.step = -1
	prev := "start"
	for i, o := range ops {
		opStart := time.Now()
		so := w.exec(o)
		timing(fmt.Sprintf("   op %d %s exec", i, so.label), opStart)
		if so.skipped {
			r.trace = append(r.trace, fmt.Sprintf("%d: %s skipped", i, o.K))
			continue
		}
		r.nops++
		r.trace = append(r.trace, fmt.Sprintf("%d: %s %s", i, so.label, so.note))
		if counters {
			core.Add("evaluations", 1)
			core.Add("op_"+so.label, 1)
			core.Distinct("nontrivial", path+":"+prev+">"+so.label)
		} else {
			core.Add("minimisation_ops", 1)
		}
		prev = so.label
		if so.inconcl != "" && len(so.early) == 0 {
			r.inconcl, r.step, r.label = so.inconcl, i, so.label
			return
		}
		vs, inc := w.judge(true)
		timing(fmt.Sprintf("   op %d %s exec+judge", i, so.label), opStart)
		vs = append(so.early, vs...)
		if len(vs) > 0 {
			r.viols, r.step, r.label, r.dump = vs, i, so.label, w.dump()
			return
		}
		if inc != "" {
			r.inconcl, r.step, r.label = inc, i, so.label
			return
		}
	}
	return
}

func hasSym(vs []viol, sym string) bool {
	for _, v := range vs {
		if v.sym == sym {
			return true
		}
	}
	return false
}

// minimise drops ops while the same (op label, symptom) keeps failing (passes are repeated until none helps),
// then tries to turn the remaining special accepts into plain ones.
func minimise(path string, ops []op, first hres) ([]op, hres) {
	cur := append([]op(nil), ops[:first.step+1]...)
	best := first
	sym := first.viols[0].sym
	budget := 70
	if path == "listener" {
		budget = 3 // every step costs several 250 ms quiescence windows there; these histories are short anyway
	}
	try := func(cand []op) bool {
		budget--
		res := runHistory(path, cand, false)
		if res.step >= 0 && res.label == first.label && hasSym(res.viols, sym) {
			cur = append([]op(nil), cand[:res.step+1]...)
			best = res
			return true
		}
		return false
	}
	for progress := true; progress && budget > 0; {
		progress = false
		for i := len(cur) - 2; i >= 0 && budget > 0; i-- {
			if i >= len(cur)-1 {
				continue
			}
			if try(append(append([]op(nil), cur[:i]...), cur[i+1:]...)) {
				progress = true
			}
		}
	}
	for i := 0; i < len(cur)-1 && budget > 0; i++ {
		if strings.HasPrefix(cur[i].K, "accept-") || cur[i].K == "reject-far" || strings.HasPrefix(cur[i].K, "hook-setid-") {
			cand := append([]op(nil), cur...)
			cand[i].K = "accept"
			try(cand)
		}
	}
	return cur, best
}

var opWeights = []struct {
	k string
	w int
}{
	{"accept", 16}, {"accept-reject", 4}, {"reject-far", 3}, {"accept-setid", 6}, {"accept-slowhook", 3},
	{"hook-setid-reject", 5}, {"hook-setid-accept", 3}, {"setid-loser", 3}, {"takeover-hook-rename", 3}, {"hook-modsock", 5},
	{"setid-fresh", 9}, {"setid-collide", 11}, {"setid-same", 3}, {"call", 10}, {"push", 8},
	{"close", 8}, {"remote-close", 6}, {"cut-eof", 4}, {"cut-reset", 4},
}

func genOps(r *core.Rand, maxOps int) []op {
	n := 3 + r.Intn(maxOps-3)
	total := 0
	for _, x := range opWeights {
		total += x.w
	}
	ops := []op{{K: "accept", V: r.Intn(64)}}
	for len(ops) < n-1 {
		x := r.Intn(total)
		k := ""
		for _, ow := range opWeights {
			if x < ow.w {
				k = ow.k
				break
			}
			x -= ow.w
		}
		o := op{K: k, L: r.Intn(64), Side: r.Intn(4) / 3, V: r.Intn(1 << 12)}
		if strings.HasPrefix(k, "hook-setid-") || k == "hook-modsock" {
			o.Side = r.Intn(3) / 2 // a third of them in the far peer's hook
		}
		ops = append(ops, o)
	}
	ops = append(ops, op{K: "peer-close", Side: r.Intn(8) / 7})
	if r.Intn(3) == 0 {
		ops = append(ops, op{K: "peer-close", Side: 1 - ops[len(ops)-1].Side})
	}
	return ops
}

var minimised = map[string]bool{}

var t0 = time.Now()

func timing(id string, start time.Time) {
	if os.Getenv("C07_TIMING") != "" {
		fmt.Fprintf(os.Stderr, "timing %s %.2fs (at %.1fs)\n", id, time.Since(start).Seconds(), time.Since(t0).Seconds())
	}
}

func report(id string, desc caseDesc, fpMid string, vs []viol, witness map[string]interface{}) {
	for i, v := range vs {
		rid := id
		if i > 0 {
			rid = fmt.Sprintf("%s#%d", id, i)
			core.Begin(rid, desc)
		}
		wit := map[string]interface{}{"observed": v.what, "clause": v.sym}
		for k, x := range witness {
			wit[k] = x
		}
		core.Result(core.R{ID: rid, Verdict: core.Violated, FP: fmt.Sprintf("C07/%s/%s/%s", fpMid, desc.Path, v.sym),
			What: v.what, Witness: wit, Desc: desc})
	}
}

func doHistory(id string, path string, ops []op) {
	desc := caseDesc{Class: "history", Path: path, Ops: ops}
	defer timing(id, time.Now())
	core.Begin(id, desc)
	res := runHistory(path, ops, true)
	core.Add("histories", 1)
	if res.step < 0 {
		core.Result(core.R{ID: id, Verdict: core.Held})
		return
	}
	if len(res.viols) == 0 {
		core.Add("histories_inconclusive", 1)
		core.Result(core.R{ID: id, Verdict: core.Inconclusive, What: fmt.Sprintf("op %d (%s): %s", res.step, res.label, res.inconcl)})
		return
	}
	key := res.label + "/" + path + "/" + res.viols[0].sym
	mops, mres := ops[:res.step+1], res
	if !minimised[key] && *replay == "" {
		minimised[key] = true
		mops, mres = minimise(path, ops, res)
		core.Add("histories_minimised", 1)
	}
	desc.Ops = mops
	report(id, desc, "history/"+mres.label, mres.viols, map[string]interface{}{
		"history": mres.trace, "failing_op": mres.label, "state_at_failure": mres.dump, "original_length": len(ops)})
}

// ---------------------------------------------------------------------------------------------
// concurrent phase

type concDesc struct {
	Collide bool  `json:"collide"`
	Seed    int64 `json:"seed"`
	Links   int   `json:"links"`
	Workers int   `json:"workers"`
	OpsPer  int   `json:"ops_per_worker"`
	Delay   int   `json:"delay_permille"`
}

func doConcurrent(id string, path string, cd concDesc) {
	desc := caseDesc{Class: "concurrent", Path: path, Conc: &cd}
	defer timing(id, time.Now())
	core.Begin(id, desc)
	class := "mix-fresh"
	if cd.Collide {
		class = "mix-collide"
	}
	gates.Reset()
	if cd.Delay > 0 {
		gates.SetDelay(cd.Seed, cd.Delay)
	}
	w := newWorld(path)
	w.useStamp = false
	defer w.teardown()
	var lmu sync.Mutex
	var links []*link
	for i := 0; i < cd.Links; i++ {
		l, err := w.plain()
		if err != "" {
			core.Result(core.R{ID: id, Verdict: core.Inconclusive, What: "harness: " + err})
			return
		}
		links = append(links, l)
	}
	if !w.quiesce() {
		core.Result(core.R{ID: id, Verdict: core.Inconclusive, What: "watchdog before the concurrent phase"})
		return
	}
	var wg sync.WaitGroup
	var nops, accepts int64
	var fresh int64
	for g := 0; g < cd.Workers; g++ {
		wg.Add(1)
		go func(g int) {
			defer wg.Done()
			r := core.NewRand(cd.Seed, int64(g), 77)
			for k := 0; k < cd.OpsPer; k++ {
				lmu.Lock()
				l := links[r.Intn(len(links))]
				lmu.Unlock()
				x := l.b
				if r.Intn(3) == 0 {
					x = l.a
				}
				atomic.AddInt64(&nops, 1)
				switch c := r.Intn(20); {
				case c < 6:
					if !x.sess.Health() {
						continue // SetID on a session that is already closed is a history op (label @closed), not a race
					}
					id := fmt.Sprintf("f%d", atomic.AddInt64(&fresh, 1))
					if cd.Collide {
						id = fmt.Sprintf("p%d", r.Intn(3))
					}
					x.sess.SetID(id)
				case c < 7:
					x.sess.SetID(x.sess.ID())
				case c < 11:
					var res []byte
					x.sess.Call(w.callRoute, []byte("c"), &res)
				case c < 14:
					x.sess.Push(w.pushRoute, []byte("p"))
				case c < 16:
					x.sess.Close()
					w.mark(x, "its Close() returned")
					w.mark(x.partner(), "the far end of its connection called Close()")
				case c < 17:
					w.cut(l, r.Intn(2) == 0)
					w.mark(l.a, "its connection was cut")
					w.mark(l.b, "its connection was cut")
				default:
					if atomic.AddInt64(&accepts, 1) > 6 {
						continue
					}
					// concurrent accepts: ServeConn on both ends, identified by the returned handles
					if w.tcp {
						if a, st := w.peers[sideC].Dial(w.addr); st.OK() {
							if sa := lookup(a); sa != nil {
								want := a.LocalAddr().String()
								sb := w.waitFind(func(si *sinfo) bool { return si.side == sideS && si.sess.RemoteAddr().String() == want })
								if sb != nil {
									nl := &link{a: sa, b: sb, via: "dial"}
									sa.link, sb.link = nl, nl
									lmu.Lock()
									links = append(links, nl)
									lmu.Unlock()
								}
							}
						}
						continue
					}
					ca, cb := memconn.NewPair()
					var b erpc.Session
					done := run(func() { b, _ = w.peers[sideS].ServeConn(cb) })
					a, _ := w.peers[sideC].ServeConn(ca)
					<-done
					sa, sb := lookup(a), lookup(b)
					if sa != nil && sb != nil {
						nl := &link{a: sa, b: sb, via: "serveconn"}
						sa.link, sb.link = nl, nl
						lmu.Lock()
						links = append(links, nl)
						lmu.Unlock()
					}
				}
			}
		}(g)
	}
	done := make(chan struct{})
	go func() { wg.Wait(); close(done) }()
	finished := false
	for i := 0; i < 10 && !finished; i++ {
		ok, wd := w.await(done)
		if ok {
			finished = true
		} else if !wd {
			break // incomplete at quiescence
		}
	}
	core.Add("evaluations", atomic.LoadInt64(&nops))
	core.Add("concurrent_cases", 1)
	core.Distinct("nontrivial", fmt.Sprintf("%s:concurrent/%s/links=%d", path, class, cd.Links))
	if !finished {
		core.Result(core.R{ID: id, Verdict: core.Inconclusive, What: "an operation of the concurrent phase is incomplete at quiescence (hangs are C02's / C08's business)"})
		return
	}
	gates.Reset()
	vs, inc := w.judge(false)
	stage := class
	if len(vs) == 0 && inc == "" {
		// Peer.Close at the end: it closes the sessions that are in the index at that time
		for side := 0; side < 2; side++ {
			var indexed []erpc.Session
			w.peers[side].RangeSession(func(s erpc.Session) bool { indexed = append(indexed, s); return true })
			p := w.peers[side]
			w.closed[side] = true
			if ok, _ := w.await(run(func() { p.Close() })); !ok {
				inc = "Peer.Close() did not return (C08's business)"
				break
			}
			for _, s := range indexed {
				if si := lookup(s); si != nil {
					w.mark(si, "Peer.Close() of its peer returned while it was in the index")
					w.mark(si.partner(), "the far end of its connection was closed by Peer.Close()")
				}
			}
		}
		if inc == "" {
			stage = "peer-close"
			vs, inc = w.judge(false)
		}
	}
	if len(vs) > 0 {
		report(id, desc, "concurrent/"+stage, vs, map[string]interface{}{"state_at_failure": w.dump(), "ops_executed": nops})
		return
	}
	if inc != "" {
		core.Result(core.R{ID: id, Verdict: core.Inconclusive, What: inc})
		return
	}
	core.Result(core.R{ID: id, Verdict: core.Held})
}

// ---------------------------------------------------------------------------------------------
// gate scripts

type scriptDesc struct {
	Script  string `json:"script"`          // script class (fingerprint)
	Kind    string `json:"kind"`            // implementation family
	Point   string `json:"point,omitempty"` // close.* point
	RdPoint string `json:"rd_point,omitempty"`
	Order   string `json:"order,omitempty"`   // release order
	Flavour string `json:"flavour,omitempty"` // cut-eof | cut-reset | remote-close
	Frame   string `json:"frame,omitempty"`   // call | push
	Side    string `json:"side"`              // which end is the session under test: S (accepted) or C (far / dialled)
	Via     string `json:"via,omitempty"`
	Delay   int64  `json:"delay_seed,omitempty"`
}

func scriptList(path string, full bool) []scriptDesc {
	var out []scriptDesc
	flavours := []string{"cut-eof", "cut-reset", "remote-close"}
	for _, f := range flavours {
		out = append(out, scriptDesc{Script: "rd-parked.close-completes", Kind: "rd-parked", Flavour: f})
	}
	for _, pt := range []string{"afterCAS", "afterIndexDelete", "afterCtxWait", "afterCallWait"} {
		for i, f := range flavours {
			if !full && pt != "afterCAS" && i > 0 {
				continue
			}
			out = append(out, scriptDesc{Script: "close-parked@" + pt + ".rd-completes", Kind: "close-parked", Point: pt, Flavour: f})
		}
	}
	for _, ord := range []string{"release-rd-first", "release-close-first"} {
		out = append(out, scriptDesc{Script: "both-parked.rd-arrives-first." + ord, Kind: "both-rd-first", Point: "afterCAS", RdPoint: "beforeStatusWrite", Order: ord, Flavour: "cut-eof"})
		out = append(out, scriptDesc{Script: "both-parked.close-arrives-first." + ord, Kind: "both-close-first", Point: "afterCAS", RdPoint: "afterStatusWrite", Order: ord, Flavour: "cut-eof"})
		out = append(out, scriptDesc{Script: "both-parked.close-arrives-first." + ord, Kind: "both-close-first", Point: "afterIndexDelete", RdPoint: "beforeCancel", Order: ord, Flavour: "cut-reset"})
		if full {
			out = append(out, scriptDesc{Script: "both-parked.rd-arrives-first." + ord, Kind: "both-rd-first", Point: "afterCAS", RdPoint: "beforeStatusWrite", Order: ord, Flavour: "remote-close"})
			out = append(out, scriptDesc{Script: "both-parked.close-arrives-first." + ord, Kind: "both-close-first", Point: "afterCtxWait", RdPoint: "afterStatusWrite", Order: ord, Flavour: "remote-close"})
		}
	}
	for _, fr := range []string{"call", "push"} {
		out = append(out, scriptDesc{Script: "frame-vs-close." + fr, Kind: "frame-vs-close", Frame: fr})
	}
	for _, s := range []string{"other-takes-old-id", "same-closes", "same-cut"} {
		out = append(out, scriptDesc{Script: "setid-mid." + s, Kind: "setid-mid", Order: s})
	}
	for _, s := range []string{"older-closes", "older-cut", "third-takes-id"} {
		out = append(out, scriptDesc{Script: "hub-mid." + s, Kind: "hub-mid", Order: s})
	}
	if path == "serveconn" {
		for _, f := range flavours {
			out = append(out, scriptDesc{Script: "accept-insert.disconnect-before-insert", Kind: "accept-insert", Flavour: f})
		}
	}
	for _, fr := range []string{"call", "push"} {
		out = append(out, scriptDesc{Script: "hook-parked.accept-" + fr, Kind: "hook-accept", Frame: fr})
	}
	out = append(out, scriptDesc{Script: "hook-parked.far-push", Kind: "hook-far", Frame: "push"})
	for i := range out {
		out[i].Side = "S"
	}
	// Close() of a session that has an outgoing call pending, then the connection is lost (or, as control, the
	// reply arrives); both ends as the closing session, in every tier
	for _, side := range []string{"S", "C"} {
		for _, f := range []string{"cut-eof", "cut-reset", "remote-close", "reply"} {
			out = append(out, scriptDesc{Script: "close-with-pending-call.then-" + f, Kind: "close-pending", Flavour: f, Side: side})
		}
	}
	// a new push / call issued on a session whose Close() is still waiting (for a handler that runs on it, or for the
	// reply to a call it issued) - from another goroutine, or by the running handler itself: it fails fast with a
	// connection-closed status, and the close completes once the handler has returned; in every tier
	for _, side := range []string{"S", "C"} {
		for _, reason := range []string{"handler-running", "call-pending"} {
			ops := []string{"push", "call", "setid"}
			if reason == "handler-running" {
				ops = append(ops, "handler-push", "handler-call", "handler-setid")
			}
			for _, f := range ops {
				out = append(out, scriptDesc{Script: "op-while-close-waits." + reason + "." + f, Kind: "op-while-closing", Order: reason, Frame: f, Side: side})
			}
		}
	}
	// Peer.Close() while sessions are still inside an accept / dial hook that has already named them with SetID (so
	// they are in the index), released after Peer.Close returned or while it still waits for an established session;
	// an unnamed parked hook as observation; and Peer.Close() while a session's own Close() is parked. Side = the
	// peer that is closed: S (sessions parked in its PostAccept hook) or C (parked in the far peer's PostAccept /
	// PostDial hook). In every tier.
	for _, side := range []string{"S", "C"} {
		for _, n := range []string{"1", "2"} {
			out = append(out, scriptDesc{Script: "peer-close.hook-named-parked.release-after-return", Kind: "peer-close-hook", Order: "after-return", Frame: "named", Point: n, Side: side})
		}
		out = append(out, scriptDesc{Script: "peer-close.hook-named-parked.release-while-waiting", Kind: "peer-close-hook", Order: "while-waiting", Frame: "named", Point: "1", Side: side})
		for _, pt := range []string{"afterCAS", "afterIndexDelete"} {
			out = append(out, scriptDesc{Script: "peer-close.session-close-parked@" + pt, Kind: "peer-close-close-parked", Point: pt, Side: side})
		}
	}
	out = append(out, scriptDesc{Script: "peer-close.hook-unnamed-parked.release-after-return", Kind: "peer-close-hook", Order: "after-return", Frame: "unnamed", Point: "1", Side: "S"})
	if path == "listener" {
		// the far ends of ServeConn'ed client connections all default to the listener's address as id and take each
		// other over (a history op of its own); scripts with more than one connection dial, so that ids are unique
		for i := range out {
			out[i].Via = []string{"dial", "serveconn"}[i%2]
			if out[i].Kind == "setid-mid" || out[i].Kind == "hub-mid" || ((out[i].Kind == "close-pending" || out[i].Kind == "op-while-closing" || strings.HasPrefix(out[i].Kind, "peer-close-")) && out[i].Side == "C") {
				out[i].Via = "dial"
			}
		}
	}
	if full {
		n := len(out)
		for i := 0; i < n; i++ {
			switch out[i].Kind {
			case "accept-insert", "hook-accept", "hook-far", "close-pending", "op-while-closing", "peer-close-hook", "peer-close-close-parked":
				continue
			}
			c := out[i]
			c.Side = "C"
			out = append(out, c)
		}
	}
	return out
}

func match(si *sinfo) func(erpc.Session) bool {
	return func(s erpc.Session) bool { return s == si.sess }
}

const trapWait = 5 * time.Second

// runScript returns the violations or an inconclusive reason.
func runScript(w *world, sd scriptDesc) (vs []viol, inconcl string) {
	via := sd.Via
	if via == "" {
		via = "serveconn"
	}
	newLink := func() *link {
		l, err := w.connect(nil, nil, via, false)
		if err != "" {
			inconcl = "harness: " + err
			return nil
		}
		if w.tcp && !w.quiesce() {
			inconcl = "watchdog"
			return nil
		}
		return l
	}
	pick := func(l *link) (t, o *sinfo) {
		if sd.Side == "C" {
			return l.a, l.b
		}
		return l.b, l.a
	}
	infeasible := func(what string) string { return "ordering infeasible: " + what }
	var remoteCl chan struct{}
	disconnect := func(l *link, o *sinfo) {
		switch sd.Flavour {
		case "cut-reset":
			w.cut(l, true)
		case "remote-close":
			remoteCl = w.goClose(o)
		default:
			w.cut(l, false)
		}
	}
	switch sd.Kind {
	case "rd-parked", "close-parked", "both-rd-first", "both-close-first":
		l := newLink()
		if l == nil {
			return
		}
		t, o := pick(l)
		if !w.quiesce() {
			return nil, "watchdog"
		}
		var cl chan struct{}
		switch sd.Kind {
		case "rd-parked":
			tr := gates.Park("rd.beforeStatusWrite", match(t))
			disconnect(l, o)
			if !tr.WaitArrived(trapWait) {
				return nil, infeasible("the reader did not reach rd.beforeStatusWrite")
			}
			cl = w.goClose(t)
			if ok, _ := w.await(cl); !ok {
				tr.Release()
				return nil, infeasible("Close() did not run to completion while the reader was parked")
			}
			tr.Release()
		case "close-parked":
			tr := gates.Park("close."+sd.Point, match(t))
			cl = w.goClose(t)
			if !tr.WaitArrived(trapWait) {
				return nil, infeasible("Close() did not reach close." + sd.Point)
			}
			disconnect(l, o)
			if !w.quiesce() {
				tr.Release()
				return nil, "watchdog"
			}
			tr.Release()
		case "both-rd-first":
			tr1 := gates.Park("rd."+sd.RdPoint, match(t))
			tr2 := gates.Park("close."+sd.Point, match(t))
			disconnect(l, o)
			if !tr1.WaitArrived(trapWait) {
				return nil, infeasible("the reader did not reach rd." + sd.RdPoint)
			}
			cl = w.goClose(t)
			if !tr2.WaitArrived(trapWait) {
				tr1.Release()
				return nil, infeasible("Close() did not reach close." + sd.Point + " while the reader was parked")
			}
			first, second := tr1, tr2
			if sd.Order == "release-close-first" {
				first, second = tr2, tr1
			}
			first.Release()
			if !w.quiesce() {
				second.Release()
				return nil, "watchdog"
			}
			second.Release()
		case "both-close-first":
			tr2 := gates.Park("close."+sd.Point, match(t))
			cl = w.goClose(t)
			if !tr2.WaitArrived(trapWait) {
				return nil, infeasible("Close() did not reach close." + sd.Point)
			}
			tr1 := gates.Park("rd."+sd.RdPoint, match(t))
			disconnect(l, o)
			if !tr1.WaitArrived(trapWait) {
				tr2.Release()
				return nil, infeasible("the reader did not reach rd." + sd.RdPoint + " while Close() was parked")
			}
			first, second := tr1, tr2
			if sd.Order == "release-close-first" {
				first, second = tr2, tr1
			}
			first.Release()
			if !w.quiesce() {
				second.Release()
				return nil, "watchdog"
			}
			second.Release()
		}
		if ok, _ := w.await(cl); !ok {
			return nil, "Close() has not returned at quiescence after all gates were released (C08's business)"
		}
		if remoteCl != nil {
			if ok, _ := w.await(remoteCl); !ok {
				return nil, "the far end's Close() has not returned at quiescence (C08's business)"
			}
		}
		w.mark(t, "its Close() returned and its connection ended ("+sd.Flavour+")")
		w.mark(o, "its connection ended ("+sd.Flavour+")")
	case "peer-close-hook":
		side := sideS
		if sd.Side == "C" {
			side = sideC
		}
		p := w.peers[side]
		l0 := newLink() // an established connection as well
		if l0 == nil {
			return
		}
		n := 1
		if sd.Point == "2" {
			n = 2
		}
		var dirs []*directive
		var parked []*sinfo
		var lks []*link
		freeAll := func() {
			for _, d := range dirs {
				d.free()
			}
		}
		for i := 0; i < n; i++ {
			d := &directive{park: true, release: make(chan struct{})}
			if sd.Frame == "named" {
				w.idn++
				d.setid = fmt.Sprintf("login%d", w.idn)
			}
			dirs = append(dirs, d)
			var l *link
			var err string
			if side == sideS {
				l, err = w.connect(d, nil, via, false)
			} else {
				l, err = w.connect(nil, d, via, false)
			}
			if err != "" {
				freeAll()
				return nil, "harness: " + err
			}
			select {
			case si := <-w.parked:
				parked = append(parked, si)
			case <-time.After(10 * time.Second):
				freeAll()
				return nil, "harness: the hook was not reached"
			}
			lks = append(lks, l)
		}
		if !w.quiesce() {
			freeAll()
			return nil, "watchdog"
		}
		var indexed []erpc.Session
		inIndex := map[erpc.Session]bool{}
		p.RangeSession(func(s erpc.Session) bool { indexed = append(indexed, s); inIndex[s] = true; return true })
		for _, si := range parked {
			if sd.Frame == "named" && !inIndex[si.sess] {
				freeAll()
				return nil, infeasible("the session named inside its hook is not in the index while the hook is parked")
			}
		}
		var ps *parkState
		var cch chan struct{}
		if sd.Order == "while-waiting" {
			// Peer.Close has to wait: the established session of the peer is running a handler that is parked
			ps = &parkState{arrived: make(chan struct{}, 4), release: make(chan struct{})}
			parkCtl.Store(ps)
			caller := l0.a
			if side == sideC {
				caller = l0.b
			}
			cch = run(func() {
				var res []byte
				caller.sess.Call(w.parkRoute, []byte("held"), &res)
			})
			select {
			case <-ps.arrived:
			case <-time.After(trapWait):
				freeAll()
				return nil, infeasible("the handler that keeps Peer.Close waiting was not reached")
			}
		}
		w.closed[side] = true
		pc := run(func() { p.Close() })
		if sd.Order == "while-waiting" {
			if !w.quiesce() {
				freeAll()
				return nil, "watchdog"
			}
			select {
			case <-pc:
				freeAll()
				return nil, infeasible("Peer.Close() returned although a handler of an established session was still running")
			default:
			}
			freeAll() // the hooks return while Peer.Close is still waiting
			if !w.quiesce() {
				return nil, "watchdog"
			}
			ps.free()
			parkCtl.Store((*parkState)(nil))
			if ok, _ := w.await(pc); !ok {
				return nil, "Peer.Close() has not returned at quiescence (C08's business)"
			}
			w.await(cch)
		} else {
			if ok, _ := w.await(pc); !ok {
				freeAll()
				return nil, "Peer.Close() has not returned at quiescence while hooks were parked (C08's business)"
			}
			core.Add("peer_close_returned_while_hooks_were_parked", 1)
			freeAll() // the hooks return after Peer.Close has returned
		}
		for _, l := range lks {
			ch := l.sdone
			if side == sideC {
				ch = l.cdone
			}
			if ok, _ := w.await(ch); !ok {
				return nil, "harness: ServeConn / Dial did not return after its hook was released"
			}
		}
		if !w.quiesce() {
			return nil, "watchdog"
		}
		for _, si := range parked {
			if si.sess.Health() {
				core.Add("sessions_established_on_a_closed_peer_after_their_hook_returned_"+sd.Frame, 1)
			}
		}
		// Peer.Close() is the local close of every session that was in the index when it was called
		for _, e := range indexed {
			if si := lookup(e); si != nil {
				w.mark(si, "Peer.Close() of its peer returned and it was in the index when Peer.Close() was called")
				w.mark(si.partner(), "the far end of its connection was closed by Peer.Close()")
			}
		}
	case "peer-close-close-parked":
		l := newLink()
		if l == nil {
			return
		}
		x, o := pick(l)
		p := w.peers[x.side]
		if !w.quiesce() {
			return nil, "watchdog"
		}
		tr := gates.Park("close."+sd.Point, match(x))
		cl := w.goClose(x)
		if !tr.WaitArrived(trapWait) {
			return nil, infeasible("Close() did not reach close." + sd.Point)
		}
		w.closed[x.side] = true
		pc := run(func() { p.Close() })
		if !w.quiesce() {
			tr.Release()
			return nil, "watchdog"
		}
		select {
		case <-pc:
			core.Add("peer_close_returned_while_a_session_close_was_parked_"+sd.Point, 1)
		default:
			core.Add("peer_close_waited_for_a_parked_session_close_"+sd.Point, 1)
		}
		tr.Release()
		if ok, _ := w.await(cl); !ok {
			return nil, "Close() has not returned at quiescence after the gate was released (C08's business)"
		}
		if ok, _ := w.await(pc); !ok {
			return nil, "Peer.Close() has not returned at quiescence (C08's business)"
		}
		w.mark(x, "its Close() and Peer.Close() of its peer returned")
		w.mark(o, "the far end of its connection called Close()")
	case "close-pending":
		// X has issued a call whose handler is parked at the far end; X.Close() is waiting for that call; then the
		// connection is lost (nothing else is released) - or, as control, the reply arrives.
		l := newLink()
		if l == nil {
			return
		}
		x, o := pick(l)
		ps := &parkState{arrived: make(chan struct{}, 4), release: make(chan struct{})}
		parkCtl.Store(ps)
		var cst *erpc.Status
		cch := run(func() {
			var res []byte
			cst = x.sess.Call(w.parkRoute, []byte("pending"), &res).Status()
		})
		select {
		case <-ps.arrived:
		case <-time.After(trapWait):
			return nil, infeasible("the far handler was not reached")
		}
		cl := w.goClose(x)
		if !w.quiesce() {
			return nil, "watchdog"
		}
		select {
		case <-cl:
			return nil, infeasible("Close() returned although a call issued by the session was still unanswered")
		default:
		}
		if st := erpc.VerifStatus(x.sess); st != 2 {
			return nil, infeasible("Close() is not waiting in activeClosing (status " + stName(st) + ")")
		}
		switch sd.Flavour {
		case "reply":
			ps.free()
		case "cut-eof": // in-memory: both directions severed, EOF; TCP: the closing session's own descriptor is closed under it
			if c, ok := x.raw.(*memconn.Conn); ok {
				c.Sever(false)
			} else if x.raw != nil {
				x.raw.Close()
			}
		case "cut-reset":
			if c, ok := o.raw.(*memconn.Conn); ok {
				c.Sever(true)
			} else if c, ok := o.raw.(*net.TCPConn); ok {
				c.SetLinger(0)
				c.Close()
			}
		case "remote-close": // the far end's transport goes away (its session cannot Close(): its handler is parked)
			if o.raw != nil {
				o.raw.Close()
			}
		}
		q := quiesce.Wait(w.qopt())
		core.Add("quiescent_points", 1)
		if !q.Quiescent {
			return nil, "watchdog"
		}
		var set vset
		closed := false
		select {
		case <-cl:
			closed = true
		default:
			blocked := quiesce.Brief(quiesce.Blocked(q.Dump, "github.com/henrylee2cn/erpc/v6.(*session).closeLocked"))
			if len(blocked) > 2 {
				blocked = blocked[:2]
			}
			set.add("close-not-returned", fmt.Sprintf("%s: Close() was waiting for an unanswered outgoing call when the connection was lost (%s); at quiescence Close() has not returned, status %s, PostDisconnect ran %d times; blocked: %v",
				x.name(), sd.Flavour, stName(erpc.VerifStatus(x.sess)), atomic.LoadInt32(&x.disc), blocked))
		}
		callDone := false
		select {
		case <-cch:
			callDone = true
		default:
		}
		w.mark(x, "its Close() was called and its connection ended ("+sd.Flavour+")")
		w.settle()
		first, _ := w.check(false)
		for _, v := range first {
			set.add(v.sym, v.what)
		}
		if st := erpc.VerifStatus(x.sess); st != 3 && st != 5 {
			set.add("not-in-closed-state", fmt.Sprintf("%s: status is %s at the quiescent point after Close() and the loss of the connection", x.name(), stName(st)))
		}
		if closed && callDone {
			core.Add("pending_calls_completed_by_close_or_loss", 1)
			if sd.Flavour == "reply" && cst.OK() {
				core.Add("pending_calls_answered_during_close", 1)
			}
		}
		if len(set.vs) > 0 {
			return set.vs, ""
		}
		if !callDone {
			return nil, "the pending call is incomplete at quiescence although Close() returned (C02's business)"
		}
		// now let the far handler go: the far end finishes its own (passive) shutdown
		ps.free()
		parkCtl.Store((*parkState)(nil))
		w.mark(o, "the far end of its connection called Close() / its connection ended")
	case "op-while-closing":
		l := newLink()
		if l == nil {
			return
		}
		x, o := pick(l)
		ps := &parkState{arrived: make(chan struct{}, 4), release: make(chan struct{}), cmd: make(chan func(erpc.CtxSession))}
		parkCtl.Store(ps)
		defer parkCtl.Store((*parkState)(nil))
		caller := x // call-pending: x waits for the reply to its own call
		if sd.Order == "handler-running" {
			caller = o // the far end's call is being handled on x
		}
		var cst *erpc.Status
		cch := run(func() {
			var res []byte
			cst = caller.sess.Call(w.parkRoute, []byte("held"), &res).Status()
		})
		select {
		case <-ps.arrived:
		case <-time.After(trapWait):
			return nil, infeasible("the parked handler was not reached")
		}
		cl := w.goClose(x)
		if !w.quiesce() {
			ps.free()
			return nil, "watchdog"
		}
		select {
		case <-cl:
			ps.free()
			return nil, infeasible("Close() returned although a handler / an outgoing call of the session was still in progress")
		default:
		}
		if st := erpc.VerifStatus(x.sess); st != 2 {
			ps.free()
			return nil, infeasible("Close() is not waiting in activeClosing (status " + stName(st) + ")")
		}
		// the new operation on the closing session
		var ost *erpc.Status
		var och chan struct{}
		switch sd.Frame {
		case "push":
			och = run(func() { ost = x.sess.Push(w.pushRoute, []byte("late")) })
		case "call":
			och = run(func() {
				var res []byte
				ost = x.sess.Call(w.callRoute, []byte("late"), &res).Status()
			})
		case "setid":
			// an id change while the close is waiting: the closing session must not (re)appear in the index
			och = run(func() {
				x.sess.SetID("renamed-while-closing-" + x.name())
				ost = erpc.NewStatus(erpc.CodeConnClosed, "", "")
			})
		case "handler-push", "handler-call", "handler-setid":
			och = make(chan struct{})
			f := func(cs erpc.CtxSession) {
				defer close(och)
				if sd.Frame == "handler-setid" {
					x.sess.SetID("renamed-by-its-handler-" + x.name()) // the handler keeps the Session value of its connection
					ost = erpc.NewStatus(erpc.CodeConnClosed, "", "")
				} else if sd.Frame == "handler-push" {
					ost = cs.Push(w.pushRoute, []byte("late-from-handler"))
				} else {
					var res []byte
					ost = cs.Call(w.callRoute, []byte("late-from-handler"), &res).Status()
				}
			}
			select {
			case ps.cmd <- f:
			case <-time.After(trapWait):
				ps.free()
				return nil, infeasible("the parked handler did not take the command")
			}
		}
		q := quiesce.Wait(w.qopt())
		core.Add("quiescent_points", 1)
		if !q.Quiescent {
			ps.free()
			return nil, "watchdog"
		}
		var set vset
		select {
		case <-och:
			core.Add("operations_issued_while_close_waited", 1)
			if ost.Code() != erpc.CodeConnClosed {
				set.add("new-op-not-connection-closed", fmt.Sprintf("%s: a %s issued while its Close() was waiting (%s) returned %s instead of a connection-closed status", x.name(), sd.Frame, sd.Order, statStr(ost)))
			}
		default:
			blocked := quiesce.Brief(quiesce.Blocked(q.Dump, "github.com/henrylee2cn/erpc/v6.(*session)."))
			if len(blocked) > 3 {
				blocked = blocked[:3]
			}
			set.add("new-op-blocked-while-close-waits", fmt.Sprintf("%s: a %s issued while its Close() was waiting (%s) has not returned at quiescence - it does not fail fast; blocked: %v", x.name(), sd.Frame, sd.Order, blocked))
		}
		select {
		case <-cl:
			set.add("close-returned-early", fmt.Sprintf("%s: Close() returned while the handler / outgoing call it waits for was still in progress (after a new %s was issued)", x.name(), sd.Frame))
		default:
		}
		if len(set.vs) > 0 {
			ps.free()
			w.await(cl)
			return set.vs, ""
		}
		// the handler returns: the close completes
		ps.free()
		if done, wd := w.await(cl); !done {
			if wd {
				return nil, "watchdog"
			}
			blocked := quiesce.Brief(quiesce.Blocked(quiesce.Wait(w.qopt()).Dump, "github.com/henrylee2cn/erpc/v6.(*session)."))
			set.add("close-not-returned", fmt.Sprintf("%s: the handler it waited for has returned and Close() has still not returned at quiescence (a new %s had been issued meanwhile); blocked: %v", x.name(), sd.Frame, blocked))
			return set.vs, ""
		}
		if done, _ := w.await(cch); done && sd.Order == "handler-running" && !cst.OK() {
			core.Add("held_calls_not_answered_ok", 1) // C08's business
		}
		w.mark(x, "its Close() was called")
		w.mark(o, "the far end of its connection called Close()")
	case "frame-vs-close":
		l := newLink()
		if l == nil {
			return
		}
		t, o := pick(l)
		tr := gates.Park("read.beforeGo", match(t))
		var cch chan struct{}
		if sd.Frame == "push" {
			o.sess.Push(w.pushRoute, []byte("late"))
		} else {
			cch = run(func() {
				var res []byte
				o.sess.Call(w.callRoute, []byte("late"), &res)
			})
		}
		if !tr.WaitArrived(trapWait) {
			return nil, infeasible("the reader did not reach read.beforeGo")
		}
		cl := w.goClose(t)
		if ok, _ := w.await(cl); !ok {
			tr.Release()
			return nil, infeasible("Close() did not run to completion while the reader was parked with an accepted frame")
		}
		tr.Release()
		if cch != nil {
			if ok, _ := w.await(cch); !ok {
				return nil, "the caller of the late frame is incomplete at quiescence (C02's business)"
			}
		}
		w.mark(t, "its Close() returned")
		w.mark(o, "the far end of its connection called Close()")
	case "setid-mid":
		l1, l2 := newLink(), newLink()
		if l1 == nil || l2 == nil {
			return
		}
		x, xo := pick(l1)
		y, _ := pick(l2)
		x.sess.SetID("a")
		tr := gates.Park("setid.betweenSetAndDelete", match(x))
		sch := run(func() { x.sess.SetID("b") })
		if !tr.WaitArrived(trapWait) {
			return nil, infeasible("SetID did not reach setid.betweenSetAndDelete")
		}
		switch sd.Order {
		case "other-takes-old-id":
			if ok, _ := w.await(run(func() { y.sess.SetID("a") })); !ok {
				tr.Release()
				return nil, infeasible("the other session's SetID did not complete while the first was parked")
			}
		case "same-closes":
			if ok, _ := w.await(w.goClose(x)); !ok {
				tr.Release()
				return nil, infeasible("Close() did not complete while SetID was parked")
			}
			w.mark(x, "its Close() returned")
			w.mark(xo, "the far end of its connection called Close()")
		case "same-cut":
			w.cut(l1, false)
			if !w.quiesce() {
				tr.Release()
				return nil, "watchdog"
			}
			w.mark(x, "its connection was cut")
			w.mark(xo, "its connection was cut")
		}
		tr.Release()
		if ok, _ := w.await(sch); !ok {
			return nil, "SetID has not returned at quiescence"
		}
	case "hub-mid":
		l1, l2 := newLink(), newLink()
		if l1 == nil || l2 == nil {
			return
		}
		o, oo := pick(l1)
		n, _ := pick(l2)
		o.sess.SetID("a")
		tr := gates.Park("hub.betweenLoadAndStore", match(n))
		sch := run(func() { n.sess.SetID("a") })
		if !tr.WaitArrived(trapWait) {
			return nil, infeasible("SetID did not reach hub.betweenLoadAndStore")
		}
		switch sd.Order {
		case "older-closes":
			if ok, _ := w.await(w.goClose(o)); !ok {
				tr.Release()
				return nil, infeasible("Close() of the older session did not complete while the newer one was parked")
			}
		case "older-cut":
			w.cut(l1, true)
			if !w.quiesce() {
				tr.Release()
				return nil, "watchdog"
			}
		case "third-takes-id":
			l3 := newLink()
			if l3 == nil {
				tr.Release()
				return
			}
			t3, _ := pick(l3)
			if ok, _ := w.await(run(func() { t3.sess.SetID("a") })); !ok {
				tr.Release()
				return nil, infeasible("the third session's SetID did not complete while the second was parked")
			}
		}
		tr.Release()
		if ok, _ := w.await(sch); !ok {
			return nil, "SetID has not returned at quiescence"
		}
		w.mark(o, "it closed itself / lost its connection / its id was taken over by newer sessions")
		w.mark(oo, "the far end of its connection is gone")
	case "accept-insert":
		dS := &directive{setid: "z1"}
		tr := gates.Park("hub.betweenLoadAndStore", func(s erpc.Session) bool { return s.ID() == "z1" })
		l, err := w.connect(dS, nil, "serveconn", true)
		if err != "" {
			return nil, "harness: " + err
		}
		if !tr.WaitArrived(trapWait) {
			return nil, infeasible("ServeConn did not reach hub.betweenLoadAndStore")
		}
		// In the pinned tree the read loop is already running here. If an implementation inserts before it starts
		// the read loop, the disconnect simply happens before the session is established: the script still ends in
		// a state the clauses can judge.
		if l.b.established() && l.b.sess.Health() {
			core.Add("accept_insert_after_read_loop_start_observed", 1)
		}
		disconnect(l, l.a)
		if !w.quiesce() {
			tr.Release()
			return nil, "watchdog"
		}
		tr.Release()
		if ok, _ := w.await(l.sdone); !ok {
			return nil, "ServeConn has not returned at quiescence"
		}
		if remoteCl != nil {
			w.await(remoteCl)
		}
		w.mark(l.a, "its connection ended ("+sd.Flavour+")")
		w.mark(l.b, "its connection ended ("+sd.Flavour+") while ServeConn had not yet inserted it into the index")
	case "hook-accept":
		// the far end is a script: one valid frame is in the connection before the accept hook returns
		mtype, method := erpc.TypeCall, w.callRoute
		if sd.Frame == "push" {
			mtype, method = erpc.TypePush, w.pushRoute
		}
		raw := protos.ByName("raw")
		fr, perr := rawpeer.Pack(raw, wire.Spec{Seq: 1, Mtype: mtype, Method: method, Codec: codec.ID_PLAIN, Body: []byte("early"), Class: map[string]string{}})
		if perr != nil {
			return nil, "harness: " + perr.Error()
		}
		dS := &directive{park: true, release: make(chan struct{})}
		w.pushDirs(dS, &directive{})
		var rc *rawpeer.Conn
		var tc net.Conn
		var sdone chan struct{}
		if !w.tcp {
			sdone = run(func() { rc = rawpeer.Dial(w.peers[sideS], raw.Func, func(c *rawpeer.Conn) { c.Write(fr[0]) }) })
		} else {
			var err error
			tc, err = net.Dial("tcp", w.addr)
			if err != nil {
				return nil, "harness: " + err.Error()
			}
			w.conns = append(w.conns, tc)
			tc.Write(fr[0])
		}
		var b *sinfo
		select {
		case b = <-w.parked:
		case <-time.After(10 * time.Second):
			dS.free()
			return nil, "harness: the accept hook was not reached"
		}
		core.Add("frames_preloaded_before_hook_return", 1)
		if !w.quiesce() {
			dS.free()
			return nil, "watchdog"
		}
		var set vset
		if b.sess.Health() {
			set.add("healthy-before-hooks", fmt.Sprintf("%s reports Health()=true while its accept hook is still running", b.name()))
		}
		if n := len(b.stamps()); n > 0 {
			set.add("handler-before-hooks", fmt.Sprintf("%s: %d handler(s) entered while its accept hook is still running", b.name(), n))
		}
		dS.free()
		if sdone != nil {
			if ok, _ := w.await(sdone); !ok {
				return set.vs, "ServeConn has not returned at quiescence"
			}
		}
		if !w.quiesce() {
			return set.vs, "watchdog"
		}
		if len(b.stamps()) > 0 {
			core.Add("preloaded_frames_handled_after_hook_return", 1)
		}
		more, _ := w.check(false)
		for _, m := range more {
			set.add(m.sym, m.what)
		}
		if len(set.vs) > 0 {
			return set.vs, ""
		}
		if rc != nil {
			rc.Close()
		}
		if tc != nil {
			tc.Close()
		}
		w.mark(b, "the far end closed the connection")
	case "hook-far":
		// the far side's hook (PostDial on the listener path, PostAccept over memconn) is parked while the
		// accepting side, already established, pushes a frame to it
		dC := &directive{park: true, release: make(chan struct{})}
		l, err := w.connect(nil, dC, via, false)
		if err != "" {
			dC.free()
			return nil, "harness: " + err
		}
		select {
		case <-w.parked:
		case <-time.After(10 * time.Second):
			dC.free()
			return nil, "harness: the far hook was not reached"
		}
		if !l.b.established() {
			dC.free()
			return nil, infeasible("the accepting side is not established while the far hook is parked")
		}
		l.b.sess.Push(w.pushRoute, []byte("early"))
		core.Add("frames_preloaded_before_hook_return", 1)
		if !w.quiesce() {
			dC.free()
			return nil, "watchdog"
		}
		var set vset
		if l.a.sess.Health() {
			set.add("healthy-before-hooks", fmt.Sprintf("%s reports Health()=true while its %s hook is still running", l.a.name(), l.a.via))
		}
		if n := len(l.a.stamps()); n > 0 {
			set.add("handler-before-hooks", fmt.Sprintf("%s: %d handler(s) entered while its %s hook is still running", l.a.name(), n, l.a.via))
		}
		dC.free()
		if ok, _ := w.await(l.cdone); !ok {
			return set.vs, "the far side has not got through its hook at quiescence"
		}
		if !w.quiesce() {
			return set.vs, "watchdog"
		}
		if len(l.a.stamps()) > 0 {
			core.Add("preloaded_frames_handled_after_hook_return", 1)
		}
		if len(set.vs) > 0 {
			return set.vs, ""
		}
		if ok, _ := w.await(w.goClose(l.a)); ok {
			w.mark(l.a, "its Close() returned")
			w.mark(l.b, "the far end of its connection called Close()")
		}
	default:
		return nil, "harness: unknown script kind " + sd.Kind
	}
	return w.judge(false)
}

func doScript(id, path string, sd scriptDesc) {
	desc := caseDesc{Class: "gate", Path: path, Script: &sd}
	defer timing(id+" "+sd.Script, time.Now())
	core.Begin(id, desc)
	gates.Reset()
	if sd.Delay > 0 {
		gates.SetDelay(sd.Delay, 150)
	}
	gates.Record(true)
	w := newWorld(path)
	defer w.teardown()
	vs, inc := runScript(w, sd)
	// gate-hit order actually observed on the sessions of this world
	var seq []string
	for _, h := range gates.Hits() {
		si := lookup(h.Sess)
		if si == nil {
			continue
		}
		p := h.Point
		if strings.HasPrefix(p, "close.") || strings.HasPrefix(p, "rd.") || strings.HasPrefix(p, "read.") || strings.HasPrefix(p, "setid.") || strings.HasPrefix(p, "hub.") {
			seq = append(seq, si.name()+":"+p)
		}
	}
	gates.Record(false)
	core.Add("evaluations", 1)
	core.Add("gate_scripts", 1)
	core.Distinct("gate_hit_orders", sd.Script+"|"+strings.Join(seq, ","))
	core.Distinct("nontrivial", fmt.Sprintf("%s:gate/%s/%s/%s%s/side=%s", path, sd.Script, sd.Point+sd.RdPoint, sd.Flavour, sd.Frame, sd.Side))
	if len(vs) > 0 {
		if len(seq) > 60 {
			seq = seq[:60]
		}
		report(id, desc, "gate/"+sd.Script, vs, map[string]interface{}{"gate_hits": seq, "state_at_failure": w.dump()})
		return
	}
	if inc != "" {
		core.Add("gate_scripts_inconclusive", 1)
		core.Result(core.R{ID: id, Verdict: core.Inconclusive, What: sd.Script + ": " + inc})
		return
	}
	core.Result(core.R{ID: id, Verdict: core.Held})
}

// ---------------------------------------------------------------------------------------------

type discard struct{}

func (discard) Output(calldepth int, msgBytes []byte, loggerLevel erpc.LoggerLevel) {}
func (discard) Flush() error                                                        { return nil }

func main() {
	flag.Parse()
	core.Prop = *prop
	wire.RegFilters()
	bed.Init("OFF")
	erpc.SetLoggerOutputter(discard{})
	gates.Install()
	erpc.VerifSetStatusObserver(observe)
	defer func() {
		core.Add("status_transitions_observed", atomic.LoadInt64(&nTrans))
		core.Add("handler_invocations", atomic.LoadInt64(&nHand))
		core.Add("gate_hits", gates.Total())
		core.Finish()
	}()

	if *replay != "" {
		b, err := os.ReadFile(*replay)
		if err != nil {
			core.Fatalf("replay: %v", err)
		}
		var f struct {
			Desc caseDesc `json:"desc"`
		}
		if err := json.Unmarshal(b, &f); err != nil || f.Desc.Class == "" {
			core.Fatalf("replay: no case description in %s (%v)", *replay, err)
		}
		switch f.Desc.Class {
		case "history":
			doHistory("replay", f.Desc.Path, f.Desc.Ops)
		case "concurrent":
			doConcurrent("replay", f.Desc.Path, *f.Desc.Conc)
		case "gate":
			doScript("replay", f.Desc.Path, *f.Desc.Script)
		}
		return
	}

	nHist, maxOps, maxOpsTCP, nConc, delaySeeds := 200, 25, 10, 24, 1
	full := false
	if *tier == "thorough" {
		nHist, maxOps, maxOpsTCP, nConc, delaySeeds, full = 5000, 60, 20, 300, 5, true
	}
	k := 0 // global case counter for batch assignment
	mine := func() bool { k++; return (k-1)%*nbatch == *batch }

	// gate scripts first (short, deterministic), both acceptance paths
	for ds := 0; ds < delaySeeds; ds++ {
		for _, path := range []string{"serveconn", "listener"} {
			list := scriptList(path, full)
			for i, sd := range list {
				if path == "listener" && !full {
					// quick: the core of every family on the real accept loop
					switch sd.Kind {
					case "close-parked":
						if sd.Point != "afterCAS" || sd.Flavour != "cut-eof" {
							continue
						}
					case "both-close-first", "setid-mid", "hub-mid":
						if i%2 == 1 {
							continue
						}
					}
				}
				if !mine() {
					continue
				}
				if ds > 0 {
					sd.Delay = *seed*100 + int64(ds)
				}
				doScript(fmt.Sprintf("g%d.%s.%03d", ds, path[:1], i), path, sd)
			}
		}
	}
	// directed histories: a hook names the session and then refuses (or, as control, accepts) the connection -
	// in the accepting peer's PostAccept hook, in the far peer's PostAccept hook, in the far peer's PostDial hook;
	// with a fresh id and with the id of a live session; on both acceptance paths
	di := 0
	for _, path := range []string{"serveconn", "listener"} {
		for _, k := range []string{"hook-setid-reject", "hook-setid-accept"} {
			for side := 0; side < 2; side++ {
				for _, dial := range []int{0, 1} {
					if dial == 1 && (path != "listener" || side == 0) {
						continue // only the far end of the listener path dials
					}
					for _, collide := range []int{0, 2} {
						ops := []op{{K: "accept", V: 1}, {K: "accept", V: 5},
							{K: k, Side: side, V: dial + collide + 4*di},
							{K: "call", L: 0, Side: side}, {K: "peer-close", Side: 0}, {K: "peer-close", Side: 1}}
						di++
						if !mine() {
							continue
						}
						doHistory(fmt.Sprintf("d%03d", di-1), path, ops)
					}
				}
			}
		}
	}
	// directed histories "hook-modsock": two connections whose hook wraps the connection with ModifySocket (each
	// order of SetID and ModifySocket, ModifySocket alone, twice, with the protocol function), traffic in both
	// directions over the wrapped connections, then one is cut: ids and index entries must be as without the wrapper
	for _, path := range []string{"serveconn", "listener"} {
		for side := 0; side < 2; side++ {
			for _, dial := range []int{0, 1} {
				if dial == 1 && (path != "listener" || side == 0) {
					continue
				}
				for oi := range modsockOrders {
					v := dial + 4*oi
					ops := []op{{K: "accept", V: 1}, {K: "hook-modsock", Side: side, V: v}, {K: "hook-modsock", Side: side, V: v},
						{K: "call", L: 1, Side: 0}, {K: "call", L: 1, Side: 1}, {K: "call", L: 2, Side: 1 - side}, {K: "push", L: 2, Side: side},
						{K: "cut-eof", L: 1}, {K: "call", L: 1, Side: side}, {K: "peer-close", Side: 0}, {K: "peer-close", Side: 1}}
					di++
					if !mine() {
						continue
					}
					doHistory(fmt.Sprintf("d%03d", di-1), path, ops)
				}
			}
		}
	}
	// directed histories "takeover-then-setid-on-loser": A has id X; B takes X over (SetID colliding, an id set in
	// the accept hook, or - listener path - the shared default id of a second ServeConn'ed client connection),
	// which closes A; then the ended A is renamed, directly or by its PostDisconnect hook: B must stay indexed
	for _, path := range []string{"serveconn", "listener"} {
		for side := 0; side < 2; side++ {
			tails := []op{{K: "call", L: 1, Side: side}, {K: "peer-close", Side: 0}, {K: "peer-close", Side: 1}}
			var hs [][]op
			hs = append(hs, []op{{K: "accept", V: 1}, {K: "accept", V: 5}, {K: "setid-collide", L: 1, Side: side, V: 64}, {K: "setid-loser", Side: side}})
			hs = append(hs, []op{{K: "accept", V: 1}, {K: "accept", V: 5}, {K: "takeover-hook-rename", L: 1, Side: side}})
			if side == 0 {
				hs = append(hs, []op{{K: "accept", V: 1}, {K: "accept-setid", V: 2}, {K: "setid-loser", Side: 0}})
			} else if path == "listener" {
				hs = append(hs, []op{{K: "accept", V: 0}, {K: "accept", V: 4}, {K: "setid-loser", Side: 1}})
			}
			for _, h := range hs {
				ops := append(append([]op(nil), h...), tails...)
				di++
				if !mine() {
					continue
				}
				doHistory(fmt.Sprintf("d%03d", di-1), path, ops)
			}
		}
	}
	// histories
	for i := 0; i < nHist; i++ {
		path, mo := "serveconn", maxOps
		if i%10 == 9 {
			path, mo = "listener", maxOpsTCP
		}
		ops := genOps(core.NewRand(*seed, int64(i), 7), mo)
		if !mine() {
			continue
		}
		if i < 40 && i%10 >= 8 {
			core.Sample(map[string]interface{}{"class": "history", "path": path, "ops": ops})
		}
		doHistory(fmt.Sprintf("h%05d", i), path, ops)
	}
	// concurrent phase
	for i := 0; i < nConc; i++ {
		path := "serveconn"
		if full && i%6 == 5 {
			path = "listener"
		}
		r := core.NewRand(*seed, int64(i), 13)
		cd := concDesc{Collide: i%2 == 0, Seed: int64(r.Uint64() >> 2), Links: 3 + r.Intn(3), Workers: 8, OpsPer: 10 + r.Intn(10), Delay: []int{0, 100, 250}[r.Intn(3)]}
		if !mine() {
			continue
		}
		doConcurrent(fmt.Sprintf("c%04d", i), path, cd)
	}
}
