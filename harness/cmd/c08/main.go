// Worker for C08: graceful close loses no reply and waits for running handlers.
//
// Events carry stamps from one atomic logical clock: call issued / completed, handler enter / exit,
// reply frame on the wire (write tap), Close() called / returned. The oracle compares stamps, never
// wall-clock time.
package main

import (
	"bytes"
	"encoding/json"
	"flag"
	"fmt"
	"os"
	"runtime"
	"sort"
	"strings"
	"sync"
	"sync/atomic"
	"time"

	erpc "github.com/henrylee2cn/erpc/v6"
	"github.com/henrylee2cn/erpc/v6/codec"

	"verifharness/bed"
	"verifharness/core"
	"verifharness/gates"
	"verifharness/memconn"
	"verifharness/protos"
	"verifharness/quiesce"
	"verifharness/wire"
)

var (
	prop   = flag.String("prop", "C08", "")
	tier   = flag.String("tier", "quick", "")
	seed   = flag.Int64("seed", 1, "")
	batch  = flag.Int("batch", 0, "")
	nbatch = flag.Int("nbatch", 1, "")
	replay = flag.String("replay", "", "")
)

// smallPool: the last batches of a run are processes whose process-wide goroutine pool is this small
// (erpc.SetGopool before the first peer exists); the scenarios they run fill what is left of it with
// parked goroutines (erpc.Go) so that messages are handled by the reading goroutines themselves.
const smallPool = 16

var clock int64

func stamp() int64 { return atomic.AddInt64(&clock, 1) }

type callRec struct {
	tok       string
	dir       string // "toX" handled by the closing side X, "fromX" issued by X
	issued    int64
	enter     int64
	exit      int64
	replyWire int64
	completed int64
	cmd       erpc.CallCmd
	out       []byte
	inline    int32 // 1: the handler ran on the session's reading goroutine (the pool had no room)
}

type caseState struct {
	mu    sync.Mutex
	calls map[string]*callRec
	holdX chan struct{} // handlers of the closing side park on it when non-nil ("inside" placement)
	holdY chan struct{} // handlers of the other side (calls issued by the closing side) park on it when non-nil
	sleep func(tok string)

	watchInline bool  // count the handlers that run on a reading goroutine
	inline      int64 // call/push handlers run by a reading goroutine
	latePush    int64 // pushes handled that arrived while Close() was waiting
}

// onReader tells whether the caller runs on a session's reading goroutine (the message was handled inline
// because the goroutine pool had no room) rather than on a pool goroutine of its own.
func onReader() bool {
	var pcs [64]uintptr
	n := runtime.Callers(2, pcs[:])
	fr := runtime.CallersFrames(pcs[:n])
	for {
		f, more := fr.Next()
		if strings.HasSuffix(f.Function, ".startReadAndHandle") {
			return true
		}
		if !more {
			return false
		}
	}
}

var cur atomic.Value // *caseState

func state() *caseState { s, _ := cur.Load().(*caseState); return s }

func (cs *caseState) rec(tok string) *callRec {
	cs.mu.Lock()
	defer cs.mu.Unlock()
	return cs.calls[tok]
}

// H is the call handler on both peers.
func H(ctx erpc.CallCtx, arg *[]byte) ([]byte, *erpc.Status) {
	cs := state()
	tok := string(*arg)
	var r *callRec
	if cs != nil {
		r = cs.rec(tok)
	}
	if r != nil {
		atomic.StoreInt64(&r.enter, stamp())
	}
	if cs != nil && cs.watchInline && onReader() {
		atomic.AddInt64(&cs.inline, 1)
		if r != nil {
			atomic.StoreInt32(&r.inline, 1)
		}
	}
	if cs != nil {
		cs.mu.Lock()
		var h chan struct{}
		if r != nil {
			switch r.dir {
			case "toX":
				h = cs.holdX
			case "fromX":
				h = cs.holdY
			}
		}
		sl := cs.sleep
		cs.mu.Unlock()
		if h != nil {
			<-h
		}
		if sl != nil {
			sl(tok)
		}
	}
	if r != nil {
		atomic.StoreInt64(&r.exit, stamp())
	}
	return []byte("R:" + tok), nil
}

// HP is a push handler (earlier one-way traffic, and pushes that arrive while Close() waits).
func HP(ctx erpc.PushCtx, arg *[]byte) *erpc.Status {
	if cs := state(); cs != nil && string(*arg) == "late" {
		atomic.AddInt64(&cs.latePush, 1)
		if cs.watchInline && onReader() {
			atomic.AddInt64(&cs.inline, 1)
		}
	}
	return nil
}

type scenario struct {
	Proto   string `json:"proto"`
	K       int    `json:"calls_to_closing_side"`
	K2      int    `json:"calls_from_closing_side"`
	Point   string `json:"handlers_parked_at"`
	Closer  string `json:"closer"` // session | peer | double (two concurrent Session.Close calls)
	Class   string `json:"class"`
	Sess    int    `json:"sessions"`
	DelayPM int    `json:"gate_delay_permille"`
	PrePush int    `json:"pushes_sent_by_closing_side_before"` // earlier one-way traffic of the closing side on the same sessions
	AgeMS   int    `json:"closing_side_session_age_ms"`        // > 0: the closing side's sessions have this age; it runs out while Close() waits for the handlers
	Cut     string `json:"connection_lost_while_close_waits"`  // "", "eof", "reset": the far side's connection ends while Close() waits for the handlers (replies may be lost then; Close still waits)
	// Pool > 0: the process-wide goroutine pool has this size (set before the first peer of the process exists).
	Pool int `json:"goroutine_pool_size"`
	// Fill: the rest of that pool is occupied by parked goroutines (erpc.Go until it reports no room), so that
	// messages arriving afterwards are handled by the reading goroutine of their session:
	// "before-the-calls" (every call is handled inline: one handler per session is entered, on the reader) or
	// "after-the-handlers-entered" (the handlers entered before Close() own pool goroutines; what arrives later is handled inline).
	Fill string `json:"pool_filled"`
	// Late: what arrives on the closing sessions while Close() waits for the handlers entered before it:
	// "call", "push", "mixed" (calls and pushes alternating; with "mixed" also the replies), or
	// "reply" (the replies to the calls the closing side issued before Close()).
	Late  string `json:"arrivals_while_close_waits"`
	LateN int    `json:"arrivals_per_session"`
}

// ext: scenarios of the extended flow (the two sides' handlers are parked separately; the pool may be filled;
// messages may arrive while Close() waits)
func (sc scenario) ext() bool { return sc.Fill != "" || sc.Late != "" }

// occupy parks goroutines of the process-wide pool until it has no room left; it returns their release channels.
func occupy() (chs []chan struct{}, full bool) {
	for len(chs) < 4*smallPool {
		ch := make(chan struct{})
		if !erpc.Go(func() { <-ch }) {
			return chs, true
		}
		chs = append(chs, ch)
	}
	return chs, false
}

type viol struct{ sym, what string }

// fp is the structural fingerprint of a violation: protocol / parking point / closer [/ pool and arrival class] / symptom.
func (sc scenario) fp(sym string) string {
	cfg := ""
	switch {
	case sc.Fill != "":
		cfg = "pool-full-" + sc.Fill
	case sc.Pool > 0:
		cfg = "small-pool"
	}
	if sc.Late != "" {
		if cfg != "" {
			cfg += "+"
		}
		cfg += "late-" + sc.Late
	}
	if cfg != "" {
		cfg += "/"
	}
	return fmt.Sprintf("C08/%s/%s/%s/%s%s", sc.Proto, sc.Point, sc.Closer, cfg, sym)
}

func settle() quiesce.Result { return quiesce.Wait(quiesce.Options{Timeout: 30 * time.Second}) }

func runScenario(id string, sc scenario, r *core.Rand) {
	p := protos.ByName(sc.Proto)
	core.Begin(id, sc)
	core.Add("evaluations", 1)
	cs := &caseState{calls: map[string]*callRec{}}
	cur.Store(cs)
	gates.Reset()
	if sc.DelayPM > 0 {
		gates.SetDelay(int64(r.Uint64()>>1), sc.DelayPM)
	}
	// X closes; Y is the other side
	px := erpc.NewPeer(erpc.PeerConfig{DefaultSessionAge: time.Duration(sc.AgeMS) * time.Millisecond})
	py := erpc.NewPeer(erpc.PeerConfig{})
	connected := time.Now()
	route := px.RouteCallFunc(H)
	py.RouteCallFunc(H)
	proute := px.RoutePushFunc(HP)
	py.RoutePushFunc(HP)
	type link struct {
		*bed.Link
		xw, yw *tapLog
	}
	var links []*link
	for i := 0; i < sc.Sess; i++ {
		xw, yw := &tapLog{}, &tapLog{}
		connect := bed.Connect
		if !p.Stream {
			// websocket sub-protocol: real handshake and framing; the closing side X is the websocket SERVER (the shipped
			// serve handler owns the hijacked connection), whose frames are unmasked, so that reply tokens show in its writes
			connect = func(a, b erpc.Peer, pfa, _ erpc.ProtoFunc, prep func(ca, cb *memconn.Conn)) (*bed.Link, error) {
				return bed.ConnectWS(a, b, pfa, prep)
			}
		}
		l, err := connect(py, px, p.Func, p.Func, func(ca, cb *memconn.Conn) {
			ca.SetWriteTap(yw.tap) // Y's writes
			cb.SetWriteTap(xw.tap) // X's writes
		})
		if err != nil {
			core.Result(core.R{ID: id, Verdict: core.Inconclusive, What: "connect: " + err.Error()})
			return
		}
		links = append(links, &link{l, xw, yw})
	}
	// l.A is Y's session, l.B is X's session
	isX := func(s erpc.Session) bool {
		for _, l := range links {
			if s == l.B {
				return true
			}
		}
		return false
	}
	isAny := func(s erpc.Session) bool {
		for _, l := range links {
			if s == l.B || s == l.A {
				return true
			}
		}
		return false
	}
	// the closing side (and its peer) have pushed before on these sessions; everything has settled before the calls start
	if sc.PrePush > 0 {
		for _, l := range links {
			for i := 0; i < sc.PrePush; i++ {
				l.B.Push(proute, []byte("pre"), erpc.WithBodyCodec(codec.ID_PLAIN))
				if i%2 == 0 {
					l.A.Push(proute, []byte("pre"), erpc.WithBodyCodec(codec.ID_PLAIN))
				}
			}
		}
		settle()
	}
	total := (sc.K + sc.K2) * sc.Sess
	ext := sc.ext()
	cs.watchInline = sc.Pool > 0
	// in the extended flow the other side's handlers (for the calls the closing side issued) park only when their
	// replies are to arrive while Close() waits
	holdYLate := ext && sc.K2 > 0 && (sc.Late == "reply" || sc.Late == "mixed")
	// expectX: how many handlers of the closing side reach the parking point before Close()
	expectX := sc.K * sc.Sess
	if sc.Fill == "before-the-calls" && sc.K > 0 {
		expectX = sc.Sess // the reading goroutine of each session handles its first call itself and parks in it
	}
	var trap *gates.Trap
	switch sc.Point {
	case "inside":
		cs.holdX = make(chan struct{})
		if !ext {
			cs.holdY = cs.holdX
		}
	case "random":
		rs := uint64(r.Uint64() | 1)
		var rmu sync.Mutex
		cs.sleep = func(string) {
			rmu.Lock()
			rs ^= rs << 13
			rs ^= rs >> 7
			rs ^= rs << 17
			v := rs % 8
			rmu.Unlock()
			if v < 4 {
				runtime.Gosched()
			} else {
				time.Sleep(time.Duration(v) * 40 * time.Microsecond)
			}
		}
	default:
		if ext {
			trap = gates.ParkN(sc.Point, expectX, isX)
		} else {
			trap = gates.ParkN(sc.Point, total, isAny)
		}
	}
	if holdYLate {
		cs.holdY = make(chan struct{})
	}
	lateTotal := 0
	if sc.Late != "" && sc.Late != "reply" {
		lateTotal = sc.LateN * sc.Sess
	}
	done := make(chan erpc.CallCmd, total+lateTotal+8)
	n := 0
	issue := func(sess erpc.Session, dir string, li int) {
		n++
		tok := fmt.Sprintf("%s.%d.%d", id, li, n)
		rec := &callRec{tok: tok, dir: dir}
		cs.mu.Lock()
		cs.calls[tok] = rec
		cs.mu.Unlock()
		rec.issued = stamp()
		rec.cmd = sess.AsyncCall(route, []byte(tok), &rec.out, done, erpc.WithBodyCodec(codec.ID_PLAIN))
	}
	enteredX := func() int {
		c := 0
		cs.mu.Lock()
		for _, rc := range cs.calls {
			if rc.dir == "toX" && atomic.LoadInt64(&rc.enter) > 0 {
				c++
			}
		}
		cs.mu.Unlock()
		return c
	}
	// fillers: parked goroutines occupying what is left of the (small) process-wide pool
	var fillers []chan struct{}
	free := func(k int) {
		for ; k > 0 && len(fillers) > 0; k-- {
			close(fillers[0])
			fillers = fillers[1:]
		}
	}
	infeasible := ""
	fill := func() {
		settle()
		var full bool
		fillers, full = occupy()
		if !full {
			infeasible = "the goroutine pool of this process is not small: it could not be filled"
		}
		core.Add("goroutines_parked_to_fill_the_pool", int64(len(fillers)))
	}
	arrived := false
	if !ext {
		for li, l := range links {
			for i := 0; i < sc.K; i++ {
				issue(l.A, "toX", li)
			}
			for i := 0; i < sc.K2; i++ {
				issue(l.B, "fromX", li)
			}
		}
		// wait until the handlers are where the scenario wants them (bounded; otherwise infeasible)
		switch {
		case sc.Point == "random":
			arrived = true
		case trap != nil:
			arrived = bed.WaitUntil(20*time.Second, func() bool { return trap.Count() >= total })
		default:
			arrived = bed.WaitUntil(20*time.Second, func() bool {
				c := 0
				cs.mu.Lock()
				for _, rc := range cs.calls {
					if atomic.LoadInt64(&rc.enter) > 0 {
						c++
					}
				}
				cs.mu.Unlock()
				return c >= total
			})
		}
		if sc.Point != "random" {
			settle()
		}
	} else {
		if sc.Fill == "before-the-calls" {
			fill()
		}
		// the calls towards the closing side: their handlers park (in pool goroutines, or on the reader when the pool is full)
		for li, l := range links {
			for i := 0; i < sc.K; i++ {
				issue(l.A, "toX", li)
			}
		}
		if trap != nil {
			arrived = bed.WaitUntil(20*time.Second, func() bool { return trap.Count() >= expectX })
		} else {
			arrived = bed.WaitUntil(20*time.Second, func() bool { return enteredX() >= expectX })
		}
		settle()
		if sc.Fill == "after-the-handlers-entered" {
			fill()
		}
		// the calls of the closing side, issued before Close(): with a full pool the other side's reader handles them itself
		for li, l := range links {
			for i := 0; i < sc.K2; i++ {
				issue(l.B, "fromX", li)
			}
		}
		settle()
		if sc.Fill != "" && sc.Closer == "peer" {
			// Peer.Close() closes its sessions on pool goroutines (and spins until it gets them): it finds one per session
			if len(fillers) < sc.Sess {
				infeasible = "the pool had no room left for the goroutines Peer.Close() needs"
			}
			free(sc.Sess)
			settle()
		}
	}
	releaseAll := func() {
		if trap != nil {
			trap.Release()
		}
		cs.mu.Lock()
		hx, hy := cs.holdX, cs.holdY
		cs.holdX, cs.holdY = nil, nil
		cs.mu.Unlock()
		if hx != nil {
			close(hx)
		}
		if hy != nil && hy != hx {
			close(hy)
		}
		free(len(fillers))
	}
	if ext && (infeasible != "" || !arrived) {
		// nothing is judged: unwind before Close() is involved
		if infeasible == "" {
			infeasible = fmt.Sprintf("handlers did not all reach %s (%d expected)", sc.Point, expectX)
		}
		releaseAll()
		settle()
		gates.Reset()
		py.Close()
		px.Close()
		settle()
		core.Result(core.R{ID: id, Verdict: core.Inconclusive, What: "ordering infeasible: " + infeasible})
		return
	}
	closeCall := stamp()
	var closeRet int64
	closed := make(chan struct{})
	go func() {
		if sc.Closer == "peer" {
			px.Close()
		} else {
			var wg sync.WaitGroup
			for _, l := range links {
				wg.Add(1)
				go func(s erpc.Session) { defer wg.Done(); s.Close() }(l.B)
			}
			wg.Wait()
		}
		atomic.StoreInt64(&closeRet, stamp())
		close(closed)
	}()
	if sc.Point != "random" {
		settle() // Close is now waiting (or has wrongly returned)
	}
	if sc.AgeMS > 0 {
		// the scenario needs Close() to have been called while the session was still within its age (otherwise the
		// session simply ended by age before the close: not a graceful close, nothing to judge) ...
		age := time.Duration(sc.AgeMS) * time.Millisecond
		if time.Since(connected) > age-200*time.Millisecond {
			releaseAll()
			<-closed
			settle()
			gates.Reset()
			core.Result(core.R{ID: id, Verdict: core.Inconclusive, What: "ordering infeasible: the session age ran out before Close() was waiting"})
			return
		}
		// ... and the age to run out while Close() waits for the parked handlers
		time.Sleep(time.Until(connected.Add(age + 400*time.Millisecond)))
		settle()
		core.Add("closes_outlasting_the_session_age", 1)
	}
	if sc.Cut != "" {
		// the connection ends while Close() is waiting for the handlers that were entered before it
		for _, l := range links {
			l.CA.Sever(sc.Cut == "reset")
		}
		settle()
		core.Add("connections_lost_while_close_waited", int64(len(links)))
	}
	// a second, concurrent Close() of the same sessions must wait just like the first one
	var close2Ret int64
	closed2 := make(chan struct{})
	if sc.Closer == "double" || sc.Closer == "session+peer" {
		go func() {
			if sc.Closer == "session+peer" {
				// the peer is closed while the Close() of its session is still waiting: it waits as well
				px.Close()
			} else {
				var wg sync.WaitGroup
				for _, l := range links {
					wg.Add(1)
					go func(s erpc.Session) { defer wg.Done(); s.Close() }(l.B)
				}
				wg.Wait()
			}
			atomic.StoreInt64(&close2Ret, stamp())
			close(closed2)
		}()
		settle()
	} else {
		close(closed2)
	}
	// further messages arrive on the closing sessions while Close() waits for the handlers that were entered before it
	// (with a full pool the reading goroutine handles each of them itself); Close() keeps waiting
	if sc.Late != "" {
		for li, l := range links {
			for j := 0; j < sc.LateN && sc.Late != "reply"; j++ {
				if sc.Late == "call" || (sc.Late == "mixed" && j%2 == 0) {
					issue(l.A, "late", li)
				} else {
					l.A.Push(proute, []byte("late"), erpc.WithBodyCodec(codec.ID_PLAIN))
				}
			}
		}
		if holdYLate {
			// the other side's handlers finish now: the replies to the closing side's calls arrive while Close() waits
			cs.mu.Lock()
			hy := cs.holdY
			cs.holdY = nil
			cs.mu.Unlock()
			close(hy)
		}
		settle()
		core.Add("messages_sent_to_the_closing_side_while_close_waited", int64(lateTotal))
	}
	earlyReturn := (atomic.LoadInt64(&closeRet) != 0 || atomic.LoadInt64(&close2Ret) != 0) && sc.Point != "random" && sc.Point != "handlecall.afterReply" && total > 0
	// release the handlers
	releaseAll()
	q := settle()
	gates.Reset()
	if !q.Quiescent || !arrived {
		what := "watchdog: not quiescent"
		if !arrived {
			what = "ordering infeasible: handlers did not all reach " + sc.Point
		}
		core.Result(core.R{ID: id, Verdict: core.Inconclusive, What: what})
		py.Close()
		px.Close()
		return
	}
	select {
	case <-closed:
	default:
		core.Result(core.R{ID: id, Verdict: core.Violated, FP: sc.fp("close-hung"), What: "Close() did not return at quiescence after all handlers were released", Desc: sc})
		return
	}
	cret := atomic.LoadInt64(&closeRet)
	select {
	case <-closed2:
	default:
		core.Result(core.R{ID: id, Verdict: core.Violated, FP: sc.fp("close-hung"), What: "the second Close() did not return at quiescence after all handlers were released", Desc: sc})
		return
	}
	if c2 := atomic.LoadInt64(&close2Ret); c2 != 0 && c2 < cret {
		cret = c2 // every Close() call must wait: judge the earliest return
	}
	// reply frames on the wire: stamp of the first write containing the reply token
	find := func(tl *tapLog, tok string) int64 {
		tl.mu.Lock()
		defer tl.mu.Unlock()
		needle := []byte("R:" + tok)
		for _, w := range tl.w {
			if bytes.Contains(w.b, needle) {
				return w.stamp
			}
		}
		return 0
	}
	var vs []viol
	var nEntered, nOK, nLateOK, nLateErr, nLateOpen int
	cs.mu.Lock()
	recs := make([]*callRec, 0, len(cs.calls))
	for _, rc := range cs.calls {
		recs = append(recs, rc)
	}
	cs.mu.Unlock()
	sort.Slice(recs, func(i, j int) bool { return recs[i].issued < recs[j].issued })
	for _, rc := range recs {
		if rc.dir == "late" {
			// a call that arrived after Close() was called: the property says nothing about its outcome; it is only counted
			switch {
			case !isDone(rc.cmd.Done()):
				nLateOpen++
			case rc.cmd.Status().OK() && string(rc.out) == "R:"+rc.tok:
				nLateOK++
			default:
				nLateErr++
			}
			continue
		}
		if !isDone(rc.cmd.Done()) {
			// a hang is C02's clause; it also violates "still receives its genuine reply"
			vs = append(vs, viol{"call-incomplete", fmt.Sprintf("call %s (%s) incomplete at quiescence", rc.tok, rc.dir)})
			continue
		}
		st := rc.cmd.Status()
		genuine := st.OK() && string(rc.out) == "R:"+rc.tok
		if genuine {
			nOK++
		}
		enter, exit := atomic.LoadInt64(&rc.enter), atomic.LoadInt64(&rc.exit)
		if rc.dir == "toX" {
			var li int
			fmt.Sscanf(rc.tok[len(id)+1:], "%d.", &li)
			rw := find(links[li].xw, rc.tok)
			if enter > 0 && enter < closeCall {
				nEntered++
				if !genuine && sc.Cut == "" {
					vs = append(vs, viol{"entered-call-lost-reply", fmt.Sprintf("call %s: handler entered (stamp %d) before Close() was called (stamp %d) but the caller got %v / %q instead of the genuine reply", rc.tok, enter, closeCall, st, rc.out)})
				}
				if exit == 0 || cret < exit {
					vs = append(vs, viol{"close-returned-before-handler-exit", fmt.Sprintf("call %s: Close() returned at stamp %d, handler exit at %d", rc.tok, cret, exit)})
				}
				if rw != 0 && cret < rw {
					vs = append(vs, viol{"close-returned-before-reply-written", fmt.Sprintf("call %s: Close() returned at stamp %d, reply frame written at %d", rc.tok, cret, rw)})
				}
			}
		} else {
			// issued by the closing side before Close(): the peer's reply, if it was sent, must be what the call completes with
			var li int
			fmt.Sscanf(rc.tok[len(id)+1:], "%d.", &li)
			rw := find(links[li].yw, rc.tok)
			if rc.issued < closeCall && rw != 0 && !genuine && sc.Cut == "" {
				vs = append(vs, viol{"issued-call-lost-reply", fmt.Sprintf("call %s issued by the closing side before Close(): the peer wrote its reply (stamp %d), the connection was not cut, yet the call completed with %v", rc.tok, rw, st)})
			}
		}
	}
	if earlyReturn && nEntered > 0 {
		vs = append(vs, viol{"close-returned-while-handlers-parked", fmt.Sprintf("Close() had returned (stamp %d) while %d handlers entered before it were still parked", cret, nEntered)})
	}
	nLate := nLateOK + nLateErr + nLateOpen
	inline := atomic.LoadInt64(&cs.inline)
	core.Add("calls", int64(len(recs)-nLate))
	core.Add("calls_entered_before_close", int64(nEntered))
	core.Add("calls_genuine_reply", int64(nOK))
	if sc.Late != "" {
		core.Add("calls_arrived_while_close_waited", int64(nLate))
		core.Add("calls_arrived_while_close_waited_genuine_reply", int64(nLateOK))
		core.Add("pushes_handled_that_arrived_while_close_waited", atomic.LoadInt64(&cs.latePush))
	}
	if sc.Pool > 0 {
		core.Add("scenarios_in_a_process_with_a_small_goroutine_pool", 1)
		core.Add("handlers_run_by_a_reading_goroutine", inline)
	}
	py.Close()
	px.Close()
	if sc.Pool > 0 {
		settle() // the pool goroutines of this scenario are idle again before the next one starts
	}
	sig := fmt.Sprintf("%s/%s/%s/k%d+%d/s%d/d%d/pp%d", sc.Proto, sc.Point, sc.Closer, sc.K, sc.K2, sc.Sess, sc.DelayPM, sc.PrePush) + fmt.Sprintf("/age%d/cut%s", sc.AgeMS, sc.Cut)
	if sc.Pool > 0 || sc.ext() {
		sig += fmt.Sprintf("/pool%d/%s/late-%s%d", sc.Pool, sc.Fill, sc.Late, sc.LateN)
	}
	if len(vs) == 0 {
		nontrivial := nEntered > 0 || sc.K2 > 0
		if sc.Fill != "" && inline == 0 {
			nontrivial = false // the full pool made no handler run on a reading goroutine
		}
		if nontrivial {
			core.Distinct("nontrivial", sig)
		}
		core.Result(core.R{ID: id, Verdict: core.Held, Sig: sig, Nontrivial: nontrivial})
		return
	}
	groups := map[string][]viol{}
	for _, v := range vs {
		groups[v.sym] = append(groups[v.sym], v)
	}
	keys := []string{}
	for k := range groups {
		keys = append(keys, k)
	}
	sort.Strings(keys)
	for i, k := range keys {
		rid := id
		if i > 0 {
			rid = fmt.Sprintf("%s#%d", id, i)
			core.Begin(rid, sc)
		}
		core.Result(core.R{ID: rid, Verdict: core.Violated, FP: sc.fp(k), What: groups[k][0].what,
			Witness: map[string]interface{}{"count": len(groups[k]), "first": groups[k][0].what, "close_called": closeCall, "close_returned": cret,
				"handlers_run_by_a_reading_goroutine": inline}, Desc: sc, Sig: sig})
	}
}

func isDone(ch <-chan struct{}) bool {
	select {
	case <-ch:
		return true
	default:
		return false
	}
}

type tapLog struct {
	mu sync.Mutex
	w  []tapWrite
}
type tapWrite struct {
	stamp int64
	b     []byte
}

func (t *tapLog) tap(p []byte, total int64) {
	t.mu.Lock()
	t.w = append(t.w, tapWrite{stamp(), append([]byte(nil), p...)})
	t.mu.Unlock()
}

func main() {
	flag.Parse()
	core.Prop = *prop
	wire.RegFilters()
	bed.Init("OFF")
	gates.Install()
	var scs []scenario
	protosQ := []string{"raw", "json"}
	ks := [][2]int{{1, 0}, {4, 0}, {0, 1}, {0, 4}, {4, 4}, {32, 8}}
	nRandom := 20
	if *tier == "thorough" {
		protosQ = []string{"raw", "json", "pb", "thrift-binary"}
		ks = append(ks, [2]int{1, 1}, [2]int{32, 32}, [2]int{8, 0}, [2]int{0, 32})
		nRandom = 500
	}
	for _, pn := range protosQ {
		for _, pt := range []string{"handlecall.enter", "inside", "handlecall.beforeReply", "handlecall.afterReply"} {
			for _, k := range ks {
				for _, cl := range []string{"session", "peer", "double"} {
					sess := 1
					if cl == "peer" {
						sess = 3
					}
					scs = append(scs, scenario{Proto: pn, K: k[0], K2: k[1], Point: pt, Closer: cl, Class: "placed", Sess: sess, PrePush: []int{0, 0, 40}[len(scs)%3]})
					if *tier == "thorough" {
						scs = append(scs, scenario{Proto: pn, K: k[0], K2: k[1], Point: pt, Closer: cl, Class: "placed", Sess: sess, DelayPM: 200})
					}
				}
			}
		}
	}
	// Peer.Close() while the Close() of a session of that peer is still waiting for its handlers
	for _, pn := range []string{"raw", "json"} {
		for _, pt := range []string{"inside", "handlecall.beforeReply"} {
			for _, k := range []int{1, 4} {
				scs = append(scs, scenario{Proto: pn, K: k, K2: 0, Point: pt, Closer: "session+peer", Class: "placed", Sess: 1})
			}
		}
	}
	// the closing side is a websocket server session (calls handled by the closing side only: the far side's frames are masked)
	for _, pt := range []string{"inside", "handlecall.beforeReply"} {
		for _, k := range []int{1, 4} {
			for _, cl := range []string{"session", "peer"} {
				scs = append(scs, scenario{Proto: "ws-json", K: k, K2: 0, Point: pt, Closer: cl, Class: "placed", Sess: 1})
			}
		}
	}
	// the connection is lost while Close() waits for handlers that were entered before it: Close still returns only after they exited
	for _, pn := range protosQ {
		for _, pt := range []string{"inside", "handlecall.beforeReply"} {
			for ci, cl := range []string{"session", "peer", "double"} {
				scs = append(scs, scenario{Proto: pn, K: 3, K2: 1, Point: pt, Closer: cl, Class: "placed-cut", Sess: 1, Cut: []string{"eof", "reset"}[ci%2]})
			}
		}
	}
	// the closing side's session age runs out while Close() waits for handlers that were entered before it
	for _, pn := range protosQ {
		for _, pt := range []string{"handlecall.enter", "inside", "handlecall.beforeReply"} {
			for _, cl := range []string{"session", "peer"} {
				scs = append(scs, scenario{Proto: pn, K: 3, K2: 0, Point: pt, Closer: cl, Class: "placed-age", Sess: 1, AgeMS: 1500})
			}
		}
	}
	r0 := core.NewRand(*seed, 77)
	for i := 0; i < nRandom; i++ {
		scs = append(scs, scenario{Proto: protosQ[r0.Intn(len(protosQ))], K: 1 + r0.Intn(32), K2: r0.Intn(16), Point: "random", Closer: []string{"session", "peer"}[r0.Intn(2)],
			Class: "random", Sess: 1 + r0.Intn(3), DelayPM: []int{0, 100, 300}[r0.Intn(3)]})
	}
	// further messages arrive on the closing sessions while Close() waits for the handlers entered before it: calls, pushes,
	// the replies to the closing side's own calls (k handlers entered, n arrivals per session; n below, at and above k)
	type lateVar struct {
		k, k2 int
		late  string
		n     int
	}
	lateVars := []lateVar{{1, 0, "call", 1}, {1, 2, "reply", 0}, {4, 0, "push", 12}, {1, 1, "mixed", 4}, {4, 4, "mixed", 12}, {1, 0, "push", 1}, {2, 0, "call", 2}, {4, 3, "reply", 0}}
	perCombo := 2
	if *tier == "thorough" {
		perCombo = len(lateVars)
	}
	lateScenarios := func(class, fill string, pool, perCombo int) (out []scenario) {
		c := 0
		for _, pn := range protosQ {
			for _, pt := range []string{"inside", "handlecall.beforeReply"} {
				for _, cl := range []string{"session", "peer", "double"} {
					sess := 1
					if cl == "peer" {
						sess = 2
					}
					for v := 0; v < perCombo; v++ {
						lv := lateVars[(c+v*3)%len(lateVars)]
						out = append(out, scenario{Proto: pn, K: lv.k, K2: lv.k2, Point: pt, Closer: cl, Class: class, Sess: sess, Pool: pool, Fill: fill, Late: lv.late, LateN: lv.n})
					}
					c++
				}
			}
		}
		return out
	}
	scs = append(scs, lateScenarios("placed-late-arrivals", "", 0, (perCombo+1)/2)...)

	// pool scenarios: run by processes whose goroutine pool is small (the last batches), the rest of the pool filled with
	// parked goroutines, so that messages are handled by the reading goroutines themselves
	var pcs []scenario
	pcs = append(pcs, lateScenarios("placed-pool-full-late-arrivals", "after-the-handlers-entered", smallPool, perCombo)...)
	inlineKs := [][2]int{{1, 0}, {3, 2}, {1, 1}, {4, 0}}
	perInline := 1
	if *tier == "thorough" {
		perInline = len(inlineKs)
	}
	c := 0
	for _, pn := range protosQ {
		for _, pt := range []string{"inside", "handlecall.beforeReply"} {
			for _, cl := range []string{"session", "peer", "double"} {
				sess := 1
				if cl == "peer" {
					sess = 2
				}
				for v := 0; v < perInline; v++ {
					k := inlineKs[(c+v)%len(inlineKs)]
					pcs = append(pcs, scenario{Proto: pn, K: k[0], K2: k[1], Point: pt, Closer: cl, Class: "placed-pool-full-handled-by-reader", Sess: sess, Pool: smallPool, Fill: "before-the-calls"})
				}
				c++
			}
		}
	}
	nRandomPool := 8
	if *tier == "thorough" {
		nRandomPool = 120
	}
	r1 := core.NewRand(*seed, 78)
	for i := 0; i < nRandomPool; i++ {
		// more calls in flight than the pool has goroutines: handlers with PRNG durations run partly on pool goroutines, partly on the readers
		pcs = append(pcs, scenario{Proto: protosQ[r1.Intn(len(protosQ))], K: 1 + r1.Intn(32), K2: r1.Intn(16), Point: "random", Closer: []string{"session", "peer"}[r1.Intn(2)],
			Class: "random-small-pool", Sess: 1 + r1.Intn(2), DelayPM: []int{0, 100, 300}[r1.Intn(3)], Pool: smallPool})
	}

	if *replay != "" {
		// re-run the one case recorded in a replay file (vcheck replay): its description is the scenario
		var rf struct {
			Case string   `json:"case"`
			Desc scenario `json:"desc"`
		}
		b, err := os.ReadFile(*replay)
		if err == nil {
			err = json.Unmarshal(b, &rf)
		}
		if err != nil || rf.Desc.Proto == "" {
			core.Fatalf("replay file %s: %v", *replay, err)
		}
		if rf.Desc.Pool > 0 {
			erpc.SetGopool(rf.Desc.Pool, 0)
		}
		var idx int64
		fmt.Sscanf(strings.TrimLeft(strings.SplitN(rf.Case, "#", 2)[0], "sp"), "%d", &idx)
		if strings.HasPrefix(rf.Case, "p") {
			idx += 100000
		}
		runScenario(strings.SplitN(rf.Case, "#", 2)[0], rf.Desc, core.NewRand(*seed, idx, 5))
		core.Finish()
		return
	}

	// the last nPool batches are the processes with a small pool: they run the pool scenarios, the others share the rest
	nPool := 0
	if *nbatch >= 2 {
		nPool = 1 + *nbatch/32
	}
	if *batch >= *nbatch-nPool {
		erpc.SetGopool(smallPool, 0) // before the first peer of the process exists
		core.Add("batches_with_a_small_goroutine_pool", 1)
		for i, sc := range pcs {
			if i%nPool != *batch-(*nbatch-nPool) {
				continue
			}
			runScenario(fmt.Sprintf("p%04d", i), sc, core.NewRand(*seed, int64(100000+i), 5))
			if i < 2 {
				core.Sample(sc)
			}
		}
	} else {
		for i, sc := range scs {
			if i%(*nbatch-nPool) != *batch {
				continue
			}
			runScenario(fmt.Sprintf("s%04d", i), sc, core.NewRand(*seed, int64(i), 5))
			if i < 3 {
				core.Sample(sc)
			}
		}
	}
	if nPool == 0 {
		core.Add("pool_scenarios_not_run_in_a_single_batch_run", int64(len(pcs)))
	}
	core.Finish()
}
