// Worker for C17: secure plug-in - bodies are encrypted on the wire and restored end to end.
//
// Two real peers, each with secure.NewPlugin(code, key), are joined by an in-memory connection
// whose two ends are tapped (every Write is recorded with a logical clock). Operations run
// strictly one after the other, so the bytes written by the sender's end during an operation are
// that operation's request frame and the bytes written by the receiver's end are its reply frame.
// Every value carries a unique 32-character token; the monitor searches each frame for the token
// in the encodings raw / JSON-escaped / base64 (std, url; all three alignments) / hex.
//
// An observer plug-in registered AFTER the secure plug-in records the body that is actually handed
// to the protocol (and the X-Secure marker of the outgoing message); it is used only to attribute
// anomalies (tap blind vs. body transformed) and to ask the protocol codec, in isolation, whether
// it can carry a given body at all (failures of the transport are other properties' business).
package main

import (
	"bytes"
	"encoding/base64"
	"encoding/hex"
	"encoding/json"
	"flag"
	"fmt"
	"io/ioutil"
	"os"
	"sort"
	"strings"
	"sync"
	"sync/atomic"
	"time"

	erpc "github.com/henrylee2cn/erpc/v6"
	"github.com/henrylee2cn/erpc/v6/codec"
	"github.com/henrylee2cn/erpc/v6/plugin/secure"
	"github.com/henrylee2cn/erpc/v6/proto/pbproto/pb"
	"github.com/henrylee2cn/goutil"

	"verifharness/bed"
	"verifharness/core"
	"verifharness/memconn"
	"verifharness/protos"
	"verifharness/quiesce"
	"verifharness/wire"
)

var (
	prop   = flag.String("prop", "C17", "")
	tier   = flag.String("tier", "quick", "")
	seed   = flag.Int64("seed", 1, "")
	batch  = flag.Int("batch", 0, "")
	nbatch = flag.Int("nbatch", 1, "")
	replay = flag.String("replay", "", "")
)

// ---------------------------------------------------------------------------------------------
// matrix

// Cell is one case: one link between two peers with fixed protocol, body kind, key pair, direction.
type Cell struct {
	Idx   int    `json:"idx"`
	Class string `json:"class"`
	Proto string `json:"proto"`
	Body  string `json:"body"`  // jstruct | jstring | jbytes | pbmsg | pbbytes
	Keys  string `json:"keys"`  // eq16 | eq24 | eq32 | diff16 | diff16-32 | diff32-24
	Dir   string `json:"dir"`   // a2b | b2a : which peer sends the requests
	Scope string `json:"scope"` // global: plug-in given to NewPeer on both sides | route: the receiving peer registers it on its routes only (README usage)
	Reps  int    `json:"reps"`  // 0: the three fixed sizes once; n: n rounds with random sizes
	// Flavour "" : fresh session with an empty swap | "swap-nonempty": both sessions carry an application
	// entry in Session.Swap() from the start and the operations run as trigger -> probe sequences
	Flavour string `json:"flavour,omitempty"`
	// Plugins "" : both peers carry the plug-in | "sender-only" / "receiver-only": outside the property's premise,
	// executed for the record only (counters, no verdicts)
	Plugins string `json:"plugins,omitempty"`
	// Flavour "app-swap": the application keeps entries of its own in the swap of a session that carries the
	// plug-in. AppKey: label of the one key it uses (appKeys) or of a key set ("set:..."); AppSide: which end
	// holds the entries (sender | receiver | both); AppVia: how they get there (session-plugin: a PostAccept /
	// PostDial plug-in of the application stores them in Session.Swap() | session-code: plain code stores them
	// in Session.Swap() after the connection is up | ctx-plugin: a plug-in of the application stores them in the
	// swap of every context, in the header-read and pre-write hooks)
	AppKey  string `json:"app_key,omitempty"`
	AppSide string `json:"app_side,omitempty"`
	AppVia  string `json:"app_via,omitempty"`
}

var (
	protoNames = []string{"raw", "json", "pb"}
	bodyKinds  = []string{"jstruct", "jstring", "jbytes", "pbmsg", "pbbytes"}
	keyClasses = []string{"eq16", "eq24", "eq32", "diff16", "diff16-32", "diff32-24"}
	markers    = []string{"none", "secure", "accept-true", "accept-false", "secure+accept-true", "secure+accept-false"}
)

func cells(tierName string) []Cell {
	var out []Cell
	reps := 0
	if tierName == "thorough" {
		reps = 100
	}
	for pi, p := range protoNames {
		for bi, b := range bodyKinds {
			for ki, k := range keyClasses {
				dir := "a2b"
				if (pi+bi+ki)%2 == 1 {
					dir = "b2a"
				}
				for _, sc := range []string{"global", "route"} {
					out = append(out, Cell{Idx: len(out), Class: "matrix", Proto: p, Body: b, Keys: k, Dir: dir, Scope: sc, Reps: reps})
				}
			}
		}
	}
	// sessions whose swap is not empty (application data, heartbeat / overloader entries): the plug-in's
	// scratch entries must stay private to each message; run as sequences on one session
	for pi, p := range protoNames {
		for bi, b := range bodyKinds {
			for ki, k := range []string{"eq16", "eq24", "eq32", "diff16-32"} {
				dir, sc := "a2b", "global"
				if (pi+bi+ki)%2 == 1 {
					dir = "b2a"
				}
				if (pi+bi+ki/2)%2 == 1 {
					sc = "route"
				}
				out = append(out, Cell{Idx: len(out), Class: "swap-nonempty-seq", Proto: p, Body: b, Keys: k, Dir: dir, Scope: sc, Reps: reps, Flavour: "swap-nonempty"})
			}
		}
	}
	// caller-side result receiver shapes: typed receiver / no receiver at all (result == nil), sync Call and
	// AsyncCall, every marker combination; one fresh link per call because a call that never completes
	// wedges its session
	for _, p := range protoNames {
		for _, b := range []string{"jstruct", "jbytes", "pbmsg"} {
			for _, k := range []string{"eq16", "diff16-32"} {
				out = append(out, Cell{Idx: len(out), Class: "result-receiver", Proto: p, Body: b, Keys: k, Dir: "a2b", Scope: "global", Flavour: "receiver-shapes"})
			}
		}
	}
	// one side without the plug-in: not covered by the property statement ("when both peers use the secure
	// plugin"); observed and counted, never judged
	for _, p := range protoNames {
		for _, b := range []string{"jstruct", "jbytes"} {
			for _, pl := range []string{"sender-only", "receiver-only"} {
				out = append(out, Cell{Idx: len(out), Class: "observe-one-sided", Proto: p, Body: b, Keys: "eq16", Dir: "a2b", Scope: "global", Plugins: pl})
			}
		}
	}
	// application data in the swap of a session that carries the plug-in: every key of the pool alone (short
	// strings, among them "" and "0", and non-string keys) x the end that holds it x equal / different cipher
	// keys; then whole key sets. Appended last so that the indices of the cells above stay what they were.
	vias := []string{"session-plugin", "session-code", "ctx-plugin"}
	eqs, diffs := []string{"eq16", "eq32", "eq24"}, []string{"diff16-32", "diff32-24", "diff16"}
	n := 0
	appCell := func(key, side, keys, via string) {
		dir, sc := "a2b", "global"
		if (n/3)%2 == 1 {
			dir = "b2a"
		}
		if (n/5)%3 == 2 {
			sc = "route"
		}
		out = append(out, Cell{Idx: len(out), Class: "app-swap", Proto: protoNames[n%3], Body: bodyKinds[n%5], Keys: keys, Dir: dir, Scope: sc,
			Reps: reps, Flavour: "app-swap", AppKey: key, AppSide: side, AppVia: via})
		n++
	}
	for ki, k := range appKeys {
		for si, side := range []string{"sender", "receiver", "both"} {
			for kc := 0; kc < 2; kc++ {
				keys := eqs[(ki+si)%3]
				if kc == 1 {
					keys = diffs[(ki+si)%3]
				}
				if tierName == "thorough" {
					for _, via := range vias {
						appCell(k.label, side, keys, via)
					}
					continue
				}
				appCell(k.label, side, keys, vias[(ki+si+kc)%3])
			}
		}
	}
	for _, set := range []string{"set:strings", "set:non-strings", "set:all", "set:random", "set:random"} {
		for si, side := range []string{"sender", "receiver", "both"} {
			keys := eqs[si]
			if len(out)%2 == 1 {
				keys = diffs[si]
			}
			appCell(set, side, keys, vias[(n+si)%3])
		}
	}
	return out
}

// ---------------------------------------------------------------------------------------------
// application data in the swap

// appKeyT is a string type of the application's own.
type appKeyT string

type appVal struct {
	A int
	B string
}

var appAnchor int

// appKeys is the pool of keys under which the application keeps its data: short strings and the names a
// programmer would pick, then keys that are not strings at all. All of them are comparable values.
var appKeys = []struct {
	label string
	key   interface{}
}{
	{`str:""`, ""}, {`str:"0"`, "0"}, {`str:"1"`, "1"}, {`str:"00"`, "00"}, {`str:" "`, " "}, {`str:"a"`, "a"}, {`str:"-"`, "-"},
	{`str:"id"`, "id"}, {`str:"user"`, "user"}, {`str:"\x00"`, "\x00"}, {`str:"true"`, "true"}, {`str:"secure"`, "secure"},
	{`str:"rawbody"`, "rawbody"}, {`str:"encrypt_rawbody"`, "encrypt_rawbody"}, {`str:"accept_encrypt"`, "accept_encrypt"},
	{`str:"X-Secure"`, secure.SECURE_META_KEY}, {`str:"X-Accept-Secure"`, secure.ACCEPT_SECURE_META_KEY},
	{"int:0", 0}, {"int:1", 1}, {"int32:0", int32(0)}, {"byte:'0'", byte('0')}, {"rune:'0'", '0'}, {"float64:0", float64(0)},
	{"bool:false", false}, {"bool:true", true}, {"struct{}", struct{}{}}, {`named-string:""`, appKeyT("")}, {`named-string:"0"`, appKeyT("0")},
	{`array:["","0"]`, [2]string{"", "0"}}, {"pointer", &appAnchor},
}

// appValues is the pool of values (label, constructor).
var appValues = []struct {
	label string
	mk    func() interface{}
}{
	{"string", func() interface{} { return "application data" }}, {"empty-string", func() interface{} { return "" }},
	{"true", func() interface{} { return true }}, {"false", func() interface{} { return false }}, {"nil", func() interface{} { return nil }},
	{"int-0", func() interface{} { return 0 }}, {"int-7", func() interface{} { return 7 }},
	{"struct", func() interface{} { return appVal{1, "x"} }}, {"struct-pointer", func() interface{} { return &appVal{2, "y"} }},
	{"bytes", func() interface{} { return []byte("application bytes") }}, {"map", func() interface{} { return map[string]int{"n": 1} }},
	{"string-pointer", func() interface{} { return new(string) }}, {"envelope-pointer", func() interface{} { return new(secure.Encrypt) }},
}

type appEntry struct {
	label string // "<key label>=<value label>"
	key   interface{}
	val   interface{}
}

// appEntriesFor: the entries the application of this cell keeps (the values, and the members of a random set,
// are drawn from the cell's PRNG).
func appEntriesFor(c Cell, r *core.Rand) []appEntry {
	var out []appEntry
	add := func(i int) {
		v := appValues[r.Intn(len(appValues))]
		out = append(out, appEntry{appKeys[i].label + "=" + v.label, appKeys[i].key, v.mk()})
	}
	isStr := func(i int) bool { return strings.HasPrefix(appKeys[i].label, "str:") }
	switch c.AppKey {
	case "set:strings", "set:non-strings", "set:all":
		for i := range appKeys {
			if c.AppKey == "set:all" || isStr(i) == (c.AppKey == "set:strings") {
				add(i)
			}
		}
	case "set:random":
		for k := 2 + r.Intn(5); k > 0; k-- {
			add(r.Intn(len(appKeys)))
		}
	default:
		for i := range appKeys {
			if appKeys[i].label == c.AppKey {
				add(i)
			}
		}
		if len(out) == 0 {
			core.Fatalf("app-swap cell %d: unknown key label %q", c.Idx, c.AppKey)
		}
	}
	return out
}

// appPlugin is a plug-in of the application that keeps the application's entries in the swap.
type appPlugin struct {
	entries []appEntry
	session bool // in the session swap, stored when the session is set up
	ctx     bool // in the swap of every context, stored when a header was read / before a message is written
	stores  int64
}

func (a *appPlugin) Name() string { return "c17-app-data" }

func (a *appPlugin) put(m goutil.Map) *erpc.Status {
	for _, e := range a.entries {
		m.Store(e.key, e.val)
	}
	atomic.AddInt64(&a.stores, int64(len(a.entries)))
	return nil
}

func (a *appPlugin) onSession(s erpc.PreSession) *erpc.Status {
	if a.session {
		a.put(s.Swap())
	}
	return nil
}

func (a *appPlugin) onCtx(m goutil.Map) *erpc.Status {
	if a.ctx {
		a.put(m)
	}
	return nil
}

func (a *appPlugin) PostAccept(s erpc.PreSession) *erpc.Status       { return a.onSession(s) }
func (a *appPlugin) PostDial(s erpc.PreSession, _ bool) *erpc.Status { return a.onSession(s) }
func (a *appPlugin) PostReadCallHeader(c erpc.ReadCtx) *erpc.Status  { return a.onCtx(c.Swap()) }
func (a *appPlugin) PostReadPushHeader(c erpc.ReadCtx) *erpc.Status  { return a.onCtx(c.Swap()) }
func (a *appPlugin) PostReadReplyHeader(c erpc.ReadCtx) *erpc.Status { return a.onCtx(c.Swap()) }
func (a *appPlugin) PreWriteCall(c erpc.WriteCtx) *erpc.Status       { return a.onCtx(c.Swap()) }
func (a *appPlugin) PreWritePush(c erpc.WriteCtx) *erpc.Status       { return a.onCtx(c.Swap()) }
func (a *appPlugin) PreWriteReply(c erpc.WriteCtx) *erpc.Status      { return a.onCtx(c.Swap()) }

var (
	_ erpc.PostAcceptPlugin          = (*appPlugin)(nil)
	_ erpc.PostDialPlugin            = (*appPlugin)(nil)
	_ erpc.PostReadCallHeaderPlugin  = (*appPlugin)(nil)
	_ erpc.PostReadPushHeaderPlugin  = (*appPlugin)(nil)
	_ erpc.PostReadReplyHeaderPlugin = (*appPlugin)(nil)
	_ erpc.PreWriteCallPlugin        = (*appPlugin)(nil)
	_ erpc.PreWritePushPlugin        = (*appPlugin)(nil)
	_ erpc.PreWriteReplyPlugin       = (*appPlugin)(nil)
)

// appOps: the marker matrix for calls (enforcing or not) and pushes, once per round, then bodies without content.
func appOps(c Cell, r *core.Rand) []Op {
	var ops []Op
	rounds := 1
	if c.Reps > 0 {
		rounds = 3
	}
	for round := 0; round < rounds; round++ {
		i := 0
		for _, kind := range []string{"call", "push"} {
			for _, m := range markers {
				for _, enf := range []bool{false, true} {
					if kind == "push" && enf {
						continue
					}
					s := []int{40, 300, 4096}[i%3]
					if c.Reps > 0 {
						s = tokLen + r.Intn(8192-tokLen)
					}
					i++
					ops = append(ops, Op{N: len(ops), Kind: kind, Marker: m, Enforce: enf, Size: s, SizeCl: sizeClass(s)})
				}
			}
		}
	}
	for _, sh := range []string{"nil", "empty"} {
		for _, kind := range []string{"call", "push"} {
			for _, m := range []string{"none", "secure", "accept-true"} {
				ops = append(ops, Op{N: len(ops), Kind: kind, Marker: m, Size: 0, SizeCl: "shape", Shape: sh})
			}
		}
	}
	return ops
}

func codecName(body string) string {
	if strings.HasPrefix(body, "pb") {
		return "protobuf"
	}
	return "json"
}

func codecID(body string) byte {
	if strings.HasPrefix(body, "pb") {
		return codec.ID_PROTOBUF
	}
	return codec.ID_JSON
}

// Op is one message exchange inside a cell.
type Op struct {
	N       int    `json:"n"`
	Kind    string `json:"kind"` // call | push
	Marker  string `json:"marker"`
	Enforce bool   `json:"enforce"`
	Size    int    `json:"size"`
	SizeCl  string `json:"size_class"`
	Shape   string `json:"shape,omitempty"`          // "" token + padding of Size bytes | nil | empty | b15 | b16 | b17 | b32 (body of exactly n plaintext bytes)
	Recv    string `json:"receiver,omitempty"`       // "" typed (matrix) | typed | nil : the result argument passed to Call
	Via     string `json:"via,omitempty"`            // sync (Session.Call in a goroutine) | async (AsyncCall)
	HStat   string `json:"handler_status,omitempty"` // "" the handler returns (result, nil) | ok-new (result, NewStatus(CodeOK,"",nil)) | ok-msg (result, NewStatus(0,"fine",""))
	Form    string `json:"handler_form,omitempty"`   // "" function handler with a CallCtx | ctrl (struct controller method) | ctxfunc (function with a struct-pointer context) | unknown (SetUnknownCall)
	HErr    bool   `json:"handler_error,omitempty"`  // the call handler returns an error status instead of a result
	Phase   string `json:"phase,omitempty"`          // "" matrix order | trigger | probe (sequence pairs) | concurrent
	After   string `json:"after,omitempty"`          // for a probe: the operation that preceded it on the session
}

type opKind struct {
	kind, marker string
	enforce      bool
}

// triggers make the plug-in write its scratch entries; probes are messages that must pass unchanged
// (unmarked requests; "call accept-true" is an unmarked request whose reply must be encrypted).
var (
	seqTriggers = []opKind{{"call", "secure", false}, {"call", "secure+accept-true", false}, {"call", "secure+accept-false", false},
		{"call", "accept-true", false}, {"call", "none", true}, {"call", "accept-false", true},
		{"push", "secure", false}, {"push", "secure+accept-true", false}, {"push", "secure+accept-false", false}}
	seqProbes = []opKind{{"call", "none", false}, {"push", "none", false}, {"call", "accept-false", false},
		{"push", "accept-true", false}, {"push", "accept-false", false}, {"call", "accept-true", false}}
)

// seqOps: every trigger followed by every probe on the same session, then the plain matrix order.
func seqOps(c Cell, r *core.Rand) []Op {
	var ops []Op
	rounds := 1
	if c.Reps > 0 {
		rounds = c.Reps / 10
	}
	fixed := []int{40, 300, 4096}
	size := func(i int) int {
		if c.Reps == 0 {
			if i == 31 {
				return 65536
			}
			return fixed[i%3]
		}
		switch x := r.Intn(10); {
		case x < 6:
			return tokLen + r.Intn(512-tokLen)
		case x < 9:
			return 512 + r.Intn(8192-512)
		}
		return 8192 + r.Intn(65536-8192+1)
	}
	for round := 0; round < rounds; round++ {
		i := 0
		for _, t := range seqTriggers {
			for _, pr := range seqProbes {
				s := size(i)
				i++
				ops = append(ops, Op{N: len(ops), Kind: t.kind, Marker: t.marker, Enforce: t.enforce, Size: s, SizeCl: sizeClass(s), Phase: "trigger"})
				s = size(i)
				i++
				ops = append(ops, Op{N: len(ops), Kind: pr.kind, Marker: pr.marker, Enforce: pr.enforce, Size: s, SizeCl: sizeClass(s), Phase: "probe",
					After: fmt.Sprintf("%s %s enforce=%v", t.kind, t.marker, t.enforce)})
			}
		}
	}
	// the marker matrix in its plain order, once, on the same session
	for _, kind := range []string{"call", "push"} {
		for _, m := range markers {
			for _, enf := range []bool{false, true} {
				if kind == "push" && enf {
					continue
				}
				ops = append(ops, Op{N: len(ops), Kind: kind, Marker: m, Enforce: enf, Size: 40, SizeCl: "small"})
			}
		}
	}
	return ops
}

func sizeClass(n int) string {
	switch {
	case n <= 512:
		return "small"
	case n <= 8192:
		return "4K"
	}
	return "64K"
}

// shapesFor lists the special body shapes a body kind can take: no body at all, the empty value, and bodies
// of exactly 15 / 16 / 17 / 32 plaintext bytes (around the AES block size) where the body is the byte string itself.
func shapesFor(body string) []string {
	switch body {
	case "jstring", "jbytes", "pbbytes":
		return []string{"nil", "empty", "b15", "b16", "b17", "b32"}
	}
	return []string{"nil", "empty"}
}

func opsFor(c Cell, r *core.Rand) []Op {
	if c.Flavour == "swap-nonempty" {
		return seqOps(c, r)
	}
	if c.Flavour == "app-swap" {
		return appOps(c, r)
	}
	if c.Plugins != "" {
		var ops []Op
		for _, kind := range []string{"call", "push"} {
			for _, m := range []string{"none", "secure", "accept-true"} {
				for _, sh := range []string{"", "empty"} {
					ops = append(ops, Op{N: len(ops), Kind: kind, Marker: m, Size: 40, SizeCl: "small", Shape: sh})
				}
			}
		}
		return ops
	}
	ops := matrixOps(c, r)
	// body shapes: every marker combination for calls (with and without enforcement) and pushes
	for _, sh := range shapesFor(c.Body) {
		for _, kind := range []string{"call", "push"} {
			for _, m := range markers {
				for _, enf := range []bool{false, true} {
					if kind == "push" && enf {
						continue
					}
					ops = append(ops, Op{N: len(ops), Kind: kind, Marker: m, Enforce: enf, Size: 0, SizeCl: "shape", Shape: sh})
				}
			}
		}
	}
	// calls whose handler answers with an error status
	for _, m := range markers {
		ops = append(ops, Op{N: len(ops), Kind: "call", Marker: m, Size: 40, SizeCl: "small", HErr: true})
	}
	// status shapes of the handler's return x handler registration forms (the matrix above is "function handler, nil status")
	for _, form := range []string{"", "ctrl", "ctxfunc", "unknown"} {
		for _, hs := range []string{"", "ok-new", "ok-msg", "err"} {
			if form == "" && (hs == "" || hs == "err") {
				continue
			}
			for _, m := range markers {
				for _, enf := range []bool{false, true} {
					op := Op{N: len(ops), Kind: "call", Marker: m, Enforce: enf, Size: 40, SizeCl: "small", Form: form}
					if hs == "err" {
						op.HErr = true
					} else {
						op.HStat = hs
					}
					ops = append(ops, op)
				}
			}
		}
	}
	return ops
}

func matrixOps(c Cell, r *core.Rand) []Op {
	var ops []Op
	add := func(size int) {
		for _, kind := range []string{"call", "push"} {
			for _, m := range markers {
				for _, enf := range []bool{false, true} {
					if kind == "push" && enf {
						continue
					}
					ops = append(ops, Op{N: len(ops), Kind: kind, Marker: m, Enforce: enf, Size: size, SizeCl: sizeClass(size)})
				}
			}
		}
	}
	if c.Reps == 0 {
		for _, s := range []int{40, 4096, 65536} {
			add(s)
		}
		return ops
	}
	for i := 0; i < c.Reps; i++ {
		base := len(ops)
		add(0)
		for j := base; j < len(ops); j++ {
			var s int
			switch x := r.Intn(10); {
			case x < 6:
				s = tokLen + r.Intn(512-tokLen)
			case x < 9:
				s = 512 + r.Intn(8192-512)
			default:
				s = 8192 + r.Intn(65536-8192+1)
			}
			ops[j].Size = s
			ops[j].SizeCl = sizeClass(s)
		}
	}
	return ops
}

// ---------------------------------------------------------------------------------------------
// values

const tokLen = 32
const alnum = "abcdefghijklmnopqrstuvwxyzABCDEFGHIJKLMNOPQRSTUVWXYZ0123456789"

var tokCounter uint32

func randAlnum(r *core.Rand, n int) string {
	b := make([]byte, n)
	for i := 0; i < n; i += 10 {
		v := r.Uint64()
		for j := 0; j < 10 && i+j < n; j++ {
			b[i+j] = alnum[v%62]
			v /= 62
		}
	}
	return string(b)
}

// newToken returns a unique 32-character printable token (a process-wide counter makes it unique,
// 26 PRNG characters make it impossible to occur by accident).
func newToken(r *core.Rand) string { return newTokenN(r, tokLen) }

// newTokenN: a unique printable token of n >= 15 characters.
func newTokenN(r *core.Rand, n int) string {
	c := atomic.AddUint32(&tokCounter, 1)
	return fmt.Sprintf("%s%06x", randAlnum(r, n-6), c&0xffffff)
}

// makeShape builds the body for a special shape: what is passed to Call/Push (or returned by the handler),
// what the other side must end up with, and the token to look for on the wire ("" if the body has none).
func makeShape(kind, shape string, r *core.Rand, asResult bool) (send, want interface{}, tok string) {
	zero := func() interface{} {
		switch kind {
		case "jstruct":
			return &JArg{}
		case "jstring":
			s := ""
			return &s
		case "jbytes", "pbbytes":
			return []byte{}
		case "pbmsg":
			return &pb.Payload{}
		}
		panic(kind)
	}
	switch shape {
	case "nil":
		if asResult {
			return zero(), zero(), "" // a handler answers with the empty value
		}
		return nil, zero(), ""
	case "empty":
		return zero(), zero(), ""
	}
	n := map[string]int{"b15": 15, "b16": 16, "b17": 17, "b32": 32}[shape]
	tok = newTokenN(r, n)
	if kind == "jstring" {
		s := tok
		return &s, &s, tok
	}
	return []byte(tok), []byte(tok), tok
}

// JArg is the struct body for the JSON codec; Raw repeats the token as []byte (base64 under JSON).
type JArg struct {
	Tok string `json:"tok"`
	Pad string `json:"pad"`
	Raw []byte `json:"raw"`
	N   int64  `json:"n"`
}

// makeValue builds a body value of the kind with the token and about size bytes of content.
func makeValue(kind, tok string, size int, r *core.Rand) interface{} {
	padLen := size - len(tok)
	if padLen < 0 {
		padLen = 0
	}
	pad := randAlnum(r, padLen)
	switch kind {
	case "jstruct":
		return &JArg{Tok: tok, Pad: pad, Raw: []byte(tok), N: int64(r.Uint64() >> 12)}
	case "jstring":
		s := tok + pad
		return &s
	case "jbytes", "pbbytes":
		return []byte(tok + pad)
	case "pbmsg":
		return &pb.Payload{Seq: int32(r.Uint64()>>40) + 1, ServiceMethod: tok, Body: []byte(pad), Meta: []byte(tok)}
	}
	panic(kind)
}

func newHolder(kind string) interface{} {
	switch kind {
	case "jstruct":
		return new(JArg)
	case "jstring":
		return new(string)
	case "jbytes", "pbbytes":
		return new([]byte)
	case "pbmsg":
		return new(pb.Payload)
	}
	panic(kind)
}

// usedHolder is a result receiver that already holds the result of an earlier call (a caller that reuses its result
// variable): whatever the reply carries - also the empty value - is what the receiver must hold afterwards.
func usedHolder(kind string) interface{} {
	switch kind {
	case "jstruct":
		return &JArg{Tok: "stale-token-of-an-earlier-call", Pad: "stale-pad", Raw: []byte("stale-raw"), N: 77}
	case "jstring":
		s := "stale-result-of-an-earlier-call"
		return &s
	case "jbytes", "pbbytes":
		b := []byte("stale-result-of-an-earlier-call")
		return &b
	case "pbmsg":
		return &pb.Payload{Seq: 77, ServiceMethod: "stale-method", Body: []byte("stale-body"), Meta: []byte("stale-meta")}
	}
	panic(kind)
}

// clone copies a received value so that later reuse of buffers cannot change the record.
func clone(v interface{}) interface{} {
	switch x := v.(type) {
	case *JArg:
		if x == nil {
			return nil
		}
		c := *x
		c.Raw = append([]byte(nil), x.Raw...)
		return &c
	case *string:
		if x == nil {
			return nil
		}
		s := string(append([]byte(nil), *x...))
		return &s
	case *[]byte:
		if x == nil {
			return nil
		}
		return append([]byte{}, (*x)...)
	case []byte:
		return append([]byte{}, x...)
	case *pb.Payload:
		if x == nil {
			return nil
		}
		return &pb.Payload{Seq: x.Seq, Mtype: x.Mtype, ServiceMethod: string(append([]byte(nil), x.ServiceMethod...)),
			Status: append([]byte(nil), x.Status...), Meta: append([]byte(nil), x.Meta...), BodyCodec: x.BodyCodec,
			Body: append([]byte(nil), x.Body...)}
	}
	return v
}

// same compares a received value with the original one.
func same(want, got interface{}) bool {
	if p, ok := got.(*[]byte); ok && p != nil {
		got = *p
	}
	switch w := want.(type) {
	case *JArg:
		g, ok := got.(*JArg)
		return ok && g != nil && w.Tok == g.Tok && w.Pad == g.Pad && bytes.Equal(w.Raw, g.Raw) && w.N == g.N
	case *string:
		g, ok := got.(*string)
		return ok && g != nil && *w == *g
	case []byte:
		g, ok := got.([]byte)
		return ok && bytes.Equal(w, g)
	case *pb.Payload:
		g, ok := got.(*pb.Payload)
		return ok && g != nil && w.Seq == g.Seq && w.Mtype == g.Mtype && w.ServiceMethod == g.ServiceMethod &&
			bytes.Equal(w.Status, g.Status) && bytes.Equal(w.Meta, g.Meta) && w.BodyCodec == g.BodyCodec && bytes.Equal(w.Body, g.Body)
	}
	return false
}

func brief(v interface{}) string {
	if p, ok := v.(*[]byte); ok && p != nil {
		v = *p
	}
	var s string
	switch x := v.(type) {
	case nil:
		return "<nil>"
	case *JArg:
		if x == nil {
			return "<nil *JArg>"
		}
		s = fmt.Sprintf("JArg{tok=%q pad[%d]=%.24q raw=%.40q n=%d}", x.Tok, len(x.Pad), x.Pad, x.Raw, x.N)
	case *string:
		if x == nil {
			return "<nil *string>"
		}
		s = fmt.Sprintf("string[%d] %.60q", len(*x), *x)
	case []byte:
		s = fmt.Sprintf("bytes[%d] %.60q", len(x), x)
	case *pb.Payload:
		if x == nil {
			return "<nil *pb.Payload>"
		}
		s = fmt.Sprintf("pb.Payload{seq=%d serviceMethod=%q meta=%.40q body[%d]=%.24q}", x.Seq, x.ServiceMethod, x.Meta, len(x.Body), x.Body)
	case *secure.Encrypt:
		if x == nil {
			return "<nil *secure.Encrypt>"
		}
		s = fmt.Sprintf("secure.Encrypt{version=%q ciphertext[%d]}", x.GetCipherversion(), len(x.GetCiphertext()))
	default:
		s = fmt.Sprintf("%T", v)
	}
	return s
}

// ---------------------------------------------------------------------------------------------
// token search

type needle struct {
	enc string
	b   []byte
}

func b64Variants(name string, e *base64.Encoding, tok []byte) []needle {
	var out []needle
	for s := 0; s < 3; s++ {
		buf := append(make([]byte, s), tok...)
		x := e.EncodeToString(buf)
		if len(buf)%3 != 0 {
			x = x[:len(x)-1] // the last character also carries bits of the following byte
		}
		x = x[[]int{0, 2, 3}[s]:] // leading characters carry bits of the preceding bytes
		out = append(out, needle{fmt.Sprintf("%s/align%d", name, s), []byte(x)})
	}
	return out
}

func needles(tok string) []needle {
	t := []byte(tok)
	out := []needle{{"raw", t}}
	if j, err := json.Marshal(tok); err == nil && len(j) >= 2 && string(j[1:len(j)-1]) != tok {
		out = append(out, needle{"json-escaped", j[1 : len(j)-1]})
	}
	out = append(out, b64Variants("base64-std", base64.RawStdEncoding, t)...)
	out = append(out, b64Variants("base64-url", base64.RawURLEncoding, t)...)
	h := hex.EncodeToString(t)
	out = append(out, needle{"hex", []byte(h)}, needle{"HEX", []byte(strings.ToUpper(h))})
	// de-duplicate identical byte strings (url == std when neither '+' nor '/' occurs)
	seen := map[string]bool{}
	var uniq []needle
	for _, n := range out {
		if seen[string(n.b)] {
			continue
		}
		seen[string(n.b)] = true
		uniq = append(uniq, n)
	}
	return uniq
}

var tokensSearched, bytesSearched int64

// find reports the encoding and offset at which the token occurs in data ("" if nowhere).
func find(data []byte, tok string) (string, int) {
	if tok == "" {
		return "", -1
	}
	for _, n := range needles(tok) {
		atomic.AddInt64(&tokensSearched, 1)
		atomic.AddInt64(&bytesSearched, int64(len(data)))
		if i := bytes.Index(data, n.b); i >= 0 {
			return n.enc, i
		}
	}
	return "", -1
}

func excerpt(data []byte, off, n int) string {
	if off < 0 {
		off = 0
	}
	lo := off - 24
	if lo < 0 {
		lo = 0
	}
	hi := off + n + 8
	if hi > len(data) {
		hi = len(data)
	}
	return fmt.Sprintf("frame[%d:%d] of %d bytes = %q", lo, hi, len(data), data[lo:hi])
}

// selfTest proves that the searcher finds a token embedded at every alignment in every encoding
// and does not find a different token.
func selfTest() {
	r := core.NewRand(4242)
	for i := 0; i < 60; i++ {
		tok := newToken(r)
		other := newToken(r)
		pre, post := r.Bytes(i%7), r.Bytes(11+i%5)
		plain := append(append(append([]byte{}, pre...), tok...), post...)
		hay := map[string][]byte{
			"raw":  plain,
			"b64":  []byte(base64.StdEncoding.EncodeToString(plain)),
			"b64u": []byte(base64.URLEncoding.EncodeToString(plain)),
			"b64r": []byte(base64.RawStdEncoding.EncodeToString(plain)),
			"hex":  []byte(hex.EncodeToString(plain)),
			"HEX":  []byte(strings.ToUpper(hex.EncodeToString(plain))),
		}
		for name, h := range hay {
			if enc, _ := find(h, tok); enc == "" {
				core.Fatalf("token searcher self-test: token not found in %s encoding (prefix %d bytes)", name, len(pre))
			}
			if enc, _ := find(h, other); enc != "" {
				core.Fatalf("token searcher self-test: foreign token reported in %s encoding as %s", name, enc)
			}
		}
	}
	atomic.StoreInt64(&tokensSearched, 0)
	atomic.StoreInt64(&bytesSearched, 0)
	// the transport control must accept a harmless body on every protocol of the matrix
	for _, pn := range protoNames {
		for _, mt := range []byte{erpc.TypeCall, erpc.TypeReply, erpc.TypePush} {
			if ok, why := carries(protos.ByName(pn), mt, codec.ID_JSON, []byte(`{"cipherversion":"0123456789abcdef","ciphertext":"00ff"}`)); !ok {
				core.Fatalf("transport control self-test: protocol %s does not carry a plain JSON body: %s", pn, why)
			}
		}
	}
}

// ---------------------------------------------------------------------------------------------
// handler side registry

type opRec struct {
	id      string
	op      Op
	arg     interface{}
	argTok  string
	res     interface{}
	resTok  string
	enforce bool

	mu       sync.Mutex
	runs     int
	gotArg   interface{}
	gotMeta  string      // X-Secure / X-Accept-Secure as seen by the handler
	pushSt   string      // what Push() returned
	sawSec   string      // value of X-Secure as seen by the handler
	returned bool        // the call handler reached its return statement
	kind     string      // body kind of the cell (the unknown-call handler binds by it)
	wantArg  interface{} // what the handler must receive (differs from arg only for a nil body)
	wantRes  interface{} // what the caller must receive
	gate     *concGate
	appKeys  []interface{} // keys of the application's swap entries the handler context must show
	appSeen  int           // how many of them the handler found in its context's swap

	// observer records
	outBody   map[string][]byte // "call" | "push" | "reply" -> body bytes handed to the protocol
	outCodec  map[string]byte
	outSecure map[string]string // X-Secure value on the outgoing message
	outErr    map[string]string

	// caller side
	reqFrame, repFrame []byte
	orderOK            bool
}

var (
	regMu sync.Mutex
	reg   = map[string]*opRec{}
	cur   atomic.Value // *opRec : the operation in flight (operations are sequential)

	handlerRuns int64
)

func lookup(id []byte) *opRec {
	regMu.Lock()
	defer regMu.Unlock()
	return reg[string(id)]
}

type metaPeeker interface {
	PeekMeta(key string) []byte
	Swap() goutil.Map
}

func onHandle(ctx metaPeeker, arg interface{}) *opRec {
	atomic.AddInt64(&handlerRuns, 1)
	rec := lookup(ctx.PeekMeta("Id"))
	if rec == nil {
		return nil
	}
	rec.mu.Lock()
	rec.runs++
	rec.gotArg = clone(arg)
	rec.gotMeta = fmt.Sprintf("X-Secure=%q X-Accept-Secure=%q", ctx.PeekMeta(secure.SECURE_META_KEY), ctx.PeekMeta(secure.ACCEPT_SECURE_META_KEY))
	rec.sawSec = string(ctx.PeekMeta(secure.SECURE_META_KEY))
	if sw := ctx.Swap(); sw != nil {
		rec.appSeen = 0
		for _, k := range rec.appKeys {
			if _, ok := sw.Load(k); ok {
				rec.appSeen++
			}
		}
	}
	g := rec.gate
	rec.mu.Unlock()
	if g != nil {
		g.arrive()
	}
	return rec
}

// concGate holds the handlers of one concurrent round until all expected ones have entered (or a
// short bound passed), so that the calls really are in flight at once and their replies leave together.
// It only shapes the schedule; no verdict depends on it.
type concGate struct {
	mu      sync.Mutex
	want    int
	arrived int
	open    chan struct{}
}

func newGate(want int) *concGate { return &concGate{want: want, open: make(chan struct{})} }

func (g *concGate) arrive() {
	g.mu.Lock()
	g.arrived++
	if g.arrived == g.want {
		close(g.open)
	}
	g.mu.Unlock()
	select {
	case <-g.open:
	case <-time.After(200 * time.Millisecond):
	}
}

var errNoRec = erpc.NewStatus(599, "c17 harness: no operation record for this request", "")

func reply(ctx erpc.CallCtx, rec *opRec) *erpc.Status {
	rec.mu.Lock()
	rec.returned = true
	rec.mu.Unlock()
	if rec.enforce {
		secure.EnforceSecure(ctx.Output())
	}
	if rec.op.HErr {
		return erpc.NewStatus(handlerErrCode, "c17 handler refuses", "requested by the check")
	}
	switch rec.op.HStat {
	case "ok-new":
		return erpc.NewStatus(erpc.CodeOK, "", nil)
	case "ok-msg":
		return erpc.NewStatus(0, "fine", "")
	}
	return nil
}

// serve is the body of every call handler form: record the argument, then return the prepared result together
// with the status shape the operation asks for (nil, a non-nil status with code OK, or an error status).
func serve(ctx erpc.CallCtx, arg interface{}) (interface{}, *erpc.Status) {
	rec := onHandle(ctx, arg)
	if rec == nil {
		return nil, errNoRec
	}
	st := reply(ctx, rec)
	if !st.OK() {
		return nil, st
	}
	return rec.res, st
}

const handlerErrCode int32 = 777

// Call handlers (function handlers; the route names are those returned by RouteCallFunc).

func EchoStruct(ctx erpc.CallCtx, arg *JArg) (*JArg, *erpc.Status) {
	r, st := serve(ctx, arg)
	if r == nil {
		return nil, st
	}
	return r.(*JArg), st
}

func EchoString(ctx erpc.CallCtx, arg *string) (*string, *erpc.Status) {
	r, st := serve(ctx, arg)
	if r == nil {
		return nil, st
	}
	return r.(*string), st
}

func EchoBytes(ctx erpc.CallCtx, arg *[]byte) ([]byte, *erpc.Status) {
	r, st := serve(ctx, arg)
	if r == nil {
		return nil, st
	}
	return r.([]byte), st
}

func EchoPb(ctx erpc.CallCtx, arg *pb.Payload) (*pb.Payload, *erpc.Status) {
	r, st := serve(ctx, arg)
	if r == nil {
		return nil, st
	}
	return r.(*pb.Payload), st
}

// C17Ctl is a struct controller (RouteCall): its methods are call handlers.
type C17Ctl struct{ erpc.CallCtx }

func (c *C17Ctl) Struct(arg *JArg) (*JArg, *erpc.Status)         { return EchoStruct(c.CallCtx, arg) }
func (c *C17Ctl) String(arg *string) (*string, *erpc.Status)     { return EchoString(c.CallCtx, arg) }
func (c *C17Ctl) Bytes(arg *[]byte) ([]byte, *erpc.Status)       { return EchoBytes(c.CallCtx, arg) }
func (c *C17Ctl) Pb(arg *pb.Payload) (*pb.Payload, *erpc.Status) { return EchoPb(c.CallCtx, arg) }

// C17Ctx is the struct-pointer context of the second function handler form.
type C17Ctx struct{ erpc.CallCtx }

func XEchoStruct(c *C17Ctx, arg *JArg) (*JArg, *erpc.Status)         { return EchoStruct(c.CallCtx, arg) }
func XEchoString(c *C17Ctx, arg *string) (*string, *erpc.Status)     { return EchoString(c.CallCtx, arg) }
func XEchoBytes(c *C17Ctx, arg *[]byte) ([]byte, *erpc.Status)       { return EchoBytes(c.CallCtx, arg) }
func XEchoPb(c *C17Ctx, arg *pb.Payload) (*pb.Payload, *erpc.Status) { return EchoPb(c.CallCtx, arg) }

// unknownCall is the handler given to SetUnknownCall: it binds the raw body by the cell's body kind.
func unknownCall(ctx erpc.UnknownCallCtx) (interface{}, *erpc.Status) {
	rec := lookup(ctx.PeekMeta("Id"))
	if rec == nil {
		return nil, errNoRec
	}
	cc, ok := ctx.(erpc.CallCtx)
	if !ok {
		return nil, erpc.NewStatus(597, "c17 harness: the unknown-call context is not a CallCtx", "")
	}
	var arg interface{}
	switch rec.kind {
	case "jbytes", "pbbytes":
		b := append([]byte{}, ctx.InputBodyBytes()...)
		arg = &b
	default:
		h := newHolder(rec.kind)
		if _, err := ctx.Bind(h); err != nil {
			return nil, erpc.NewStatus(596, "c17 harness: binding the body in the unknown-call handler failed", err.Error())
		}
		arg = h
	}
	return serve(cc, arg)
}

// Push handlers.

func TakeStruct(ctx erpc.PushCtx, arg *JArg) *erpc.Status   { onHandle(ctx, arg); return nil }
func TakeString(ctx erpc.PushCtx, arg *string) *erpc.Status { onHandle(ctx, arg); return nil }
func TakeBytes(ctx erpc.PushCtx, arg *[]byte) *erpc.Status  { onHandle(ctx, arg); return nil }
func TakePb(ctx erpc.PushCtx, arg *pb.Payload) *erpc.Status { onHandle(ctx, arg); return nil }

type routes struct {
	call, push map[string]string            // body kind -> service method
	form       map[string]map[string]string // handler form -> body kind -> service method
}

// callRoute is the service method for an operation (by handler form).
func (rt routes) callRoute(kind string, op Op) string {
	if op.Form == "" {
		return rt.call[kind]
	}
	return rt.form[op.Form][kind]
}

func register(p erpc.Peer, pl ...erpc.Plugin) routes {
	rt := routes{map[string]string{}, map[string]string{}, map[string]map[string]string{"ctrl": {}, "ctxfunc": {}, "unknown": {}}}
	byMethod := map[string]string{"struct": "jstruct", "string": "jstring", "bytes": "jbytes", "pb": "pbmsg"}
	for _, name := range p.RouteCall(new(C17Ctl), pl...) {
		if k, ok := byMethod[name[strings.LastIndexByte(name, '/')+1:]]; ok {
			rt.form["ctrl"][k] = name
		}
	}
	rt.form["ctrl"]["pbbytes"] = rt.form["ctrl"]["jbytes"]
	rt.form["ctxfunc"]["jstruct"] = p.RouteCallFunc(XEchoStruct, pl...)
	rt.form["ctxfunc"]["jstring"] = p.RouteCallFunc(XEchoString, pl...)
	rt.form["ctxfunc"]["jbytes"] = p.RouteCallFunc(XEchoBytes, pl...)
	rt.form["ctxfunc"]["pbbytes"] = rt.form["ctxfunc"]["jbytes"]
	rt.form["ctxfunc"]["pbmsg"] = p.RouteCallFunc(XEchoPb, pl...)
	p.SetUnknownCall(unknownCall, pl...)
	for _, k := range bodyKinds {
		rt.form["unknown"][k] = "/c17/nobody/registered/this/" + k
		if rt.form["ctrl"][k] == "" {
			core.Fatalf("controller route for body kind %s not found among the names RouteCall returned", k)
		}
	}
	rt.call["jstruct"] = p.RouteCallFunc(EchoStruct, pl...)
	rt.call["jstring"] = p.RouteCallFunc(EchoString, pl...)
	rt.call["jbytes"] = p.RouteCallFunc(EchoBytes, pl...)
	rt.call["pbbytes"] = rt.call["jbytes"]
	rt.call["pbmsg"] = p.RouteCallFunc(EchoPb, pl...)
	rt.push["jstruct"] = p.RoutePushFunc(TakeStruct, pl...)
	rt.push["jstring"] = p.RoutePushFunc(TakeString, pl...)
	rt.push["jbytes"] = p.RoutePushFunc(TakeBytes, pl...)
	rt.push["pbbytes"] = rt.push["jbytes"]
	rt.push["pbmsg"] = p.RoutePushFunc(TakePb, pl...)
	return rt
}

// observer is registered after the secure plug-in: it sees the message as it is handed to the protocol.
type observer struct{}

func (observer) Name() string { return "c17-observer" }

func grab(ctx erpc.WriteCtx, which string) {
	rec, _ := cur.Load().(*opRec)
	if rec == nil {
		return
	}
	out := ctx.Output()
	b, err := out.MarshalBody()
	rec.mu.Lock()
	rec.outBody[which] = append([]byte{}, b...)
	rec.outCodec[which] = out.BodyCodec()
	rec.outSecure[which] = string(out.Meta().Peek(secure.SECURE_META_KEY))
	if err != nil {
		rec.outErr[which] = err.Error()
	}
	rec.mu.Unlock()
}

func (observer) PreWriteCall(ctx erpc.WriteCtx) *erpc.Status  { grab(ctx, "call"); return nil }
func (observer) PreWritePush(ctx erpc.WriteCtx) *erpc.Status  { grab(ctx, "push"); return nil }
func (observer) PreWriteReply(ctx erpc.WriteCtx) *erpc.Status { grab(ctx, "reply"); return nil }

var (
	_ erpc.PreWriteCallPlugin  = observer{}
	_ erpc.PreWritePushPlugin  = observer{}
	_ erpc.PreWriteReplyPlugin = observer{}
)

// ---------------------------------------------------------------------------------------------
// wire tap

type tapEntry struct {
	clock uint64
	end   int // 0: written by end A, 1: written by end B
	n     int
}

type tap struct {
	mu      sync.Mutex
	clock   uint64
	entries []tapEntry
	buf     [2][]byte
	frames  int64
	bytes   int64
}

func (t *tap) hook(end int) func(p []byte, total int64) {
	return func(p []byte, total int64) {
		t.mu.Lock()
		t.clock++
		t.entries = append(t.entries, tapEntry{t.clock, end, len(p)})
		t.buf[end] = append(t.buf[end], p...)
		t.frames++
		t.bytes += int64(len(p))
		t.mu.Unlock()
	}
}

func (t *tap) reset() {
	t.mu.Lock()
	t.entries = t.entries[:0]
	t.buf[0], t.buf[1] = nil, nil
	t.mu.Unlock()
}

// take returns what the sender end and the receiver end wrote since reset, and whether every write
// of the sender preceded every write of the receiver on the logical clock.
func (t *tap) take(senderEnd int) (req, rep []byte, ordered bool) {
	t.mu.Lock()
	defer t.mu.Unlock()
	req, rep = t.buf[senderEnd], t.buf[1-senderEnd]
	ordered = true
	seenRecv := false
	for _, e := range t.entries {
		if e.end != senderEnd {
			seenRecv = true
		} else if seenRecv {
			ordered = false
		}
	}
	return
}

// ---------------------------------------------------------------------------------------------
// transport control

func safely(f func() error) (err error) {
	defer func() {
		if p := recover(); p != nil {
			err = fmt.Errorf("panic: %v", p)
		}
	}()
	return f()
}

// carries asks the protocol codec alone (no peers, no plug-ins) whether it delivers this body unchanged.
func carries(p protos.P, mtype byte, codecID byte, body []byte) (bool, string) {
	var w bytes.Buffer
	pw := p.Func(wire.RW{Reader: bytes.NewReader(nil), Writer: &w})
	spec := wire.Spec{Seq: 7, Mtype: mtype, Method: "/c17/control", Codec: codecID, Body: body,
		Meta: []wire.KV{{K: "Id", V: "control"}, {K: secure.SECURE_META_KEY, V: "true"}}}
	m, err := wire.Build(spec, p)
	if err != nil {
		return false, "build: " + err.Error()
	}
	if err := safely(func() error { return pw.Pack(m) }); err != nil {
		return false, "pack: " + err.Error()
	}
	pr := p.Func(wire.RW{Reader: bytes.NewReader(w.Bytes()), Writer: ioutil.Discard})
	rm := wire.NewReceiver(p)
	if err := safely(func() error { return pr.Unpack(rm) }); err != nil {
		return false, "unpack: " + err.Error()
	}
	got := wire.Extract(rm, p)
	if !bytes.Equal(got.Body, body) {
		return false, fmt.Sprintf("body of %d bytes came back as %d different bytes", len(body), len(got.Body))
	}
	return true, ""
}

// ---------------------------------------------------------------------------------------------
// case execution

type finding struct {
	verdict string // core.Violated or core.Inconclusive
	role    string // call | push | reply
	marker  string
	symptom string
	what    string
	witness map[string]interface{}
}

type cellRun struct {
	c        Cell
	p        protos.P
	findings []finding
	checked  int64 // messages checked
	// observeOnly: the cell is outside the property's premise; findings become counters
	observeOnly bool
	verA, verB  string // cipher versions (what the envelope of A's / B's plug-in carries)
	stats       map[string]int64
	appDesc     []string // flavour app-swap: the entries the application keeps in the swap (labels), who holds them, how
}

// withoutApp: the plug-ins registered on routes (the application's own plug-in is always given to the peer).
func withoutApp(pl []erpc.Plugin) []erpc.Plugin {
	var out []erpc.Plugin
	for _, p := range pl {
		if _, ok := p.(*appPlugin); !ok {
			out = append(out, p)
		}
	}
	return out
}

func (cr *cellRun) add(f finding) {
	if cr.observeOnly {
		cr.stats[fmt.Sprintf("onesided/%s/%s/%s/%s", cr.c.Plugins, f.role, f.marker, f.symptom)]++
		return
	}
	cr.findings = append(cr.findings, f)
}

// tag is the scenario tag appended to the marker class in fingerprints.
func (cr *cellRun) tag(op Op) string {
	t := ""
	if cr.c.Flavour == "swap-nonempty" || cr.c.Flavour == "app-swap" {
		t = "@" + cr.c.Flavour
	}
	if op.Phase == "concurrent" {
		t += "@concurrent"
	}
	switch op.Shape {
	case "":
	case "nil", "empty":
		t += "@empty-body"
	default:
		t += "@short-body"
	}
	if op.HErr {
		t += "@handler-error"
	}
	if op.Form != "" {
		t += "@" + op.Form
	}
	if op.HStat != "" {
		t += "@status-" + op.HStat
	}
	switch op.Recv {
	case "nil":
		t += "@nil-result"
	case "typed":
		t += "@typed-result"
	}
	return t
}

func (cr *cellRun) violate(role string, op Op, symptom, what string, w map[string]interface{}) {
	if w == nil {
		w = map[string]interface{}{}
	}
	w["op"] = op
	w["cell"] = cr.c
	if len(cr.appDesc) > 0 {
		w["application_swap_entries"] = cr.appDesc
	}
	cr.add(finding{core.Violated, role, op.Marker + cr.tag(op), symptom, what, w})
}

func (cr *cellRun) unsure(role string, op Op, what string, w map[string]interface{}) {
	if w == nil {
		w = map[string]interface{}{}
	}
	w["op"] = op
	cr.add(finding{core.Inconclusive, role, op.Marker + cr.tag(op), "inconclusive", what, w})
}

func keysFor(class string, r *core.Rand) (ka, kb string) {
	k := func(n int) string { return randAlnum(r, n) }
	switch class {
	case "eq16":
		ka = k(16)
		return ka, ka
	case "eq24":
		ka = k(24)
		return ka, ka
	case "eq32":
		ka = k(32)
		return ka, ka
	case "diff16":
		return k(16), k(16)
	case "diff16-32":
		return k(16), k(32)
	case "diff32-24":
		return k(32), k(24)
	}
	panic(class)
}

func markerSettings(m string) []erpc.MessageSetting {
	var s []erpc.MessageSetting
	if strings.HasPrefix(m, "secure") {
		s = append(s, secure.WithSecureMeta())
	}
	if strings.HasSuffix(m, "accept-true") {
		s = append(s, secure.WithAcceptSecureMeta(true))
	}
	if strings.HasSuffix(m, "accept-false") {
		s = append(s, secure.WithAcceptSecureMeta(false))
	}
	return s
}

const opTimeout = 30 * time.Second

// status codes given to the two plug-in instances
const (
	codeA int32 = 100171
	codeB int32 = 100172
)

func runCell(id string, c Cell, seedv int64) {
	if c.Flavour == "receiver-shapes" {
		runRecvCell(id, c, seedv)
		return
	}
	r := core.NewRand(seedv, int64(c.Idx), 17)
	p := protos.ByName(c.Proto)
	cr := &cellRun{c: c, p: p, stats: map[string]int64{}}
	ka, kb := keysFor(c.Keys, r)
	equalKeys := ka == kb

	// the observer comes after the secure plug-in, so it sees what is handed to the protocol
	plA := []erpc.Plugin{secure.NewPlugin(codeA, ka), observer{}}
	plB := []erpc.Plugin{secure.NewPlugin(codeB, kb), observer{}}
	switch c.Plugins { // direction is a2b in these cells: A sends
	case "sender-only":
		plB = []erpc.Plugin{observer{}}
	case "receiver-only":
		plA = []erpc.Plugin{observer{}}
	}
	cr.observeOnly = c.Plugins != ""
	cr.verA, cr.verB = goutil.Md5([]byte(ka)), goutil.Md5([]byte(kb))
	// the application's own data in the swap (flavour app-swap): which end holds it, and how it gets there
	var appA, appB *appPlugin  // the application's plug-in of end A / B (nil: that end keeps nothing)
	var glA, glB []erpc.Plugin // what a peer whose secure plug-in sits on its routes only gets globally
	if c.Flavour == "app-swap" {
		entries := appEntriesFor(c, r)
		for _, e := range entries {
			cr.appDesc = append(cr.appDesc, e.label)
		}
		cr.appDesc = append(cr.appDesc, "held by: "+c.AppSide, "stored by: "+c.AppVia)
		mk := func() *appPlugin {
			return &appPlugin{entries: entries, session: c.AppVia == "session-plugin", ctx: c.AppVia == "ctx-plugin"}
		}
		senderHas, receiverHas := c.AppSide != "receiver", c.AppSide != "sender"
		if (c.Dir == "a2b" && senderHas) || (c.Dir == "b2a" && receiverHas) {
			appA = mk()
		}
		if (c.Dir == "a2b" && receiverHas) || (c.Dir == "b2a" && senderHas) {
			appB = mk()
		}
		// the application's plug-in stands before or after the secure plug-in in the peer's list
		first := r.Intn(2) == 0
		cr.appDesc = append(cr.appDesc, fmt.Sprintf("application plug-in listed before the secure plug-in: %v", first))
		with := func(pl []erpc.Plugin, a *appPlugin) []erpc.Plugin {
			if a == nil || c.AppVia == "session-code" {
				return pl
			}
			if first {
				return append([]erpc.Plugin{a}, pl...)
			}
			return append(append([]erpc.Plugin{}, pl...), a)
		}
		plA, plB = with(plA, appA), with(plB, appB)
		glA, glB = with(nil, appA), with(nil, appB)
	}
	var pa, pb2 erpc.Peer
	var rt routes
	switch {
	case c.Scope == "route" && c.Dir == "a2b": // B receives: plug-in only on B's routes
		pa = erpc.NewPeer(erpc.PeerConfig{}, plA...)
		pb2 = erpc.NewPeer(erpc.PeerConfig{}, glB...)
		register(pa)
		rt = register(pb2, withoutApp(plB)...)
	case c.Scope == "route":
		pa = erpc.NewPeer(erpc.PeerConfig{}, glA...)
		pb2 = erpc.NewPeer(erpc.PeerConfig{}, plB...)
		rt = register(pa, withoutApp(plA)...)
		register(pb2)
	default:
		pa = erpc.NewPeer(erpc.PeerConfig{}, plA...)
		pb2 = erpc.NewPeer(erpc.PeerConfig{}, plB...)
		rt = register(pa)
		register(pb2)
	}
	tp := &tap{}
	l, err := bed.Connect(pa, pb2, p.Func, p.Func, func(ca, cb *memconn.Conn) {
		ca.SetWriteTap(tp.hook(0))
		cb.SetWriteTap(tp.hook(1))
	})
	if err != nil {
		core.Result(core.R{ID: id, Verdict: core.Inconclusive, What: "connect: " + err.Error()})
		return
	}
	sender, receiver, senderEnd := l.A, l.B, 0
	if c.Dir == "b2a" {
		sender, receiver, senderEnd = l.B, l.A, 1
	}
	if c.Flavour == "swap-nonempty" {
		// application data in the session swap on both ends, before any traffic
		l.A.Swap().Store("c17-app-entry", "A:"+id)
		l.B.Swap().Store("c17-app-entry", "B:"+id)
	}
	var wantInHandler []interface{} // keys the receiving end's handler contexts must show (workload self-check)
	if c.Flavour == "app-swap" {
		for end, a := range []*appPlugin{appA, appB} {
			if a == nil {
				continue
			}
			sess := []erpc.Session{l.A, l.B}[end]
			if c.AppVia == "session-code" {
				a.put(sess.Swap())
			}
			if c.AppVia != "ctx-plugin" {
				// the precondition of the cell: the session swap really holds the entries
				for _, e := range a.entries {
					if _, ok := sess.Swap().Load(e.key); !ok {
						core.Fatalf("app-swap cell %d: the session swap does not hold the entry %s after it was stored (%s)", c.Idx, e.label, c.AppVia)
					}
				}
			}
			if end != senderEnd {
				for _, e := range a.entries {
					wantInHandler = append(wantInHandler, e.key)
				}
			}
		}
		cr.stats["app_swap_cells"]++
	}
	cid := codecID(c.Body)
	abort := ""
	var pushes []*opRec

	newRec := func(op Op) *opRec {
		rec := &opRec{id: fmt.Sprintf("%s.%d.%d", id, *batch, op.N), op: op, enforce: op.Enforce, kind: c.Body, appKeys: wantInHandler,
			outBody: map[string][]byte{}, outCodec: map[string]byte{}, outSecure: map[string]string{}, outErr: map[string]string{}}
		if op.Shape != "" {
			rec.arg, rec.wantArg, rec.argTok = makeShape(c.Body, op.Shape, r, false)
			if op.Kind == "call" {
				rec.res, rec.wantRes, rec.resTok = makeShape(c.Body, op.Shape, r, true)
			}
		} else {
			rec.argTok = newToken(r)
			rec.arg = makeValue(c.Body, rec.argTok, op.Size, r)
			rec.wantArg = rec.arg
			if op.Kind == "call" {
				rec.resTok = newToken(r)
				rec.res = makeValue(c.Body, rec.resTok, op.Size, r)
				rec.wantRes = rec.res
			}
		}
		regMu.Lock()
		reg[rec.id] = rec
		regMu.Unlock()
		return rec
	}
	drop := func(rec *opRec) {
		regMu.Lock()
		delete(reg, rec.id)
		regMu.Unlock()
	}

	doCall := func(rec *opRec, extra []erpc.MessageSetting) (erpc.CallCmd, bool) {
		set := append([]erpc.MessageSetting{erpc.WithBodyCodec(cid), erpc.WithSetMeta("Id", rec.id)}, extra...)
		ch := make(chan erpc.CallCmd, 1)
		tp.reset()
		cur.Store(rec)
		holder := newHolder(c.Body)
		if rec.op.N%2 == 1 {
			holder = usedHolder(c.Body)
			core.Add("calls_into_a_reused_result_receiver", 1)
		}
		sender.AsyncCall(rt.callRoute(c.Body, rec.op), rec.arg, holder, ch, set...)
		select {
		case cmd := <-ch:
			rec.reqFrame, rec.repFrame, rec.orderOK = tp.take(senderEnd)
			return cmd, true
		case <-time.After(opTimeout):
			return nil, false
		}
	}

	if c.Flavour == "app-swap" && c.AppVia == "session-code" {
		// a session's reader takes the context of the next message (with its copy of the session swap) before that
		// message arrives: one call that is not judged, so that every judged message meets the stored entries
		wrec := newRec(Op{N: 200000, Kind: "call", Marker: "none", Size: 64, SizeCl: "small"})
		wrec.appKeys = nil
		if _, ok := doCall(wrec, nil); !ok {
			abort = "the warm-up call after storing the application's swap entries did not complete within the watchdog"
		}
		drop(wrec)
	}
	ops := opsFor(c, r)
	for _, op := range ops {
		if abort != "" {
			break
		}
		rec := newRec(op)
		if op.Kind == "call" {
			cmd, ok := doCall(rec, markerSettings(op.Marker))
			if !ok {
				abort = fmt.Sprintf("op %d (%s %s enforce=%v size=%d): call did not complete within the watchdog (a stuck call is C02's business)", op.N, op.Kind, op.Marker, op.Enforce, op.Size)
				break
			}
			cr.checkCall(rec, cmd, equalKeys)
			drop(rec)
			continue
		}
		set := append([]erpc.MessageSetting{erpc.WithBodyCodec(cid), erpc.WithSetMeta("Id", rec.id)}, markerSettings(op.Marker)...)
		tp.reset()
		cur.Store(rec)
		done := make(chan *erpc.Status, 1)
		go func() { done <- sender.Push(rt.push[c.Body], rec.arg, set...) }()
		var st *erpc.Status
		select {
		case st = <-done:
		case <-time.After(opTimeout):
			abort = fmt.Sprintf("op %d (push %s size=%d): Push did not return within the watchdog", op.N, op.Marker, op.Size)
		}
		if abort != "" {
			break
		}
		rec.reqFrame, rec.repFrame, rec.orderOK = tp.take(senderEnd)
		cr.checkPushFrame(rec, st, equalKeys)
		rec.reqFrame = nil
		pushes = append(pushes, rec)
	}

	// concurrent phase: k calls in flight at once on this session; values and statuses only
	if abort == "" {
		cur.Store((*opRec)(nil))
		n := len(ops)
		for ri, rd := range concRounds(c) {
			var recs []*opRec
			expectRun := 0
			for j := 0; j < rd.k; j++ {
				m := rd.markers[j%len(rd.markers)]
				sz := []int{40, 4096, 300, 40, 1500, 40, 9000, 300}[(j+ri)%8]
				if c.Reps > 0 {
					sz = tokLen + r.Intn(12000)
				}
				rec := newRec(Op{N: n, Kind: "call", Marker: m, Size: sz, SizeCl: sizeClass(sz), Phase: "concurrent"})
				n++
				if equalKeys || !hasSecure(m) {
					expectRun++
				}
				recs = append(recs, rec)
			}
			g := newGate(expectRun)
			for _, rec := range recs {
				rec.gate = g
			}
			tp.reset()
			ch := make(chan erpc.CallCmd, rd.k)
			byCmd := map[erpc.CallCmd]*opRec{}
			for _, rec := range recs {
				set := append([]erpc.MessageSetting{erpc.WithBodyCodec(cid), erpc.WithSetMeta("Id", rec.id)}, markerSettings(rec.op.Marker)...)
				byCmd[sender.AsyncCall(rt.call[c.Body], rec.arg, newHolder(c.Body), ch, set...)] = rec
			}
			done := map[*opRec]erpc.CallCmd{}
			timeout := time.After(opTimeout)
			for len(done) < rd.k && abort == "" {
				select {
				case cmd := <-ch:
					rec := byCmd[cmd]
					if rec == nil {
						abort = "concurrent phase: a CallCmd that was not issued arrived on the completion channel"
						break
					}
					done[rec] = cmd
				case <-timeout:
					abort = fmt.Sprintf("concurrent phase (k=%d): %d of %d calls did not complete within the watchdog", rd.k, rd.k-len(done), rd.k)
				}
			}
			if abort == "" {
				reqAll, repAll, _ := tp.take(senderEnd)
				g.mu.Lock()
				core.Max("max_handlers_in_flight", int64(g.arrived))
				g.mu.Unlock()
				for _, rec := range recs {
					cr.checkConcurrent(rec, done[rec], equalKeys, rd.k, reqAll, repAll)
				}
				cr.stats["concurrent_rounds"]++
			}
			for _, rec := range recs {
				drop(rec)
			}
			if abort != "" {
				break
			}
		}
	}

	// barrier for the pushes: a sentinel call (the receiver's reader has then taken every earlier
	// frame and registered its handler context), then the receiver's session is closed gracefully,
	// which waits for all handler contexts of the session.
	if abort == "" {
		srec := newRec(Op{N: len(ops) + 100000, Kind: "call", Marker: "none", Size: 64, SizeCl: "small"})
		cmd, ok := doCall(srec, nil)
		switch {
		case !ok:
			abort = "sentinel call did not complete within the watchdog"
		case !cmd.Status().OK():
			abort = "sentinel call failed: " + statusText(cmd.Status())
		}
		drop(srec)
	}
	cur.Store((*opRec)(nil))
	if abort == "" {
		closed := make(chan struct{})
		go func() { receiver.Close(); close(closed) }()
		select {
		case <-closed:
		case <-time.After(opTimeout):
			abort = "graceful close of the receiving session did not return within the watchdog"
		}
	}
	if abort == "" {
		for _, rec := range pushes {
			cr.checkPushDelivery(rec, equalKeys)
		}
	}
	for _, rec := range pushes {
		drop(rec)
	}
	if abort != "" {
		l.CA.Sever(false)
	}
	closeBoth := make(chan struct{})
	go func() { pa.Close(); pb2.Close(); close(closeBoth) }()
	select {
	case <-closeBoth:
	case <-time.After(opTimeout):
		fmt.Fprintf(os.Stderr, "case %s: peers did not close\n", id)
	}

	for _, a := range []*appPlugin{appA, appB} {
		if a != nil {
			cr.stats["app_swap_entries_stored"] += atomic.LoadInt64(&a.stores)
		}
	}
	// evidence
	tp.mu.Lock()
	core.Add("frames_tapped", tp.frames)
	core.Add("bytes_tapped", tp.bytes)
	tp.mu.Unlock()
	if cr.observeOnly {
		for k, v := range cr.stats {
			if strings.HasPrefix(k, "onesided/") {
				core.Add(k, v)
			}
		}
		core.Add("onesided_messages_observed", cr.checked)
		what := "observation only (one side without the plug-in is outside the property's premise)"
		if abort != "" {
			what += "; " + abort
		}
		core.Result(core.R{ID: id, Verdict: core.Held, What: what, Sig: "observe/" + c.Proto + "/" + c.Body + "/" + c.Plugins})
		return
	}
	core.Add("evaluations", cr.checked)
	for k, v := range cr.stats {
		core.Add(k, v)
	}
	sig := fmt.Sprintf("%s/%s/%s/%s/%s%s", c.Proto, c.Body, c.Keys, c.Dir, c.Scope, cr.tag(Op{}))
	if c.Flavour == "app-swap" {
		sig += "/" + c.AppKey + "/" + c.AppSide + "/" + c.AppVia
	}
	core.Sample(map[string]interface{}{"cell": c, "ops": len(ops), "messages_checked": cr.checked, "stats": cr.stats})

	if abort != "" {
		cr.add(finding{verdict: core.Inconclusive, role: "cell", symptom: "inconclusive", what: abort})
	}
	cr.emit(id, sig)
}

// runRecvCell: result receiver shapes. Every call runs on its own fresh link between the cell's two peers.
// Completion is decided without a clock: the call completes, or the process becomes quiescent (no goroutine
// can run any more) with both sessions healthy and the handler finished while the call is still pending.
func runRecvCell(id string, c Cell, seedv int64) {
	r := core.NewRand(seedv, int64(c.Idx), 23)
	p := protos.ByName(c.Proto)
	cr := &cellRun{c: c, p: p, stats: map[string]int64{}}
	ka, kb := keysFor(c.Keys, r)
	equalKeys := ka == kb
	cr.verA, cr.verB = goutil.Md5([]byte(ka)), goutil.Md5([]byte(kb))
	pa := erpc.NewPeer(erpc.PeerConfig{}, secure.NewPlugin(codeA, ka))
	pb2 := erpc.NewPeer(erpc.PeerConfig{}, secure.NewPlugin(codeB, kb))
	register(pa)
	rt := register(pb2)
	cid := codecID(c.Body)
	cur.Store((*opRec)(nil))

	bounded := func(f func(), d time.Duration) bool {
		done := make(chan struct{})
		go func() { f(); close(done) }()
		select {
		case <-done:
			return true
		case <-time.After(d):
			return false
		}
	}

	var ops []Op
	for _, recv := range []string{"typed", "nil"} {
		for _, via := range []string{"sync", "async"} {
			for _, m := range markers {
				for _, enf := range []bool{false, true} {
					ops = append(ops, Op{N: len(ops), Kind: "call", Marker: m, Enforce: enf, Size: 40, SizeCl: "small", Recv: recv, Via: via})
				}
			}
		}
	}
	for _, op := range ops {
		l, err := bed.Connect(pa, pb2, p.Func, p.Func, nil)
		if err != nil {
			cr.unsure("call", op, "connect: "+err.Error(), nil)
			continue
		}
		rec := &opRec{id: fmt.Sprintf("%s.%d.%d", id, *batch, op.N), op: op, enforce: op.Enforce, kind: c.Body,
			outBody: map[string][]byte{}, outCodec: map[string]byte{}, outSecure: map[string]string{}, outErr: map[string]string{}}
		rec.argTok, rec.resTok = newToken(r), newToken(r)
		rec.arg = makeValue(c.Body, rec.argTok, op.Size, r)
		rec.res = makeValue(c.Body, rec.resTok, op.Size, r)
		rec.wantArg, rec.wantRes = rec.arg, rec.res
		regMu.Lock()
		reg[rec.id] = rec
		regMu.Unlock()

		var holder interface{}
		if op.Recv == "typed" {
			holder = newHolder(c.Body)
		}
		set := append([]erpc.MessageSetting{erpc.WithBodyCodec(cid), erpc.WithSetMeta("Id", rec.id)}, markerSettings(op.Marker)...)
		ch := make(chan erpc.CallCmd, 1)
		if op.Via == "async" {
			l.A.AsyncCall(rt.call[c.Body], rec.arg, holder, ch, set...)
		} else {
			go func() { ch <- l.A.Call(rt.call[c.Body], rec.arg, holder, set...) }()
		}
		var cmd erpc.CallCmd
		poll := func() bool {
			if cmd != nil {
				return true
			}
			select {
			case cmd = <-ch:
				return true
			default:
				return false
			}
		}
		bed.WaitUntil(3*time.Millisecond, poll)
		outcome := "completed"
		var q quiesce.Result
		if !poll() {
			q = quiesce.Wait(quiesce.Options{Timeout: 20 * time.Second})
			switch {
			case poll():
			case q.Quiescent:
				outcome = "pending-at-quiescence"
			default:
				outcome = "not-quiescent"
			}
		}
		cr.checked++
		cr.nontrivial("call", op)
		switch outcome {
		case "completed":
			cr.stats["receiver_shape_calls_completed"]++
			cr.checkCompletion(rec, cmd, equalKeys)
			if !bounded(func() { l.A.Close(); l.B.Close() }, opTimeout) {
				cr.stats["cleanup_abandoned"]++
				l.CA.Sever(false)
			}
		case "not-quiescent":
			cr.unsure("call", op, "the call did not complete and the process did not become quiescent within the watchdog", nil)
			l.CA.Sever(false)
			cr.stats["cleanup_abandoned"]++
		default:
			rec.mu.Lock()
			runs, returned := rec.runs, rec.returned
			rec.mu.Unlock()
			healthyA, healthyB := l.A.Health(), l.B.Health()
			// goroutines blocked inside a handler context, without those left behind by earlier calls of this process
			var fresh []quiesce.G
			for _, g := range quiesce.Blocked(q.Dump, "github.com/henrylee2cn/erpc/v6.(*handlerCtx)") {
				if !seenBlocked[g.ID] {
					seenBlocked[g.ID] = true
					fresh = append(fresh, g)
				}
			}
			blocked := quiesce.Brief(fresh)
			if len(blocked) > 4 {
				blocked = blocked[:4]
			}
			// does a graceful Close of the caller's session return? (decided at quiescence again, not by a clock)
			closed := make(chan struct{})
			go func() { l.A.Close(); close(closed) }()
			q2 := quiesce.Wait(quiesce.Options{Timeout: 10 * time.Second})
			closeHangs := false
			select {
			case <-closed:
			default:
				closeHangs = q2.Quiescent
				cr.stats["cleanup_abandoned"]++
			}
			w := map[string]interface{}{"via": op.Via, "receiver": op.Recv, "handler_runs": runs, "handler_returned": returned,
				"caller_session_healthy": healthyA, "callee_session_healthy": healthyB, "keys": c.Keys,
				"blocked_goroutines": blocked, "close_of_caller_session_hangs_too": closeHangs, "quiescence_samples": q.Samples}
			if healthyA && healthyB && runs == 1 && returned {
				cr.stats["calls_never_completed"]++
				cr.violate("call", op, "call-never-completes",
					fmt.Sprintf("%s call (enforce=%v, %s, result receiver %s): the handler returned its result, both sessions are healthy, the process is quiescent - and the call is still incomplete", op.Marker, op.Enforce, op.Via, op.Recv), w)
			} else {
				cr.unsure("call", op, fmt.Sprintf("call pending at quiescence, but the preconditions of the verdict do not hold (handler runs %d, returned %v, sessions healthy %v/%v)", runs, returned, healthyA, healthyB), w)
			}
			l.CA.Sever(false) // lets the callee's side go; whatever is wedged stays behind (counted above)
		}
		regMu.Lock()
		delete(reg, rec.id)
		regMu.Unlock()
	}
	if !bounded(func() { pa.Close(); pb2.Close() }, 5*time.Second) {
		cr.stats["cleanup_abandoned"]++
	}
	core.Add("evaluations", cr.checked)
	for k, v := range cr.stats {
		core.Add(k, v)
	}
	core.Sample(map[string]interface{}{"cell": c, "ops": len(ops), "messages_checked": cr.checked, "stats": cr.stats})
	cr.emit(id, fmt.Sprintf("%s/%s/%s/receiver-shapes", c.Proto, c.Body, c.Keys))
}

var seenBlocked = map[string]bool{}

// checkCompletion judges a completed call of the receiver-shapes class: values at the handler, status at the
// caller, and the result only where a receiver was passed.
func (cr *cellRun) checkCompletion(rec *opRec, cmd erpc.CallCmd, equalKeys bool) {
	op := rec.op
	res, stat := cmd.Reply()
	rec.mu.Lock()
	runs, gotArg, gotMeta := rec.runs, rec.gotArg, rec.gotMeta
	rec.mu.Unlock()
	marked := hasSecure(op.Marker)
	replyEnc := false
	if im := cmd.InputMeta(); im != nil && string(im.Peek(secure.SECURE_META_KEY)) == "true" {
		replyEnc = true
	}
	base := func() map[string]interface{} {
		return map[string]interface{}{"via": op.Via, "receiver": op.Recv, "status": statusText(stat), "handler_runs": runs,
			"handler_saw_meta": gotMeta, "reply_x_secure": replyEnc, "keys": cr.c.Keys}
	}
	if !equalKeys && marked {
		cr.stats["wrong_key_requests"]++
		if runs > 0 {
			cr.violate("call", op, "wrong-key-handler-ran", fmt.Sprintf("different keys (%s): the handler was invoked for an encrypted request; argument %s", cr.c.Keys, brief(gotArg)), base())
		}
		if stat.OK() {
			cr.violate("call", op, "wrong-key-status-ok", fmt.Sprintf("different keys (%s): the call with an encrypted request completed with status OK", cr.c.Keys), base())
		}
		if runs == 0 && !stat.OK() {
			cr.stats["wrong_key_requests_rejected"]++
		}
		return
	}
	sym := "value-mismatch"
	if !marked {
		sym = "unmarked-altered"
	}
	if runs != 1 {
		cr.violate("call", op, sym, fmt.Sprintf("the handler ran %d time(s) instead of once; caller status %s", runs, statusText(stat)), base())
		return
	}
	if !same(rec.wantArg, gotArg) {
		w := base()
		w["handler_arg"], w["original_arg"] = brief(gotArg), brief(rec.wantArg)
		cr.violate("call", op, sym, fmt.Sprintf("the handler's argument differs from the original: got %s want %s", brief(gotArg), brief(rec.wantArg)), w)
		return
	}
	cr.stats["handler_args_verified"]++
	cr.checked++
	cr.nontrivial("reply", op)
	if !equalKeys && replyEnc {
		cr.stats["wrong_key_replies"]++
		if stat.OK() {
			cr.violate("reply", op, "wrong-key-status-ok", fmt.Sprintf("different keys (%s): the reply was encrypted by the other side, yet the call completed with status OK", cr.c.Keys), base())
		} else {
			cr.stats["wrong_key_replies_rejected"]++
		}
		return
	}
	rsym := "value-mismatch"
	if !replyEnc {
		rsym = "unmarked-altered"
	}
	if !stat.OK() {
		cr.violate("reply", op, rsym, fmt.Sprintf("the handler returned a result but the caller got status %s", statusText(stat)), base())
		return
	}
	if op.Recv == "nil" {
		cr.stats["nil_receiver_calls_completed_ok"]++
		return // no receiver: nothing is asserted about the result value
	}
	if !same(rec.wantRes, res) {
		w := base()
		w["caller_result"], w["original_result"] = brief(res), brief(rec.wantRes)
		cr.violate("reply", op, rsym, fmt.Sprintf("the caller's result differs from what the handler returned: got %s want %s", brief(res), brief(rec.wantRes)), w)
		return
	}
	cr.stats["caller_results_verified"]++
}

// emit reports the cell: one result per distinct violation fingerprint, else inconclusive, else held.
func (cr *cellRun) emit(id, sig string) {
	c := cr.c
	groups := map[string][]finding{}
	var inconc []finding
	for _, f := range cr.findings {
		if f.verdict == core.Inconclusive {
			inconc = append(inconc, f)
			continue
		}
		fp := fmt.Sprintf("%s/%s/%s/%s/%s/%s", *prop, f.role, f.marker, c.Proto, codecName(c.Body), f.symptom)
		groups[fp] = append(groups[fp], f)
	}
	if len(groups) == 0 {
		if len(inconc) > 0 {
			core.Add("cells_inconclusive", 1)
			var ws []interface{}
			for i, f := range inconc {
				if i >= 4 {
					break
				}
				ws = append(ws, map[string]interface{}{"what": f.what, "witness": f.witness})
			}
			core.Result(core.R{ID: id, Verdict: core.Inconclusive, What: fmt.Sprintf("%s (%d inconclusive observations)", inconc[0].what, len(inconc)),
				Witness: ws, Sig: sig, Desc: c})
			return
		}
		core.Result(core.R{ID: id, Verdict: core.Held, Sig: sig, Nontrivial: cr.checked > 0})
		return
	}
	fps := make([]string, 0, len(groups))
	for k := range groups {
		fps = append(fps, k)
	}
	sort.Strings(fps)
	for i, fp := range fps {
		fs := groups[fp]
		// the smallest witness first
		sort.SliceStable(fs, func(a, b int) bool {
			oa, _ := fs[a].witness["op"].(Op)
			ob, _ := fs[b].witness["op"].(Op)
			return oa.Size < ob.Size
		})
		rid := id
		if i > 0 {
			rid = fmt.Sprintf("%s#%d", id, i)
			core.Begin(rid, c)
		}
		w := fs[0].witness
		w["observations_in_cell"] = len(fs)
		core.Result(core.R{ID: rid, Verdict: core.Violated, FP: fp, What: fs[0].what, Witness: w, Desc: c, Sig: sig})
	}
}

func (cr *cellRun) nontrivial(role string, op Op) {
	if cr.observeOnly {
		return
	}
	if op.Form != "" || op.HStat != "" {
		core.Distinct("status_shapes", fmt.Sprintf("%s/form=%s/status=%s/err=%v/%s/enf=%v/%s/%s/%s", role, op.Form, op.HStat, op.HErr, op.Marker, op.Enforce, cr.c.Proto, cr.c.Body, cr.c.Keys))
	}
	if op.Recv != "" {
		core.Distinct("receiver_shapes", fmt.Sprintf("%s/%s/%s/%s/enf=%v/%s/%s/%s", op.Recv, op.Via, role, op.Marker, op.Enforce, cr.c.Proto, cr.c.Body, cr.c.Keys))
	}
	if op.Shape != "" {
		core.Distinct("body_shapes", fmt.Sprintf("%s/%s/%s/%s/%s/%s", role, op.Shape, op.Marker, cr.c.Body, cr.c.Proto, cr.c.Keys))
	}
	core.Distinct("nontrivial", fmt.Sprintf("%s/%s%s/%s/%s/%s/%s/enf=%v/%s", role, op.Marker, cr.tag(op), cr.c.Proto, cr.c.Body, cr.c.Keys, op.SizeCl+op.Shape, op.Enforce, cr.c.Scope))
	core.Distinct("marker_proto_codec", fmt.Sprintf("%s/%s/%s/%s", role, op.Marker, cr.c.Proto, codecName(cr.c.Body)))
	if cr.c.Flavour == "app-swap" {
		core.Distinct("app_swap", fmt.Sprintf("%s/%s/%s/%s/%s/%s", cr.c.AppKey, cr.c.AppSide, cr.c.AppVia, role, op.Marker, keyEq(cr.c.Keys)))
	}
	if op.Phase == "probe" {
		core.Distinct("sequence_pairs", fmt.Sprintf("%s -> %s %s/%s/%s", op.After, op.Kind, op.Marker, cr.c.Proto, codecName(cr.c.Body)))
	}
}

// appSeen records (evidence, not a verdict) whether the handler context showed the application's swap entries.
func (cr *cellRun) appSeen(rec *opRec) {
	if len(rec.appKeys) == 0 {
		return
	}
	rec.mu.Lock()
	seen := rec.appSeen
	rec.mu.Unlock()
	cr.stats["app_swap_entries_seen_by_handlers"] += int64(seen)
	if d := len(rec.appKeys) - seen; d > 0 {
		cr.stats["app_swap_entries_NOT_seen_by_handlers"] += int64(d)
	}
}

func statusText(s *erpc.Status) string {
	if s.OK() {
		return "OK"
	}
	return s.String()
}

func keyEq(class string) string {
	if strings.HasPrefix(class, "eq") {
		return "equal-keys"
	}
	return "different-keys"
}

func hasSecure(marker string) bool { return strings.HasPrefix(marker, "secure") }

// transportExcuse decides whether a failed delivery is explained by the protocol codec being unable
// to carry one of the bodies that were handed to it (then the observation says nothing about C17).
func (cr *cellRun) transportExcuse(rec *opRec) string {
	rec.mu.Lock()
	defer rec.mu.Unlock()
	for which, b := range rec.outBody {
		mt := erpc.TypeCall
		switch which {
		case "push":
			mt = erpc.TypePush
		case "reply":
			mt = erpc.TypeReply
		}
		if ok, why := carries(cr.p, mt, rec.outCodec[which], b); !ok {
			return fmt.Sprintf("the %s protocol alone does not carry the %s body that was handed to it (%s)", cr.p.Name, which, why)
		}
	}
	return ""
}

// checkRequestFrame applies the wire clauses to the request frame (call or push).
func (cr *cellRun) checkRequestFrame(role string, rec *opRec, equalKeys bool) {
	op := rec.op
	enc, off := find(rec.reqFrame, rec.argTok)
	rec.mu.Lock()
	body := rec.outBody[role]
	rec.mu.Unlock()
	ver := cr.verA
	if cr.c.Dir == "b2a" {
		ver = cr.verB
	}
	if hasSecure(op.Marker) && len(rec.reqFrame) > 0 {
		// the envelope (cipher version of the sender's key) on the wire: recorded per body shape, not a verdict
		k := "marked_requests_with_envelope"
		if !bytes.Contains(rec.reqFrame, []byte(ver)) {
			k = "marked_requests_WITHOUT_envelope"
			if op.Shape != "" {
				k += "/" + op.Shape
			}
		}
		cr.stats[k]++
	}
	if rec.argTok == "" {
		return // a body without content: nothing can appear in clear, nothing to look for
	}
	if hasSecure(op.Marker) {
		if !equalKeys {
			// the confidentiality clause is stated for equal keys; observed, not asserted
			if enc != "" {
				cr.stats["diffkey_marked_request_plain_observed"]++
			}
			return
		}
		if enc != "" {
			cr.violate(role, op, "plaintext-on-wire",
				fmt.Sprintf("%s marked secure (%s): its plaintext token is on the wire, encoding %s, at offset %d of the request frame", role, op.Marker, enc, off),
				map[string]interface{}{"token": rec.argTok, "encoding": enc, "excerpt": excerpt(rec.reqFrame, off, 40), "frame_len": len(rec.reqFrame)})
			return
		}
		if len(rec.reqFrame) == 0 {
			return // nothing was written; the delivery check decides
		}
		cr.stats["marked_frames_without_plaintext"]++
		return
	}
	// unmarked request: must pass unchanged, and proves that the tap sees plaintext
	if enc != "" {
		cr.stats["unmarked_frames_with_plaintext"]++
		return
	}
	if len(rec.reqFrame) == 0 {
		return
	}
	if e2, _ := find(body, rec.argTok); e2 != "" {
		cr.unsure(role, op, fmt.Sprintf("monitor self-check failed: the body handed to the protocol contains the token (%s) but the tapped frame does not", e2),
			map[string]interface{}{"token": rec.argTok, "frame_len": len(rec.reqFrame)})
		return
	}
	cr.violate(role, op, "unmarked-altered",
		fmt.Sprintf("unmarked %s (%s): the body handed to the protocol does not contain the plaintext token any more", role, op.Marker),
		map[string]interface{}{"token": rec.argTok, "body_excerpt": fmt.Sprintf("%.120q", body), "out_x_secure": rec.outSecure[role]})
}

// replyExpectation: does the property demand an encrypted reply for this request?
//
//	"yes"    request encrypted (without the explicit opt-out), or accept-secure=true, or handler enforced
//	"optout" secure request + WithAcceptSecureMeta(false): recorded, not asserted
//	"no"     nothing asked for it
func replyExpectation(op Op) string {
	switch op.Marker {
	case "secure+accept-false":
		return "optout"
	case "secure", "accept-true", "secure+accept-true":
		return "yes"
	}
	if op.Enforce {
		return "yes"
	}
	return "no"
}

func (cr *cellRun) checkCall(rec *opRec, cmd erpc.CallCmd, equalKeys bool) {
	op := rec.op
	res, stat := cmd.Reply()
	rec.mu.Lock()
	runs, gotArg, gotMeta := rec.runs, rec.gotArg, rec.gotMeta
	replySecure := rec.outSecure["reply"] == "true"
	_, replyWritten := rec.outBody["reply"]
	replyBody := rec.outBody["reply"]
	rec.mu.Unlock()
	if im := cmd.InputMeta(); im != nil && !replyWritten {
		replySecure = string(im.Peek(secure.SECURE_META_KEY)) == "true"
	}
	marked := hasSecure(op.Marker)
	expect := replyExpectation(op)
	base := func() map[string]interface{} {
		return map[string]interface{}{"arg_token": rec.argTok, "result_token": rec.resTok, "status": statusText(stat), "handler_runs": runs,
			"handler_saw_meta": gotMeta, "reply_x_secure": replySecure, "keys": cr.c.Keys}
	}
	cr.checked++ // the request
	cr.nontrivial("call", op)
	if !rec.orderOK {
		cr.unsure("call", op, "frame attribution failed: a write of the sender's end followed a write of the receiver's end within one call", base())
		return
	}

	// ---- request on the wire
	cr.checkRequestFrame("call", rec, equalKeys)

	// ---- delivery of the request
	if !equalKeys && marked {
		cr.stats["wrong_key_requests"]++
		if runs > 0 {
			w := base()
			w["handler_arg"] = brief(gotArg)
			w["original_arg"] = brief(rec.arg)
			cr.violate("call", op, "wrong-key-handler-ran", fmt.Sprintf("different keys (%s): the handler was invoked %d time(s) for an encrypted request; argument %s", cr.c.Keys, runs, brief(gotArg)), w)
		}
		if stat.OK() {
			w := base()
			w["result"] = brief(res)
			cr.violate("call", op, "wrong-key-status-ok", fmt.Sprintf("different keys (%s): the call with an encrypted request completed with status OK", cr.c.Keys), w)
		}
		if runs == 0 && !stat.OK() {
			cr.stats["wrong_key_requests_rejected"]++
		}
		return
	}
	// from here on the request must reach the handler unchanged (same key, or not encrypted at all)
	sym, cl := "value-mismatch", "secure-marked"
	if !marked {
		sym, cl = "unmarked-altered", "unmarked"
	}
	if runs != 1 {
		if ex := cr.transportExcuse(rec); ex != "" {
			cr.unsure("call", op, "request not delivered, but "+ex, base())
			return
		}
		if runs == 0 && len(rec.reqFrame) == 0 && stat.Code() != codeA && stat.Code() != codeB {
			// nothing reached the wire and it was not the plug-in that refused (e.g. connection gone)
			cr.unsure("call", op, "request was never written: "+statusText(stat), base())
			return
		}
		cr.violate("call", op, sym, fmt.Sprintf("%s request: the handler ran %d time(s) instead of once; caller status %s", cl, runs, statusText(stat)), base())
		return
	}
	if !same(rec.wantArg, gotArg) {
		w := base()
		w["handler_arg"] = brief(gotArg)
		w["original_arg"] = brief(rec.wantArg)
		cr.violate("call", op, sym, fmt.Sprintf("%s request: the handler's argument differs from the original: got %s want %s", cl, brief(gotArg), brief(rec.wantArg)), w)
		return
	}
	if !marked && rec.sawSec == "true" {
		cr.violate("call", op, "unmarked-altered", fmt.Sprintf("unmarked request (%s): the handler saw the metadata %s=true", op.Marker, secure.SECURE_META_KEY), base())
		return
	}
	cr.stats["handler_args_verified"]++
	cr.appSeen(rec)

	if op.HErr {
		// the handler answered with an error status: there is no result to restore or to hide; which status
		// the caller sees is C04's business - recorded only
		cr.checked++
		cr.nontrivial("reply", op)
		switch {
		case stat.Code() == handlerErrCode:
			cr.stats["handler_error_status_delivered"]++
		case stat.OK():
			cr.stats["handler_error_status_seen_as_OK"]++
		default:
			cr.stats["handler_error_status_other"]++
		}
		if enc, _ := find(rec.repFrame, rec.resTok); enc != "" {
			cr.stats["handler_error_reply_carries_result_token"]++
		}
		return
	}

	// ---- the reply
	cr.checked++
	cr.nontrivial("reply", op)
	if replySecure && len(rec.repFrame) > 0 {
		ver := cr.verB // the replying side's cipher version
		if cr.c.Dir == "b2a" {
			ver = cr.verA
		}
		k := "marked_replies_with_envelope"
		if !bytes.Contains(rec.repFrame, []byte(ver)) {
			k = "marked_replies_WITHOUT_envelope"
			if op.Shape != "" {
				k += "/" + op.Shape
			}
		}
		cr.stats[k]++
	}
	encR, offR := find(rec.repFrame, rec.resTok)
	switch expect {
	case "optout":
		if encR != "" {
			cr.stats["optout_reply_plain"]++
		} else {
			cr.stats["optout_reply_encrypted"]++
		}
	case "no":
		if replySecure {
			// the request was not encrypted, did not ask for an encrypted reply, and the handler did not enforce one:
			// this reply is an unmarked message. It left marked X-Secure=true (set by the plug-in, nobody else
			// touches it here), i.e. it did not pass unchanged - whatever the keys are.
			cr.stats["unrequested_encrypted_replies"]++
			w := base()
			w["reply_frame_has_result_token"] = encR != ""
			cr.violate("reply", op, "unmarked-altered", fmt.Sprintf("the reply to an unmarked request (%s, handler not enforcing) left marked %s=true although nothing asked for an encrypted reply; caller status %s",
				op.Marker, secure.SECURE_META_KEY, statusText(stat)), w)
			return
		}
	}
	reported := false
	if equalKeys && expect == "yes" && encR != "" {
		w := base()
		w["encoding"], w["excerpt"], w["frame_len"] = encR, excerpt(rec.repFrame, offR, 40), len(rec.repFrame)
		why := "the request was encrypted"
		switch {
		case op.Marker == "accept-true":
			why = "the request asked for an encrypted reply (accept-secure=true)"
		case !marked:
			why = "the handler enforced an encrypted reply"
		}
		cr.violate("reply", op, "reply-not-encrypted", fmt.Sprintf("%s, but the reply carries the result's plaintext token (encoding %s, offset %d)", why, encR, offR), w)
		reported = true
	}
	if equalKeys && replySecure && encR != "" && !reported {
		w := base()
		w["encoding"], w["excerpt"], w["frame_len"] = encR, excerpt(rec.repFrame, offR, 40), len(rec.repFrame)
		cr.violate("reply", op, "plaintext-on-wire", fmt.Sprintf("reply marked secure: the result's plaintext token is on the wire (encoding %s, offset %d)", encR, offR), w)
		reported = true
	}
	if encR == "" && len(rec.repFrame) > 0 && (replySecure || expect == "yes") {
		cr.stats["marked_frames_without_plaintext"]++
	}

	replyEncrypted := replySecure // as marked by the replying side
	if !equalKeys && replyEncrypted {
		// the caller cannot decrypt: the result must not be delivered as OK
		cr.stats["wrong_key_replies"]++
		if stat.OK() {
			w := base()
			w["result"] = brief(res)
			cr.violate("reply", op, "wrong-key-status-ok", fmt.Sprintf("different keys (%s): the reply was encrypted by the other side, yet the call completed with status OK", cr.c.Keys), w)
		} else {
			cr.stats["wrong_key_replies_rejected"]++
		}
		return
	}
	if !equalKeys && expect != "no" && !replyEncrypted {
		// which replies must be encrypted is stated for equal keys; observed only
		cr.stats["diffkey_expected_encrypted_reply_plain_observed"]++
	}
	// the result must reach the caller unchanged
	rsym, rcl := "value-mismatch", "encrypted"
	if !replyEncrypted {
		rsym, rcl = "unmarked-altered", "unmarked"
	}
	if !stat.OK() {
		if ex := cr.transportExcuse(rec); ex != "" {
			cr.unsure("reply", op, "result not delivered, but "+ex, base())
			return
		}
		cr.violate("reply", op, rsym, fmt.Sprintf("%s reply: the handler returned a result but the caller got status %s", rcl, statusText(stat)), base())
		return
	}
	if !same(rec.wantRes, res) {
		w := base()
		w["caller_result"] = brief(res)
		w["original_result"] = brief(rec.wantRes)
		cr.violate("reply", op, rsym, fmt.Sprintf("%s reply: the caller's result differs from what the handler returned: got %s want %s", rcl, brief(res), brief(rec.wantRes)), w)
		return
	}
	cr.stats["caller_results_verified"]++
	if !replyEncrypted && encR == "" && len(rec.repFrame) > 0 && rec.resTok != "" {
		// unmarked reply without the plaintext token on the wire
		if e2, _ := find(replyBody, rec.resTok); e2 != "" {
			cr.unsure("reply", op, fmt.Sprintf("monitor self-check failed: the reply body handed to the protocol contains the token (%s) but the tapped frame does not", e2), base())
			return
		}
		w := base()
		w["body_excerpt"] = fmt.Sprintf("%.120q", replyBody)
		cr.violate("reply", op, "unmarked-altered", "unmarked reply: the body handed to the protocol does not contain the plaintext token any more", w)
		return
	}
	if !replyEncrypted && encR != "" {
		cr.stats["unmarked_frames_with_plaintext"]++
	}
}

type concRound struct {
	k       int
	markers []string
}

func concRounds(c Cell) []concRound {
	if c.Plugins != "" {
		return nil
	}
	if c.Flavour == "app-swap" {
		mixed := concRound{8, []string{"none", "secure", "accept-true", "none", "secure+accept-false", "accept-false", "secure+accept-true", "none"}}
		if c.Reps == 0 {
			return []concRound{mixed}
		}
		return []concRound{mixed, {2, []string{"none", "secure"}}, mixed}
	}
	base := []concRound{{2, []string{"secure"}}, {8, []string{"secure"}}, {2, []string{"secure+accept-true"}},
		{8, []string{"secure", "secure+accept-true"}}, {8, []string{"secure", "none", "accept-true", "secure+accept-false"}}}
	if c.Reps == 0 {
		return base
	}
	var out []concRound
	for i := 0; i < c.Reps/5; i++ {
		out = append(out, base...)
	}
	return out
}

// checkConcurrent judges one call of a concurrent round: its own value at the handler, its own result
// and status OK at the caller (or, with different keys, no handler run / no OK status); for messages
// that must be encrypted, the token nowhere in what either end wrote during the round.
func (cr *cellRun) checkConcurrent(rec *opRec, cmd erpc.CallCmd, equalKeys bool, k int, reqAll, repAll []byte) {
	op := rec.op
	res, stat := cmd.Reply()
	rec.mu.Lock()
	runs, gotArg, gotMeta, sawSec := rec.runs, rec.gotArg, rec.gotMeta, rec.sawSec
	rec.mu.Unlock()
	marked := hasSecure(op.Marker)
	expect := replyExpectation(op)
	base := func() map[string]interface{} {
		return map[string]interface{}{"arg_token": rec.argTok, "result_token": rec.resTok, "status": statusText(stat), "handler_runs": runs,
			"handler_saw_meta": gotMeta, "keys": cr.c.Keys, "in_flight": k}
	}
	cr.checked++
	cr.nontrivial("call", op)
	cr.stats["concurrent_calls"]++
	if !equalKeys && marked {
		cr.stats["wrong_key_requests"]++
		if runs > 0 {
			w := base()
			w["handler_arg"] = brief(gotArg)
			cr.violate("call", op, "wrong-key-handler-ran", fmt.Sprintf("different keys (%s), %d calls in flight: the handler was invoked for an encrypted request; argument %s", cr.c.Keys, k, brief(gotArg)), w)
		}
		if stat.OK() {
			w := base()
			w["result"] = brief(res)
			cr.violate("call", op, "wrong-key-status-ok", fmt.Sprintf("different keys (%s), %d calls in flight: the call with an encrypted request completed with status OK", cr.c.Keys, k), w)
		}
		if runs == 0 && !stat.OK() {
			cr.stats["wrong_key_requests_rejected"]++
		}
		return
	}
	sym, cl := "value-mismatch", "secure-marked"
	if !marked {
		sym, cl = "unmarked-altered", "unmarked"
	}
	if equalKeys && marked {
		if enc, off := find(reqAll, rec.argTok); enc != "" {
			cr.violate("call", op, "plaintext-on-wire", fmt.Sprintf("%d calls in flight: the plaintext token of a call marked secure is on the wire (encoding %s)", k, enc),
				map[string]interface{}{"token": rec.argTok, "encoding": enc, "excerpt": excerpt(reqAll, off, 40)})
		}
	}
	if runs != 1 {
		cr.violate("call", op, sym, fmt.Sprintf("%s request, %d calls in flight: the handler ran %d time(s) instead of once; caller status %s", cl, k, runs, statusText(stat)), base())
		return
	}
	if !same(rec.arg, gotArg) {
		w := base()
		w["handler_arg"], w["original_arg"] = brief(gotArg), brief(rec.arg)
		cr.violate("call", op, sym, fmt.Sprintf("%s request, %d calls in flight: the handler's argument is not this call's original: got %s want %s", cl, k, brief(gotArg), brief(rec.arg)), w)
		return
	}
	if !marked && sawSec == "true" {
		cr.violate("call", op, "unmarked-altered", fmt.Sprintf("unmarked request, %d calls in flight: the handler saw the metadata %s=true", k, secure.SECURE_META_KEY), base())
		return
	}
	cr.stats["handler_args_verified"]++
	cr.appSeen(rec)
	cr.checked++
	cr.nontrivial("reply", op)
	// as in the sequential check: "encrypted" is what the replying side marked on the reply
	encrypted := false
	if im := cmd.InputMeta(); im != nil && string(im.Peek(secure.SECURE_META_KEY)) == "true" {
		encrypted = true
	}
	if expect == "no" && encrypted {
		// nobody asked for this reply to be encrypted: it is an unmarked message, and it did not pass unchanged
		cr.violate("reply", op, "unmarked-altered", fmt.Sprintf("%d calls in flight: the reply to an unmarked request (%s, handler not enforcing) arrived marked %s=true; caller status %s",
			k, op.Marker, secure.SECURE_META_KEY, statusText(stat)), base())
		return
	}
	if !equalKeys && encrypted {
		cr.stats["wrong_key_replies"]++
		if stat.OK() {
			w := base()
			w["result"] = brief(res)
			cr.violate("reply", op, "wrong-key-status-ok", fmt.Sprintf("different keys (%s), %d calls in flight: the reply was encrypted by the other side, yet the call completed with status OK", cr.c.Keys, k), w)
		} else {
			cr.stats["wrong_key_replies_rejected"]++
		}
		return
	}
	rsym, rcl := "value-mismatch", "encrypted"
	if !encrypted {
		rsym, rcl = "unmarked-altered", "unmarked"
	}
	if equalKeys && expect == "yes" {
		if enc, off := find(repAll, rec.resTok); enc != "" {
			cr.violate("reply", op, "reply-not-encrypted", fmt.Sprintf("%d calls in flight: the result's plaintext token of a reply that had to be encrypted is on the wire (encoding %s)", k, enc),
				map[string]interface{}{"token": rec.resTok, "encoding": enc, "excerpt": excerpt(repAll, off, 40)})
		}
	}
	if !stat.OK() {
		cr.violate("reply", op, rsym, fmt.Sprintf("%s reply, %d calls in flight: the handler returned this call's result but the caller got status %s", rcl, k, statusText(stat)), base())
		return
	}
	if !same(rec.res, res) {
		w := base()
		w["caller_result"], w["original_result"] = brief(res), brief(rec.res)
		cr.violate("reply", op, rsym, fmt.Sprintf("%s reply, %d calls in flight: the caller's result is not the one its handler returned: got %s want %s", rcl, k, brief(res), brief(rec.res)), w)
		return
	}
	cr.stats["caller_results_verified"]++
}

func (cr *cellRun) checkPushFrame(rec *opRec, st *erpc.Status, equalKeys bool) {
	op := rec.op
	cr.checked++
	cr.nontrivial("push", op)
	if len(rec.repFrame) != 0 {
		cr.unsure("push", op, fmt.Sprintf("frame attribution failed: the receiving end wrote %d bytes during a push", len(rec.repFrame)), nil)
	}
	rec.mu.Lock()
	rec.pushSt = statusText(st) // kept for the delivery check after the barrier
	rec.mu.Unlock()
	cr.checkRequestFrame("push", rec, equalKeys)
}

func (cr *cellRun) checkPushDelivery(rec *opRec, equalKeys bool) {
	op := rec.op
	rec.mu.Lock()
	runs, gotArg := rec.runs, rec.gotArg
	pushStat := rec.pushSt
	rec.mu.Unlock()
	marked := hasSecure(op.Marker)
	base := func() map[string]interface{} {
		return map[string]interface{}{"arg_token": rec.argTok, "push_status": pushStat, "handler_runs": runs, "keys": cr.c.Keys}
	}
	if !equalKeys && marked {
		cr.stats["wrong_key_requests"]++
		if runs > 0 {
			w := base()
			w["handler_arg"] = brief(gotArg)
			w["original_arg"] = brief(rec.arg)
			cr.violate("push", op, "wrong-key-handler-ran", fmt.Sprintf("different keys (%s): the push handler was invoked %d time(s) for an encrypted push; argument %s", cr.c.Keys, runs, brief(gotArg)), w)
		} else {
			cr.stats["wrong_key_requests_rejected"]++
		}
		return
	}
	sym, cl := "value-mismatch", "secure-marked"
	if !marked {
		sym, cl = "unmarked-altered", "unmarked"
	}
	if runs != 1 {
		if ex := cr.transportExcuse(rec); ex != "" {
			cr.unsure("push", op, "push not delivered, but "+ex, base())
			return
		}
		cr.violate("push", op, sym, fmt.Sprintf("%s push: the handler ran %d time(s) instead of once (Push returned %s)", cl, runs, pushStat), base())
		return
	}
	if !same(rec.wantArg, gotArg) {
		w := base()
		w["handler_arg"] = brief(gotArg)
		w["original_arg"] = brief(rec.wantArg)
		cr.violate("push", op, sym, fmt.Sprintf("%s push: the handler's argument differs from the original: got %s want %s", cl, brief(gotArg), brief(rec.wantArg)), w)
		return
	}
	if !marked && rec.sawSec == "true" {
		cr.violate("push", op, "unmarked-altered", fmt.Sprintf("unmarked push (%s): the handler saw the metadata %s=true", op.Marker, secure.SECURE_META_KEY), base())
		return
	}
	cr.stats["handler_args_verified"]++
	cr.appSeen(rec)
}

// ---------------------------------------------------------------------------------------------

type discard struct{}

func (discard) Output(calldepth int, msgBytes []byte, loggerLevel erpc.LoggerLevel) {}
func (discard) Flush() error                                                        { return nil }

func main() {
	flag.Parse()
	core.Prop = *prop
	wire.RegFilters()
	bed.Init("OFF")
	erpc.SetLoggerOutputter(discard{})
	selfTest()

	all := cells(*tier)
	only := -1
	if *replay != "" {
		var rf struct {
			Seed int64  `json:"seed"`
			Tier string `json:"tier"`
			Desc *Cell  `json:"desc"`
		}
		b, err := ioutil.ReadFile(*replay)
		if err != nil {
			core.Fatalf("replay: %v", err)
		}
		if err := json.Unmarshal(b, &rf); err != nil || rf.Desc == nil {
			core.Fatalf("replay: cannot read the case description: %v", err)
		}
		if rf.Seed != 0 {
			*seed = rf.Seed
		}
		if rf.Tier != "" {
			all = cells(rf.Tier)
		}
		only = rf.Desc.Idx
		if only < 0 || only >= len(all) {
			core.Fatalf("replay: case index %d out of range", only)
		}
	}
	for i, c := range all {
		if only >= 0 {
			if i != only {
				continue
			}
		} else if i%*nbatch != *batch {
			continue
		}
		id := fmt.Sprintf("cell%03d", i)
		core.Begin(id, c)
		runCell(id, c, *seed)
	}
	core.Add("tokens_searched", atomic.LoadInt64(&tokensSearched))
	core.Add("bytes_searched", atomic.LoadInt64(&bytesSearched))
	core.Add("handler_invocations", atomic.LoadInt64(&handlerRuns))
	core.Finish()
}
