// Worker for C05: wire protocols round-trip every message and never lose frame sync.
//
// Leaf-level: Proto.Pack into a buffer, Proto.Unpack from a chunking reader, field-wise
// comparison against the protocol's documented field set; streams of frames through
// arbitrary chunkings; Size() alone vs as the i-th of a stream.
package main

import (
	"bytes"
	"flag"
	"fmt"
	"io"
	"runtime"
	"sort"
	"strings"
	"unicode/utf8"

	erpc "github.com/henrylee2cn/erpc/v6"
	"github.com/henrylee2cn/erpc/v6/codec"

	"verifharness/core"
	"verifharness/protos"
	"verifharness/wire"
)

var (
	prop   = flag.String("prop", "C05", "")
	tier   = flag.String("tier", "quick", "")
	seed   = flag.Int64("seed", 1, "")
	batch  = flag.Int("batch", 0, "")
	nbatch = flag.Int("nbatch", 1, "")
	replay = flag.String("replay", "", "")
)

// ---------- generators (value, class label) ----------

type gen struct {
	r *core.Rand
}

func (g gen) str(class string, n int) string {
	r := g.r
	switch class {
	case "empty":
		return ""
	case "ascii":
		const al = "abcdefghijklmnopqrstuvwxyzABCDEFGHIJKLMNOPQRSTUVWXYZ0123456789_"
		b := make([]byte, n)
		for i := range b {
			b[i] = al[r.Intn(len(al))]
		}
		return string(b)
	case "punct": // printable ASCII including the characters with special meaning in urlencoding / JSON
		const al = `&=%+"\'<>/?#;:,.- ~!@$^*()[]{}|` + "`"
		b := make([]byte, n)
		for i := range b {
			b[i] = al[r.Intn(len(al))]
		}
		return string(b)
	case "ctrl":
		b := make([]byte, n)
		for i := range b {
			b[i] = byte(r.Intn(32))
		}
		return string(b)
	case "utf8":
		var sb strings.Builder
		runes := []rune("äßçπЖ中文日本語한글🙂𝄞é  ")
		for sb.Len() < n {
			sb.WriteRune(runes[r.Intn(len(runes))])
		}
		return sb.String()
	case "bytes": // every byte value, not valid UTF-8 in general
		return string(r.Bytes(n))
	case "allbytes":
		b := make([]byte, 256)
		for i := range b {
			b[i] = byte(i)
		}
		return string(b)
	}
	panic("class " + class)
}

func pickLen(r *core.Rand) int {
	switch r.Intn(6) {
	case 0:
		return 1
	case 1:
		return 255
	case 2:
		return 256
	case 3:
		return 2 + r.Intn(30)
	case 4:
		return 30 + r.Intn(500)
	}
	return 1 + r.Intn(8)
}

// baseline message for protocol p: small and plain
func baseline(p protos.P, r *core.Rand) wire.Spec {
	s := wire.Spec{Seq: 1 + int32(r.Intn(1000)), Mtype: erpc.TypeCall, Method: "/a/b", Codec: codec.ID_JSON, Body: []byte(`{"k":1}`), Class: map[string]string{}}
	if p.Struct {
		s.Codec = codec.ID_THRIFT
		s.Body = nil
		s.TS = &wire.TStruct{A: 1, S: "x"}
	}
	return s
}

var registeredCodecs = []byte{codec.ID_JSON, codec.ID_FORM, codec.ID_PLAIN, codec.ID_XML, codec.ID_PROTOBUF, codec.ID_THRIFT}

func headerKeyOK(k string) bool {
	if k == "" {
		return false
	}
	for i := 0; i < len(k); i++ {
		c := k[i]
		if !(c >= 'a' && c <= 'z' || c >= 'A' && c <= 'Z' || c >= '0' && c <= '9' || c == '-') {
			return false
		}
	}
	return true
}

// vary sets one field of s to a generated value; returns false if the (field,class) pair
// is outside the protocol's documented field set.
func vary(s *wire.Spec, p protos.P, field, class string, g gen) bool {
	r := g.r
	n := pickLen(r)
	switch field {
	case "seq":
		switch class {
		case "zero":
			s.Seq = 0
		case "neg":
			s.Seq = -1 - int32(r.Intn(1000))
		case "min":
			s.Seq = -1 << 31
		case "max":
			s.Seq = 1<<31 - 1
		case "rand":
			s.Seq = int32(r.Uint64())
		}
	case "mtype":
		switch class {
		case "call":
			s.Mtype = erpc.TypeCall
		case "reply":
			s.Mtype = erpc.TypeReply
		case "push":
			if !p.Push {
				return false
			}
			s.Mtype = erpc.TypePush
		case "auth":
			if !(p.AnyMtype || p.HTTP) {
				return false
			}
			s.Mtype = []byte{erpc.TypeAuthCall, erpc.TypeAuthReply}[r.Intn(2)]
		case "any":
			if !p.AnyMtype {
				return false
			}
			s.Mtype = byte(r.Intn(256))
		}
	case "method":
		if p.HTTP {
			// a URL path; replies carry no method
			if class != "ascii" && class != "path" {
				return false
			}
			s.Method = "/" + g.str("ascii", 1+n%40) + "/" + g.str("ascii", 1+r.Intn(10))
			break
		}
		if class == "path" {
			s.Method = "/" + g.str("ascii", 1+n%40) + "/" + g.str("ascii", 1+r.Intn(10))
			break
		}
		if class == "bytes" || class == "allbytes" || class == "ctrl" {
			// service methods are text: only raw documents a pure length-prefixed byte field
			if p.Name != "raw" {
				return false
			}
		}
		if class == "empty" && p.Name == "thrift-binary" || class == "empty" && p.Struct {
			// fine: thrift carries empty names
		}
		m := g.str(class, n)
		if p.MethodMax > 0 && len(m) > p.MethodMax {
			m = m[:p.MethodMax]
			for class == "utf8" && !utf8.ValidString(m) {
				m = m[:len(m)-1]
			}
		}
		s.Method = m
	case "status":
		if !p.Status {
			return false
		}
		if p.HTTP && s.Mtype != erpc.TypeReply {
			s.Mtype = erpc.TypeReply
		}
		t := protos.Triple{Code: []int32{1, -1, 99, 100, 102, 400, 404, 500, 1<<31 - 1, -1 << 31, int32(r.Uint64())}[r.Intn(11)]}
		if t.Code == 0 {
			t.Code = 7
		}
		if p.HTTP && (class == "bytes" || class == "allbytes" || class == "ctrl") {
			return false // carried as JSON text
		}
		switch r.Intn(3) {
		case 0:
			t.Msg = g.str(class, n)
		case 1:
			t.Cause = g.str(class, n)
		default:
			t.Msg = g.str(class, n)
			t.Cause = g.str(class, pickLen(r))
		}
		s.Stat = &t
		if p.HTTP {
			s.Body = nil
		}
	case "meta":
		cnt := 1 + r.Intn(4)
		s.Meta = nil
		seen := map[string]bool{}
		for i := 0; i < cnt; i++ {
			var kv wire.KV
			if p.HTTP {
				// documented mapping onto HTTP headers: token keys (canonicalised), one value per key,
				// values without surrounding space / line breaks
				if class != "ascii" {
					return false
				}
				k := "K" + strings.ToLower(g.str("ascii", 1+r.Intn(12)))
				k = strings.Replace(k, "_", "a", -1)
				if seen[k] {
					continue
				}
				seen[k] = true
				kv = wire.KV{K: k, V: g.str("ascii", 1+r.Intn(40))}
			} else {
				switch class {
				case "dupkeys":
					kv = wire.KV{K: "dup", V: g.str("ascii", 1+r.Intn(10))}
				case "emptyval":
					kv = wire.KV{K: g.str("ascii", 1+r.Intn(10)), V: ""}
				case "emptykey":
					kv = wire.KV{K: "", V: g.str("ascii", 1+r.Intn(10))}
				case "emptyboth":
					kv = wire.KV{K: "", V: ""}
				default:
					kv = wire.KV{K: g.str(class, 1+n%60), V: g.str(class, pickLen(r))}
				}
			}
			s.Meta = append(s.Meta, kv)
		}
	case "codec":
		if !p.Codec {
			return false
		}
		switch class {
		case "registered":
			s.Codec = registeredCodecs[r.Intn(len(registeredCodecs))]
			if p.HTTP && s.Codec == codec.ID_THRIFT {
				return false // no content type mapping shipped for it
			}
		case "nil":
			if p.HTTP {
				return false
			}
			s.Codec = codec.NilCodecID
		case "unregistered-ascii":
			if p.HTTP {
				return false
			}
			s.Codec = []byte{1, 'A', 'Q', 127}[r.Intn(4)]
		case "unregistered-high":
			if p.HTTP {
				return false
			}
			s.Codec = byte(128 + r.Intn(128))
		}
	case "body":
		if p.Struct {
			t := &wire.TStruct{A: int32(r.Uint64()), B: int64(r.Uint64()), S: g.str("utf8", n), D: r.Bytes(pickLen(r))}
			for i := 0; i < r.Intn(5); i++ {
				t.L = append(t.L, int32(r.Uint64()))
			}
			if class == "empty" {
				t = &wire.TStruct{}
			}
			s.TS = t
			break
		}
		if p.HTTP && s.Stat != nil {
			return false
		}
		switch class {
		case "empty":
			s.Body = nil
		case "json":
			s.Body = []byte(fmt.Sprintf(`{"a":%d,"b":[1,2,3],"c":"%s"}`, r.Intn(1000), g.str("ascii", n)))
		case "json-escapes":
			s.Body = []byte(fmt.Sprintf(`{"a":"q\"uote","b":"back\\slash","c":"nl\n%s","d":"é"}`, g.str("ascii", 4)))
		case "large":
			s.Body = r.Bytes(64*1024 + r.Intn(4096))
		case "zeros":
			s.Body = make([]byte, n*8)
		default:
			s.Body = []byte(g.str(class, n))
		}
	case "pipe":
		if !p.Pipe {
			return false
		}
		ids := []byte{wire.FGzip1, wire.FGzip9, wire.FMd5}
		if p.HTTP {
			ids = []byte{wire.FGzip1, wire.FGzip9}
		}
		var l int
		switch class {
		case "one":
			l = 1
		case "short":
			l = 2 + r.Intn(3)
		case "long":
			l = 20 + r.Intn(20)
			ids = []byte{wire.FMd5, wire.FMd5, wire.FMd5, wire.FGzip1}
			if p.HTTP {
				return false
			}
		case "max":
			l = 255
			ids = []byte{wire.FMd5}
			if p.HTTP {
				return false
			}
		}
		if p.HTTP {
			l = 1 // one Content-Encoding header
		}
		s.Pipe = nil
		for i := 0; i < l; i++ {
			s.Pipe = append(s.Pipe, ids[r.Intn(len(ids))])
		}
	}
	s.Class[field] = class
	return true
}

var fieldClasses = map[string][]string{
	"seq":    {"zero", "neg", "min", "max", "rand"},
	"mtype":  {"call", "reply", "push", "auth", "any"},
	"method": {"empty", "ascii", "path", "punct", "utf8", "ctrl", "bytes", "allbytes"},
	"status": {"ascii", "punct", "utf8", "ctrl", "bytes", "allbytes", "empty"},
	"meta":   {"ascii", "punct", "utf8", "ctrl", "bytes", "allbytes", "dupkeys", "emptyval", "emptykey", "emptyboth"},
	"codec":  {"registered", "nil", "unregistered-ascii", "unregistered-high"},
	"body":   {"empty", "ascii", "json", "json-escapes", "punct", "utf8", "ctrl", "bytes", "allbytes", "zeros", "large"},
	"pipe":   {"one", "short", "long", "max"},
}
var fieldOrder = []string{"seq", "mtype", "method", "status", "meta", "codec", "body", "pipe"}

// ---------- the oracle ----------

type failure struct {
	symptom string // pack-error | unpack-error | mismatch:<field> | desync | size
	detail  string
}

// expectations: adjust the sent spec to what the protocol documents as delivered.
func expected(s wire.Spec, p protos.P) wire.Spec {
	e := s.Clone()
	if !p.Status {
		e.Stat = nil
	}
	if p.HTTP {
		if s.Mtype == erpc.TypeReply || s.Mtype == erpc.TypeAuthReply {
			e.Method = "" // responses carry no service method
		}
		if s.Stat != nil {
			// documented: an error reply is "299 Business Error" with the status as an application/json body
			e.Body = nil
			e.Codec = codec.ID_JSON
		}
	}
	if p.Struct {
		e.Codec = codec.ID_THRIFT
		e.Body = nil
	}
	return e
}

func metaEqual(a, b []wire.KV, p protos.P) bool {
	if p.HTTP {
		am, bm := map[string]string{}, map[string]string{}
		for _, kv := range a {
			am[canon(kv.K)] = kv.V
		}
		for _, kv := range b {
			bm[kv.K] = kv.V
		}
		for k, v := range am {
			if bm[k] != v {
				return false
			}
		}
		// the protocol adds its own headers (User-Agent, Accept-Encoding, Host ...): extra keys are documented
		return true
	}
	if len(a) != len(b) {
		return false
	}
	for i := range a {
		if a[i] != b[i] {
			return false
		}
	}
	return true
}

func canon(k string) string {
	b := []byte(k)
	up := true
	for i, c := range b {
		if up && c >= 'a' && c <= 'z' {
			b[i] = c - 32
		} else if !up && c >= 'A' && c <= 'Z' {
			b[i] = c + 32
		}
		up = c == '-'
	}
	return string(b)
}

func compare(e, got wire.Spec, p protos.P) *failure {
	if e.Seq != got.Seq {
		return &failure{"mismatch:seq", fmt.Sprintf("sent %d got %d", e.Seq, got.Seq)}
	}
	if e.Mtype != got.Mtype {
		return &failure{"mismatch:mtype", fmt.Sprintf("sent %d got %d", e.Mtype, got.Mtype)}
	}
	if e.Method != got.Method {
		return &failure{"mismatch:method", fmt.Sprintf("sent %q got %q", e.Method, got.Method)}
	}
	es, gs := protos.Triple{}, protos.Triple{}
	if e.Stat != nil {
		es = *e.Stat
	}
	if got.Stat != nil {
		gs = *got.Stat
	}
	if es != gs {
		return &failure{"mismatch:status", fmt.Sprintf("sent %+q got %+q", es, gs)}
	}
	if !metaEqual(e.Meta, got.Meta, p) {
		return &failure{"mismatch:meta", fmt.Sprintf("sent %q got %q", e.Meta, got.Meta)}
	}
	if p.Codec && e.Codec != got.Codec {
		return &failure{"mismatch:codec", fmt.Sprintf("sent %d got %d", e.Codec, got.Codec)}
	}
	if p.Struct {
		if !e.TS.Equal(got.TS) {
			return &failure{"mismatch:body", fmt.Sprintf("sent %+v got %+v", e.TS, got.TS)}
		}
	} else if !bytes.Equal(e.Body, got.Body) {
		return &failure{"mismatch:body", fmt.Sprintf("sent %d bytes %q got %d bytes %q", len(e.Body), trunc(e.Body), len(got.Body), trunc(got.Body))}
	}
	if p.Pipe && !bytes.Equal(e.Pipe, got.Pipe) {
		return &failure{"mismatch:pipe", fmt.Sprintf("sent %q got %q", e.Pipe, got.Pipe)}
	}
	return nil
}

func trunc(b []byte) []byte {
	if len(b) > 80 {
		return b[:80]
	}
	return b
}

type packed struct {
	frames [][]byte
	sizes  []uint32
}

// pack packs all specs with ONE protocol object (as one connection would) and returns the frames.
func pack(p protos.P, specs []wire.Spec) (pk packed, idx int, err error) {
	var w bytes.Buffer
	pr := p.Func(wire.RW{Reader: bytes.NewReader(nil), Writer: &w})
	for i, s := range specs {
		m, e := wire.Build(s, p)
		if e != nil {
			return pk, i, e
		}
		before := w.Len()
		if e := safely(func() error { return pr.Pack(m) }); e != nil {
			return pk, i, e
		}
		pk.frames = append(pk.frames, append([]byte(nil), w.Bytes()[before:]...))
		pk.sizes = append(pk.sizes, m.Size())
	}
	return pk, -1, nil
}

func safely(f func() error) (err error) {
	defer func() {
		if r := recover(); r != nil {
			err = fmt.Errorf("PANIC: %v", r)
		}
	}()
	return f()
}

// unpackStream unpacks n messages from the byte stream through a chunking policy with one protocol object.
func unpackStream(p protos.P, stream []byte, n int, policy func() int) (out []wire.Spec, sizes []uint32, err error, cleanEOF bool) {
	return unpackStreamR(p, stream, n, policy, false)
}

// unpackStreamR: with reuse, ONE message object receives every frame and is Reset in between - as a
// session's pooled input message is.
func unpackStreamR(p protos.P, stream []byte, n int, policy func() int, reuse bool) (out []wire.Spec, sizes []uint32, err error, cleanEOF bool) {
	cr := &wire.ChunkReader{B: stream, Policy: policy}
	pr := p.Func(wire.RW{Reader: cr, Writer: io.Discard})
	var shared erpc.Message
	for i := 0; i < n; i++ {
		m := wire.NewReceiver(p)
		if reuse {
			if shared == nil {
				shared = m
			} else {
				wire.ResetReceiver(shared, p)
			}
			m = shared
		}
		if e := safely(func() error { return pr.Unpack(m) }); e != nil {
			return out, sizes, fmt.Errorf("frame %d: %v", i, e), false
		}
		out = append(out, wire.Extract(m, p))
		sizes = append(sizes, m.Size())
	}
	// after the last frame the stream must end cleanly
	m := wire.NewReceiver(p)
	e := safely(func() error { return pr.Unpack(m) })
	cleanEOF = e == io.EOF || e == io.ErrUnexpectedEOF && false
	if e != nil && !cleanEOF {
		// thrift wraps EOF in its own exception type
		if strings.Contains(e.Error(), "EOF") {
			cleanEOF = true
		}
	}
	return out, sizes, nil, cleanEOF
}

// unpackDuplex unpacks one frame delivered in small reads while the SAME protocol object packs an unrelated small
// message between the reads - what a session does when it writes while a frame is coming in.
func unpackDuplex(p protos.P, frame []byte) (out wire.Spec, size uint32, err error) {
	var pr erpc.Proto
	small, berr := wire.Build(baselineFor(p), p)
	if berr != nil {
		return out, 0, berr
	}
	cr := &wire.ChunkReader{B: frame, Policy: func() int {
		if pr != nil {
			_ = safely(func() error { return pr.Pack(small) })
		}
		return 9
	}}
	pr = p.Func(wire.RW{Reader: cr, Writer: io.Discard})
	m := wire.NewReceiver(p)
	if e := safely(func() error { return pr.Unpack(m) }); e != nil {
		return out, 0, e
	}
	return wire.Extract(m, p), m.Size(), nil
}

func baselineFor(p protos.P) wire.Spec {
	s := wire.Spec{Seq: 77, Mtype: erpc.TypePush, Method: "/o/ther", Codec: codec.ID_JSON, Body: []byte(`{"o":2}`), Class: map[string]string{}}
	if p.Struct {
		s.Codec, s.Body, s.TS = codec.ID_THRIFT, nil, &wire.TStruct{A: 2, S: "o"}
	}
	if !p.Push {
		s.Mtype = erpc.TypeCall
	}
	return s
}

// checkOne round-trips a single message alone, through every chunk policy.
func checkOne(p protos.P, s wire.Spec, r *core.Rand) *failure {
	pk, _, err := pack(p, []wire.Spec{s})
	if err != nil {
		return &failure{"pack-error", err.Error()}
	}
	e := expected(s, p)
	for _, pol := range wire.PolicyNames {
		if !p.Stream && pol != "whole" {
			// message-framed transports (websocket) hand whole messages to the sub-protocol; chunking still applies to the reader
		}
		out, _, uerr, clean := unpackStream(p, pk.frames[0], 1, wire.Policy(pol, r))
		if uerr != nil {
			return &failure{"unpack-error", pol + ": " + uerr.Error()}
		}
		if f := compare(e, out[0], p); f != nil {
			f.detail = pol + ": " + f.detail
			return f
		}
		if !clean && p.Stream {
			return &failure{"desync", pol + ": bytes left over or no clean EOF after the only frame"}
		}
	}
	// full duplex on one protocol object: what is received (content and reported size) does not depend on what is written meanwhile
	if p.Stream {
		_, aloneSz, e0, _ := unpackStream(p, pk.frames[0], 1, wire.Policy("whole", r))
		out, sz, derr := unpackDuplex(p, pk.frames[0])
		core.Add("duplex_unpacks", 1)
		if derr != nil {
			return &failure{"duplex-unpack-error", derr.Error()}
		}
		if f := compare(e, out, p); f != nil {
			f.symptom = "duplex-" + f.symptom
			return f
		}
		if e0 == nil && len(aloneSz) == 1 && sz != aloneSz[0] {
			return &failure{"duplex-size", fmt.Sprintf("the received message reports size %d when the protocol object packs other messages between its reads, %d otherwise", sz, aloneSz[0])}
		}
	}
	// raw protocol without a filter pipe: the frame the SUT wrote is read by the independent reference decoder of the
	// documented layout, and the frame the reference encoder builds is read by the SUT - a slip shared by the SUT's
	// packer and parser (or present in only one of them) cannot cancel out
	if p.Name == "raw" && len(s.Pipe) == 0 {
		core.Add("reference_codec_comparisons", 1)
		refs, rest, derr := wire.RawDecode(pk.frames[0])
		switch {
		case derr != nil:
			return &failure{"ref-decode-error", "the frame written by Pack is not a frame of the documented layout: " + derr.Error()}
		case len(refs) != 1 || len(rest) != 0:
			return &failure{"ref-decode-error", fmt.Sprintf("the bytes written by Pack hold %d frames of the documented layout and %d further bytes", len(refs), len(rest))}
		}
		if f := compare(e, refs[0], p); f != nil {
			f.symptom = "ref-decode-" + f.symptom
			return f
		}
		if rb, ok := wire.RawEncode(s); ok {
			out, _, uerr, _ := unpackStream(p, rb, 1, wire.Policy("whole", r))
			if uerr != nil {
				return &failure{"ref-encode-unpack-error", uerr.Error()}
			}
			if f := compare(e, out[0], p); f != nil {
				f.symptom = "ref-encode-" + f.symptom
				return f
			}
		}
	}
	return nil
}

// checkStream packs k messages back to back and reads them through chunking; also compares sizes.
func checkStream(p protos.P, specs []wire.Spec, r *core.Rand) (fs []*failure) {
	var sizeFail *failure
	defer func() {
		if sizeFail != nil {
			fs = append(fs, sizeFail)
		}
	}()
	pk, idx, err := pack(p, specs)
	if err != nil {
		return []*failure{{"pack-error", fmt.Sprintf("frame %d: %v", idx, err)}}
	}
	// sizes alone
	alone := make([]uint32, len(specs))
	alonePack := make([]uint32, len(specs))
	for i, s := range specs {
		pk1, _, e := pack(p, []wire.Spec{s})
		if e != nil {
			return []*failure{{"pack-error", e.Error()}}
		}
		alonePack[i] = pk1.sizes[0]
		_, sz, e, _ := unpackStream(p, pk1.frames[0], 1, nil)
		if e != nil {
			return []*failure{{"unpack-error", "alone: " + e.Error()}}
		}
		alone[i] = sz[0]
	}
	for i := range specs {
		if pk.sizes[i] != alonePack[i] {
			// (a symptom of its own: what a sender writes for a message must not depend on the messages written before it)
			fs = append(fs, &failure{"size-pack", fmt.Sprintf("Pack: frame %d of %d reports size %d in the stream but %d alone", i, len(specs), pk.sizes[i], alonePack[i])})
			break
		}
	}
	stream := bytes.Join(pk.frames, nil)
	for pi, pol := range append(append([]string(nil), wire.PolicyNames...), "whole+reused", "rand+reused") {
		reuse := pi >= len(wire.PolicyNames)
		out, sizes, uerr, clean := unpackStreamR(p, stream, len(specs), wire.Policy(strings.TrimSuffix(pol, "+reused"), r), reuse)
		if uerr != nil {
			return append(fs, &failure{"desync", pol + ": " + uerr.Error()})
		}
		for i := range specs {
			if f := compare(expected(specs[i], p), out[i], p); f != nil {
				return append(fs, &failure{"desync", fmt.Sprintf("%s: frame %d of %d: %s %s", pol, i, len(specs), f.symptom, f.detail)})
			}
			if sizes[i] != alone[i] && sizeFail == nil {
				sizeFail = &failure{"size", fmt.Sprintf("Unpack(%s): frame %d of %d reports size %d in the stream but %d alone", pol, i, len(specs), sizes[i], alone[i])}
			}
		}
		if !clean {
			return append(fs, &failure{"desync", pol + ": no clean EOF after the last frame"})
		}
	}
	return fs
}

// blame minimises a failing spec: fields reset to the baseline one at a time while the failure persists.
func blame(p protos.P, s wire.Spec, base wire.Spec, r *core.Rand, sym string) []string {
	cur := s.Clone()
	var rel []string
	for _, f := range fieldOrder {
		if _, ok := cur.Class[f]; !ok {
			continue
		}
		t := cur.Clone()
		resetField(&t, base, f)
		if ff := checkOne(p, t, r); ff != nil && ff.symptom == sym {
			cur = t
		} else {
			rel = append(rel, f+"="+cur.Class[f])
		}
	}
	sort.Strings(rel)
	return rel
}

func resetField(s *wire.Spec, b wire.Spec, f string) {
	switch f {
	case "seq":
		s.Seq = b.Seq
	case "mtype":
		s.Mtype = b.Mtype
	case "method":
		s.Method = b.Method
	case "status":
		s.Stat = nil
	case "meta":
		s.Meta = nil
	case "codec":
		s.Codec = b.Codec
	case "body":
		s.Body = append([]byte(nil), b.Body...)
		s.TS = b.TS
	case "pipe":
		s.Pipe = nil
	}
	delete(s.Class, f)
}

func main() {
	flag.Parse()
	core.Prop = *prop
	wire.RegFilters()
	erpc.SetLoggerLevel("OFF")
	ps := protos.All()
	// undo the global side effects of importing thriftproto / constructing httproto (not relevant at leaf level, but explicit)
	erpc.SetServiceMethodMapper(erpc.HTTPServiceMethodMapper)

	perCombo := 6
	mixed := 150
	streams := 12
	if *tier == "thorough" {
		perCombo = 40
		mixed = 2000
		streams = 60
	}
	caseNo := 0
	for pi, p := range ps {
		r := core.NewRand(*seed, int64(*batch), int64(pi))
		g := gen{r}
		report := func(kind string, s wire.Spec, specs []wire.Spec, f *failure, base wire.Spec) {
			caseNo++
			id := fmt.Sprintf("b%d-%s-%d", *batch, p.Name, caseNo)
			rel := []string{}
			if kind == "single" {
				rel = blame(p, s, base, r, f.symptom)
			} else {
				rel = []string{"stream"}
			}
			desc := map[string]interface{}{"class": kind, "proto": p.Name, "spec": s.JSON()}
			if specs != nil {
				var l []interface{}
				for _, x := range specs {
					l = append(l, x.JSON())
				}
				desc["stream"] = l
			}
			core.Begin(id, desc)
			core.Result(core.R{ID: id, Verdict: core.Violated, FP: fmt.Sprintf("C05/%s/%s/%s", p.Name, f.symptom, strings.Join(rel, ",")),
				What: fmt.Sprintf("%s: %s (%s)", p.Name, f.symptom, f.detail), Witness: f.detail, Desc: desc})
		}
		// 1. one-factor-at-a-time
		for _, field := range fieldOrder {
			for _, class := range fieldClasses[field] {
				for k := 0; k < perCombo; k++ {
					base := baseline(p, r)
					s := base.Clone()
					if field == "status" || (p.HTTP && r.Intn(2) == 0) {
						s.Mtype = erpc.TypeReply
					}
					if !vary(&s, p, field, class, g) {
						continue
					}
					core.Add("evaluations", 1)
					core.Add("single_messages", 1)
					sig := p.Name + "/" + field + "=" + class
					core.Distinct("nontrivial", sig)
					if pi == 0 && k == 0 && field == "meta" && class == "punct" {
						core.Sample(map[string]interface{}{"proto": p.Name, "spec": s.JSON()})
					}
					if f := checkOne(p, s, r); f != nil {
						report("single", s, nil, f, base)
					}
				}
			}
		}
		// 2. mixed random messages
		for k := 0; k < mixed; k++ {
			base := baseline(p, r)
			s := base.Clone()
			var parts []string
			for _, field := range fieldOrder {
				if r.Intn(2) == 0 {
					cl := fieldClasses[field][r.Intn(len(fieldClasses[field]))]
					t := s.Clone()
					if vary(&t, p, field, cl, g) {
						s = t
						parts = append(parts, field+"="+cl)
					}
				}
			}
			core.Add("evaluations", 1)
			core.Add("mixed_messages", 1)
			core.Distinct("mixed_signatures", p.Name+"/"+strings.Join(parts, ","))
			if f := checkOne(p, s, r); f != nil {
				report("single", s, nil, f, base)
			}
		}
		// 3. streams (only self-delimiting protocols; message-framed ones get their frames from the websocket layer)
		if p.Stream {
			for k := 0; k < streams; k++ {
				n := 1 + r.Intn(50)
				if k == 0 {
					n = 3
				}
				var specs []wire.Spec
				for i := 0; i < n; i++ {
					s := baseline(p, r)
					// only classes that round-trip individually on every protocol, so that a stream failure means lost sync
					for _, fc := range [][2]string{{"seq", "rand"}, {"meta", "ascii"}, {"meta", "emptyval"}, {"body", "ascii"}, {"mtype", "reply"}} {
						if r.Intn(2) == 0 {
							t := s.Clone()
							if vary(&t, p, fc[0], fc[1], g) {
								s = t
							}
						}
					}
					if p.Pipe && r.Intn(4) == 0 {
						t := s.Clone()
						if vary(&t, p, "pipe", "one", g) {
							s = t
						}
					}
					specs = append(specs, s)
				}
				core.Add("evaluations", 1)
				core.Add("streams", 1)
				core.Add("stream_frames", int64(n))
				core.Distinct("nontrivial", fmt.Sprintf("%s/stream/len=%d", p.Name, n))
				for _, f := range checkStream(p, specs, r) {
					report("stream", specs[0], specs, f, specs[0])
				}
			}
		}
	}
	// 4. soak (one batch): a long run of round trips in one process with garbage collections in between, so that the
	// process-wide buffer and message pools go through their calibration and miss paths (which the short cases never reach)
	if *batch == 0 {
		rounds := 12000 // every round releases pooled buffers several times: the 42000-call calibration of utils.ByteBufferPool is passed well before the end
		if *tier == "thorough" {
			rounds = 150000
		}
		for _, p := range ps {
			if !p.Stream {
				continue
			}
			r := core.NewRand(*seed, 991, int64(len(p.Name)))
			g := gen{r}
			failed := false
			for k := 0; k < rounds && !failed; k++ {
				s := baseline(p, r)
				for _, fc := range [][2]string{{"seq", "rand"}, {"meta", "ascii"}, {"body", "ascii"}} {
					if r.Intn(2) == 0 {
						t := s.Clone()
						if vary(&t, p, fc[0], fc[1], g) {
							s = t
						}
					}
				}
				if k%500 == 499 {
					runtime.GC()
					runtime.GC()
				}
				core.Add("soak_round_trips", 1)
				if f := checkOne(p, s, r); f != nil {
					failed = true
					id := fmt.Sprintf("soak-%s-%d", p.Name, k)
					desc := map[string]interface{}{"class": "soak", "proto": p.Name, "round": k, "spec": s.JSON()}
					core.Begin(id, desc)
					core.Result(core.R{ID: id, Verdict: core.Violated, FP: fmt.Sprintf("C05/%s/soak/%s", p.Name, f.symptom),
						What: fmt.Sprintf("%s: round trip %d of a long run in one process: %s (%s)", p.Name, k, f.symptom, f.detail), Witness: f.detail, Desc: desc})
				}
			}
			core.Add("evaluations", 1)
			core.Distinct("nontrivial", p.Name+"/soak")
		}
	}
	core.Finish()
}
