package main

// (f) calls issued by a handler on its own session (bidirectional use): a handler that is answering a call calls
// back over ctx.Session() and waits for the result. The connection is lost / a side closes while the nested call is
// pending. Like every other call the nested call completes exactly once without any further event - the handler that
// waits for it is not released by the harness.

import (
	"fmt"
	"sync/atomic"
	"time"

	erpc "github.com/henrylee2cn/erpc/v6"
	"github.com/henrylee2cn/erpc/v6/codec"

	"verifharness/bed"
	"verifharness/core"
	"verifharness/gates"
)

var (
	nestMon     atomic.Value // *monitor of the running case
	nestEntered int64
	nestDone    int64
)

// HNest calls the echo route of its own session's far end and waits for that call.
func HNest(ctx erpc.CallCtx, arg *[]byte) ([]byte, *erpc.Status) {
	atomic.AddInt64(&nestEntered, 1)
	m, _ := nestMon.Load().(*monitor)
	if m == nil {
		return []byte("no-monitor"), nil
	}
	t := &tracked{label: "nested call issued by the handler of " + string(*arg), issued: make(chan struct{})}
	m.mu.Lock()
	m.calls = append(m.calls, t)
	m.mu.Unlock()
	var out []byte
	cmd := ctx.Session().AsyncCall(string(ctx.PeekMeta("Back")), []byte("nested:"+string(*arg)), &out, m.ch, erpc.WithBodyCodec(codec.ID_PLAIN))
	m.mu.Lock()
	t.cmd = cmd
	m.byCmd[cmd] = t
	m.mu.Unlock()
	close(t.issued)
	<-cmd.Done()
	atomic.AddInt64(&nestDone, 1)
	if !cmd.StatusOK() {
		return nil, erpc.NewStatus(1235, "nested call failed", cmd.Status().String())
	}
	return append([]byte("nested-ok:"), out...), nil
}

type nestedEnv struct {
	*env
	nestRoute string // on srv
	backRoute string // echo on cli
}

func newNestedEnv(e *env) *nestedEnv {
	ne := &nestedEnv{env: &env{p: e.p, cli: erpc.NewPeer(erpc.PeerConfig{}), srv: erpc.NewPeer(erpc.PeerConfig{}), routes: map[string]string{}}}
	ne.routes["echo"] = ne.srv.RouteCallFunc(HEcho)
	ne.nestRoute = ne.srv.RouteCallFunc(HNest)
	ne.backRoute = ne.cli.RouteCallFunc(HEcho)
	return ne
}

func runNested(ne *nestedEnv, action string, n int, release bool, idx int) {
	id := fmt.Sprintf("nested.%s.%s.n%d.rel=%v.%d", ne.p.Name, action, n, release, idx)
	desc := map[string]interface{}{"class": "nested-call", "proto": ne.p.Name, "action": action, "outer_calls": n, "far_handler_released_after_the_event": release}
	core.Begin(id, desc)
	core.Add("evaluations", 1)
	core.Add("nested_call_cases", 1)
	l, err := bed.Connect(ne.cli, ne.srv, ne.p.Func, ne.p.Func, nil)
	if err != nil {
		core.Result(core.R{ID: id, Verdict: core.Inconclusive, What: "connect"})
		return
	}
	gates.Reset()
	m := newMonitor()
	nestMon.Store(m)
	defer nestMon.Store((*monitor)(nil))
	hold := setHold(true) // the client's echo handler (target of the nested calls) parks
	e0, n0 := atomic.LoadInt64(&entered), atomic.LoadInt64(&nestEntered)
	outs := make([][]byte, n)
	for i := 0; i < n; i++ {
		m.call(l.A, fmt.Sprintf("outer call %d", i), ne.nestRoute, []byte(fmt.Sprintf("o%d", i)), &outs[i], erpc.WithBodyCodec(codec.ID_PLAIN), erpc.WithSetMeta("Back", ne.backRoute))
	}
	// every nested call has reached its (parked) handler at the client
	if !bed.WaitUntil(10*time.Second, func() bool {
		return atomic.LoadInt64(&nestEntered)-n0 == int64(n) && atomic.LoadInt64(&entered)-e0 == int64(n)
	}) {
		close(hold)
		setHold(false)
		finish(m, l, nil)
		core.Result(core.R{ID: id, Verdict: core.Inconclusive, What: "the nested calls did not reach their handlers"})
		return
	}
	core.Add("nested_calls_pending_at_the_event", int64(n))
	closers := act(action, l, m, ne.env, nil)
	settle()
	if release {
		close(hold)
		setHold(false)
		settle()
	}
	// judged before anything else is closed: the nested calls and the outer calls are complete, nothing is wedged
	q := settle()
	if !q.Quiescent {
		close2(hold, release)
		finish(m, l, closers)
		core.Result(core.R{ID: id, Verdict: core.Inconclusive, What: "watchdog: process did not become quiescent"})
		return
	}
	var vs []viol
	m.mu.Lock()
	calls := append([]*tracked(nil), m.calls...)
	m.mu.Unlock()
	for _, t := range calls {
		if isDone(t.issued) && !isDone(t.cmd.Done()) {
			vs = append(vs, viol{"call-hung", fmt.Sprintf("%s: not complete at quiescence after %s (no further event is needed for it to complete)", t.label, action)})
		}
	}
	close2(hold, release)
	fvs, ok := finish(m, l, closers)
	if ok {
		seen := map[string]bool{}
		for _, v := range vs {
			seen[v.sym+v.what] = true
		}
		for _, v := range fvs {
			if !seen[v.sym+v.what] {
				vs = append(vs, v)
			}
		}
	}
	report(id, "nested", fmt.Sprintf("%s/%s", ne.p.Name, action), desc, vs, ok, fmt.Sprintf("nested/%s/%s/%d/%v", ne.p.Name, action, n, release))
}

func close2(hold chan struct{}, released bool) {
	if !released {
		close(hold)
		setHold(false)
	}
}
