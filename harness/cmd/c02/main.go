// Worker for C02: every Call/AsyncCall completes exactly once - its done signal fires once and it
// is delivered once to the completion channel - and, once the reply has arrived, the connection has
// been lost or the session has been closed, completion follows without any further event.
//
// Three engines: (a) connection cut at every byte offset of the request and of the reply stream,
// (b) gate scripts placing local Close / remote close / cut / reply arrival at every point of the
// call, reply-binding, close and disconnect paths, (c) hostile replies from a scripted peer.
// The oracle is a state predicate at quiescence (goroutine dumps), never a wall-clock deadline.
package main

import (
	"bytes"
	"context"
	"flag"
	"fmt"
	"github.com/henrylee2cn/erpc/v6/plugin/heartbeat"
	"github.com/henrylee2cn/erpc/v6/plugin/secure"
	"net"
	"sort"
	"strings"
	"sync"
	"sync/atomic"
	"time"

	erpc "github.com/henrylee2cn/erpc/v6"
	"github.com/henrylee2cn/erpc/v6/codec"

	"verifharness/bed"
	"verifharness/core"
	"verifharness/gates"
	"verifharness/memconn"
	"verifharness/protos"
	"verifharness/quiesce"
	"verifharness/rawpeer"
	"verifharness/tok"
	"verifharness/wire"
)

var (
	prop   = flag.String("prop", "C02", "")
	tier   = flag.String("tier", "quick", "")
	seed   = flag.Int64("seed", 1, "")
	batch  = flag.Int("batch", 0, "")
	nbatch = flag.Int("nbatch", 1, "")
	replay = flag.String("replay", "", "")
)

// ---- server side handler with a controllable hold ----

var (
	holdMu  sync.Mutex
	holdCh  chan struct{} // non-nil: handlers wait on it
	entered int64
)

func setHold(on bool) chan struct{} {
	holdMu.Lock()
	defer holdMu.Unlock()
	if on {
		holdCh = make(chan struct{})
	} else {
		holdCh = nil
	}
	return holdCh
}

func HEcho(ctx erpc.CallCtx, arg *[]byte) ([]byte, *erpc.Status) {
	atomic.AddInt64(&entered, 1)
	holdMu.Lock()
	ch := holdCh
	holdMu.Unlock()
	if ch != nil {
		<-ch
	}
	if bytes.HasPrefix(*arg, []byte("status:")) {
		return nil, erpc.NewStatus(1234, "handler status", string(*arg))
	}
	return append([]byte("ok:"), (*arg)...), nil
}

func HTyped(ctx erpc.CallCtx, arg *tok.Arg) (*tok.Arg, *erpc.Status) {
	return &tok.Arg{Tok: "ok:" + arg.Tok}, nil
}

// ---- call monitor ----

type tracked struct {
	label      string
	cmd        erpc.CallCmd
	issued     chan struct{} // closed when AsyncCall returned
	noCmd      bool          // AsyncCall returned no command at all
	unsendable bool          // the request can never be written (its argument's encoder panics)
	deliveries int32
}

type monitor struct {
	ch     chan erpc.CallCmd
	mu     sync.Mutex
	calls  []*tracked
	byCmd  map[erpc.CallCmd]*tracked
	orphan int32
}

func newMonitor() *monitor {
	m := &monitor{ch: make(chan erpc.CallCmd, 256), byCmd: map[erpc.CallCmd]*tracked{}}
	go func() {
		for c := range m.ch {
			m.mu.Lock()
			t := m.byCmd[c]
			m.mu.Unlock()
			if t == nil {
				// delivered before AsyncCall returned: resolve lazily
				atomic.AddInt32(&m.orphan, 1)
				go func(c erpc.CallCmd) {
					for i := 0; i < 2000; i++ {
						m.mu.Lock()
						t := m.byCmd[c]
						m.mu.Unlock()
						if t != nil {
							atomic.AddInt32(&t.deliveries, 1)
							atomic.AddInt32(&m.orphan, -1)
							return
						}
						time.Sleep(time.Millisecond)
					}
				}(c)
				continue
			}
			atomic.AddInt32(&t.deliveries, 1)
		}
	}()
	return m
}

// call issues an AsyncCall in its own goroutine (it may be parked at a gate).
func (m *monitor) call(sess erpc.Session, label, route string, arg, result interface{}, settings ...erpc.MessageSetting) *tracked {
	t := &tracked{label: label, issued: make(chan struct{})}
	m.mu.Lock()
	m.calls = append(m.calls, t)
	m.mu.Unlock()
	go func() {
		cmd := sess.AsyncCall(route, arg, result, m.ch, settings...)
		m.mu.Lock()
		if cmd == nil {
			t.noCmd = true
		} else {
			t.cmd = cmd
			m.byCmd[cmd] = t
		}
		m.mu.Unlock()
		close(t.issued)
	}()
	return t
}

type closer struct {
	label string
	done  chan struct{}
}

func goClose(label string, f func()) *closer {
	c := &closer{label: label, done: make(chan struct{})}
	go func() { f(); close(c.done) }()
	return c
}

type viol struct{ sym, what string }

func isDone(ch <-chan struct{}) bool {
	select {
	case <-ch:
		return true
	default:
		return false
	}
}

var wedgeFrames = []string{
	"github.com/henrylee2cn/erpc/v6.(*session).Close", "github.com/henrylee2cn/erpc/v6.(*session).closeLocked", "github.com/henrylee2cn/erpc/v6.(*session).readDisconnected",
	"github.com/henrylee2cn/erpc/v6.(*callCmd).done", "github.com/henrylee2cn/erpc/v6.(*callCmd).cancel", "github.com/henrylee2cn/erpc/v6.(*handlerCtx).handleReply",
	"github.com/henrylee2cn/erpc/v6.(*handlerCtx).bindReply", "github.com/henrylee2cn/erpc/v6.(*session).AsyncCall", "github.com/henrylee2cn/erpc/v6.(*session).Call",
	"github.com/henrylee2cn/erpc/v6.(*session).startReadAndHandle", "github.com/henrylee2cn/erpc/v6.(*peer).Close",
}

var knownWedged = map[string]bool{}

// evaluate checks the exactly-once / bounded-progress clauses at a quiescent point after everything was closed.
func evaluate(m *monitor, closers []*closer, dump []quiesce.G) []viol {
	var vs []viol
	m.mu.Lock()
	calls := append([]*tracked(nil), m.calls...)
	m.mu.Unlock()
	for _, t := range calls {
		if !isDone(t.issued) {
			vs = append(vs, viol{"asynccall-never-returned", fmt.Sprintf("%s: AsyncCall itself is still blocked at quiescence: %v", t.label, quiesce.Brief(quiesce.Blocked(dump, "github.com/henrylee2cn/erpc/v6.(*session).AsyncCall")))})
			continue
		}
		if t.noCmd {
			vs = append(vs, viol{"asynccall-returned-no-command", fmt.Sprintf("%s: AsyncCall returned a nil CallCmd: the caller has nothing that ever completes", t.label)})
			continue
		}
		if !isDone(t.cmd.Done()) {
			vs = append(vs, viol{"call-hung", fmt.Sprintf("%s: not complete at quiescence after its session was closed / its connection lost", t.label)})
			continue
		}
		switch n := atomic.LoadInt32(&t.deliveries); {
		case n == 0:
			vs = append(vs, viol{"done-without-delivery", fmt.Sprintf("%s: done fired but the command was never delivered to the completion channel", t.label)})
		case n > 1:
			vs = append(vs, viol{"delivered-twice", fmt.Sprintf("%s: delivered %d times to the completion channel", t.label, n)})
		}
	}
	for _, c := range closers {
		if !isDone(c.done) {
			vs = append(vs, viol{"close-hung", fmt.Sprintf("%s did not return at quiescence", c.label)})
		}
	}
	seen := map[string]bool{}
	for _, g := range dump {
		if knownWedged[g.ID] {
			continue // left over from an earlier, already reported case
		}
		for _, f := range g.Frames {
			hit := false
			for _, w := range wedgeFrames {
				if strings.HasPrefix(f, w) {
					hit = true
					break
				}
			}
			if hit {
				k := strings.TrimPrefix(f, "github.com/henrylee2cn/erpc/v6.")
				knownWedged[g.ID] = true
				if !seen[k] {
					seen[k] = true
					fr := g.Frames
					if len(fr) > 7 {
						fr = fr[:7]
					}
					vs = append(vs, viol{"goroutine-wedged:" + k, fmt.Sprintf("goroutine still inside %s [%s] at quiescence after all sessions of the case were closed: %s", k, g.State, strings.Join(fr, " < "))})
				}
				break
			}
		}
	}
	return vs
}

func settle() quiesce.Result {
	return quiesce.Wait(quiesce.Options{Timeout: 30 * time.Second})
}

type env struct {
	p      protos.P
	cli    erpc.Peer
	srv    erpc.Peer
	routes map[string]string
	ping   heartbeat.Ping // only in the heartbeat environment
	beat   *env
}

// beatEnv is the same pair of peers with the heartbeat plug-ins (ping on the calling peer, pong on the other).
func (e *env) beatEnv() *env {
	if e.beat == nil {
		ping := heartbeat.NewPing(3, true)
		b := &env{p: e.p, cli: erpc.NewPeer(erpc.PeerConfig{}, ping), srv: erpc.NewPeer(erpc.PeerConfig{}, heartbeat.NewPong()), routes: map[string]string{}, ping: ping}
		b.routes["echo"] = b.srv.RouteCallFunc(HEcho)
		b.routes["typed"] = b.srv.RouteCallFunc(HTyped)
		b.cli.RouteCallFunc(HEcho)
		e.beat = b
	}
	return e.beat
}

func newEnv(p protos.P) *env {
	e := &env{p: p, cli: erpc.NewPeer(erpc.PeerConfig{}), srv: erpc.NewPeer(erpc.PeerConfig{}), routes: map[string]string{}}
	e.routes["echo"] = e.srv.RouteCallFunc(HEcho)
	e.routes["typed"] = e.srv.RouteCallFunc(HTyped)
	e.cli.RouteCallFunc(HEcho)
	return e
}

// finish closes both ends of the link (in goroutines: a Close may hang, which is a finding), waits for
// quiescence and evaluates.
func finish(m *monitor, l *bed.Link, closers []*closer) ([]viol, bool) {
	gates.Reset()
	if h := setHold(false); h != nil {
	}
	closers = append(closers, goClose("final Close(client session)", func() { l.A.Close() }), goClose("final Close(server session)", func() { l.B.Close() }))
	l.CA.Close()
	l.CB.Close()
	q := settle()
	if !q.Quiescent {
		return nil, false
	}
	return evaluate(m, closers, q.Dump), true
}

func report(id, class, cfg string, desc interface{}, vs []viol, ok bool, sig string) {
	if !ok {
		core.Result(core.R{ID: id, Verdict: core.Inconclusive, What: "watchdog: process did not become quiescent", Sig: sig})
		return
	}
	if len(vs) == 0 {
		core.Result(core.R{ID: id, Verdict: core.Held, Sig: sig, Nontrivial: true})
		core.Distinct("nontrivial", sig)
		return
	}
	sort.Slice(vs, func(i, j int) bool { return vs[i].sym < vs[j].sym })
	for i, v := range vs {
		rid := id
		if i > 0 {
			rid = fmt.Sprintf("%s#%d", id, i)
			core.Begin(rid, desc)
		}
		core.Result(core.R{ID: rid, Verdict: core.Violated, FP: fmt.Sprintf("C02/%s/%s/%s", class, cfg, v.sym), What: v.what, Witness: v.what, Desc: desc, Sig: sig})
	}
}

// ---------------- (a) cut offsets ----------------

type shape struct {
	name  string
	body  string
	pipe  string
	route string
}

func runCuts(e *env, r *core.Rand, stride int) {
	shapes := []shape{{"small", "hello", "", "echo"}, {"body300", strings.Repeat("x", 300), "", "echo"}, {"status-reply", "status:boom", "", "echo"}}
	if e.p.Pipe {
		shapes = append(shapes, shape{"gzip", strings.Repeat("z", 200), "z", "echo"})
	}
	for si, sh := range shapes {
		if *tier != "thorough" && si >= 2 && e.p.Name != "raw" {
			continue
		}
		settings := []erpc.MessageSetting{erpc.WithBodyCodec(codec.ID_PLAIN)}
		if sh.pipe != "" {
			settings = append(settings, erpc.WithXferPipe([]byte(sh.pipe)...))
		}
		// dry run: frame lengths
		l, err := bed.Connect(e.cli, e.srv, e.p.Func, e.p.Func, nil)
		if err != nil {
			core.Fatalf("connect: %v", err)
		}
		var res []byte
		st := l.A.Call(e.routes[sh.route], []byte(sh.body), &res, settings...).Status()
		lreq, lrep := l.CA.Written(), l.CB.Written()
		l.A.Close()
		l.B.Close()
		settle()
		if lreq == 0 || lrep == 0 {
			core.Fatalf("dry run wrote nothing (%v)", st)
		}
		for _, dir := range []string{"request", "reply"} {
			n := lreq
			if dir == "reply" {
				n = lrep
			}
			for k := int64(0); k <= n; k++ {
				if stride > 1 && k%int64(stride) != int64(*batch)%int64(stride) && k != n && k != 0 {
					continue
				}
				for _, reset := range []bool{false, true} {
					id := fmt.Sprintf("cut.%s.%s.%s.%d.%v", e.p.Name, sh.name, dir, k, reset)
					desc := map[string]interface{}{"class": "cut-offset", "proto": e.p.Name, "shape": sh.name, "stream": dir, "offset": k, "of": n, "reset": reset}
					core.Begin(id, desc)
					core.Add("evaluations", 1)
					core.Add("cut_cases", 1)
					if k == n/2 && !reset {
						core.Sample(desc)
					}
					l, err := bed.Connect(e.cli, e.srv, e.p.Func, e.p.Func, func(ca, cb *memconn.Conn) {
						if dir == "request" {
							ca.CutWritesAfter(k, reset, nil)
						} else {
							cb.CutWritesAfter(k, reset, nil)
						}
					})
					if err != nil {
						core.Result(core.R{ID: id, Verdict: core.Inconclusive, What: "connect: " + err.Error()})
						continue
					}
					m := newMonitor()
					var out []byte
					t := m.call(l.A, "call", e.routes[sh.route], []byte(sh.body), &out, settings...)
					q := settle()
					var vs []viol
					if q.Quiescent && isDone(t.issued) && isDone(t.cmd.Done()) {
						stt := t.cmd.Status()
						if stt.OK() && (dir == "request" && k < n || dir == "reply" && k < n) && sh.name != "status-reply" {
							// an OK completion needs the whole reply
							if dir == "reply" || string(out) != "ok:"+sh.body {
								vs = append(vs, viol{"ok-without-full-reply", fmt.Sprintf("call completed OK although the %s stream was cut after %d of %d bytes (result %q)", dir, k, n, out)})
							}
						}
					}
					fv, ok := finish(m, l, nil)
					vs = append(vs, fv...)
					cls := "mid"
					if k == 0 {
						cls = "first"
					} else if k == n {
						cls = "whole"
					}
					report(id, "cut", fmt.Sprintf("%s/%s/%s", e.p.Name, sh.name, dir), desc, vs, ok && q.Quiescent, fmt.Sprintf("cut/%s/%s/%s/%s/%v", e.p.Name, sh.name, dir, cls, reset))
				}
			}
		}
	}
}

// ---------------- (b) gate scripts ----------------

type script struct {
	Point  string `json:"point"`
	Role   string `json:"trapped"` // caller | reader | closer | disconnect-reader
	Action string `json:"action"`
	Class  string `json:"class"`
}

func scripts() []script {
	var out []script
	for _, pt := range []string{"asynccall.afterSeq", "asynccall.afterStore", "asynccall.beforeWrite", "asynccall.afterWrite", "write.beforeLock", "write.afterLock"} {
		for _, a := range []string{"localClose", "remoteClose", "cutEOF", "cutReset"} {
			out = append(out, script{pt, "caller", a, "gate-script"})
		}
	}
	for _, pt := range []string{"read.afterMessage", "read.beforeGo", "bindreply.afterLoad", "bindreply.afterLock", "handlereply.beforeDone"} {
		for _, a := range []string{"localClose", "remoteClose", "cutEOF", "cutReset"} {
			out = append(out, script{pt, "reader", a, "gate-script"})
		}
	}
	for _, pt := range []string{"close.afterCAS", "close.afterIndexDelete", "close.afterCtxWait"} {
		for _, a := range []string{"releaseHandler", "remoteClose", "cutEOF", "cutReset"} {
			out = append(out, script{pt, "closer", a, "gate-script"})
		}
	}
	for _, pt := range []string{"rd.enter", "rd.beforeStatusWrite", "rd.afterStatusWrite", "rd.beforeCancel", "rd.beforeSocketClose"} {
		for _, trig := range []string{"cutEOF", "cutReset", "remoteClose"} {
			for _, a := range []string{"localClose", "secondCall", "none"} {
				out = append(out, script{pt, "disconnect-reader:" + trig, a, "gate-script"})
			}
		}
	}
	return out
}

func act(action string, l *bed.Link, m *monitor, e *env, hold chan struct{}) []*closer {
	switch action {
	case "localClose":
		return []*closer{goClose("Close(client session) placed by the script", func() { l.A.Close() })}
	case "remoteClose":
		return []*closer{goClose("Close(server session) placed by the script", func() { l.B.Close() })}
	case "cutEOF":
		l.CA.Sever(false)
	case "cutReset":
		l.CA.Sever(true)
	case "releaseHandler":
		if hold != nil {
			close(hold)
			setHold(false)
		}
	case "secondCall":
		var out []byte
		m.call(l.A, "second call", e.routes["echo"], []byte("second"), &out, erpc.WithBodyCodec(codec.ID_PLAIN))
	}
	return nil
}

func runScript(e *env, sc script, delaySeed int64) {
	id := fmt.Sprintf("gate.%s.%s.%s.%s.d%d", e.p.Name, sc.Point, sc.Role, sc.Action, delaySeed)
	desc := map[string]interface{}{"class": sc.Class, "proto": e.p.Name, "script": sc, "delay_seed": delaySeed}
	core.Begin(id, desc)
	core.Add("evaluations", 1)
	core.Add("gate_scripts", 1)
	if sc.Action == "cutEOF" {
		core.Sample(desc)
	}
	l, err := bed.Connect(e.cli, e.srv, e.p.Func, e.p.Func, nil)
	if err != nil {
		core.Result(core.R{ID: id, Verdict: core.Inconclusive, What: "connect: " + err.Error()})
		return
	}
	gates.Reset()
	gates.Record(true)
	if delaySeed > 0 {
		gates.SetDelay(delaySeed, 150)
	}
	m := newMonitor()
	isA := func(s erpc.Session) bool { return s == l.A }
	var closers []*closer
	var out []byte
	infeasible := ""
	role := sc.Role
	trig := ""
	if i := strings.IndexByte(role, ':'); i > 0 {
		role, trig = role[:i], role[i+1:]
	}
	var hold chan struct{}
	switch role {
	case "caller", "reader":
		trap := gates.Park(sc.Point, isA)
		m.call(l.A, "call", e.routes["echo"], []byte("hello"), &out, erpc.WithBodyCodec(codec.ID_PLAIN))
		if !trap.WaitArrived(10 * time.Second) {
			infeasible = "trap never reached"
		} else {
			settle()
			closers = append(closers, act(sc.Action, l, m, e, nil)...)
			settle()
		}
		trap.Release()
	case "closer":
		hold = setHold(true)
		e0 := atomic.LoadInt64(&entered)
		m.call(l.A, "call", e.routes["echo"], []byte("hello"), &out, erpc.WithBodyCodec(codec.ID_PLAIN))
		if !bed.WaitUntil(10*time.Second, func() bool { return atomic.LoadInt64(&entered) > e0 }) {
			infeasible = "handler never entered"
			break
		}
		trap := gates.Park(sc.Point, isA)
		closers = append(closers, goClose("Close(client session) trapped by the script", func() { l.A.Close() }))
		if !trap.WaitArrived(10 * time.Second) {
			infeasible = "trap never reached"
		} else {
			settle()
			closers = append(closers, act(sc.Action, l, m, e, hold)...)
			settle()
		}
		trap.Release()
	case "disconnect-reader":
		hold = setHold(true)
		e0 := atomic.LoadInt64(&entered)
		m.call(l.A, "call", e.routes["echo"], []byte("hello"), &out, erpc.WithBodyCodec(codec.ID_PLAIN))
		if !bed.WaitUntil(10*time.Second, func() bool { return atomic.LoadInt64(&entered) > e0 }) {
			infeasible = "handler never entered"
			break
		}
		trap := gates.Park(sc.Point, isA)
		closers = append(closers, act(trig, l, m, e, nil)...)
		if trig == "remoteClose" {
			// a graceful remote close waits for its running handler: let it finish, the disconnect follows the reply
			holdMu.Lock()
			if holdCh != nil {
				close(holdCh)
				holdCh = nil
			}
			holdMu.Unlock()
		}
		if !trap.WaitArrived(10 * time.Second) {
			infeasible = "trap never reached"
		} else {
			settle()
			closers = append(closers, act(sc.Action, l, m, e, nil)...)
			settle()
		}
		trap.Release()
	}
	// let a held handler go, then everything must wind down
	holdMu.Lock()
	if holdCh != nil {
		close(holdCh)
		holdCh = nil
	}
	holdMu.Unlock()
	qq := settle()
	var pre []viol
	if qq.Quiescent && infeasible == "" {
		// the triggering event (close, loss or reply arrival) has happened and nothing runs any more:
		// every call must be complete now, before any further event
		m.mu.Lock()
		for _, t := range m.calls {
			if !isDone(t.issued) || !isDone(t.cmd.Done()) {
				pre = append(pre, viol{"call-incomplete-after-trigger", fmt.Sprintf("%s: incomplete at quiescence after %s / %s: %v", t.label, sc.Role, sc.Action,
					quiesce.Brief(quiesce.Blocked(qq.Dump, "github.com/henrylee2cn/erpc/v6.(*session)")))})
			}
		}
		m.mu.Unlock()
	}
	hits := gates.Hits()
	var sigb strings.Builder
	for _, h := range hits {
		side := "b"
		if h.Sess == l.A {
			side = "a"
		}
		sigb.WriteString(side + ":" + h.Point + ",")
	}
	core.Distinct("interleavings", fmt.Sprintf("%x", hashStr(sigb.String())))
	core.Add("gate_hits", int64(len(hits)))
	vs, ok := finish(m, l, closers)
	if len(pre) > 0 {
		// keep the sharper symptom only
		var rest []viol
		for _, v := range vs {
			if v.sym != "call-hung" {
				rest = append(rest, v)
			}
		}
		vs = append(pre, rest...)
	}
	if infeasible != "" && len(vs) == 0 {
		core.Add("orderings_infeasible", 1)
		core.Result(core.R{ID: id, Verdict: core.Inconclusive, What: "ordering infeasible: " + infeasible})
		return
	}
	report(id, "gate", fmt.Sprintf("%s/%s/%s", sc.Point, sc.Role, sc.Action), desc, vs, ok, fmt.Sprintf("gate/%s/%s/%s/%s", e.p.Name, sc.Point, sc.Role, sc.Action))
}

func hashStr(s string) uint64 {
	h := uint64(14695981039346656037)
	for i := 0; i < len(s); i++ {
		h ^= uint64(s[i])
		h *= 1099511628211
	}
	return h
}

// panicky is a result type whose JSON decoder panics.
type panicky struct{ V int }

func (p *panicky) UnmarshalJSON(b []byte) error {
	var m map[string]interface{}
	_ = m["x"].(string) // panics: interface conversion on a nil interface
	return nil
}

// panicArg is an argument type whose JSON encoder panics (a bug in application code reached while the call is written).
type panicArg struct{ p *int }

func (a *panicArg) MarshalJSON() ([]byte, error) { return []byte(fmt.Sprint(*a.p)), nil }

// ---------------- (c) hostile replies ----------------

var hostileKinds = []string{"good", "codec0-body", "unknown-codec", "undecodable", "wrong-seq", "negative-seq", "dup-one-write", "dup-delayed", "truncated", "status", "oversize",
	"call-type-same-seq", "unregistered-filter", "empty-body", "two-different-replies", "status-malformed", "status-malformed-nocodec", "filter-refuses", "early-reply",
	"pb-good", "pb-length-overflow", "pb-length-huge", "pb-truncated-varint", "pb-wrong-wiretype", "pb-group-end", "pb-empty"}

// pbBodies are reply bodies under the protobuf body codec for a result type with a generated decoder (plugin/secure.Encrypt:
// field 1 string, field 2 string): well-formed, and malformed in the ways generated decoders are sensitive to
var pbBodies = map[string][]byte{
	"pb-good":             {0x0a, 0x02, 'v', '1', 0x12, 0x03, 'a', 'b', 'c'},
	"pb-length-overflow":  append([]byte{0x0a, 0x01, 'v', 0x12}, 0xf5, 0xff, 0xff, 0xff, 0xff, 0xff, 0xff, 0xff, 0x7f), // length MaxInt64-10
	"pb-length-huge":      {0x0a, 0x01, 'v', 0x12, 0xff, 0xff, 0xff, 0xff, 0x07, 'x'},                                  // length 2^31-1, one byte present
	"pb-truncated-varint": {0x0a, 0x01, 'v', 0x12, 0x80},
	"pb-wrong-wiretype":   {0x0d, 0x01, 0x02, 0x03, 0x04, 0x12, 0x01, 'x'},
	"pb-group-end":        {0x0c, 0x12, 0x01, 'x'},
	"pb-empty":            {},
}

func runHostile(e *env, kind, resKind string, idx int) {
	p := e.p
	id := fmt.Sprintf("hostile.%s.%s.%s.%d", p.Name, kind, resKind, idx)
	desc := map[string]interface{}{"class": "hostile-reply", "proto": p.Name, "reply": kind, "result_type": resKind}
	core.Begin(id, desc)
	core.Add("evaluations", 1)
	core.Add("hostile_replies", 1)
	if kind == "dup-one-write" {
		core.Sample(desc)
	}
	// the victim is a client-role session of e.cli whose far end is the script
	c := rawpeer.Dial(e.cli, p.Func, nil)
	if c.Sess == nil {
		core.Result(core.R{ID: id, Verdict: core.Inconclusive, What: "accept failed"})
		return
	}
	m := newMonitor()
	var result interface{}
	switch resKind {
	case "struct":
		result = new(tok.Arg)
	case "bytes":
		result = new([]byte)
	case "pbgen":
		result = new(secure.Encrypt)
	case "panicky":
		// a result type whose own decoder panics (a bug in application code reached by the reply's bytes)
		result = new(panicky)
	}
	arg := interface{}(&tok.Arg{Tok: "t", Pay: "p"})
	cod := byte(codec.ID_JSON)
	var t *tracked
	if kind == "early-reply" {
		// an over-eager (or hostile) peer answers the call's predictable sequence number while the caller is still between
		// registering the call and writing it: the reply has arrived, so the call completes once the caller goes on
		erpc.VerifSetSeq(c.Sess, 1000)
		trap := gates.ParkN("asynccall.afterStore", 1, func(s erpc.Session) bool { return s == c.Sess })
		t = m.call(c.Sess, "victim call", "/remote/method", arg, result, erpc.WithBodyCodec(cod))
		if !bed.WaitUntil(10*time.Second, func() bool { return trap.Count() >= 1 }) {
			trap.Release()
			gates.Reset()
			c.Close()
			settle()
			core.Result(core.R{ID: id, Verdict: core.Inconclusive, What: "ordering infeasible: the caller did not reach asynccall.afterStore"})
			return
		}
		early := wire.Spec{Seq: 1001, Mtype: erpc.TypeReply, Codec: codec.ID_JSON, Body: []byte(`{"tok":"r","pay":"q"}`), Class: map[string]string{}}
		if fs, err := rawpeer.Pack(p, early); err == nil {
			c.Write(bytes.Join(fs, nil))
		}
		settle()
		trap.Release()
	} else {
		t = m.call(c.Sess, "victim call", "/remote/method", arg, result, erpc.WithBodyCodec(cod))
	}
	settle()
	got, _ := c.Received()
	frames, _ := rawpeer.Parse(p, got)
	if len(frames) == 0 {
		c.Close()
		settle()
		core.Result(core.R{ID: id, Verdict: core.Inconclusive, What: "the victim's CALL frame was not seen"})
		return
	}
	seq := frames[0].Seq
	mk := func(sq int32, c0 byte, body string, pipe string) wire.Spec {
		return wire.Spec{Seq: sq, Mtype: erpc.TypeReply, Codec: c0, Body: []byte(body), Pipe: []byte(pipe), Class: map[string]string{}}
	}
	good := mk(seq, codec.ID_JSON, `{"tok":"r","pay":"q"}`, "")
	var writes [][]byte
	pack := func(s ...wire.Spec) []byte {
		fs, err := rawpeer.Pack(p, s...)
		if err != nil {
			return nil
		}
		return bytes.Join(fs, nil)
	}
	delayed := []byte(nil)
	switch kind {
	case "good":
		writes = append(writes, pack(good))
	case "codec0-body":
		writes = append(writes, pack(mk(seq, 0, `{"tok":"r"}`, "")))
	case "unknown-codec":
		writes = append(writes, pack(mk(seq, 'Q', `{"tok":"r"}`, "")))
	case "undecodable":
		writes = append(writes, pack(mk(seq, codec.ID_JSON, `{"tok": [broken`, "")))
	case "wrong-seq":
		writes = append(writes, pack(mk(seq+1000, codec.ID_JSON, `{"tok":"r"}`, "")))
	case "negative-seq":
		writes = append(writes, pack(mk(-seq, codec.ID_JSON, `{"tok":"r"}`, "")))
	case "dup-one-write":
		writes = append(writes, pack(good, good))
	case "dup-delayed":
		writes = append(writes, pack(good))
		delayed = pack(good)
	case "two-different-replies":
		writes = append(writes, pack(good, mk(seq, codec.ID_JSON, `{"tok":"other"}`, "")))
	case "truncated":
		b := pack(good)
		writes = append(writes, b[:len(b)/2])
	case "status":
		s := good
		s.Stat = &protos.Triple{Code: 4321, Msg: "remote says no"}
		s.Body = nil
		writes = append(writes, pack(s))
	case "oversize":
		b := pack(good)
		if len(b) > 4 && (p.Name == "raw" || p.Name == "json" || p.Name == "pb") {
			b[0], b[1], b[2], b[3] = 0xff, 0xff, 0xff, 0xff
		} else {
			kind = "good" // no length prefix to patch on this protocol: this is simply a well-formed reply
		}
		writes = append(writes, b)
	case "call-type-same-seq":
		s := good
		s.Mtype = erpc.TypeCall
		s.Method = "/nobody"
		writes = append(writes, pack(s))
	case "unregistered-filter":
		b := pack(mk(seq, codec.ID_JSON, `{"tok":"r"}`, "z"))
		if len(b) > 5 && (p.Name == "raw" || p.Name == "json" || p.Name == "pb") {
			b[5] = 0x7e
		} else {
			kind = "good" // the pipe id is not at a fixed offset here: a well-formed reply through a registered filter
		}
		writes = append(writes, b)
	case "pb-good", "pb-length-overflow", "pb-length-huge", "pb-truncated-varint", "pb-wrong-wiretype", "pb-group-end", "pb-empty":
		writes = append(writes, pack(mk(seq, codec.ID_PROTOBUF, string(pbBodies[kind]), "")))
	case "early-reply":
		// (already delivered above, before the request was written)
	case "filter-refuses":
		// a reply through the registered gzip filter whose compressed payload is damaged (checksum / trailer): the filter
		// refuses it while the frame itself is well-formed and addressed to the pending call
		b := pack(mk(seq, codec.ID_JSON, `{"tok":"r","pay":"`+strings.Repeat("q", 300)+`"}`, "z"))
		if b == nil {
			kind = "good"
			b = pack(good)
		} else {
			for i := 1; i <= 6 && i < len(b); i++ {
				b[len(b)-i] ^= 0x5a
			}
		}
		writes = append(writes, b)
	case "empty-body":
		writes = append(writes, pack(mk(seq, codec.ID_JSON, "", "")))
	case "status-malformed", "status-malformed-nocodec":
		// an error reply addressed to the call whose status document is not what the protocol expects
		// (a gateway's HTML error page, truncated JSON); only the HTTP-style protocol carries the status as a separate document
		if p.Name == "http" {
			bodies := []string{"<html><body>502 Bad Gateway</body></html>", `{"code":500,"msg":"trunc`, "\x1f\x8b\x08garbage", "[]", "null"}
			body := bodies[(idx*3+len(resKind))%len(bodies)]
			ct := "Content-Type: application/json;charset=utf-8\r\n"
			if kind == "status-malformed-nocodec" {
				ct = ""
			}
			writes = append(writes, []byte(fmt.Sprintf("HTTP/1.1 299 Business Error\r\n%sContent-Length: %d\r\nX-Seq: %d\r\nX-Mtype: 2\r\n\r\n%s", ct, len(body), seq, body)))
			desc["status_document"] = body
		} else {
			kind = "good"
			writes = append(writes, pack(good))
		}
	}
	for _, w := range writes {
		if w != nil {
			c.Write(w)
		}
	}
	settle()
	if delayed != nil {
		c.Write(delayed)
		settle()
	}
	var vs []viol
	// a complete frame of type REPLY addressed to the pending call has arrived: whatever its content, the call is complete
	// now (with the reply or an error), with the connection kept or dropped - no further event is needed
	switch kind {
	case "codec0-body", "unknown-codec", "undecodable", "dup-one-write", "dup-delayed", "two-different-replies", "status", "empty-body", "status-malformed", "status-malformed-nocodec", "filter-refuses", "early-reply",
		"pb-good", "pb-length-overflow", "pb-length-huge", "pb-truncated-varint", "pb-wrong-wiretype", "pb-group-end", "pb-empty":
		if !(isDone(t.issued) && isDone(t.cmd.Done())) {
			vs = append(vs, viol{"reply-arrived-call-incomplete", fmt.Sprintf("a complete reply frame addressed to the call was delivered (%s), the process is quiescent, the call is still incomplete", kind)})
		}
	}
	// a well-formed reply must already have completed the call (no further event needed)
	if kind == "good" && !(isDone(t.issued) && isDone(t.cmd.Done())) {
		vs = append(vs, viol{"reply-arrived-call-incomplete", "a well-formed reply was delivered, the process is quiescent, the call is still incomplete"})
	}
	if isDone(t.issued) && isDone(t.cmd.Done()) && t.cmd.Status().OK() {
		switch kind {
		case "wrong-seq", "negative-seq", "truncated", "oversize", "call-type-same-seq", "unregistered-filter":
			vs = append(vs, viol{"ok-without-reply", fmt.Sprintf("call completed OK although no well-formed reply to it was sent (%s)", kind)})
		}
	}
	// remote closes; then the victim is closed locally; completion must follow
	c.C.Close()
	settle()
	cl := goClose("Close(victim session)", func() { c.Sess.Close() })
	q := settle()
	gates.Reset()
	if !q.Quiescent {
		core.Result(core.R{ID: id, Verdict: core.Inconclusive, What: "watchdog: not quiescent"})
		return
	}
	vs = append(vs, evaluate(m, []*closer{cl}, q.Dump)...)
	report(id, "hostile", fmt.Sprintf("%s/%s/%s", p.Name, kind, resKind), desc, vs, true, fmt.Sprintf("hostile/%s/%s/%s", p.Name, kind, resKind))
}

// ---------------- (d) random close/cut under delays ----------------

func runChaos(e *env, idx int, r *core.Rand) {
	id := fmt.Sprintf("chaos.%s.%d", e.p.Name, idx)
	ncalls := 1 + r.Intn(12)
	action := []string{"localClose", "remoteClose", "cutEOF", "cutReset"}[r.Intn(4)]
	after := r.Intn(ncalls + 1)
	desc := map[string]interface{}{"class": "chaos", "proto": e.p.Name, "calls": ncalls, "action": action, "after_calls": after, "delay_seed": idx}
	core.Begin(id, desc)
	core.Add("evaluations", 1)
	core.Add("chaos_cases", 1)
	core.Sample(desc)
	rateAt := -1
	if idx%4 == 1 && e.p.Push {
		// the peers carry the heartbeat plug-ins and the ping rate is changed at run time among the calls
		e = e.beatEnv()
		rateAt = r.Intn(ncalls + 1)
		desc["heartbeat_rate_changed_after_calls"] = rateAt
		core.Add("chaos_cases_with_heartbeat_rate_change", 1)
	}
	setRate := func(i int) {
		if i == rateAt {
			go e.ping.SetRate(4 + idx%5)
		}
	}
	l, err := bed.Connect(e.cli, e.srv, e.p.Func, e.p.Func, nil)
	if err != nil {
		core.Result(core.R{ID: id, Verdict: core.Inconclusive, What: "connect"})
		return
	}
	gates.Reset()
	gates.SetDelay(int64(r.Uint64()>>1), 300)
	m := newMonitor()
	var closers []*closer
	outs := make([][]byte, ncalls)
	for i := 0; i < ncalls; i++ {
		setRate(i)
		if i == after {
			closers = append(closers, act(action, l, m, e, nil)...)
		}
		sess := l.A
		if i%3 == 2 {
			sess = l.B // server-initiated call
		}
		settings := []erpc.MessageSetting{erpc.WithBodyCodec(codec.ID_PLAIN)}
		label := fmt.Sprintf("call %d", i)
		// some calls are issued with a context that is already over (cancelled / deadline passed) or has a far deadline:
		// they complete exactly once like every other call
		switch r.Intn(6) {
		case 0:
			cctx, cancel := context.WithCancel(context.Background())
			cancel()
			settings = append(settings, erpc.WithContext(cctx))
			label += " (context cancelled)"
			core.Add("calls_with_dead_context", 1)
		case 1:
			dctx, cancel := context.WithDeadline(context.Background(), time.Now().Add(-time.Second))
			defer cancel()
			settings = append(settings, erpc.WithContext(dctx))
			label += " (context deadline passed)"
			core.Add("calls_with_dead_context", 1)
		case 2:
			fctx, cancel := context.WithTimeout(context.Background(), time.Hour)
			defer cancel()
			settings = append(settings, erpc.WithContext(fctx))
		}
		if r.Intn(8) == 0 {
			// the argument's encoder panics while the call is written: the call completes (with an error) like any other
			settings[0] = erpc.WithBodyCodec(codec.ID_JSON)
			m.call(sess, label+" (argument encoder panics)", e.routes["typed"], &panicArg{}, new(tok.Arg), settings...).unsendable = true
			core.Add("calls_whose_argument_encoder_panics", 1)
			continue
		}
		m.call(sess, label, e.routes["echo"], []byte(fmt.Sprintf("c%d", i)), &outs[i], settings...)
	}
	setRate(ncalls)
	if after == ncalls {
		closers = append(closers, act(action, l, m, e, nil)...)
	}
	q0 := settle()
	// a call whose request can never be written waits for nothing: at this quiescent point, before anything else is
	// closed, it is complete (it must not stay registered until the session ends)
	var early []viol
	if q0.Quiescent {
		m.mu.Lock()
		for _, t := range m.calls {
			if t.unsendable && isDone(t.issued) && t.cmd != nil && !isDone(t.cmd.Done()) {
				early = append(early, viol{"unsendable-call-pending", fmt.Sprintf("%s: its request was never written (the encoder panicked) and the call is still incomplete at quiescence - it can only end when the session does", t.label)})
			}
		}
		m.mu.Unlock()
	}
	vs, ok := finish(m, l, closers)
	vs = append(early, vs...)
	report(id, "chaos", fmt.Sprintf("%s/%s", e.p.Name, action), desc, vs, ok, fmt.Sprintf("chaos/%s/%s/%d", e.p.Name, action, ncalls))
}

// ---------------- (e) a session dialed while the goroutine pool has no room ----------------

// runDialSaturated: the process-wide goroutine pool is small (this batch runs with erpc.SetGopool(smallPool)); one session
// is up, parked handlers occupy the rest of the pool, a second session is dialed over loopback TCP meanwhile, then the
// handlers are released. Calls on both sessions complete exactly once.
func runDialSaturated(e *env, idx int) {
	id := fmt.Sprintf("dial-saturated.%s.%d", e.p.Name, idx)
	desc := map[string]interface{}{"class": "dial-saturated", "proto": e.p.Name, "pool": smallPool, "parked_handlers": smallPool - 2}
	core.Begin(id, desc)
	core.Add("evaluations", 1)
	core.Add("dial_saturated_cases", 1)
	core.Sample(desc)
	lis, err := net.Listen("tcp", "127.0.0.1:0")
	if err != nil {
		core.Result(core.R{ID: id, Verdict: core.Inconclusive, What: "listen: " + err.Error()})
		return
	}
	var accepted int64
	defer lis.Close()
	go func() {
		for {
			c, err := lis.Accept()
			if err != nil {
				return
			}
			atomic.AddInt64(&accepted, 1)
			go e.srv.ServeConn(c, e.p.Func)
		}
	}()
	gates.Reset()
	m := newMonitor()
	s1, st := e.cli.Dial(lis.Addr().String(), e.p.Func)
	if !st.OK() {
		core.Result(core.R{ID: id, Verdict: core.Inconclusive, What: "dial 1: " + st.String()})
		return
	}
	settle()
	setHold(true)
	outs := make([][]byte, 16)
	for i := 0; i < smallPool-2; i++ {
		m.call(s1, fmt.Sprintf("parked call %d", i), e.routes["echo"], []byte(fmt.Sprintf("p%d", i)), &outs[i], erpc.WithBodyCodec(codec.ID_PLAIN))
	}
	settle() // both read loops and the parked handlers hold every goroutine of the pool
	type dialed struct {
		s  erpc.Session
		st *erpc.Status
	}
	dch := make(chan dialed, 1)
	go func() {
		s2, st2 := e.cli.Dial(lis.Addr().String(), e.p.Func)
		dch <- dialed{s2, st2}
	}()
	// the dial is now waiting for a goroutine for its read loop (the pool's MustGo polls, so the process is not quiescent
	// meanwhile), or it has wrongly gone on without one; the wait below only places the release, it judges nothing
	bed.WaitUntil(5*time.Second, func() bool { return atomic.LoadInt64(&accepted) >= 2 })
	time.Sleep(30 * time.Millisecond)
	holdMu.Lock()
	if holdCh != nil {
		close(holdCh)
		holdCh = nil
	}
	holdMu.Unlock()
	var d dialed
	select {
	case d = <-dch:
	case <-time.After(30 * time.Second):
		core.Result(core.R{ID: id, Verdict: core.Inconclusive, What: "watchdog: the second Dial did not return"})
		return
	}
	settle()
	var closers []*closer
	if d.st.OK() && d.s != nil {
		for i := 0; i < 3; i++ {
			m.call(d.s, fmt.Sprintf("call %d on the session dialed under saturation", i), e.routes["echo"], []byte(fmt.Sprintf("d%d", i)), &outs[8+i], erpc.WithBodyCodec(codec.ID_PLAIN))
		}
		settle()
		// everything that could happen has happened: the server answered (the connection is healthy on both sides)
		m.mu.Lock()
		var early []viol
		for _, t := range m.calls {
			if strings.Contains(t.label, "dialed under saturation") && isDone(t.issued) && !isDone(t.cmd.Done()) && d.s.Health() {
				early = append(early, viol{"reply-arrived-call-incomplete", t.label + ": incomplete at quiescence although its session is healthy and the server has answered"})
			}
		}
		m.mu.Unlock()
		closers = append(closers, goClose("Close(session dialed under saturation)", func() { d.s.Close() }))
		closers = append(closers, goClose("Close(first session)", func() { s1.Close() }))
		q := settle()
		if !q.Quiescent {
			core.Result(core.R{ID: id, Verdict: core.Inconclusive, What: "watchdog: not quiescent"})
			return
		}
		vs := append(early, evaluate(m, closers, q.Dump)...)
		report(id, "dial-saturated", e.p.Name, desc, vs, true, "dial-saturated/"+e.p.Name)
		return
	}
	closers = append(closers, goClose("Close(first session)", func() { s1.Close() }))
	q := settle()
	vs := evaluate(m, closers, q.Dump)
	report(id, "dial-saturated", e.p.Name, desc, vs, q.Quiescent, "dial-saturated/"+e.p.Name)
}

// smallPool: in the last batch of a run the process-wide goroutine pool is this small
const smallPool = 6

func main() {
	flag.Parse()
	core.Prop = *prop
	wire.RegFilters()
	bed.Init("OFF")
	gates.Install()

	names := []string{"raw", "json", "pb", "http"} // http: hostile replies only in the quick tier
	delaySeeds := []int64{0}
	nHostile := 1
	nChaos := 40
	stride := 4
	if *tier == "thorough" {
		names = []string{"raw", "json", "pb", "thrift-binary", "thrift-struct", "http"}
		delaySeeds = []int64{0, 1, 2, 3, 4}
		nHostile = 12
		nChaos = 600
		stride = 1
	}
	// the last batch runs only the dial-under-saturation cases, with a small process-wide goroutine pool
	if *batch == *nbatch-1 {
		erpc.SetGopool(smallPool, 0)
		for _, name := range []string{"raw", "json", "pb"} {
			e := newEnv(protos.ByName(name))
			for k := 0; k < 4; k++ {
				runDialSaturated(e, k)
			}
		}
		core.Finish()
		return
	}
	// work items are spread over batches round-robin
	item := 0
	mine := func() bool { item++; return (item-1)%(*nbatch-1) == *batch }
	for _, name := range names {
		p := protos.ByName(name)
		e := newEnv(p)
		r := core.NewRand(*seed, int64(*batch), 2)
		// (a)
		if !p.Struct && !p.HTTP || *tier == "thorough" && !p.Struct {
			if mine() {
				runCuts(e, r, stride)
			}
		}
		// (b)
		for _, sc := range scripts() {
			for _, ds := range delaySeeds {
				if mine() {
					if p.Struct || p.HTTP {
						continue // the scripts use a []byte echo handler; thrift-struct needs struct bodies
					}
					runScript(e, sc, ds)
				}
			}
		}
		// (c)
		for k := 0; k < nHostile; k++ {
			for _, kind := range hostileKinds {
				for _, rk := range []string{"struct", "bytes", "nil", "pbgen", "panicky"} {
					if _, isPB := pbBodies[kind]; isPB != (rk == "pbgen") {
						continue // the protobuf bodies go with the generated result type only (and that type with those bodies only)
					}
					if rk == "panicky" && kind != "good" && kind != "dup-one-write" && kind != "status" {
						continue // the panicking decoder is reached by a decodable reply; a few kinds are enough
					}
					if mine() {
						if p.Struct {
							continue
						}
						runHostile(e, kind, rk, k)
					}
				}
			}
		}
		// (f) nested calls: a handler calls back over its own session and waits
		if !p.Struct && !p.HTTP {
			ne := newNestedEnv(e)
			k := 0
			for _, action := range []string{"cutEOF", "cutReset", "localClose", "remoteClose"} {
				for _, n := range []int{1, 3} {
					// the far handler that the harness holds is always released after the event and before the verdict: what a
					// disconnect or a graceful Close legitimately waits for (running handlers) has then ended
					for _, rel := range []bool{true} {
						k++
						if mine() {
							runNested(ne, action, n, rel, k)
						}
					}
				}
			}
		}
		// (d)
		for k := 0; k < nChaos; k++ {
			if mine() {
				if p.Struct || p.HTTP {
					continue
				}
				runChaos(e, k, core.NewRand(*seed, int64(k), 9))
			}
		}
	}
	core.Finish()
}
