// Worker for C01 (token traffic oracle) and, in a -race build, for C14 (data-race freedom
// of the documented concurrent API: the same traffic plus an API soup on shared sessions).
package main

import (
	"context"
	"flag"
	"fmt"
	"math"
	"net"
	"os"
	"runtime"
	"runtime/pprof"
	"sort"
	"strings"
	"sync"
	"sync/atomic"
	"time"

	erpc "github.com/henrylee2cn/erpc/v6"
	"github.com/henrylee2cn/erpc/v6/codec"
	"github.com/henrylee2cn/erpc/v6/plugin/heartbeat"
	"github.com/henrylee2cn/erpc/v6/plugin/secure"
	pbmsg "github.com/henrylee2cn/erpc/v6/proto/pbproto/pb"

	"verifharness/bed"
	"verifharness/core"
	"verifharness/gates"
	"verifharness/memconn"
	"verifharness/protos"
	"verifharness/quiesce"
	"verifharness/tok"
	"verifharness/wire"
)

var (
	prop   = flag.String("prop", "C01", "")
	tier   = flag.String("tier", "quick", "")
	seed   = flag.Int64("seed", 1, "")
	batch  = flag.Int("batch", 0, "")
	nbatch = flag.Int("nbatch", 1, "")
	replay = flag.String("replay", "", "")
	soup   = flag.Bool("soup", false, "add the API soup (C14)")
	lean   = flag.Bool("lean", false, "race-detector mode: no gates, no shared monitor locks (they add happens-before edges that hide races)")
)

// Config is one traffic configuration (= one case).
type Config struct {
	Proto string   `json:"proto"`
	Kinds []string `json:"kinds"`
	Pipe  string   `json:"pipe"`
	S     int      `json:"sessions"`
	G     int      `json:"goroutines"`
	N     int      `json:"ops_per_goroutine"`
	Chunk string   `json:"chunk"`
	Log   string   `json:"log"`
	Delay int      `json:"delay_permille"`
	Soup  bool     `json:"soup"`
	Class string   `json:"class"`
	TCP   bool     `json:"loopback_tcp"`
	Ages  bool     `json:"session_and_context_age_set"`
	Seq   string   `json:"sequence_counter_start"` // "", "wrap" (just below 2^31-1) or "zero" (just below 0)
	Sec   bool     `json:"secure_plugin"`          // both peers carry the secure plug-in (same key); token-determined messages of the kinds bytes, json, pb are marked secure or ask for a secure reply
	Beat  string   `json:"heartbeat"`              // "", "call" or "push": heartbeat ping (3 s) / pong plugins; the traffic pauses ~6.5 s halfway so that pings travel between user messages
}

func kindsFor(p protos.P) []string {
	switch {
	case p.Struct:
		return []string{"thrift"}
	case p.HTTP:
		return []string{"bytes", "json", "form", "xml", "plain", "nstr", "pb"}
	}
	return tok.Kinds
}

func pipesFor(p protos.P) []string {
	if !p.Pipe {
		return []string{""}
	}
	if *lean && !p.HTTP {
		return []string{"", "", "", "m", "z"}
	}
	if p.HTTP {
		if *lean {
			return []string{"", "", "", "z"} // gzip under the race detector is very slow
		}
		return []string{"", "z", "g"}
	}
	return []string{"", "z", "m", "mz", "gm", "mgm"}
}

func configs(tierName string, r *core.Rand) []Config {
	var out []Config
	names := []string{"raw", "json", "pb", "thrift-binary", "thrift-struct", "http", "ws-json", "ws-pb"}
	sg := [][2]int{{1, 1}, {1, 8}, {2, 8}, {4, 8}, {1, 32}, {2, 32}}
	chunks := []string{"whole", "one", "prime", "rand"}
	logs := []string{"OFF", "OFF", "DEBUG"}
	n := 60
	if *lean {
		n = 30 // the race detector costs 5-15x
	}
	ops := 60
	if tierName == "thorough" {
		n = 320
		ops = 120
	}
	for i := 0; i < n; i++ {
		p := protos.ByName(names[i%len(names)])
		ks := kindsFor(p)
		var kinds []string
		switch r.Intn(3) {
		case 0:
			kinds = ks
		case 1:
			kinds = []string{ks[r.Intn(len(ks))]}
		default:
			kinds = []string{ks[r.Intn(len(ks))], ks[r.Intn(len(ks))]}
		}
		x := sg[(i/len(names))%len(sg)]
		c := Config{Proto: p.Name, Kinds: kinds, Pipe: pipesFor(p)[r.Intn(len(pipesFor(p)))], S: x[0], G: x[1], N: ops,
			Chunk: chunks[r.Intn(len(chunks))], Log: logs[r.Intn(len(logs))], Delay: []int{0, 50, 200}[r.Intn(3)], Class: "traffic"}
		if c.G >= 32 {
			c.N = ops / 2
		}
		c.TCP = i%5 == 4
		c.Ages = i%4 == 3 // generous session / context ages: the deadline code paths run, no deadline can expire
		if *lean && i%3 == 1 {
			// race runs: the heartbeat plug-ins keep their per-session record up to date on every message, from whichever
			// goroutine uses the session (no idle window needed for that)
			c.Beat = []string{"call", "push"}[(i/3)%2]
			if !p.Push {
				c.Beat = "call"
			}
		}
		if !*lean && i%16 == 5 {
			c.Beat = []string{"call", "push"}[(i/16)%2] // one configuration in sixteen (4 in the quick tier), ~7 s each
			if !p.Push {
				c.Beat = "call"
			}
		}
		c.Sec = i%7 == 2 && dupMetaOK(p.Name)
		c.Seq = []string{"", "wrap", "zero"}[i%3] // the 32-bit sequence counter starts just below its wrap / just below zero
		if *lean {
			c.N = c.N/2 + 1
		}
		if c.Chunk == "one" {
			c.N = c.N/2 + 1 // byte-wise delivery is slow
		}
		out = append(out, c)
	}
	return out
}

type violation struct {
	symptom, kind, detail string
}

type caseState struct {
	cfg   Config
	mu    sync.Mutex
	viols []violation
	nviol int64

	callsOK, callsFailed, pushesSent, pushesOK, rawPushes, acceptAsked, bare, emptyReplies, idleTicks, beats, accessorFans int64
	failSamples                                                                                                            []string
	pushSeen                                                                                                               sync.Map
	pushRecv                                                                                                               int64
}

func (cs *caseState) report(symptom, kind, detail string) {
	atomic.AddInt64(&cs.nviol, 1)
	cs.mu.Lock()
	if len(cs.viols) < 200 {
		cs.viols = append(cs.viols, violation{symptom, kind, detail})
	}
	cs.mu.Unlock()
}

// farCtx is a context whose deadline never comes during a run.
var farCtx, _ = context.WithTimeout(context.Background(), 6*time.Hour)

// acceptFor returns the body codec the caller asks the reply to be encoded with (0: none asked).
// The struct kinds can be carried by each of the three text codecs.
func acceptFor(kind, t string) byte {
	switch kind {
	case "json", "form", "xml":
		h := fnv(t)
		if h%3 == 1 {
			return []byte{codec.ID_JSON, codec.ID_FORM, codec.ID_XML}[(h/3)%3]
		}
	}
	return 0
}

func fnv(s string) uint64 {
	h := uint64(14695981039346656037)
	for i := 0; i < len(s); i++ {
		h ^= uint64(s[i])
		h *= 1099511628211
	}
	return h
}

// dupMetaOK: transports that carry metadata as a list of pairs (http headers and thrift header maps are single-valued).
func dupMetaOK(proto string) bool {
	switch proto {
	case "raw", "json", "pb", "ws-json", "ws-pb":
		return true
	}
	return false
}

// secureMark: 0 = unmarked, 1 = marked secure (body encrypted, reply encrypted), 2 = asks for an encrypted reply.
func secureMark(cfg Config, kind, t string) int {
	if !cfg.Sec || tok.Bare(t) {
		return 0
	}
	switch kind {
	case "bytes", "json", "pb":
		return int(fnv("sec:"+t) % 3)
	}
	return 0
}

func settings(cfg Config, kind, t string) []erpc.MessageSetting {
	if tok.Bare(t) {
		// no metadata at all; half of them also without the configuration's filter pipe
		s := []erpc.MessageSetting{erpc.WithBodyCodec(tok.CodecID(kind))}
		if cfg.Pipe != "" && fnv(t)%2 == 0 {
			s = append(s, erpc.WithXferPipe([]byte(cfg.Pipe)...))
		}
		return s
	}
	s := []erpc.MessageSetting{erpc.WithBodyCodec(tok.CodecID(kind)), erpc.WithSetMeta("Tok", t), erpc.WithSetMeta("M1", tok.MetaVal(t, 1))}
	if dupMetaOK(cfg.Proto) && tok.DupMeta(t) {
		s = append(s, erpc.WithSetMeta("Dn", "2"), erpc.WithAddMeta("Dup", tok.MetaVal(t, 3)), erpc.WithAddMeta("Dup", tok.MetaVal(t, 4)), erpc.WithSetMeta("Esc", tok.EscVal(t)))
	}
	if m := secureMark(cfg, kind, t); m != 0 {
		if kind == "bytes" {
			// a byte body is taken as it is; the envelope of the secure plug-in needs a structured codec
			s[0] = erpc.WithBodyCodec(codec.ID_JSON)
		}
		if m == 1 {
			s = append(s, secure.WithSecureMeta())
		} else {
			s = append(s, secure.WithAcceptSecureMeta(true))
		}
	} else if a := acceptFor(kind, t); a != 0 {
		s = append(s, erpc.WithAcceptBodyCodec(a))
	}
	if fnv(t)%5 == 2 {
		s = append(s, erpc.WithContext(farCtx))
	}
	// some messages end their metadata with a pair whose value is empty (token-determined), others carry a value there
	if v := tok.TailMeta(t); v != "-" {
		s = append(s, erpc.WithSetMeta("Ztail", v))
	}
	if cfg.Pipe != "" {
		s = append(s, erpc.WithXferPipe([]byte(cfg.Pipe)...))
	}
	return s
}

// checkReply is the caller-side oracle for one completed call.
func (cs *caseState) checkReply(kind, t string, cmd erpc.CallCmd, arg interface{}) {
	if !tok.CanaryOK(arg) {
		cs.report("sender-buffer-overwritten", kind, fmt.Sprintf("token %q: bytes beyond the body slice passed to the call were modified", t))
	}
	if cs.cfg.Soup {
		// the accessors of a completed call are read from several goroutines at once (a caller handing the command to
		// loggers / collectors), whether the call got a reply or failed without one
		var awg sync.WaitGroup
		for k := 0; k < 3; k++ {
			awg.Add(1)
			go func() {
				defer awg.Done()
				<-cmd.Done()
				_, _ = cmd.Reply()
				_ = cmd.InputMeta()
				_ = cmd.InputBodyCodec()
				_ = cmd.CostTime()
				_ = cmd.StatusOK()
				_ = cmd.Status()
				_ = cmd.Output()
				_ = cmd.Context()
			}()
		}
		awg.Wait()
		atomic.AddInt64(&cs.accessorFans, 1)
	}
	res, stat := cmd.Reply()
	// the documented accessors of a completed call (each waits for Done)
	_ = cmd.CostTime()
	_ = cmd.InputBodyCodec()
	if !stat.OK() {
		atomic.AddInt64(&cs.callsFailed, 1)
		cs.mu.Lock()
		if len(cs.failSamples) < 5 {
			cs.failSamples = append(cs.failSamples, fmt.Sprintf("%s %s: %s", kind, t, stat.String()))
		}
		cs.mu.Unlock()
		return
	}
	atomic.AddInt64(&cs.callsOK, 1)
	if tok.EmptyReply(kind, t) {
		// the handler answered with the empty value of the kind: that is what the caller has, whatever its receiver held before
		atomic.AddInt64(&cs.emptyReplies, 1)
		if !tok.IsEmpty(res) {
			rt, _, _ := tok.Decode(res)
			cs.report("caller-result-stale", kind, fmt.Sprintf("token %q: its handler returned the empty value, the caller's (reused) result still holds the result of token %q", t, rt))
			return
		}
		if im := cmd.InputMeta(); im == nil || string(im.Peek("Rtok")) != t {
			cs.report("caller-meta-foreign", kind, fmt.Sprintf("token %q: reply metadata of an empty reply does not name the token", t))
		}
		return
	}
	rt, rp, ok := tok.Decode(res)
	if !ok || rt != t {
		cs.report("caller-result-foreign", kind, fmt.Sprintf("call with token %q completed OK with the result of token %q", t, rt))
		return
	}
	if want := tok.ReplyPayload(t); rp != want {
		cs.report("caller-result-corrupt", kind, fmt.Sprintf("token %q: result payload (len %d) %.60q differs from what its handler produced (len %d) %.60q", t, len(rp), rp, len(want), want))
		return
	}
	if tok.Bare(t) {
		atomic.AddInt64(&cs.bare, 1)
		if im := cmd.InputMeta(); im != nil {
			for _, k := range []string{"Rtok", "R1", "Ztail", "Tok", "M1"} {
				if v := im.Peek(k); len(v) > 0 {
					cs.report("caller-meta-foreign", kind, fmt.Sprintf("token %q: its reply was written without metadata, the caller sees %s=%q", t, k, v))
					return
				}
			}
		}
		return
	}
	if a := acceptFor(kind, t); a != 0 && secureMark(cs.cfg, kind, t) == 0 {
		atomic.AddInt64(&cs.acceptAsked, 1)
		if got := cmd.InputBodyCodec(); got != a {
			cs.report("reply-codec-not-the-accepted-one", kind, fmt.Sprintf("token %q: the call asked for a reply in body codec %d, the OK reply came in codec %d", t, a, got))
			return
		}
	}
	im := cmd.InputMeta()
	if im == nil {
		cs.report("caller-meta-missing", kind, fmt.Sprintf("token %q: OK call without reply metadata", t))
		return
	}
	if got := string(im.Peek("Rtok")); got != t {
		cs.report("caller-meta-foreign", kind, fmt.Sprintf("token %q: reply metadata Rtok=%q", t, got))
		return
	}
	if got := string(im.Peek("R1")); got != tok.MetaVal(t, 2) {
		cs.report("caller-meta-foreign", kind, fmt.Sprintf("token %q: reply metadata R1=%q want %q", t, got, tok.MetaVal(t, 2)))
		return
	}
	if dupMetaOK(cs.cfg.Proto) && tok.DupMeta(t) {
		if got := string(im.Peek("Resc")); got != tok.EscVal("R:"+t) {
			cs.report("caller-meta-foreign", kind, fmt.Sprintf("token %q: reply metadata Resc=%q, the handler set %q", t, got, tok.EscVal("R:"+t)))
			return
		}
	}
	if want := tok.TailMeta("R:" + t); want != "-" {
		if got := string(im.Peek("Ztail")); got != want {
			cs.report("caller-meta-foreign", kind, fmt.Sprintf("token %q: last reply metadata pair Ztail=%q, the handler set %q", t, got, want))
		}
	}
}

// beatCounter counts the heartbeat pings a peer receives.
type beatCounter struct{ cs *caseState }

func (b *beatCounter) Name() string { return "harness-beat-counter" }
func (b *beatCounter) PostReadCallHeader(ctx erpc.ReadCtx) *erpc.Status {
	if ctx.ServiceMethod() == "/heartbeat" {
		atomic.AddInt64(&b.cs.beats, 1)
	}
	return nil
}
func (b *beatCounter) PostReadPushHeader(ctx erpc.ReadCtx) *erpc.Status {
	if ctx.ServiceMethod() == "/heartbeat" {
		atomic.AddInt64(&b.cs.beats, 1)
	}
	return nil
}

func kindOfRoute(route string) string {
	i := strings.LastIndexAny(route, "/_")
	return route[i+1:]
}

func runCase(id string, cfg Config, r *core.Rand) {
	p := protos.ByName(cfg.Proto)
	cs := &caseState{cfg: cfg}
	mon := &tok.Monitor{Report: cs.report}
	yr := uint64(r.Uint64() | 1)
	var ymu sync.Mutex
	mon.Yield = func(kind, t string) {
		ymu.Lock()
		yr ^= yr << 13
		yr ^= yr >> 7
		yr ^= yr << 17
		v := yr % 16
		ymu.Unlock()
		switch {
		case v < 8:
			runtime.Gosched()
		case v < 12:
			for i := 0; i < 4; i++ {
				runtime.Gosched()
			}
		case v < 14:
			time.Sleep(20 * time.Microsecond)
		default:
			time.Sleep(200 * time.Microsecond)
		}
	}
	mon.OnPush = func(kind, t string) {
		if _, dup := cs.pushSeen.LoadOrStore(t, true); !dup {
			atomic.AddInt64(&cs.pushRecv, 1)
		}
	}
	tok.Mon.Store(mon)
	gates.Reset()
	if cfg.Delay > 0 {
		gates.SetDelay(int64(r.Uint64()>>1), cfg.Delay)
	}
	hits0 := gates.Total()

	pacfg := erpc.PeerConfig{PrintDetail: cfg.Log != "OFF", CountTime: cfg.Log != "OFF"}
	if cfg.TCP && cfg.Soup && p.Stream {
		// race-detector runs over TCP use a redial-enabled client: the soup closes the server side of one
		// connection mid-traffic, so redial runs concurrently with calls, pushes and the API soup
		pacfg.RedialTimes, pacfg.RedialInterval = 3, time.Millisecond
	}
	if cfg.Ages {
		pacfg.DefaultSessionAge, pacfg.DefaultContextAge = 10*time.Minute, 10*time.Minute
	}
	var acceptor *tcpAcceptor
	defer func() {
		if acceptor != nil {
			acceptor.lis.Close()
		}
	}()
	var paPlugins, pbPlugins []erpc.Plugin
	if cfg.Beat != "" {
		paPlugins = append(paPlugins, heartbeat.NewPing(3, cfg.Beat == "call"))
		pbPlugins = append(pbPlugins, heartbeat.NewPong(), &beatCounter{cs: cs})
	}
	if cfg.Sec {
		paPlugins = append(paPlugins, secure.NewPlugin(1001, "c01-cipherkey-16"))
		pbPlugins = append(pbPlugins, secure.NewPlugin(1001, "c01-cipherkey-16"))
	}
	pa := erpc.NewPeer(pacfg, paPlugins...)
	pbcfg := erpc.PeerConfig{PrintDetail: cfg.Log != "OFF", CountTime: cfg.Log != "OFF"}
	if cfg.Ages {
		pbcfg.DefaultSessionAge, pbcfg.DefaultContextAge = 10*time.Minute, 10*time.Minute
	}
	pb := erpc.NewPeer(pbcfg, pbPlugins...)
	tok.Register(pa)
	tok.Register(pb)
	var links []*bed.Link
	for i := 0; i < cfg.S; i++ {
		cseed := int64(r.Uint64() >> 1)
		connect := func(a, b erpc.Peer, pfa, pfb erpc.ProtoFunc, prep func(ca, cb *memconn.Conn)) (*bed.Link, error) {
			if cfg.TCP && p.Stream {
				// real sockets: Peer.Dial on one side, an accept loop handing connections to ServeConn on the other
				if acceptor == nil {
					var err error
					if acceptor, err = newTCPAcceptor(b, pfa); err != nil {
						return nil, err
					}
				}
				return connectTCP(acceptor, a, pfa)
			}
			if !p.Stream {
				// websocket sub-protocols: real websocket handshake and framing over the in-memory connection
				return bed.ConnectWS(a, b, pfa, prep)
			}
			return bed.Connect(a, b, pfa, pfb, prep)
		}
		l, err := connect(pa, pb, p.Func, p.Func, func(ca, cb *memconn.Conn) {
			switch cfg.Chunk {
			case "one":
				ca.SetReadChunk(memconn.ChunkOne)
				cb.SetReadChunk(memconn.ChunkOne)
			case "prime":
				ca.SetReadChunk(memconn.ChunkFixed(7))
				cb.SetReadChunk(memconn.ChunkFixed(13))
			case "rand":
				ca.SetReadChunk(memconn.ChunkRand(cseed, 300))
				cb.SetReadChunk(memconn.ChunkRand(cseed+1, 300))
			}
		})
		if err != nil {
			core.Result(core.R{ID: id, Verdict: core.Inconclusive, What: "connect: " + err.Error()})
			return
		}
		// the state after ~2^31 (or ~2^32) messages on this session: the traffic crosses the wrap of the 32-bit sequence counter
		switch cfg.Seq {
		case "wrap":
			erpc.VerifSetSeq(l.A, math.MaxInt32-int32(20+i*7))
			erpc.VerifSetSeq(l.B, math.MaxInt32-int32(33+i*5))
		case "zero":
			erpc.VerifSetSeq(l.A, -int32(20+i*7))
			erpc.VerifSetSeq(l.B, -int32(33+i*5))
		}
		links = append(links, l)
	}
	nonce := fmt.Sprintf("n%x", r.Uint64()&0xffffff)
	var wg sync.WaitGroup
	worker := func(sess erpc.Session, side string, si, gi int, gr *core.Rand) {
		defer wg.Done()
		ctr := 0
		// a long-lived receiver for []byte results, reused from call to call (it keeps the previous, possibly longer, result)
		reused := new([]byte)
		reusedS, reusedPB := new(string), new(pbmsg.Payload)
		newResult := func(kind string) interface{} {
			if gr.Intn(2) == 0 {
				switch kind {
				case "bytes":
					return reused
				case "plain":
					return reusedS
				case "pb":
					return reusedPB
				}
			}
			return tok.NewResult(kind)
		}
		next := func() (string, string) {
			ctr++
			return cfg.Kinds[gr.Intn(len(cfg.Kinds))], fmt.Sprintf("%s.%s%d.%d.%d", nonce, side, si, gi, ctr)
		}
		for op := 0; op < cfg.N; op++ {
			if cfg.Beat != "" && op == cfg.N/2 && !*lean {
				// every traffic goroutine pauses here: the sessions fall idle and the heartbeat pings travel
				// (the ping loop wakes every 3 s and pings sessions idle for 3 s: an idle window of 6 s always sees one;
				// the goroutines resume at different times, so user messages and pings also overlap)
				for i, n := 0, 58+gr.Intn(12); i < n; i++ {
					time.Sleep(100 * time.Millisecond)
					atomic.AddInt64(&cs.idleTicks, 1)
				}
			}
			switch x := gr.Intn(10); {
			case x < 5: // Call
				kind, t := next()
				arg := tok.Build(kind, t, tok.Payload(t))
				cmd := sess.Call(tok.CallRoute(kind, gr.Intn(2) == 0), arg, newResult(kind), settings(cfg, kind, t)...)
				cs.checkReply(kind, t, cmd, arg)
			case x < 8: // a burst of AsyncCalls on one shared completion channel
				k := 1 + gr.Intn(6)
				ch := make(chan erpc.CallCmd, k)
				type pend struct {
					kind, t string
					arg     interface{}
				}
				pends := map[erpc.CallCmd]pend{}
				for j := 0; j < k; j++ {
					kind, t := next()
					arg := tok.Build(kind, t, tok.Payload(t))
					cmd := sess.AsyncCall(tok.CallRoute(kind, gr.Intn(2) == 0), arg, tok.NewResult(kind), ch, settings(cfg, kind, t)...)
					pends[cmd] = pend{kind, t, arg}
				}
				for j := 0; j < k; j++ {
					cmd := <-ch
					pd, ok := pends[cmd]
					if !ok {
						cs.report("completion-foreign", "-", "a CallCmd not issued on this completion channel was delivered to it (or one was delivered twice)")
						continue
					}
					delete(pends, cmd)
					cs.checkReply(pd.kind, pd.t, cmd, pd.arg)
				}
				op += k - 1
			default: // Push
				if !p.Push {
					continue
				}
				kind, t := next()
				arg := tok.Build(kind, t, tok.Payload(t))
				var st *erpc.Status
				if ps, ok := sess.(erpc.PreSession); ok && gr.Intn(3) == 0 && secureMark(cfg, kind, t) == 0 {
					// the plugin-less push of an early-session handle kept by a plugin; it shares the session's write path
					st = ps.RawPush(tok.PushRoute(kind), arg, settings(cfg, kind, t)...)
					atomic.AddInt64(&cs.rawPushes, 1)
				} else {
					st = sess.Push(tok.PushRoute(kind), arg, settings(cfg, kind, t)...)
				}
				atomic.AddInt64(&cs.pushesSent, 1)
				if st.OK() {
					atomic.AddInt64(&cs.pushesOK, 1)
				}
				if !tok.CanaryOK(arg) {
					cs.report("sender-buffer-overwritten", kind, fmt.Sprintf("token %q: bytes beyond the body slice passed to Push were modified", t))
				}
			}
		}
	}
	var soupStop int32
	var soupWg sync.WaitGroup
	for si, l := range links {
		for gi := 0; gi < cfg.G; gi++ {
			wg.Add(2)
			go worker(l.A, "a", si, gi, core.NewRand(int64(r.Uint64()>>1)))
			go worker(l.B, "b", si, gi, core.NewRand(int64(r.Uint64()>>1)))
		}
		if cfg.Soup {
			for k := 0; k < 4; k++ {
				soupWg.Add(1)
				go apiSoup(&soupWg, &soupStop, pa, pb, l, core.NewRand(int64(r.Uint64()>>1)), si*4+k)
			}
			// on some extra sessions the connection is closed / cut while traffic and the soup run
			// (race detector over the close and disconnect paths); their calls may fail, which is not judged here
			if si == 0 && (cfg.S >= 2 && r.Intn(2) == 0 || cfg.TCP && p.Stream) {
				soupWg.Add(1)
				mode := r.Intn(3)
				go func(l *bed.Link) {
					defer soupWg.Done()
					for i := 0; i < 200 && atomic.LoadInt64(&cs.callsOK) < 20; i++ {
						time.Sleep(time.Millisecond)
					}
					if cfg.TCP && p.Stream {
						mode = 1 // close the server side: the redial-enabled client reconnects
					}
					switch mode {
					case 0:
						l.A.Close()
					case 1:
						l.B.Close()
					default:
						l.CA.Sever(false)
					}
				}(l)
			}
		}
	}
	stalled := waitOrStall(&wg, func() int64 {
		return atomic.LoadInt64(&cs.callsOK) + atomic.LoadInt64(&cs.callsFailed) + atomic.LoadInt64(&cs.pushesSent) + atomic.LoadInt64(&mon.Handled) + atomic.LoadInt64(&mon.Pushed) + atomic.LoadInt64(&cs.idleTicks)
	}, links)
	atomic.StoreInt32(&soupStop, 1)
	soupWg.Wait()
	// pushes are one-way: give the receivers a bounded chance to drain (not a verdict)
	bed.WaitUntil(5*time.Second, func() bool { return atomic.LoadInt64(&cs.pushRecv) >= atomic.LoadInt64(&cs.pushesOK) })
	if cfg.Soup {
		var cwg sync.WaitGroup
		cwg.Add(2)
		go func() { defer cwg.Done(); pa.Close() }()
		go func() { defer cwg.Done(); pb.Close() }()
		cwg.Wait()
	} else {
		pa.Close()
		pb.Close()
	}
	gates.Reset()

	hits := gates.Total() - hits0
	core.Add("calls_ok", atomic.LoadInt64(&cs.callsOK))
	core.Add("calls_failed", atomic.LoadInt64(&cs.callsFailed))
	core.Add("pushes_sent", atomic.LoadInt64(&cs.pushesSent))
	core.Add("raw_pushes_sent", atomic.LoadInt64(&cs.rawPushes))
	core.Add("replies_in_an_accepted_codec_checked", atomic.LoadInt64(&cs.acceptAsked))
	core.Add("ok_calls_without_any_metadata", atomic.LoadInt64(&cs.bare))
	core.Add("ok_calls_answered_with_the_empty_value", atomic.LoadInt64(&cs.emptyReplies))
	core.Add("heartbeat_pings_received_between_user_messages", atomic.LoadInt64(&cs.beats))
	core.Add("completed_calls_whose_accessors_were_read_by_3_goroutines", atomic.LoadInt64(&cs.accessorFans))
	core.Add("pushes_received", atomic.LoadInt64(&cs.pushRecv))
	core.Add("handler_invocations", atomic.LoadInt64(&mon.Handled))
	core.Add("ctx_recycles_observed", atomic.LoadInt64(&mon.Recycles))
	core.Add("gate_hits", hits)
	core.Add("evaluations", atomic.LoadInt64(&cs.callsOK)+atomic.LoadInt64(&cs.callsFailed)+atomic.LoadInt64(&cs.pushesSent))
	core.Max("max_handlers_in_flight", atomic.LoadInt64(&mon.MaxFlight))
	sig := fmt.Sprintf("%s/%s/pipe=%s/S%dG%d/%s/log=%s/delay=%d/tcp=%v", cfg.Proto, strings.Join(cfg.Kinds, "+"), cfg.Pipe, cfg.S, cfg.G, cfg.Chunk, cfg.Log, cfg.Delay, cfg.TCP && p.Stream) + fmt.Sprintf("/ages=%v/seq=%s/beat=%s/secure=%v", cfg.Ages, cfg.Seq, cfg.Beat, cfg.Sec)
	nontrivial := atomic.LoadInt64(&mon.MaxFlight) >= 2 && (atomic.LoadInt64(&mon.Recycles) >= 1 || *lean) && atomic.LoadInt64(&cs.callsOK) > 0
	if cfg.S == 1 && cfg.G == 1 {
		nontrivial = atomic.LoadInt64(&cs.callsOK) > 0 && (atomic.LoadInt64(&mon.Recycles) >= 1 || *lean)
	}
	if nontrivial {
		core.Distinct("nontrivial", sig)
	}
	for _, k := range cfg.Kinds {
		core.Distinct("proto_kind_pipe", cfg.Proto+"/"+k+"/"+cfg.Pipe)
	}
	core.Sample(map[string]interface{}{"config": cfg, "calls_ok": atomic.LoadInt64(&cs.callsOK), "calls_failed": atomic.LoadInt64(&cs.callsFailed), "pushes": atomic.LoadInt64(&cs.pushesSent),
		"max_in_flight": atomic.LoadInt64(&mon.MaxFlight), "ctx_recycles": atomic.LoadInt64(&mon.Recycles), "gate_hits": hits})

	if len(cs.failSamples) > 0 {
		core.Add("cases_with_failed_calls", 1)
		fmt.Fprintf(os.Stderr, "case %s: %d calls failed, e.g. %v\n", id, cs.callsFailed, cs.failSamples)
	}
	if stalled != "" && len(cs.viols) == 0 {
		// a stuck call is C02's business, not C01's: this case observed too little to be judged here
		core.Add("cases_stalled", 1)
		core.Result(core.R{ID: id, Verdict: core.Inconclusive, What: "traffic stalled (calls incomplete at quiescence): " + stalled, Sig: sig})
		return
	}
	if len(cs.viols) == 0 {
		v := core.Held
		what := ""
		if cs.callsOK == 0 {
			v = core.Inconclusive
			what = fmt.Sprintf("no call completed OK (failed %d: %v)", cs.callsFailed, cs.failSamples)
		}
		core.Result(core.R{ID: id, Verdict: v, What: what, Sig: sig, Nontrivial: nontrivial})
		return
	}
	// one result per distinct (kind, symptom)
	groups := map[string][]violation{}
	for _, v := range cs.viols {
		groups[v.kind+"/"+v.symptom] = append(groups[v.kind+"/"+v.symptom], v)
	}
	keys := make([]string, 0, len(groups))
	for k := range groups {
		keys = append(keys, k)
	}
	sort.Strings(keys)
	for i, k := range keys {
		vs := groups[k]
		var details []string
		for j, v := range vs {
			if j >= 5 {
				break
			}
			details = append(details, v.detail)
		}
		rid := id
		if i > 0 {
			rid = fmt.Sprintf("%s#%d", id, i)
			core.Begin(rid, cfg)
		}
		core.Result(core.R{ID: rid, Verdict: core.Violated, FP: fmt.Sprintf("%s/traffic/%s/%s", *prop, cfg.Proto, k),
			What:    fmt.Sprintf("%s %s: %s (%d observations in this case)", cfg.Proto, k, vs[0].detail, len(vs)),
			Witness: map[string]interface{}{"observations": details, "total_in_case": cs.nviol}, Desc: cfg, Sig: sig})
	}
}

// tcpAcceptor is a loopback listener whose accept loop hands every connection to ServeConn of peer b;
// it stays up for the whole case so that a redial-enabled client can reconnect.
type tcpAcceptor struct {
	lis net.Listener
	ch  chan erpc.Session
}

func newTCPAcceptor(b erpc.Peer, pf erpc.ProtoFunc) (*tcpAcceptor, error) {
	lis, err := net.Listen("tcp", "127.0.0.1:0")
	if err != nil {
		return nil, err
	}
	t := &tcpAcceptor{lis: lis, ch: make(chan erpc.Session, 64)}
	go func() {
		for {
			c, err := lis.Accept()
			if err != nil {
				return
			}
			go func() {
				if s, st := b.ServeConn(c, pf); st.OK() {
					select {
					case t.ch <- s:
					default:
					}
				}
			}()
		}
	}()
	return t, nil
}

// connectTCP joins the peers over loopback TCP: a dials, b serves the accepted connection.
func connectTCP(t *tcpAcceptor, a erpc.Peer, pf erpc.ProtoFunc) (*bed.Link, error) {
	sa, st := a.Dial(t.lis.Addr().String(), pf)
	if !st.OK() {
		return nil, fmt.Errorf("dial: %v", st)
	}
	var sb erpc.Session
	select {
	case sb = <-t.ch:
	case <-time.After(10 * time.Second):
		return nil, fmt.Errorf("server side session did not appear")
	}
	ca, cb := memconn.NewPair() // placeholders so that Link users can call Sever/Close on them harmlessly
	return &bed.Link{A: sa, B: sb, CA: ca, CB: cb}, nil
}

// waitOrStall waits for the traffic goroutines; if nothing progresses any more and the process is
// quiescent, the connections are severed so that stuck calls are cancelled, and a description is returned.
func waitOrStall(wg *sync.WaitGroup, progress func() int64, links []*bed.Link) string {
	done := make(chan struct{})
	go func() { wg.Wait(); close(done) }()
	last, lastChange := progress(), time.Now()
	for {
		select {
		case <-done:
			return ""
		case <-time.After(100 * time.Millisecond):
		}
		if p := progress(); p != last {
			last, lastChange = p, time.Now()
			continue
		}
		if time.Since(lastChange) < 3*time.Second {
			continue
		}
		q := quiesce.Wait(quiesce.Options{Timeout: 5 * time.Second, Self: "main.waitOrStall"})
		if !q.Quiescent {
			lastChange = time.Now()
			continue
		}
		blocked := quiesce.Brief(quiesce.Blocked(q.Dump, "github.com/henrylee2cn/erpc/v6.(*session)"))
		if len(blocked) > 6 {
			blocked = blocked[:6]
		}
		for _, l := range links {
			l.CA.Sever(false)
		}
		select {
		case <-done:
		case <-time.After(20 * time.Second):
			fmt.Fprintln(os.Stderr, "traffic goroutines did not finish after severing the connections")
			core.Finish()
			os.Exit(0)
		}
		return strings.Join(blocked, " ;; ")
	}
}

// apiSoup hammers the documented concurrent-safe API of shared sessions and peers (C14).
func apiSoup(wg *sync.WaitGroup, stop *int32, pa, pb erpc.Peer, l *bed.Link, r *core.Rand, n int) {
	defer wg.Done()
	ids := []string{fmt.Sprintf("id-%d-a", n), fmt.Sprintf("id-%d-b", n)}
	for i := 0; atomic.LoadInt32(stop) == 0 && i < 4000; i++ {
		sess, peer := l.A, pa
		if r.Intn(2) == 0 {
			sess, peer = l.B, pb
		}
		switch r.Intn(12) {
		case 0:
			sess.SetID(ids[r.Intn(2)])
		case 1:
			sess.Swap().Store("k"+fmt.Sprint(r.Intn(4)), i)
		case 2:
			sess.Swap().Load("k" + fmt.Sprint(r.Intn(4)))
		case 3:
			sess.Swap().Range(func(k, v interface{}) bool { return true })
		case 4:
			_ = sess.SessionAge()
			_ = sess.ContextAge()
		case 5:
			if ps, ok := sess.(erpc.PreSession); ok {
				ps.SetContextAge(0)
			}
		case 6:
			peer.GetSession(sess.ID())
		case 7:
			peer.RangeSession(func(s erpc.Session) bool { _ = s.ID(); _ = s.Health(); return true })
		case 8:
			_ = peer.CountSession()
		case 9:
			_ = sess.Health()
			_ = sess.ID()
			_ = sess.RemoteAddr()
		case 10:
			select {
			case <-sess.CloseNotify():
			default:
			}
		case 11:
			if ps, ok := sess.(erpc.PreSession); ok {
				ps.SetSessionAge(0)
			}
		}
		if i%16 == 0 {
			runtime.Gosched()
		}
	}
}

type discard struct{}

func (discard) Output(calldepth int, msgBytes []byte, loggerLevel erpc.LoggerLevel) {}
func (discard) Flush() error                                                        { return nil }

var cpuprofile = flag.String("cpuprofile", "", "")

func main() {
	flag.Parse()
	if *cpuprofile != "" {
		f, _ := os.Create(*cpuprofile)
		pprof.StartCPUProfile(f)
		defer pprof.StopCPUProfile()
	}
	core.Prop = *prop
	wire.RegFilters()
	bed.Init("OFF")
	if !*lean {
		gates.Install()
	}
	tok.Lean = *lean
	tok.BareEnabled = true
	erpc.SetLoggerOutputter(discard{})
	// the logger level is a plain process global: it is set once per worker process, never while traffic runs
	logLevel := []string{"OFF", "OFF", "DEBUG"}[*batch%3]
	erpc.SetLoggerLevel(logLevel)
	tok.MaxLen = 70000
	if *lean {
		// the race detector instruments every range access: big buffers and flate window resets dominate otherwise
		tok.MaxLen = 2048
	}

	cfgs := configs(*tier, core.NewRand(*seed, 7))
	for i, c := range cfgs {
		if i%*nbatch != *batch {
			continue
		}
		c.Soup = *soup
		c.Log = logLevel
		id := fmt.Sprintf("cfg%03d", i)
		core.Begin(id, c)
		runCase(id, c, core.NewRand(*seed, int64(i), 11))
	}
	core.Finish()
}
