// Worker for C20: recycled messages, contexts, metadata and sockets behave like fresh ones.
//
// Object part (objects.go): differential testing of pooled objects against fresh ones.
// Handler-context part (this file): real peers over memconn; "dirtying" handlers and plug-ins use
// every setter of the handler context, then the next requests - on the same session and on another
// session of the same peer - are inspected at the earliest hook (PostReadCallHeader /
// PostReadPushHeader), in the handler, on the wire (the server's reply frame is tapped and parsed)
// and at the caller, and compared with the same request made before any dirtying.
package main

import (
	"bytes"
	"context"
	"encoding/json"
	"flag"
	"fmt"
	"io"
	"os"
	"reflect"
	"runtime"
	"runtime/pprof"
	"sort"
	"strconv"
	"strings"
	"sync"
	"sync/atomic"
	"time"

	erpc "github.com/henrylee2cn/erpc/v6"
	"github.com/henrylee2cn/erpc/v6/codec"
	"github.com/henrylee2cn/erpc/v6/socket"

	"verifharness/bed"
	"verifharness/core"
	"verifharness/memconn"
	"verifharness/protos"
	"verifharness/wire"
)

var (
	prop       = flag.String("prop", "C20", "")
	tier       = flag.String("tier", "quick", "")
	seed       = flag.Int64("seed", 1, "")
	batch      = flag.Int("batch", 0, "")
	nbatch     = flag.Int("nbatch", 1, "")
	replay     = flag.String("replay", "", "")
	cpuprofile = flag.String("cpuprofile", "", "")
)

var timeZero time.Time

// ---------- items ----------

type Item struct {
	Idx   int    `json:"idx"`
	Part  string `json:"part"` // object | ctx
	Class string `json:"class"`
	// object
	Type  string `json:"type,omitempty"`
	Chunk int    `json:"chunk,omitempty"`
	Pairs int    `json:"pairs,omitempty"`
	// ctx
	Proto     string   `json:"proto,omitempty"`
	Ops       []string `json:"ops,omitempty"`
	ProbePipe string   `json:"probe_pipe,omitempty"`
	ProbeMeta int      `json:"probe_meta,omitempty"`
	Via       string   `json:"via,omitempty"`
	CtxAge    bool     `json:"ctx_age,omitempty"` // the server peer gives every CALL / PUSH context a deadline
}

var ctxOps = []string{"addmeta", "setmeta", "codec", "pipe", "swap", "method", "status", "panic", "ctxval", "inmeta", "outfields", "sessswap", "bigbody",
	"plugin", "plugin-veto", "push", "pushout"}

var ctxProtos = []string{"raw", "json", "pb", "thrift-binary", "http"}

var objOrder = []string{"message", "args", "bytebuffer", "xferpipe", "socket"}

func buildItems(tierName string, seed int64) []Item {
	thorough := tierName == "thorough"
	var items []Item
	add := func(it Item) {
		it.Idx = len(items)
		items = append(items, it)
	}
	chunks, pairs := 20, 100
	if thorough {
		chunks, pairs = 400, 500
	}
	for c := 0; c < chunks; c++ {
		for _, t := range objOrder {
			add(Item{Part: "object", Class: "object." + t, Type: t, Chunk: c, Pairs: pairs})
		}
	}
	r := core.NewRand(seed, 2001)
	combos := 6
	if thorough {
		combos = 80
	}
	for pi, pn := range ctxProtos {
		p := protos.ByName(pn)
		var sets [][]string
		for _, o := range ctxOps {
			sets = append(sets, []string{o})
		}
		var soft []string
		for _, o := range ctxOps {
			if o != "panic" && o != "status" && o != "plugin-veto" {
				soft = append(soft, o)
			}
		}
		sets = append(sets, soft, append([]string(nil), ctxOps...))
		for k := 0; k < combos; k++ {
			n := 2 + r.Intn(4)
			seen := map[string]bool{}
			var s []string
			for len(s) < n {
				o := ctxOps[r.Intn(len(ctxOps))]
				if !seen[o] {
					seen[o] = true
					s = append(s, o)
				}
			}
			sort.Strings(s)
			sets = append(sets, s)
		}
		for si, s := range sets {
			var ops []string
			for _, o := range s {
				if (o == "push" || o == "pushout") && !p.Push {
					continue
				}
				ops = append(ops, o)
			}
			if len(ops) == 0 {
				continue
			}
			reps := 1
			if pn == "raw" || thorough {
				reps = 2
			}
			for k := 0; k < reps; k++ {
				pipes := []string{"", "z", "m", "mz"}
				if p.HTTP {
					pipes = []string{"", "z"}
				}
				it := Item{Part: "ctx", Class: "ctx", Proto: pn, Ops: ops, ProbePipe: pipes[(si+k+pi)%len(pipes)], ProbeMeta: 2 * ((si + k) % 2), Via: []string{"func", "ctl"}[(si/2+k)%2], CtxAge: (si+k+pi)%3 == 0}
				add(it)
			}
		}
	}
	histItems(add, thorough)
	return items
}

// ---------- observation registry shared by handlers, plug-in and driver ----------

type leak struct {
	What, Symptom, Detail string
}

type expect struct {
	kind      string // call | push
	route     string
	meta      []wire.KV
	pipe      []byte
	codec     byte
	body      []byte
	sessID    string
	sessDirty bool // the session-level swap entry is legitimately visible
	http      bool
}

// noDeadline: at the header hook nothing has given this request a deadline yet (no session age is configured)
func deadlineLeak(rec *probeRec, ctx erpc.ReadCtx) {
	if d, ok := ctx.Context().Deadline(); ok {
		rec.leaks = append(rec.leaks, leak{"context-deadline", "seen-at-header-hook", fmt.Sprintf("Context() already carries a deadline (%v from now) before the request was dispatched", time.Until(d).Round(time.Minute))})
	}
}

type probeRec struct {
	exp       expect
	hook      bool
	handler   bool
	ctxPtr    uintptr
	leaks     []leak
	inputSize uint32
	scratch   string
	hookMeta  string
}

var (
	regMu     sync.Mutex
	probes    = map[string]*probeRec{}
	dirtied   = map[uintptr]bool{} // handler contexts that went through a dirtying request (process-wide)
	ctxSeen   = map[uintptr]int{}
	clientGot int64
	dirtyRuns int64
)

func ptrOf(v interface{}) uintptr {
	rv := reflect.ValueOf(v)
	if rv.Kind() == reflect.Ptr {
		return rv.Pointer()
	}
	return 0
}

func noteCtx(p uintptr) {
	regMu.Lock()
	ctxSeen[p]++
	regMu.Unlock()
}

func markDirty(p uintptr) {
	regMu.Lock()
	dirtied[p] = true
	if caseDirtied != nil {
		caseDirtied[p] = true
	}
	ctxSeen[p]++
	regMu.Unlock()
}

// caseDirtied: contexts used by a dirtying request of the running case.
var caseDirtied map[uintptr]bool

func kindOfTk(tk string) byte {
	i := strings.LastIndexByte(tk, '.')
	if i < 0 || i+1 >= len(tk) {
		return 0
	}
	return tk[i+1]
}

func hasOp(ops, o string) bool {
	for _, x := range strings.Split(ops, ",") {
		if x == o {
			return true
		}
	}
	return false
}

func metaList(visit func(func(k, v []byte))) []wire.KV {
	var out []wire.KV
	visit(func(k, v []byte) { out = append(out, wire.KV{K: string(k), V: string(v)}) })
	return out
}

// metaLeak: every pair of a dirtying request or handler has a key starting with "D-"; none may show up,
// and the pairs this request set must all be there.
func metaLeak(got, want []wire.KV, http bool) string {
	have := map[string][]string{}
	for _, kv := range got {
		if strings.HasPrefix(kv.K, "D-") {
			return fmt.Sprintf("pair %q=%q of a previous request is present (all pairs: %q)", kv.K, kv.V, got)
		}
		have[kv.K] = append(have[kv.K], kv.V)
	}
	for _, kv := range want {
		found := false
		for _, v := range have[kv.K] {
			found = found || v == kv.V
		}
		if !found {
			return fmt.Sprintf("pair %q=%q of this request is missing (have %q)", kv.K, kv.V, have[kv.K])
		}
	}
	return ""
}

// inspectCtx checks what every stage can see.
func inspectCtx(rec *probeRec, sym string, ctx erpc.ReadCtx) {
	add := func(what, detail string) { rec.leaks = append(rec.leaks, leak{what, sym, detail}) }
	ctx.Swap().Range(func(k, v interface{}) bool {
		if k == "sess-dirty" && rec.exp.sessDirty {
			return true
		}
		add("swap", fmt.Sprintf("context swap holds %v=%v", k, v))
		return true
	})
	if !ctx.StatusOK() || (ctx.Status() != nil && !ctx.Status().OK()) {
		add("status", "handle status is "+ctx.Status().String())
	}
	if v := ctx.Context().Value(dirtyCtxKey); v != nil {
		add("context-value", fmt.Sprintf("Context().Value(dirty key) = %v", v))
	}
	if sm := ctx.ServiceMethod(); sm != rec.exp.route {
		add("service-method", fmt.Sprintf("service method %q, sent %q", sm, rec.exp.route))
	}
	if d := metaLeak(metaList(ctx.VisitMeta), rec.exp.meta, rec.exp.http); d != "" {
		add("input-meta", "input metadata: "+d)
	}
	in := ctx.Input()
	if ids := in.XferPipe().IDs(); !bytes.Equal(ids, rec.exp.pipe) {
		add("input-pipe", fmt.Sprintf("input pipe %q, sent %q", ids, rec.exp.pipe))
	}
	if c := in.BodyCodec(); c != rec.exp.codec {
		add("input-codec", fmt.Sprintf("input body codec %d, sent %d", c, rec.exp.codec))
	}
	if !in.StatusOK() {
		add("input-status", "input status "+in.Status().String())
	}
	if v := in.Context().Value(dirtyCtxKey); v != nil {
		add("context-value", fmt.Sprintf("Input().Context().Value(dirty key) = %v", v))
	}
	if id := ctx.Session().ID(); id != rec.exp.sessID {
		add("session-id", fmt.Sprintf("session id %q, want %q", id, rec.exp.sessID))
	}
}

func outputLeaks(rec *probeRec, sym string, out erpc.Message, wantSeq int32, wantMtype byte, wantMethod string, wantPipe []byte) {
	add := func(what, detail string) { rec.leaks = append(rec.leaks, leak{what, sym, detail}) }
	// header fields: either still at their default or already those of this request
	if out.Seq() != wantSeq && out.Seq() != 0 {
		add("output-seq", fmt.Sprintf("output seq %d, this request has %d", out.Seq(), wantSeq))
	}
	if out.Mtype() != wantMtype && out.Mtype() != 0 {
		add("output-mtype", fmt.Sprintf("output mtype %d, expected 0 or %d", out.Mtype(), wantMtype))
	}
	if out.ServiceMethod() != wantMethod && out.ServiceMethod() != "" {
		add("output-service-method", fmt.Sprintf("output service method %q, this request has %q", out.ServiceMethod(), wantMethod))
	}
	if st := out.Status(); st != nil && !st.OK() {
		add("output-status", "output status "+st.String())
	}
	if n := out.Meta().Len(); n != 0 {
		add("output-meta", fmt.Sprintf("output metadata already holds %q", out.Meta().QueryString()))
	}
	if c := out.BodyCodec(); c != codec.NilCodecID {
		add("output-codec", fmt.Sprintf("output body codec already %d", c))
	}
	if b := out.Body(); b != nil {
		add("output-body", fmt.Sprintf("output body already %s", clip(bodyStr(b))))
	}
	if ids := out.XferPipe().IDs(); !bytes.Equal(ids, wantPipe) && len(ids) != 0 {
		add("output-pipe", fmt.Sprintf("output pipe %q, this request came with %q", ids, wantPipe))
	}
	if out.Size() != 0 {
		add("output-size", fmt.Sprintf("output size already %d", out.Size()))
	}
	if v := out.Context().Value(dirtyCtxKey); v != nil {
		add("context-value", fmt.Sprintf("Output().Context().Value(dirty key) = %v", v))
	}
}

// ---------- server plug-in ----------

type plug struct{}

func (plug) Name() string { return "c20-probe" }

func (plug) PostReadCallHeader(ctx erpc.ReadCtx) *erpc.Status {
	tk := string(ctx.PeekMeta("Tk"))
	switch kindOfTk(tk) {
	case 'p', 'b':
		regMu.Lock()
		rec := probes[tk]
		regMu.Unlock()
		if rec == nil {
			return nil
		}
		rec.hook = true
		rec.ctxPtr = ptrOf(ctx)
		rec.inputSize = ctx.Input().Size()
		rec.hookMeta = strings.Replace(fmt.Sprintf("%q", metaList(ctx.VisitMeta)), tk, "<tk>", -1)
		noteCtx(rec.ctxPtr)
		inspectCtx(rec, "seen-at-header-hook", ctx)
		deadlineLeak(rec, ctx)
		if b := ctx.Input().Body(); b != nil {
			rec.leaks = append(rec.leaks, leak{"input-body", "seen-at-header-hook", "input body before binding is " + clip(bodyStr(b))})
		}
		if cc, ok := ctx.(erpc.CallCtx); ok {
			outputLeaks(rec, "seen-at-header-hook", cc.Output(), 0, 0, "", nil)
		}
	case 'd':
		if hasOp(string(ctx.PeekMeta("Ops")), "plugin") {
			markDirty(ptrOf(ctx))
			ctx.Swap().Store("D-pswap", "1")
			if cc, ok := ctx.(erpc.CallCtx); ok {
				cc.AddMeta("D-Plug", "hdr")
				cc.SetBodyCodec(codec.ID_XML)
				cc.Output().SetSize(4321)
			}
		}
	}
	return nil
}

func (plug) PostReadCallBody(ctx erpc.ReadCtx) *erpc.Status {
	if kindOfTk(string(ctx.PeekMeta("Tk"))) == 'd' && hasOp(string(ctx.PeekMeta("Ops")), "plugin-veto") {
		markDirty(ptrOf(ctx))
		ctx.Swap().Store("D-veto", "1")
		return erpc.NewStatus(556, "dirty veto", "D-cause")
	}
	return nil
}

func (plug) PreWriteReply(ctx erpc.WriteCtx) *erpc.Status {
	if cc, ok := ctx.(erpc.CallCtx); ok && kindOfTk(string(cc.PeekMeta("Tk"))) == 'd' && hasOp(string(cc.PeekMeta("Ops")), "plugin") {
		ctx.Output().Meta().Set("D-Pw", "1")
		ctx.Swap().Store("D-pwswap", "1")
	}
	return nil
}

func (plug) PostReadPushHeader(ctx erpc.ReadCtx) *erpc.Status {
	tk := string(ctx.PeekMeta("Tk"))
	switch kindOfTk(tk) {
	case 'p', 'b':
		regMu.Lock()
		rec := probes[tk]
		regMu.Unlock()
		if rec == nil {
			return nil
		}
		rec.hook = true
		rec.ctxPtr = ptrOf(ctx)
		noteCtx(rec.ctxPtr)
		inspectCtx(rec, "seen-at-header-hook", ctx)
		deadlineLeak(rec, ctx)
		if b := ctx.Input().Body(); b != nil {
			rec.leaks = append(rec.leaks, leak{"input-body", "seen-at-header-hook", "input body before binding is " + clip(bodyStr(b))})
		}
		if cc, ok := ctx.(erpc.CallCtx); ok {
			outputLeaks(rec, "seen-at-header-hook", cc.Output(), 0, 0, "", nil)
		}
	case 'd':
		if hasOp(string(ctx.PeekMeta("Ops")), "plugin") {
			markDirty(ptrOf(ctx))
			ctx.Swap().Store("D-pswap", "1")
		}
	}
	return nil
}

// ---------- handlers ----------

func replyOf(arg []byte) []byte {
	out := append([]byte("R:"), arg...)
	return out
}

func dirtyCall(ctx erpc.CallCtx, arg *[]byte) ([]byte, *erpc.Status) {
	atomic.AddInt64(&dirtyRuns, 1)
	markDirty(ptrOf(ctx))
	ops := string(ctx.PeekMeta("Ops"))
	http := string(ctx.PeekMeta("Http")) == "1"
	body := replyOf(*arg)
	if hasOp(ops, "addmeta") {
		ctx.AddMeta("D-Add", "1")
		ctx.AddMeta("D-Add", "2")
	}
	if hasOp(ops, "setmeta") {
		ctx.SetMeta("D-Set", strings.Repeat("s", 200))
	}
	if hasOp(ops, "codec") {
		ctx.SetBodyCodec(codec.ID_FORM)
	}
	if hasOp(ops, "pipe") {
		if http {
			if ctx.Input().XferPipe().Len() == 0 {
				ctx.AddXferPipe(wire.FGzip9)
			}
		} else {
			ctx.AddXferPipe(wire.FMd5, wire.FGzip1)
		}
	}
	if hasOp(ops, "swap") {
		ctx.Swap().Store("D-swap", "x")
		ctx.Swap().Store(42, "D-int-key")
	}
	if hasOp(ops, "method") {
		ctx.ResetServiceMethod("/d/irty")
	}
	if hasOp(ops, "ctxval") {
		c := context.WithValue(ctx.Context(), dirtyCtxKey, "leaked")
		socket.WithContext(c)(ctx.Input())
		socket.WithContext(c)(ctx.Output())
	}
	if hasOp(ops, "inmeta") {
		ctx.Input().Meta().Add("D-In", "1")
		ctx.Input().SetBodyCodec(codec.ID_XML)
		ctx.Input().SetSize(999)
		ctx.Input().SetStatus(erpc.NewStatus(557, "dirty input status", "D-cause"))
		if !http {
			ctx.Input().XferPipe().Append(wire.FMd5)
		}
	}
	if hasOp(ops, "outfields") {
		ctx.Output().SetSize(12345)
		ctx.Output().Meta().Parse("D-Out=1&D-Out2=2")
	}
	if hasOp(ops, "sessswap") {
		ctx.Session().Swap().Store("sess-dirty", "1")
	}
	if hasOp(ops, "bigbody") {
		body = bytes.Repeat([]byte("D-big-body-"), 6000)
	}
	if hasOp(ops, "panic") {
		panic("D-panic in the dirtying handler")
	}
	if hasOp(ops, "status") {
		return nil, erpc.NewStatus(555, "dirty status", "D-cause")
	}
	return body, nil
}

// DirtyCall is the dirtying call handler (function route).
func DirtyCall(ctx erpc.CallCtx, arg *[]byte) ([]byte, *erpc.Status) { return dirtyCall(ctx, arg) }

func probeCall(ctx erpc.CallCtx, arg *[]byte, scratch string) ([]byte, *erpc.Status) {
	tk := string(ctx.PeekMeta("Tk"))
	regMu.Lock()
	rec := probes[tk]
	regMu.Unlock()
	if rec == nil {
		return nil, erpc.NewStatus(598, "unknown probe token", tk)
	}
	rec.handler = true
	rec.scratch = scratch
	if p := ptrOf(ctx); p != rec.ctxPtr && rec.hook {
		rec.leaks = append(rec.leaks, leak{"context-identity", "seen-in-handler", "handler runs on a different context than the header hook of the same request"})
	}
	if rc, ok := ctx.(erpc.ReadCtx); ok {
		inspectCtx(rec, "seen-in-handler", rc)
	}
	if !bytes.Equal(*arg, rec.exp.body) {
		rec.leaks = append(rec.leaks, leak{"input-body", "seen-in-handler", fmt.Sprintf("argument %s, sent %s", clip(string(*arg)), clip(string(rec.exp.body)))})
	}
	if c := ctx.GetBodyCodec(); c != rec.exp.codec {
		rec.leaks = append(rec.leaks, leak{"input-codec", "seen-in-handler", fmt.Sprintf("GetBodyCodec() %d, sent %d", c, rec.exp.codec)})
	}
	outputLeaks(rec, "seen-in-handler", ctx.Output(), ctx.Seq(), erpc.TypeReply, ctx.ServiceMethod(), rec.exp.pipe)
	ctx.SetMeta("P-Ok", "1")
	return replyOf(*arg), nil
}

// ProbeCall is the inspecting call handler (function route).
func ProbeCall(ctx erpc.CallCtx, arg *[]byte) ([]byte, *erpc.Status) { return probeCall(ctx, arg, "") }

// Ctl is a controller struct with a field of its own (controllers are pooled by the router).
type Ctl struct {
	erpc.CallCtx
	Scratch string
}

func (c *Ctl) Dirty(arg *[]byte) ([]byte, *erpc.Status) {
	c.Scratch = "D-scratch"
	return dirtyCall(c.CallCtx, arg)
}

func (c *Ctl) Probe(arg *[]byte) ([]byte, *erpc.Status) {
	s := c.Scratch
	return probeCall(c.CallCtx, arg, s)
}

// DirtyPush is the dirtying push handler.
func DirtyPush(ctx erpc.PushCtx, arg *[]byte) *erpc.Status {
	atomic.AddInt64(&dirtyRuns, 1)
	markDirty(ptrOf(ctx))
	ops := string(ctx.PeekMeta("Ops"))
	if hasOp(ops, "swap") {
		ctx.Swap().Store("D-swap", "push")
	}
	if hasOp(ops, "method") {
		ctx.ResetServiceMethod("/d/irty/push")
	}
	if cc, ok := ctx.(erpc.CallCtx); ok {
		if hasOp(ops, "ctxval") {
			socket.WithContext(context.WithValue(ctx.Context(), dirtyCtxKey, "leaked-by-push"))(cc.Input())
		}
		if hasOp(ops, "inmeta") {
			cc.Input().Meta().Add("D-In", "push")
		}
		if hasOp(ops, "outfields") || hasOp(ops, "addmeta") {
			cc.AddMeta("D-Add", "push")
			cc.Output().SetSize(777)
		}
		if hasOp(ops, "pipe") {
			cc.AddXferPipe(wire.FMd5)
		}
		if hasOp(ops, "codec") {
			cc.SetBodyCodec(codec.ID_FORM)
		}
	}
	if hasOp(ops, "sessswap") {
		ctx.Session().Swap().Store("sess-dirty", "1")
	}
	if hasOp(ops, "panic") {
		panic("D-panic in the dirtying push handler")
	}
	if hasOp(ops, "status") {
		return erpc.NewStatus(555, "dirty push status", "D-cause")
	}
	return nil
}

// ProbePush is the inspecting push handler.
func ProbePush(ctx erpc.PushCtx, arg *[]byte) *erpc.Status {
	tk := string(ctx.PeekMeta("Tk"))
	regMu.Lock()
	rec := probes[tk]
	regMu.Unlock()
	if rec == nil {
		return nil
	}
	if rc, ok := ctx.(erpc.ReadCtx); ok {
		inspectCtx(rec, "seen-in-handler", rc)
	}
	if !bytes.Equal(*arg, rec.exp.body) {
		rec.leaks = append(rec.leaks, leak{"input-body", "seen-in-handler", fmt.Sprintf("argument %s, sent %s", clip(string(*arg)), clip(string(rec.exp.body)))})
	}
	if cc, ok := ctx.(erpc.CallCtx); ok {
		outputLeaks(rec, "seen-in-handler", cc.Output(), 0, 0, "", nil)
	}
	regMu.Lock()
	rec.handler = true
	regMu.Unlock()
	return nil
}

// ClientPush receives the pushes the server sends.
func ClientPush(ctx erpc.PushCtx, arg *[]byte) *erpc.Status {
	atomic.AddInt64(&clientGot, 1)
	return nil
}

// ---------- taps and frames ----------

type tap struct {
	mu sync.Mutex
	b  []byte
}

func (t *tap) write(p []byte, total int64) {
	t.mu.Lock()
	t.b = append(t.b, p...)
	t.mu.Unlock()
}

func (t *tap) take(off *int) []byte {
	t.mu.Lock()
	defer t.mu.Unlock()
	out := append([]byte(nil), t.b[*off:]...)
	*off = len(t.b)
	return out
}

func parseFirst(p protos.P, b []byte) (*wire.Spec, error) {
	if len(b) == 0 {
		return nil, fmt.Errorf("no bytes")
	}
	pr := p.Func(wire.RW{Reader: bytes.NewReader(b), Writer: io.Discard})
	m := wire.NewReceiver(p)
	var err error
	func() {
		defer func() {
			if x := recover(); x != nil {
				err = fmt.Errorf("PANIC: %v", x)
			}
		}()
		err = pr.Unpack(m)
	}()
	if err != nil {
		return nil, err
	}
	s := wire.Extract(m, p)
	return &s, nil
}

func statStr(t *protos.Triple) string {
	if t == nil {
		return "OK"
	}
	return fmt.Sprintf("%d/%q/%q", t.Code, t.Msg, t.Cause)
}

// frameFields renders the fields of a frame that must not depend on history.
func frameFields(s *wire.Spec, http bool) []KV {
	meta := append([]wire.KV(nil), s.Meta...)
	if http {
		sort.Slice(meta, func(i, j int) bool { return meta[i].K < meta[j].K })
	}
	return []KV{{"mtype", fmt.Sprint(s.Mtype)}, {"service-method", fmt.Sprintf("%q", s.Method)}, {"status", statStr(s.Stat)},
		{"meta", fmt.Sprintf("%q", meta)}, {"codec", fmt.Sprint(s.Codec)}, {"body", fmt.Sprintf("%q", s.Body)}, {"pipe", fmt.Sprintf("%q", s.Pipe)}}
}

// ---------- one handler-context case ----------

type link struct {
	*bed.Link
	ta, tb     *tap
	offA, offB int
	sessDirty  bool
	baseReply  []KV
	basePush   []KV
	baseOut    []KV
	baseSize   uint32
	baseSeq    int32
	baseCodec  byte
	baseMeta   string
	name       string
}

type caseRun struct {
	it     Item
	id     string
	p      protos.P
	leaks  []leak
	incon  string
	probeN int
	hits   int // probes that ran on a context dirtied earlier in this case
	routes struct{ dirtyF, probeF, dirtyC, probeC, dirtyP, probeP, clientP string }
	mine   map[uintptr]bool
}

func (c *caseRun) add(what, sym, detail string) { c.leaks = append(c.leaks, leak{what, sym, detail}) }

func await(ch <-chan erpc.CallCmd) bool {
	select {
	case <-ch:
		return true
	case <-time.After(10 * time.Second):
		return false
	}
}

func (c *caseRun) probeSettings(tk string) ([]erpc.MessageSetting, []wire.KV) {
	meta := []wire.KV{{K: "Tk", V: tk}}
	set := []erpc.MessageSetting{erpc.WithBodyCodec(codec.ID_PLAIN), erpc.WithSetMeta("Tk", tk)}
	for i := 0; i < c.it.ProbeMeta; i++ {
		k, v := fmt.Sprintf("X-P%d", i), fmt.Sprintf("value-%d", i)
		meta = append(meta, wire.KV{K: k, V: v})
		set = append(set, erpc.WithAddMeta(k, v))
	}
	if c.it.ProbePipe != "" {
		set = append(set, erpc.WithXferPipe([]byte(c.it.ProbePipe)...))
	}
	return set, meta
}

var probeBody = []byte("probe body: the same bytes for the baseline and for every later probe 0123456789")

// probeCallOn issues one inspecting call; baseline=true records the reference frame.
func (c *caseRun) probeCallOn(l *link, n int, baseline bool) bool {
	kind := "p"
	if baseline {
		kind = "b"
	}
	tk := fmt.Sprintf("%s-%s.%s%d", c.id, l.name, kind, n%10)
	set, meta := c.probeSettings(tk)
	route := c.routes.probeF
	if c.it.Via == "ctl" {
		route = c.routes.probeC
	}
	rec := &probeRec{exp: expect{kind: "call", route: route, meta: meta, pipe: []byte(c.it.ProbePipe), codec: codec.ID_PLAIN, body: probeBody,
		sessID: l.B.ID(), sessDirty: l.sessDirty, http: c.p.HTTP}}
	regMu.Lock()
	probes[tk] = rec
	regMu.Unlock()
	defer func() {
		regMu.Lock()
		delete(probes, tk)
		regMu.Unlock()
	}()
	l.ta.take(&l.offA)
	l.tb.take(&l.offB)
	var res []byte
	ch := make(chan erpc.CallCmd, 1)
	cmd := l.A.AsyncCall(route, probeBody, &res, ch, set...)
	if !await(ch) {
		c.incon = "a probe call did not complete within the watchdog"
		l.CA.Sever(false)
		return false
	}
	core.Add("evaluations", 1)
	core.Add("ctx_probe_calls", 1)
	c.probeN++
	sym := "seen-by-caller"
	stat := cmd.Status()
	if !stat.OK() {
		c.add("reply-status", sym, fmt.Sprintf("probe call on %s completed with %s", l.name, stat.String()))
	} else {
		if !bytes.Equal(res, replyOf(probeBody)) {
			c.add("reply-body", sym, fmt.Sprintf("result %s want %s", clip(string(res)), clip(string(replyOf(probeBody)))))
		}
		if im := cmd.InputMeta(); im != nil {
			if d := metaLeak(metaList(im.VisitAll), []wire.KV{{K: "P-Ok", V: "1"}}, c.p.HTTP); d != "" {
				c.add("reply-meta", sym, "reply metadata at the caller: "+d)
			}
		}
		if cc := cmd.InputBodyCodec(); baseline {
			l.baseCodec = cc
		} else if l.baseReply != nil && cc != l.baseCodec {
			c.add("reply-codec", "differs-from-baseline", fmt.Sprintf("reply body codec at the caller is %d, before any dirtying it was %d", cc, l.baseCodec))
		}
	}
	if !rec.hook || !rec.handler {
		if stat.OK() {
			c.incon = "probe completed without the header hook / handler having recorded it"
		}
	}
	c.leaks = append(c.leaks, rec.leaks...)
	regMu.Lock()
	if c.mine[rec.ctxPtr] && !baseline {
		c.hits++
	}
	regMu.Unlock()
	if rec.scratch != "" {
		core.Add("observed_controller_user_field_survived_to_next_request", 1)
	}
	// the reply frame on the wire
	l.ta.take(&l.offA)
	rb := l.tb.take(&l.offB)
	sp, err := parseFirst(c.p, rb)
	if err != nil {
		c.add("reply-frame", "sent-in-reply", fmt.Sprintf("reply frame of a probe cannot be unpacked: %v", err))
		return true
	}
	core.Add("ctx_reply_frames_parsed", 1)
	sym = "sent-in-reply"
	if sp.Mtype != erpc.TypeReply || sp.Seq != cmd.Output().Seq() {
		c.add("reply-frame-header", sym, fmt.Sprintf("frame mtype %d seq %d, call seq %d", sp.Mtype, sp.Seq, cmd.Output().Seq()))
	}
	if sp.Stat != nil {
		c.add("reply-frame-status", sym, "reply frame carries status "+statStr(sp.Stat))
	}
	if d := metaLeak(sp.Meta, []wire.KV{{K: "P-Ok", V: "1"}}, c.p.HTTP); d != "" {
		c.add("reply-frame-meta", sym, "reply frame metadata: "+d)
	}
	if !bytes.Equal(sp.Body, replyOf(probeBody)) {
		c.add("reply-frame-body", sym, fmt.Sprintf("reply frame body %s", clip(string(sp.Body))))
	}
	if !bytes.Equal(sp.Pipe, []byte(c.it.ProbePipe)) {
		c.add("reply-frame-pipe", sym, fmt.Sprintf("reply frame pipe %q, request pipe %q", sp.Pipe, c.it.ProbePipe))
	}
	ff := frameFields(sp, c.p.HTTP)
	if baseline {
		l.baseReply = ff
		l.baseSize = rec.inputSize
		l.baseSeq = cmd.Output().Seq()
		l.baseMeta = rec.hookMeta
	} else if l.baseReply != nil {
		if d := cmpSnap(ff, l.baseReply, "differs-from-baseline"); d != nil {
			c.add("reply-frame-"+d.Field, "differs-from-baseline", fmt.Sprintf("reply frame field %s is %s, before any dirtying it was %s", d.Field, d.Got, d.Want))
		}
		if rec.hook && rec.hookMeta != l.baseMeta && !c.p.HTTP {
			c.add("input-meta", "differs-from-baseline", fmt.Sprintf("input metadata at the header hook %s, the same request before any dirtying showed %s", clip(rec.hookMeta), clip(l.baseMeta)))
		}
		// the size recorded on the input message: comparable when the seq has as many digits and the pipe does not compress
		sq := cmd.Output().Seq()
		if !strings.ContainsAny(c.it.ProbePipe, "zg") && len(strconv.FormatInt(int64(sq), 36)) == len(strconv.FormatInt(int64(l.baseSeq), 36)) &&
			len(strconv.Itoa(int(sq))) == len(strconv.Itoa(int(l.baseSeq))) && rec.inputSize != l.baseSize && rec.hook {
			c.add("input-size", "differs-from-baseline", fmt.Sprintf("input Size() %d, the same request before dirtying had %d", rec.inputSize, l.baseSize))
		}
	}
	return true
}

func (c *caseRun) probePushOn(l *link, n int, baseline bool) bool {
	kind := "p"
	if baseline {
		kind = "b"
	}
	tk := fmt.Sprintf("%s-%s.%s%d", c.id, l.name, kind, n%10)
	set, meta := c.probeSettings(tk)
	rec := &probeRec{exp: expect{kind: "push", route: c.routes.probeP, meta: meta, pipe: []byte(c.it.ProbePipe), codec: codec.ID_PLAIN, body: probeBody,
		sessID: l.B.ID(), sessDirty: l.sessDirty, http: c.p.HTTP}}
	regMu.Lock()
	probes[tk] = rec
	regMu.Unlock()
	l.ta.take(&l.offA)
	st := l.A.Push(c.routes.probeP, probeBody, set...)
	if !st.OK() {
		c.incon = "probe push failed: " + st.String()
		return false
	}
	ok := bed.WaitUntil(10*time.Second, func() bool { regMu.Lock(); defer regMu.Unlock(); return rec.handler })
	regMu.Lock()
	delete(probes, tk)
	if c.mine[rec.ctxPtr] && !baseline {
		c.hits++
	}
	regMu.Unlock()
	core.Add("evaluations", 1)
	core.Add("ctx_probe_pushes", 1)
	c.probeN++
	if !ok {
		c.incon = "probe push was not handled within the watchdog"
		return false
	}
	c.leaks = append(c.leaks, rec.leaks...)
	// the push frame the client wrote (Push uses a pooled context's output message on the sending side)
	fb := l.ta.take(&l.offA)
	sp, err := parseFirst(c.p, fb)
	if err != nil {
		c.add("push-frame", "sent-in-push", fmt.Sprintf("push frame cannot be unpacked: %v", err))
		return true
	}
	sym := "sent-in-push"
	if d := metaLeak(sp.Meta, meta, c.p.HTTP); d != "" {
		c.add("push-frame-meta", sym, "push frame metadata: "+d)
	}
	if !bytes.Equal(sp.Pipe, []byte(c.it.ProbePipe)) {
		c.add("push-frame-pipe", sym, fmt.Sprintf("push frame pipe %q, set %q", sp.Pipe, c.it.ProbePipe))
	}
	if sp.Stat != nil {
		c.add("push-frame-status", sym, "push frame carries status "+statStr(sp.Stat))
	}
	if sp.Codec != codec.ID_PLAIN || !bytes.Equal(sp.Body, probeBody) || sp.Method != c.routes.probeP || sp.Mtype != erpc.TypePush {
		c.add("push-frame-fields", sym, fmt.Sprintf("push frame fields %v", frameFields(sp, false)))
	}
	ff := frameFields(sp, c.p.HTTP)
	// the token differs between baseline and probe only in one letter; blank it
	for i := range ff {
		ff[i].V = strings.Replace(ff[i].V, tk, "<tk>", -1)
	}
	if baseline {
		l.basePush = ff
	} else if l.basePush != nil {
		if d := cmpSnap(ff, l.basePush, "differs-from-baseline"); d != nil {
			c.add("push-frame-"+d.Field, "differs-from-baseline", fmt.Sprintf("push frame field %s is %s, before any dirtying it was %s", d.Field, d.Got, d.Want))
		}
	}
	return true
}

// probePushOut: the server pushes to the client with minimal settings; the frame it writes is inspected.
func (c *caseRun) probePushOut(l *link, baseline bool) {
	l.tb.take(&l.offB)
	before := atomic.LoadInt64(&clientGot)
	st := l.B.Push(c.routes.clientP, probeBody, erpc.WithBodyCodec(codec.ID_PLAIN), erpc.WithSetMeta("Po", "1"))
	if !st.OK() {
		c.incon = "server push failed: " + st.String()
		return
	}
	bed.WaitUntil(5*time.Second, func() bool { return atomic.LoadInt64(&clientGot) > before })
	core.Add("evaluations", 1)
	core.Add("ctx_probe_pushes_out", 1)
	fb := l.tb.take(&l.offB)
	sp, err := parseFirst(c.p, fb)
	if err != nil {
		c.add("push-frame", "sent-in-push", fmt.Sprintf("server push frame cannot be unpacked: %v", err))
		return
	}
	sym := "sent-in-push"
	if d := metaLeak(sp.Meta, []wire.KV{{K: "Po", V: "1"}}, c.p.HTTP); d != "" {
		c.add("push-frame-meta", sym, "server push frame metadata: "+d)
	}
	if len(sp.Pipe) != 0 {
		c.add("push-frame-pipe", sym, fmt.Sprintf("server push frame pipe %q, none was set", sp.Pipe))
	}
	if sp.Stat != nil {
		c.add("push-frame-status", sym, "server push frame carries status "+statStr(sp.Stat))
	}
	ff := frameFields(sp, c.p.HTTP)
	if baseline {
		l.baseOut = ff
	} else if l.baseOut != nil {
		if d := cmpSnap(ff, l.baseOut, "differs-from-baseline"); d != nil {
			c.add("push-frame-"+d.Field, "differs-from-baseline", fmt.Sprintf("server push frame field %s is %s, before any dirtying it was %s", d.Field, d.Got, d.Want))
		}
	}
}

func (c *caseRun) dirtyOn(l *link, n int) bool {
	ops := strings.Join(c.it.Ops, ",")
	tk := fmt.Sprintf("%s-%s.d%d", c.id, l.name, n)
	set := []erpc.MessageSetting{erpc.WithBodyCodec(codec.ID_FORM), erpc.WithSetMeta("Tk", tk), erpc.WithSetMeta("Ops", ops),
		erpc.WithAddMeta("D-Req", "1"), erpc.WithAddMeta("D-Req", "2"), erpc.WithSetMeta("D-Req-Long", strings.Repeat("q", 300))}
	if c.p.HTTP {
		set = append(set, erpc.WithSetMeta("Http", "1"))
		if n%2 == 0 {
			set = append(set, erpc.WithXferPipe(wire.FGzip9))
		}
	} else {
		set = append(set, erpc.WithXferPipe(wire.FGzip9, wire.FMd5))
	}
	route := c.routes.dirtyF
	if c.it.Via == "ctl" {
		route = c.routes.dirtyC
	}
	body := bytes.Repeat([]byte("D-dirty-request-body "), 20+n)
	var res []byte
	ch := make(chan erpc.CallCmd, 1)
	l.A.AsyncCall(route, body, &res, ch, set...)
	if !await(ch) {
		c.incon = "a dirtying call did not complete within the watchdog"
		l.CA.Sever(false)
		return false
	}
	core.Add("ctx_dirty_calls", 1)
	for _, o := range c.it.Ops {
		switch o {
		case "sessswap":
			l.sessDirty = true
		case "push":
			before := atomic.LoadInt64(&dirtyRuns)
			st := l.A.Push(c.routes.dirtyP, body, append(set, erpc.WithAddMeta("D-Push", "1"))...)
			if st.OK() {
				bed.WaitUntil(5*time.Second, func() bool { return atomic.LoadInt64(&dirtyRuns) > before })
				core.Add("ctx_dirty_pushes", 1)
			}
		case "pushout":
			before := atomic.LoadInt64(&clientGot)
			st := l.B.Push(c.routes.clientP, body, erpc.WithAddMeta("D-Po", "1"), erpc.WithAddMeta("D-Po", "2"), erpc.WithXferPipe(wire.FMd5), erpc.WithBodyCodec(codec.ID_FORM),
				socket.WithContext(context.WithValue(context.Background(), dirtyCtxKey, "leaked-by-pushout")))
			if st.OK() {
				bed.WaitUntil(5*time.Second, func() bool { return atomic.LoadInt64(&clientGot) > before })
				core.Add("ctx_dirty_pushes_out", 1)
			}
		}
	}
	return l.A.Health()
}

func runCtx(it Item) {
	id := fmt.Sprintf("i%05d", it.Idx)
	p := protos.ByName(it.Proto)
	desc := map[string]interface{}{"class": "ctx", "item": it, "dirty_class": strings.Join(it.Ops, "+"), "rerun": map[string]interface{}{"idx": it.Idx, "seed": *seed, "tier": *tier}}
	core.Begin(id, desc)
	c := &caseRun{it: it, id: id, p: p, mine: map[uintptr]bool{}}
	pa := erpc.NewPeer(erpc.PeerConfig{})
	cfgB := erpc.PeerConfig{}
	if it.CtxAge {
		cfgB.DefaultContextAge = time.Hour
	}
	pb := erpc.NewPeer(cfgB, plug{})
	defer pa.Close()
	defer pb.Close()
	c.routes.dirtyF = pb.RouteCallFunc(DirtyCall)
	c.routes.probeF = pb.RouteCallFunc(ProbeCall)
	for _, name := range pb.RouteCall(new(Ctl)) {
		if strings.HasSuffix(name, "dirty") {
			c.routes.dirtyC = name
		} else if strings.HasSuffix(name, "probe") {
			c.routes.probeC = name
		}
	}
	if c.routes.dirtyC == "" || c.routes.probeC == "" {
		core.Fatalf("controller routes not found")
	}
	if p.Push {
		c.routes.dirtyP = pb.RoutePushFunc(DirtyPush)
		c.routes.probeP = pb.RoutePushFunc(ProbePush)
		c.routes.clientP = pa.RoutePushFunc(ClientPush)
	}
	var links []*link
	for i := 0; i < 2; i++ {
		l := &link{ta: &tap{}, tb: &tap{}, name: fmt.Sprintf("s%d", i)}
		bl, err := bed.Connect(pa, pb, p.Func, p.Func, func(ca, cb *memconn.Conn) {
			ca.SetWriteTap(l.ta.write)
			cb.SetWriteTap(l.tb.write)
		})
		if err != nil {
			core.Result(core.R{ID: id, Verdict: core.Inconclusive, What: "connect: " + err.Error()})
			return
		}
		l.Link = bl
		links = append(links, l)
	}
	regMu.Lock()
	caseDirtied = c.mine
	regMu.Unlock()
	ok := true
	// 1. the reference: the same requests before any dirtying in this case
	for _, l := range links {
		ok = ok && c.probeCallOn(l, 0, true)
		if ok && p.Push {
			ok = c.probePushOn(l, 1, true)
			if ok {
				c.probePushOut(l, true)
			}
		}
	}
	// 2. dirtying requests on the first session
	for n := 0; ok && n < 4; n++ {
		ok = c.dirtyOn(links[0], n)
		if !ok && c.incon == "" {
			// the dirtying request killed its session (e.g. an unreadable reply): continue on a new one
			c.incon = "the dirtying request closed its session"
		}
	}
	// 3. the next requests: same session and other session, alternating
	for n := 0; ok && n < 8; n++ {
		l := links[n%2]
		if p.Push && n%4 >= 2 {
			ok = c.probePushOn(l, n, false)
			if ok && n%4 == 3 {
				c.probePushOut(l, false)
			}
		} else {
			ok = c.probeCallOn(l, n, false)
		}
	}
	var reused int
	regMu.Lock()
	for _, n := range ctxSeen {
		if n >= 2 {
			reused++
		}
	}
	regMu.Unlock()
	core.Max("handler_contexts_seen_for_2_or_more_requests", int64(reused))
	core.Add("ctx_probes_on_a_context_dirtied_in_the_same_case", int64(c.hits))
	sig := fmt.Sprintf("ctx/%s/%s/probe=%s,%d,%s,age=%v", it.Proto, strings.Join(it.Ops, "+"), it.ProbePipe, it.ProbeMeta, it.Via, it.CtxAge)
	if len(c.leaks) > 0 {
		seen := map[string]bool{}
		first := true
		for _, lk := range c.leaks {
			fp := fmt.Sprintf("C20/ctx/%s/%s", lk.What, lk.Symptom)
			if seen[fp] {
				continue
			}
			seen[fp] = true
			rid := id
			if !first {
				rid = id + "#" + lk.What + "." + lk.Symptom
				core.Begin(rid, desc)
			}
			first = false
			core.Result(core.R{ID: rid, Verdict: core.Violated, FP: fp, Sig: sig, Desc: desc,
				What:    fmt.Sprintf("%s, after dirtying with %v: %s (%s)", it.Proto, it.Ops, lk.Detail, lk.Symptom),
				Witness: map[string]interface{}{"proto": it.Proto, "dirty_ops": it.Ops, "probe_pipe": it.ProbePipe, "via": it.Via, "detail": lk.Detail, "all": clipLeaks(c.leaks)}})
		}
		return
	}
	if c.incon != "" {
		core.Add("ctx_cases_inconclusive", 1)
		core.Result(core.R{ID: id, Verdict: core.Inconclusive, What: c.incon, Sig: sig})
		return
	}
	if c.hits == 0 {
		core.Add("ctx_cases_without_recycled_dirty_context", 1)
		core.Result(core.R{ID: id, Verdict: core.Inconclusive, What: fmt.Sprintf("none of the %d probes ran on a handler context dirtied in this case", c.probeN), Sig: sig})
		return
	}
	core.Distinct("nontrivial", fmt.Sprintf("ctx/%s/%s", it.Proto, strings.Join(it.Ops, "+")))
	core.Distinct("ctx_dirty_classes", strings.Join(it.Ops, "+"))
	core.Result(core.R{ID: id, Verdict: core.Held, Sig: sig, Nontrivial: true})
	if it.Idx%37 == 0 {
		core.Sample(map[string]interface{}{"part": "ctx", "item": it, "probes": c.probeN, "probes_on_dirtied_context": c.hits})
	}
}

func clipLeaks(l []leak) []string {
	var out []string
	for i, x := range l {
		if i >= 12 {
			out = append(out, fmt.Sprintf("... %d more", len(l)-i))
			break
		}
		out = append(out, x.What+"/"+x.Symptom+": "+clip(x.Detail))
	}
	return out
}

// ---------- main ----------

func main() {
	flag.Parse()
	if *cpuprofile != "" {
		f, _ := os.Create(*cpuprofile)
		pprof.StartCPUProfile(f)
		defer pprof.StopCPUProfile()
	}
	core.Prop = *prop
	only := -1
	if *replay != "" {
		b, err := os.ReadFile(*replay)
		if err != nil {
			core.Fatalf("replay: %v", err)
		}
		var rf struct {
			Desc struct {
				Rerun struct {
					Idx  int    `json:"idx"`
					Seed int64  `json:"seed"`
					Tier string `json:"tier"`
				} `json:"rerun"`
			} `json:"desc"`
		}
		if err := json.Unmarshal(b, &rf); err != nil {
			core.Fatalf("replay: %v", err)
		}
		only = rf.Desc.Rerun.Idx
		if rf.Desc.Rerun.Tier != "" {
			*tier = rf.Desc.Rerun.Tier
			*seed = rf.Desc.Rerun.Seed
		}
	}
	// one P: sync.Pool hands a released object back to the next Get, which is what this check needs to observe
	runtime.GOMAXPROCS(1)
	wire.RegFilters()
	bed.Init("OFF")

	items := buildItems(*tier, *seed)
	for _, it := range items {
		if only >= 0 {
			if it.Idx != only {
				continue
			}
		} else if it.Idx%*nbatch != *batch {
			continue
		}
		switch it.Part {
		case "object":
			runObjects(fmt.Sprintf("i%05d", it.Idx), it.Type, it.Chunk, it.Pairs, map[string]interface{}{"idx": it.Idx, "seed": *seed, "tier": *tier})
		case "ctx":
			runCtx(it)
		case "ctxhist":
			runCtxHist(it)
		}
	}
	core.Finish()
}
