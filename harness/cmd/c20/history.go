package main

// History part of C20's context differential.
//
// A handler context object goes through a "history" (a normal call, an error reply, a panic in the
// handler, a panic in a body / reply stage plug-in, a veto at each stage, a push, an unknown route,
// the handling of a reply on the client side) and is handed out again. Whatever the NEXT use is -
// including the panicking kinds - it must behave exactly like the same request served by a context
// that was never used: the same reply frames (count, status code / msg / cause, metadata, codec,
// body, pipe), the same sequence of plug-in hooks and handler entries, the session still up.
//
// The requests are scripted frames written to the server end of an in-memory connection (no client
// peer, so only the server's contexts circulate and the context of request n serves request n+2);
// which object served a request and what it served before is measured at the header hook, not
// assumed. A request counts as finished when the process is quiescent (goroutine dump), so "no
// reply was written" is a state, not a timeout.
//
// Reference outcomes come from contexts that were never used: the pool is emptied (two GC cycles),
// a new peer and connection are created and the first request on it is the reference; the hook
// confirms that the object has not been seen before (all objects ever seen are kept alive, so an
// address is never reused).

import (
	"bytes"
	"fmt"
	"io"
	"runtime"
	"strings"
	"sync"
	"time"

	erpc "github.com/henrylee2cn/erpc/v6"
	"github.com/henrylee2cn/erpc/v6/codec"

	"verifharness/bed"
	"verifharness/core"
	"verifharness/memconn"
	"verifharness/protos"
	"verifharness/quiesce"
	"verifharness/wire"
)

var histKinds = []string{"ok", "err", "panic-handler", "panic-body", "panic-prewrite", "veto-header", "veto-prebody", "veto-body", "veto-prewrite",
	"unknown", "push", "push-panic", "client-reply"}

var nextKinds = []string{"ok", "err", "panic-handler", "panic-body", "panic-prewrite", "veto-body", "unknown", "push"}

func isPushKind(k string) bool { return k == "push" || k == "push-panic" }

func histItems(add func(Item), thorough bool) {
	reps := 1
	if thorough {
		reps = 6
	}
	for rep := 0; rep < reps; rep++ {
		for _, pn := range ctxProtos {
			p := protos.ByName(pn)
			for _, h := range histKinds {
				if isPushKind(h) && !p.Push {
					continue
				}
				add(Item{Part: "ctxhist", Class: "ctxhist", Proto: pn, Ops: []string{h}, ProbeMeta: rep})
			}
		}
	}
}

// ---------- process-wide observation state ----------

var (
	hMu      sync.Mutex
	hLast    = map[uintptr]string{} // context object -> kind of its last use
	hPinned  []interface{}          // keeps every context object ever seen alive
	hCur     = map[uintptr]string{} // context object -> token of the request it serves now
	hHooks   = map[string][]string{}
	hPrev    = map[string]string{} // token -> what its context object served before ("<fresh>" if never seen)
	hSeenReq = map[string]bool{}
)

func hBegin(ctx interface{}, tk, kind string) {
	p := ptrOf(ctx)
	hMu.Lock()
	prev, seen := hLast[p]
	if !seen {
		prev = "<fresh>"
		hPinned = append(hPinned, ctx)
	}
	hLast[p] = kind
	if tk != "" {
		hCur[p] = tk
		hPrev[tk] = prev
		hSeenReq[tk] = true
	}
	hMu.Unlock()
}

func hLog(ctx interface{}, ev string) {
	p := ptrOf(ctx)
	hMu.Lock()
	if tk := hCur[p]; tk != "" {
		hHooks[tk] = append(hHooks[tk], ev)
	}
	hMu.Unlock()
}

func kindOf(ctx interface{}) string {
	if pm, ok := ctx.(interface{ PeekMeta(string) []byte }); ok {
		return string(pm.PeekMeta("K"))
	}
	return ""
}

// hplug is the server plug-in of the history part.
type hplug struct{}

func (hplug) Name() string { return "c20-history" }

func (hplug) PostReadCallHeader(ctx erpc.ReadCtx) *erpc.Status {
	k := kindOf(ctx)
	hBegin(ctx, string(ctx.PeekMeta("Tk")), k)
	hLog(ctx, "PostReadCallHeader")
	if k == "veto-header" {
		return erpc.NewStatus(560, "veto at PostReadCallHeader", "H-cause")
	}
	return nil
}

func (hplug) PreReadCallBody(ctx erpc.ReadCtx) *erpc.Status {
	hLog(ctx, "PreReadCallBody")
	if kindOf(ctx) == "veto-prebody" {
		return erpc.NewStatus(561, "veto at PreReadCallBody", "H-cause")
	}
	return nil
}

func (hplug) PostReadCallBody(ctx erpc.ReadCtx) *erpc.Status {
	hLog(ctx, "PostReadCallBody")
	switch kindOf(ctx) {
	case "veto-body":
		return erpc.NewStatus(562, "veto at PostReadCallBody", "H-cause")
	case "panic-body":
		panic("H-panic in PostReadCallBody")
	}
	return nil
}

func (hplug) PreWriteReply(ctx erpc.WriteCtx) *erpc.Status {
	hLog(ctx, "PreWriteReply")
	switch kindOf(ctx) {
	case "veto-prewrite":
		return erpc.NewStatus(563, "veto at PreWriteReply", "H-cause")
	case "panic-prewrite":
		panic("H-panic in PreWriteReply")
	}
	return nil
}

func (hplug) PostWriteReply(ctx erpc.WriteCtx) *erpc.Status {
	hLog(ctx, "PostWriteReply")
	return nil
}

func (hplug) PostReadPushHeader(ctx erpc.ReadCtx) *erpc.Status {
	hBegin(ctx, string(ctx.PeekMeta("Tk")), kindOf(ctx))
	hLog(ctx, "PostReadPushHeader")
	return nil
}

func (hplug) PreReadPushBody(ctx erpc.ReadCtx) *erpc.Status {
	hLog(ctx, "PreReadPushBody")
	return nil
}

func (hplug) PostReadPushBody(ctx erpc.ReadCtx) *erpc.Status {
	hLog(ctx, "PostReadPushBody")
	return nil
}

// cplug marks the contexts a client peer uses for handling replies.
type cplug struct{}

func (cplug) Name() string { return "c20-history-client" }

func (cplug) PostReadReplyHeader(ctx erpc.ReadCtx) *erpc.Status {
	hBegin(ctx, "", "client-reply")
	return nil
}

// HCall is the call handler of the history part.
func HCall(ctx erpc.CallCtx, arg *[]byte) ([]byte, *erpc.Status) {
	hLog(ctx, "handler")
	switch kindOf(ctx) {
	case "err":
		return nil, erpc.NewStatus(555, "handler error", "H-cause")
	case "panic-handler":
		panic("H-panic in the handler")
	}
	ctx.SetMeta("H-Ok", "1")
	return append([]byte("R:"), (*arg)...), nil
}

// HPush is the push handler of the history part.
func HPush(ctx erpc.PushCtx, arg *[]byte) *erpc.Status {
	hLog(ctx, "push-handler")
	if kindOf(ctx) == "push-panic" {
		panic("H-panic in the push handler")
	}
	return nil
}

// ---------- a scripted connection to a server peer ----------

type histEnv struct {
	p      protos.P
	peer   erpc.Peer
	sess   erpc.Session
	ca, cb *memconn.Conn
	tb     *tap
	off    int
	seq    int32
	callR  string
	pushR  string
	name   string
}

func newHistEnv(p protos.P, name string) (*histEnv, error) {
	e := &histEnv{p: p, tb: &tap{}, name: name}
	e.peer = erpc.NewPeer(erpc.PeerConfig{}, hplug{})
	e.callR = e.peer.RouteCallFunc(HCall)
	if p.Push {
		e.pushR = e.peer.RoutePushFunc(HPush)
	}
	e.ca, e.cb = memconn.NewPair()
	e.cb.SetWriteTap(e.tb.write)
	sess, stat := e.peer.ServeConn(e.cb, p.Func)
	if !stat.OK() {
		return nil, fmt.Errorf("ServeConn: %s", stat.String())
	}
	e.sess = sess
	return e, nil
}

func (e *histEnv) close() {
	e.ca.Close()
	e.peer.Close()
}

// outcome of one request.
type outcome struct {
	Frames []string `json:"frames"`
	Hooks  string   `json:"hooks"`
	Up     bool     `json:"session_up"`
}

func (o outcome) String() string {
	return fmt.Sprintf("frames=%d %v hooks=[%s] up=%v", len(o.Frames), o.Frames, o.Hooks, o.Up)
}

var histBody = []byte("history body: the same bytes in every request of the history part")

// settle waits until the process is quiescent.
func settle() bool {
	q := quiesce.Wait(quiesce.Options{Samples: 2, Interval: 2 * time.Millisecond, Timeout: 10 * time.Second, Self: "main.settle"})
	return q.Quiescent
}

// do sends one scripted request of the kind and returns what happened.
func (e *histEnv) do(kind, tk string) (out outcome, prev string, err error) {
	e.seq++
	s := wire.Spec{Seq: e.seq, Mtype: erpc.TypeCall, Method: e.callR, Codec: codec.ID_PLAIN, Body: histBody, Meta: []wire.KV{{K: "Tk", V: tk}, {K: "K", V: kind}}}
	switch {
	case isPushKind(kind):
		s.Mtype = erpc.TypePush
		s.Method = e.pushR
	case kind == "unknown":
		s.Method = "/no/such/route"
	}
	m, berr := wire.Build(s, e.p)
	if berr != nil {
		return out, "", berr
	}
	var w bytes.Buffer
	if perr := e.p.Func(wire.RW{Reader: bytes.NewReader(nil), Writer: &w}).Pack(m); perr != nil {
		return out, "", perr
	}
	e.tb.take(&e.off)
	if _, werr := e.ca.Write(w.Bytes()); werr != nil {
		return out, "", werr
	}
	// the request is over when nothing in the process can move any more
	if !bed.WaitUntil(10*time.Second, func() bool { hMu.Lock(); defer hMu.Unlock(); return hSeenReq[tk] || e.cb.IsClosed() }) {
		return out, "", fmt.Errorf("the request never reached the header hook")
	}
	if !settle() {
		return out, "", fmt.Errorf("the process did not become quiescent within the watchdog")
	}
	rb := e.tb.take(&e.off)
	if len(rb) > 0 {
		pr := e.p.Func(wire.RW{Reader: bytes.NewReader(rb), Writer: io.Discard})
		rd := 0
		for i := 0; i < 8; i++ {
			rm := wire.NewReceiver(e.p)
			var uerr error
			func() {
				defer func() {
					if x := recover(); x != nil {
						uerr = fmt.Errorf("PANIC: %v", x)
					}
				}()
				uerr = pr.Unpack(rm)
			}()
			if uerr != nil {
				if i == 0 {
					out.Frames = append(out.Frames, fmt.Sprintf("unreadable (%d bytes): %v", len(rb), uerr))
				}
				break
			}
			rd++
			sp := wire.Extract(rm, e.p)
			meta := sp.Meta
			if e.p.HTTP {
				meta = nil
				for _, kv := range sp.Meta {
					if strings.HasPrefix(kv.K, "H-") || strings.HasPrefix(kv.K, "D-") {
						meta = append(meta, kv)
					}
				}
			}
			out.Frames = append(out.Frames, fmt.Sprintf("mtype=%d seq-of-request=%v status=%s meta=%q codec=%d body=%q pipe=%q",
				sp.Mtype, sp.Seq == e.seq, statStr(sp.Stat), meta, sp.Codec, sp.Body, sp.Pipe))
		}
	}
	hMu.Lock()
	out.Hooks = strings.Join(hHooks[tk], ">")
	prev = hPrev[tk]
	delete(hHooks, tk)
	delete(hPrev, tk)
	delete(hSeenReq, tk)
	hMu.Unlock()
	out.Up = e.sess.Health()
	return out, prev, nil
}

// ---------- references from never-used contexts ----------

var histRefs = map[string]outcome{} // proto/kind -> outcome on a context that was never used

func histRef(p protos.P, kind string) (outcome, error) {
	key := p.Name + "/" + kind
	if o, ok := histRefs[key]; ok {
		return o, nil
	}
	for attempt := 0; attempt < 3; attempt++ {
		// empty the pool: its objects survive one GC cycle in the victim cache
		runtime.GC()
		runtime.GC()
		e, err := newHistEnv(p, "ref")
		if err != nil {
			return outcome{}, err
		}
		o, prev, derr := e.do(kind, fmt.Sprintf("ref-%s-%s-%d", p.Name, kind, attempt))
		e.close()
		settle()
		if derr != nil {
			return outcome{}, derr
		}
		core.Add("ctxhist_reference_requests", 1)
		if prev == "<fresh>" {
			histRefs[key] = o
			core.Add("ctxhist_references_on_never_used_contexts", 1)
			return o, nil
		}
	}
	return outcome{}, fmt.Errorf("no never-used context could be obtained for the reference")
}

// ---------- one case ----------

func runCtxHist(it Item) {
	id := fmt.Sprintf("i%05d", it.Idx)
	p := protos.ByName(it.Proto)
	hist := it.Ops[0]
	desc := map[string]interface{}{"class": "ctxhist", "item": it, "history": hist, "rerun": map[string]interface{}{"idx": it.Idx, "seed": *seed, "tier": *tier}}
	core.Begin(id, desc)
	kinds := []string{}
	for _, k := range nextKinds {
		if isPushKind(k) && !p.Push {
			continue
		}
		kinds = append(kinds, k)
	}
	incon := func(what string) {
		core.Add("ctxhist_cases_inconclusive", 1)
		core.Result(core.R{ID: id, Verdict: core.Inconclusive, What: it.Proto + ": " + what})
	}
	// references first (they empty the pool)
	need := append([]string{}, kinds...)
	if hist != "client-reply" {
		need = append(need, hist)
	}
	refs := map[string]outcome{}
	for _, k := range need {
		o, err := histRef(p, k)
		if err != nil {
			incon(fmt.Sprintf("reference for %s: %v", k, err))
			return
		}
		refs[k] = o
	}
	e, err := newHistEnv(p, "hist")
	if err != nil {
		incon(err.Error())
		return
	}
	defer func() { e.close() }()
	// for the client-side history: a real client peer whose reply handling uses pooled contexts
	var real *bed.Link
	var pa, pbr erpc.Peer
	var realRoute string
	if hist == "client-reply" {
		pa = erpc.NewPeer(erpc.PeerConfig{}, cplug{})
		pbr = erpc.NewPeer(erpc.PeerConfig{}, hplug{})
		realRoute = pbr.RouteCallFunc(HCall)
		real, err = bed.Connect(pa, pbr, p.Func, p.Func, nil)
		if err != nil {
			incon("connect: " + err.Error())
			return
		}
		defer pa.Close()
		defer pbr.Close()
	}
	type viol struct {
		fp, what string
		w        interface{}
	}
	var viols []viol
	seenFP := map[string]bool{}
	n := 0
	pairs := 0
	request := func(kind string) bool {
		n++
		tk := fmt.Sprintf("%s-%d", id, n)
		o, prev, derr := e.do(kind, tk)
		if derr != nil {
			incon(fmt.Sprintf("request %d (%s): %v", n, kind, derr))
			return false
		}
		core.Add("evaluations", 1)
		core.Add("ctxhist_requests", 1)
		if prev == "" {
			prev = "<unobserved>"
		}
		if prev != "<fresh>" {
			pairs++
			core.Add("ctxhist_requests_on_recycled_contexts", 1)
			core.Distinct("ctx_history_pairs", prev+"->"+kind)
			core.Distinct("nontrivial", fmt.Sprintf("ctxhist/%s/%s->%s", it.Proto, prev, kind))
		}
		ref := refs[kind]
		sym := ""
		switch {
		case len(o.Frames) != len(ref.Frames):
			sym = "frames-differ"
		case strings.Join(o.Frames, "|") != strings.Join(ref.Frames, "|"):
			sym = "reply-differs"
		case o.Hooks != ref.Hooks:
			sym = "hooks-differ"
		case o.Up != ref.Up:
			sym = "session-differs"
		}
		if sym != "" {
			fp := fmt.Sprintf("C20/ctx/next-use-%s/%s-after-%s", kind, sym, prev)
			if !seenFP[fp] {
				seenFP[fp] = true
				viols = append(viols, viol{fp, fmt.Sprintf("%s: a %s request served by a context whose previous use was %s: %s; a never-used context: %s", it.Proto, kind, prev, o, ref),
					map[string]interface{}{"proto": it.Proto, "kind": kind, "previous_use": prev, "recycled": o, "never_used": ref}})
			}
		}
		if !o.Up {
			// continue on a new connection of the same peer process state
			e.close()
			ne, nerr := newHistEnv(p, "hist")
			if nerr != nil {
				incon(nerr.Error())
				return false
			}
			e = ne
		}
		return true
	}
	history := func() bool {
		if hist == "client-reply" {
			for i := 0; i < 2; i++ {
				var res []byte
				ch := make(chan erpc.CallCmd, 1)
				real.A.AsyncCall(realRoute, histBody, &res, ch, erpc.WithBodyCodec(codec.ID_PLAIN), erpc.WithSetMeta("K", "ok"))
				if !await(ch) {
					incon("a call between real peers did not complete within the watchdog")
					return false
				}
			}
			settle()
			return true
		}
		return request(hist) && request(hist)
	}
	ok := true
	for _, k := range kinds {
		if ok = history(); !ok {
			break
		}
		if ok = request(k) && request(k); !ok {
			break
		}
	}
	if !ok {
		return // reported inconclusive
	}
	if len(viols) > 0 {
		for i, v := range viols {
			rid := id
			if i > 0 {
				rid = fmt.Sprintf("%s#%d", id, i)
				core.Begin(rid, desc)
			}
			core.Result(core.R{ID: rid, Verdict: core.Violated, FP: v.fp, What: v.what, Witness: v.w, Desc: desc})
		}
		return
	}
	if pairs == 0 {
		incon("no request of this case was served by a context that had been used before")
		return
	}
	core.Result(core.R{ID: id, Verdict: core.Held, Nontrivial: true, Sig: fmt.Sprintf("ctxhist/%s/%s", it.Proto, hist)})
	if it.Idx%29 == 0 {
		core.Sample(map[string]interface{}{"part": "ctxhist", "proto": it.Proto, "history": hist, "requests": n, "on_recycled_contexts": pairs})
	}
}
