package main

// Object part of C20: differential testing of pooled objects against fresh ones.
//
// A "program" is a list of labelled operations with their own seeds, so the same program applies
// the same values to any object. For every pair (dirty program, next-user program):
//   obj := acquire(); apply(dirty, obj); release(obj); re-acquire until the same pointer returns;
//   compare all public getters with a fresh object's; apply(next) to both; compare getters again and,
//   for messages, the bytes produced by packing both with the raw protocol.

import (
	"bytes"
	"context"
	"fmt"
	"io"
	"runtime"
	"runtime/debug"
	"sort"
	"strings"
	"time"

	"github.com/henrylee2cn/erpc/v6/codec"
	"github.com/henrylee2cn/erpc/v6/socket"
	"github.com/henrylee2cn/erpc/v6/utils"
	"github.com/henrylee2cn/erpc/v6/xfer"
	"github.com/henrylee2cn/goutil"

	"verifharness/core"
	"verifharness/memconn"
	"verifharness/wire"
)

// Op is one labelled operation of a program.
type Op struct {
	Name string `json:"op"`
	Seed int64  `json:"seed"`
}

func opNames(p []Op) []string {
	out := make([]string, len(p))
	for i, o := range p {
		out[i] = o.Name
	}
	return out
}

func classOf(p []Op) string {
	set := map[string]bool{}
	for _, o := range p {
		set[o.Name] = true
	}
	l := make([]string, 0, len(set))
	for k := range set {
		l = append(l, k)
	}
	sort.Strings(l)
	return strings.Join(l, "+")
}

// KV is one observable of an object.
type KV struct{ K, V string }

// Diff is the first difference between a recycled object and a fresh one.
type Diff struct {
	Field   string `json:"field"`
	Symptom string `json:"symptom"` // differs-after-acquire | differs-after-next-use | packed-bytes-differ
	Got     string `json:"recycled"`
	Want    string `json:"fresh"`
}

func cmpSnap(a, b []KV, symptom string) *Diff {
	for i := range a {
		if i >= len(b) || a[i] != b[i] {
			w := "<absent>"
			if i < len(b) {
				w = b[i].V
			}
			return &Diff{Field: a[i].K, Symptom: symptom, Got: clip(a[i].V), Want: clip(w)}
		}
	}
	return nil
}

func clip(s string) string {
	if len(s) > 200 {
		return s[:200] + fmt.Sprintf("...(%d bytes)", len(s))
	}
	return s
}

// objType is one pooled type under test.
type objType interface {
	name() string
	vocabulary() []string
	// trial runs one (dirty, next) pair; recycled tells whether the same pointer came back.
	trial(dirty, next []Op, acq int64) (d *Diff, recycled bool)
}

func genProgram(r *core.Rand, vocab []string, maxLen int) []Op {
	n := 1 + r.Intn(maxLen)
	switch r.Intn(8) {
	case 0:
		n = 1
	case 1:
		n = maxLen + r.Intn(maxLen)
	}
	p := make([]Op, n)
	for i := range p {
		p[i] = Op{Name: vocab[r.Intn(len(vocab))], Seed: int64(r.Uint64() >> 2)}
	}
	return p
}

const dirtyCtxKey = ctxKey("c20-dirty")

type ctxKey string

var strVocab = []string{"", "a", "b", "k1", "x y", "é中", "&=%+", "D-leak", "/svc/method", strings.Repeat("L", 300)}

func pickStr(r *core.Rand) string {
	if r.Intn(5) == 0 {
		return fmt.Sprintf("s%x", r.Uint64()&0xffff)
	}
	return strVocab[r.Intn(len(strVocab))]
}

var keyVocab = []string{"a", "b", "k1", "x y", "é", "&=%", "D-leak", ""}

func pickKey(r *core.Rand) string { return keyVocab[r.Intn(len(keyVocab))] }

// ---------------------------------------------------------------- Message

type msgType struct{}

func (msgType) name() string { return "message" }

var msgVocab = []string{"seq", "mtype", "method", "status-set", "status-autoinit", "status-nil", "meta-add", "meta-set", "meta-del", "meta-parse",
	"meta-bytes", "codec", "body-bytes", "body-ptr", "body-struct", "body-nil", "newbody", "pipe-append", "pipe-long", "pipe-bad", "pipe-overflow",
	"size", "size-toobig", "context", "unmarshal", "pack", "unpack", "reset-settings", "string"}

func (msgType) vocabulary() []string { return msgVocab }

type bodyStruct struct {
	A int    `json:"a"`
	S string `json:"s"`
}

var cannedFrame []byte

func init() {
	// a frame with every field set, for the "unpack" operation
	m := socket.NewMessage()
	m.SetSeq(77)
	m.SetMtype(2)
	m.SetServiceMethod("/canned/frame")
	m.SetStatus(socket.NewStatus(321, "canned", "cause"))
	m.Meta().Add("D-canned", "1")
	m.Meta().Add("D-canned", "2")
	m.SetBodyCodec(codec.ID_JSON)
	m.SetBody([]byte(`{"a":1,"s":"canned"}`))
	var w bytes.Buffer
	if err := socket.RawProtoFunc(wire.RW{Reader: bytes.NewReader(nil), Writer: &w}).Pack(m); err != nil {
		panic(err)
	}
	cannedFrame = w.Bytes()
}

func applyMsg(m socket.Message, o Op) {
	r := core.NewRand(o.Seed)
	defer func() { recover() }() // WithXferPipe panics on unregistered ids by contract
	switch o.Name {
	case "seq":
		m.SetSeq([]int32{0, 1, -1, 1<<31 - 1, -1 << 31, int32(r.Uint64())}[r.Intn(6)])
	case "mtype":
		m.SetMtype(byte(r.Intn(256)))
	case "method":
		m.SetServiceMethod(pickStr(r))
	case "status-set":
		m.SetStatus(socket.NewStatus(int32(1+r.Intn(900)), pickStr(r), pickStr(r)))
	case "status-autoinit":
		st := m.Status(true)
		if r.Intn(2) == 0 {
			st.SetCode(int32(1 + r.Intn(900))).SetMsg(pickStr(r))
		}
	case "status-nil":
		m.SetStatus(nil)
	case "meta-add":
		for i := 0; i <= r.Intn(3); i++ {
			m.Meta().Add(pickKey(r), pickStr(r))
		}
	case "meta-set":
		m.Meta().Set(pickKey(r), pickStr(r))
	case "meta-del":
		m.Meta().Del(pickKey(r))
	case "meta-parse":
		m.Meta().Parse([]string{"a=1&b=2", "D-leak=x&D-leak=y&k1", "", "&&=&a", "x+y=%C3%A9&%zz=1", strings.Repeat("k=v&", 40)}[r.Intn(6)])
	case "meta-bytes":
		m.Meta().SetBytesKV([]byte(pickKey(r)), []byte(pickStr(r)))
		m.Meta().AddBytesKV([]byte(pickKey(r)), []byte(pickStr(r)))
	case "codec":
		m.SetBodyCodec([]byte{codec.ID_JSON, codec.ID_FORM, codec.ID_PLAIN, codec.ID_XML, 0, 1, 200, 255}[r.Intn(8)])
	case "body-bytes":
		m.SetBody(r.Bytes(r.Intn(64)))
	case "body-ptr":
		b := []byte(pickStr(r))
		m.SetBody(&b)
	case "body-struct":
		m.SetBody(&bodyStruct{A: r.Intn(100), S: pickStr(r)})
	case "body-nil":
		m.SetBody(nil)
	case "newbody":
		s := pickStr(r)
		m.SetNewBody(func(socket.Header) interface{} { b := []byte("newbody:" + s); return &b })
	case "pipe-append":
		ids := []byte{wire.FGzip1, wire.FGzip9, wire.FMd5}
		for i := 0; i <= r.Intn(3); i++ {
			m.XferPipe().Append(ids[r.Intn(3)])
		}
	case "pipe-long":
		m.XferPipe().Append(bytes.Repeat([]byte{wire.FMd5}, 100+r.Intn(100))...)
	case "pipe-bad":
		m.XferPipe().Append(wire.FMd5, byte(1+r.Intn(60)), wire.FGzip1)
	case "pipe-overflow":
		m.XferPipe().Append(bytes.Repeat([]byte{wire.FMd5}, 256)...)
	case "size":
		m.SetSize(uint32(r.Intn(1 << 20)))
	case "size-toobig":
		m.SetSize(1<<32 - 1)
	case "context":
		socket.WithContext(context.WithValue(context.Background(), dirtyCtxKey, pickStr(r)+"!"))(m)
	case "unmarshal":
		m.UnmarshalBody([]byte(`{"a":5,"s":"um"}`))
	case "pack":
		socket.RawProtoFunc(wire.RW{Reader: bytes.NewReader(nil), Writer: io.Discard}).Pack(m)
	case "unpack":
		socket.RawProtoFunc(wire.RW{Reader: bytes.NewReader(cannedFrame), Writer: io.Discard}).Unpack(m)
	case "reset-settings":
		m.Reset(socket.WithServiceMethod(pickStr(r)), socket.WithAddMeta(pickKey(r), pickStr(r)), socket.WithBodyCodec(codec.ID_XML), socket.WithXferPipe(wire.FMd5))
	case "string":
		_ = m.String()
	default:
		panic("message op " + o.Name)
	}
}

func bodyStr(b interface{}) string {
	switch x := b.(type) {
	case nil:
		return "<nil>"
	case []byte:
		return fmt.Sprintf("[]byte:%q", x)
	case *[]byte:
		if x == nil {
			return "*[]byte:<nil>"
		}
		return fmt.Sprintf("*[]byte:%q", *x)
	case *bodyStruct:
		return fmt.Sprintf("*bodyStruct:%+v", *x)
	}
	return fmt.Sprintf("%T:%+v", b, b)
}

func argsSnap(prefix string, a *utils.Args) []KV {
	var out []KV
	out = append(out, KV{prefix + ".Len", fmt.Sprint(a.Len())})
	out = append(out, KV{prefix + ".QueryString", string(a.QueryString())})
	out = append(out, KV{prefix + ".String", a.String()})
	var vis []string
	a.VisitAll(func(k, v []byte) { vis = append(vis, fmt.Sprintf("%q=%q", k, v)) })
	out = append(out, KV{prefix + ".VisitAll", strings.Join(vis, ",")})
	for _, k := range keyVocab {
		out = append(out, KV{prefix + ".Peek(" + k + ")", fmt.Sprintf("%q/%v", a.Peek(k), a.Has(k))})
		out = append(out, KV{prefix + ".PeekMulti(" + k + ")", fmt.Sprintf("%q", a.PeekMulti(k))})
	}
	out = append(out, KV{prefix + ".PeekBytes", fmt.Sprintf("%q/%v", a.PeekBytes([]byte("D-leak")), a.HasBytes([]byte("D-leak")))})
	n, err := a.GetUint("k1")
	out = append(out, KV{prefix + ".GetUint", fmt.Sprintf("%d/%v", n, err)})
	f, err := a.GetUfloat("a")
	out = append(out, KV{prefix + ".GetUfloat", fmt.Sprintf("%v/%v", f, err)})
	out = append(out, KV{prefix + ".GetBool", fmt.Sprint(a.GetBool("b"), a.GetUintOrZero("b"), a.GetUfloatOrZero("b"))})
	var w bytes.Buffer
	a.WriteTo(&w)
	out = append(out, KV{prefix + ".WriteTo", w.String()})
	out = append(out, KV{prefix + ".AppendBytes", string(a.AppendBytes([]byte("pre:")))})
	return out
}

func pipeSnap(prefix string, x *xfer.XferPipe) []KV {
	var rng []string
	x.Range(func(i int, f xfer.XferFilter) bool { rng = append(rng, fmt.Sprintf("%d:%c", i, f.ID())); return true })
	return []KV{{prefix + ".Len", fmt.Sprint(x.Len())}, {prefix + ".IDs", fmt.Sprintf("%q", x.IDs())},
		{prefix + ".Names", strings.Join(x.Names(), ",")}, {prefix + ".Range", strings.Join(rng, ",")}}
}

func statusStr(st *socket.Status) string {
	if st == nil {
		return "<nil>"
	}
	c := ""
	if st.Cause() != nil {
		c = st.Cause().Error()
	}
	return fmt.Sprintf("%d/%q/%q", st.Code(), st.Msg(), c)
}

func ctxStr(c context.Context) string {
	if c == context.Background() {
		return "background"
	}
	return fmt.Sprintf("%v value=%v", c, c.Value(dirtyCtxKey))
}

func msgSnap(m socket.Message) []KV {
	out := []KV{
		{"Seq", fmt.Sprint(m.Seq())},
		{"Mtype", fmt.Sprint(m.Mtype())},
		{"ServiceMethod", fmt.Sprintf("%q", m.ServiceMethod())},
		{"StatusOK", fmt.Sprint(m.StatusOK())},
		{"Status", statusStr(m.Status())},
	}
	out = append(out, argsSnap("Meta", m.Meta())...)
	out = append(out, KV{"BodyCodec", fmt.Sprint(m.BodyCodec())}, KV{"Body", bodyStr(m.Body())})
	out = append(out, pipeSnap("XferPipe", m.XferPipe())...)
	out = append(out, KV{"Size", fmt.Sprint(m.Size())}, KV{"Context", ctxStr(m.Context())})
	out = append(out, KV{"AsHeader.Seq", fmt.Sprint(m.AsHeader().Seq())}, KV{"AsBody.BodyCodec", fmt.Sprint(m.AsBody().BodyCodec())})
	func() {
		defer func() {
			if p := recover(); p != nil {
				out = append(out, KV{"String", fmt.Sprintf("PANIC %v", p)})
			}
		}()
		out = append(out, KV{"String", m.String()})
	}()
	b, err := m.MarshalBody()
	out = append(out, KV{"MarshalBody", fmt.Sprintf("%q/%v", b, err)})
	// the body factory is only observable through UnmarshalBody with no body set
	if m.Body() == nil {
		err := m.UnmarshalBody([]byte("probe"))
		out = append(out, KV{"NewBodyFunc", fmt.Sprintf("%s/%v", bodyStr(m.Body()), err)})
	}
	return out
}

func packRaw(m socket.Message) string {
	var w bytes.Buffer
	err := func() (err error) {
		defer func() {
			if p := recover(); p != nil {
				err = fmt.Errorf("PANIC %v", p)
			}
		}()
		return socket.RawProtoFunc(wire.RW{Reader: bytes.NewReader(nil), Writer: &w}).Pack(m)
	}()
	return fmt.Sprintf("%q/err=%v/size=%d", w.Bytes(), err, m.Size())
}

func msgSettings(seed int64) []socket.MessageSetting {
	if seed%3 != 0 {
		return nil
	}
	r := core.NewRand(seed)
	all := []socket.MessageSetting{socket.WithServiceMethod(pickStr(r)), socket.WithSetMeta(pickKey(r), pickStr(r)), socket.WithAddMeta(pickKey(r), pickStr(r)),
		socket.WithBodyCodec(codec.ID_JSON), socket.WithBody([]byte(pickStr(r))), socket.WithXferPipe(wire.FGzip1), socket.WithDelMeta("a"),
		socket.WithNothing(), socket.WithStatus(socket.NewStatus(5, "five", nil)), nil}
	var out []socket.MessageSetting
	for _, s := range all {
		if r.Intn(2) == 0 {
			out = append(out, s)
		}
	}
	return out
}

func (msgType) trial(dirty, next []Op, acq int64) (*Diff, bool) {
	m := socket.GetMessage()
	for _, o := range dirty {
		applyMsg(m, o)
	}
	socket.PutMessage(m)
	var rec socket.Message
	var aside []socket.Message
	// acquisition without settings first (identity), then the settings are applied the way GetMessage /
	// NewMessage apply them; a setting that panics on the recycled object only is a difference
	for i := 0; i < 16; i++ {
		g := socket.GetMessage()
		if g == m {
			rec = g
			break
		}
		aside = append(aside, g)
	}
	_ = aside
	if rec == nil {
		return nil, false
	}
	fresh := socket.NewMessage()
	setAll := func(x socket.Message) (res string) {
		defer func() {
			if p := recover(); p != nil {
				res = fmt.Sprintf("PANIC: %v", p)
			}
		}()
		for _, fn := range msgSettings(acq) {
			if fn != nil {
				fn(x)
			}
		}
		return "ok"
	}
	if a, b := setAll(rec), setAll(fresh); a != b {
		return &Diff{Field: "acquire-with-settings", Symptom: "differs-after-acquire", Got: a, Want: b}, true
	}
	if d := cmpSnap(msgSnap(rec), msgSnap(fresh), "differs-after-acquire"); d != nil {
		return d, true
	}
	for _, o := range next {
		applyMsg(rec, o)
		applyMsg(fresh, o)
	}
	if d := cmpSnap(msgSnap(rec), msgSnap(fresh), "differs-after-next-use"); d != nil {
		return d, true
	}
	if a, b := packRaw(rec), packRaw(fresh); a != b {
		return &Diff{Field: "packed-frame", Symptom: "packed-bytes-differ", Got: clip(a), Want: clip(b)}, true
	}
	socket.PutMessage(rec)
	return nil, true
}

// ---------------------------------------------------------------- Args

type argsType struct{}

func (argsType) name() string { return "args" }

var argsVocab = []string{"add", "set", "del", "delbytes", "parse", "parsebytes", "addbytes", "setbytes", "setuint", "reset", "copyto-out", "copyto-in", "querystring", "many"}

func (argsType) vocabulary() []string { return argsVocab }

func applyArgs(a *utils.Args, o Op) {
	r := core.NewRand(o.Seed)
	switch o.Name {
	case "add":
		a.Add(pickKey(r), pickStr(r))
	case "set":
		a.Set(pickKey(r), pickStr(r))
	case "del":
		a.Del(pickKey(r))
	case "delbytes":
		a.DelBytes([]byte(pickKey(r)))
	case "parse":
		a.Parse([]string{"a=1&b=2", "D-leak=x&D-leak=y&k1", "", "&&=&a", "x+y=%C3%A9&%zz=1", "k1=42&a=1.5&b=yes", strings.Repeat("k=v&", 40)}[r.Intn(7)])
	case "parsebytes":
		a.ParseBytes([]byte([]string{"a=1&b=2", "k1&k1=&=v", "D-leak", "a=%41%42&b=+"}[r.Intn(4)]))
	case "addbytes":
		a.AddBytesK([]byte(pickKey(r)), pickStr(r))
		a.AddBytesV(pickKey(r), []byte(pickStr(r)))
		a.AddBytesKV([]byte(pickKey(r)), []byte(pickStr(r)))
	case "setbytes":
		a.SetBytesK([]byte(pickKey(r)), pickStr(r))
		a.SetBytesV(pickKey(r), []byte(pickStr(r)))
		a.SetBytesKV([]byte(pickKey(r)), []byte(pickStr(r)))
	case "setuint":
		a.SetUint(pickKey(r), r.Intn(100000))
		a.SetUintBytes([]byte(pickKey(r)), r.Intn(10))
	case "reset":
		a.Reset()
	case "copyto-out":
		var dst utils.Args
		dst.Add("z", "z")
		a.CopyTo(&dst)
	case "copyto-in":
		var src utils.Args
		for i := 0; i <= r.Intn(4); i++ {
			src.Add(pickKey(r), pickStr(r))
		}
		src.CopyTo(a)
	case "querystring":
		_ = a.QueryString()
		_ = a.String()
	case "many":
		for i := 0; i < 20+r.Intn(40); i++ {
			a.Add(fmt.Sprintf("m%d", i), pickStr(r))
		}
	default:
		panic("args op " + o.Name)
	}
}

func (argsType) trial(dirty, next []Op, acq int64) (*Diff, bool) {
	a := utils.AcquireArgs()
	for _, o := range dirty {
		applyArgs(a, o)
	}
	utils.ReleaseArgs(a)
	var rec *utils.Args
	for i := 0; i < 16; i++ {
		g := utils.AcquireArgs()
		if g == a {
			rec = g
			break
		}
	}
	if rec == nil {
		return nil, false
	}
	fresh := new(utils.Args)
	if d := cmpSnap(argsSnap("Args", rec), argsSnap("Args", fresh), "differs-after-acquire"); d != nil {
		return d, true
	}
	for _, o := range next {
		applyArgs(rec, o)
		applyArgs(fresh, o)
	}
	if d := cmpSnap(argsSnap("Args", rec), argsSnap("Args", fresh), "differs-after-next-use"); d != nil {
		return d, true
	}
	// a copy taken from the recycled container must equal a copy taken from the fresh one
	var c1, c2 utils.Args
	rec.CopyTo(&c1)
	fresh.CopyTo(&c2)
	if d := cmpSnap(argsSnap("Args.CopyTo", &c1), argsSnap("Args.CopyTo", &c2), "differs-after-next-use"); d != nil {
		return d, true
	}
	utils.ReleaseArgs(rec)
	return nil, true
}

// ---------------------------------------------------------------- ByteBuffer

type bbType struct{}

func (bbType) name() string { return "bytebuffer" }

var bbVocab = []string{"write", "writebyte", "writestring", "set", "setstring", "reset", "readfrom", "changelen-fill", "big"}

func (bbType) vocabulary() []string { return bbVocab }

func applyBB(b *utils.ByteBuffer, o Op) {
	r := core.NewRand(o.Seed)
	switch o.Name {
	case "write":
		b.Write(r.Bytes(r.Intn(100)))
	case "writebyte":
		b.WriteByte(byte(r.Intn(256)))
	case "writestring":
		b.WriteString(pickStr(r))
	case "set":
		b.Set(r.Bytes(r.Intn(50)))
	case "setstring":
		b.SetString(pickStr(r))
	case "reset":
		b.Reset()
	case "readfrom":
		b.ReadFrom(bytes.NewReader(r.Bytes(r.Intn(300))))
	case "changelen-fill":
		// ChangeLen only promises the length; the exposed bytes are then written by the user (as the protocols do)
		n := r.Intn(200)
		b.ChangeLen(n)
		fill := r.Bytes(n)
		if r.Intn(4) == 0 && n > 0 {
			changeLenStale(b.B)
		}
		copy(b.B, fill)
	case "big":
		b.Write(r.Bytes(5000 + r.Intn(5000)))
	default:
		panic("bytebuffer op " + o.Name)
	}
}

// changeLenStale records (as an observation, not a verdict) whether ChangeLen exposed non-zero bytes.
var changeLenStaleSeen int64

func changeLenStale(b []byte) {
	for _, c := range b {
		if c != 0 {
			changeLenStaleSeen++
			return
		}
	}
}

func bbSnap(b *utils.ByteBuffer) []KV {
	return []KV{{"Len", fmt.Sprint(b.Len())}, {"Bytes", fmt.Sprintf("%q", b.Bytes())}, {"String", fmt.Sprintf("%q", b.String())}, {"B", fmt.Sprintf("%q", b.B)}}
}

func (bbType) trial(dirty, next []Op, acq int64) (*Diff, bool) {
	b := utils.AcquireByteBuffer()
	for _, o := range dirty {
		applyBB(b, o)
	}
	utils.ReleaseByteBuffer(b)
	var rec *utils.ByteBuffer
	for i := 0; i < 16; i++ {
		g := utils.AcquireByteBuffer()
		if g == b {
			rec = g
			break
		}
	}
	if rec == nil {
		return nil, false
	}
	fresh := &utils.ByteBuffer{}
	if d := cmpSnap(bbSnap(rec), bbSnap(fresh), "differs-after-acquire"); d != nil {
		return d, true
	}
	for _, o := range next {
		applyBB(rec, o)
		applyBB(fresh, o)
	}
	if d := cmpSnap(bbSnap(rec), bbSnap(fresh), "differs-after-next-use"); d != nil {
		return d, true
	}
	utils.ReleaseByteBuffer(rec)
	return nil, true
}

// ---------------------------------------------------------------- XferPipe (Reset)

type pipeType struct{}

func (pipeType) name() string { return "xferpipe" }

var pipeVocab = []string{"append", "append-long", "append-bad", "overflow", "appendfrom", "reset", "use"}

func (pipeType) vocabulary() []string { return pipeVocab }

func applyPipe(x *xfer.XferPipe, o Op) {
	r := core.NewRand(o.Seed)
	ids := []byte{wire.FGzip1, wire.FGzip9, wire.FMd5}
	switch o.Name {
	case "append":
		for i := 0; i <= r.Intn(3); i++ {
			x.Append(ids[r.Intn(3)])
		}
	case "append-long":
		x.Append(bytes.Repeat([]byte{wire.FMd5}, 100+r.Intn(150))...)
	case "append-bad":
		x.Append(ids[r.Intn(3)], byte(1+r.Intn(60)), ids[r.Intn(3)])
	case "overflow":
		x.Append(bytes.Repeat([]byte{ids[r.Intn(3)]}, 256)...)
	case "appendfrom":
		y := xfer.NewXferPipe()
		y.Append(ids[r.Intn(3)], ids[r.Intn(3)])
		x.AppendFrom(y)
	case "reset":
		x.Reset()
	case "use":
		if x.Len() <= 8 {
			func() {
				defer func() { recover() }()
				p, err := x.OnPack([]byte("payload"))
				if err == nil {
					x.OnUnpack(p)
				}
			}()
		}
	default:
		panic("xferpipe op " + o.Name)
	}
}

func pipeFullSnap(x *xfer.XferPipe) []KV {
	out := pipeSnap("XferPipe", x)
	if x.Len() <= 8 {
		func() {
			defer func() {
				if p := recover(); p != nil {
					out = append(out, KV{"OnPack/OnUnpack", fmt.Sprintf("PANIC: %v", p)})
				}
			}()
			p, err := x.OnPack([]byte("the payload the payload the payload"))
			out = append(out, KV{"OnPack", fmt.Sprintf("%q/%v", p, err)})
			if err == nil {
				u, err := x.OnUnpack(append([]byte(nil), p...))
				out = append(out, KV{"OnUnpack", fmt.Sprintf("%q/%v", u, err)})
			}
		}()
	}
	return out
}

func (pipeType) trial(dirty, next []Op, acq int64) (*Diff, bool) {
	x := xfer.NewXferPipe()
	for _, o := range dirty {
		applyPipe(x, o)
	}
	x.Reset()
	fresh := xfer.NewXferPipe()
	if d := cmpSnap(pipeFullSnap(x), pipeFullSnap(fresh), "differs-after-acquire"); d != nil {
		return d, true
	}
	for _, o := range next {
		applyPipe(x, o)
		applyPipe(fresh, o)
	}
	if d := cmpSnap(pipeFullSnap(x), pipeFullSnap(fresh), "differs-after-next-use"); d != nil {
		return d, true
	}
	return nil, true
}

// ---------------------------------------------------------------- Socket

type sockType struct{}

func (sockType) name() string { return "socket" }

var sockVocab = []string{"setid", "swap-store", "swap-replace", "write-message", "read-message-leftover", "read-partial", "deadline", "reset-conn", "unread-garbage"}

func (sockType) vocabulary() []string { return sockVocab }

// sockEnv is a socket under test with the far end of its connection.
type sockEnv struct {
	s    socket.Socket
	near *memconn.Conn
	far  *memconn.Conn
	// misaligned: the unread part of the stream does not start at a frame boundary (reading a message
	// from it would interpret arbitrary bytes as a frame length - that is C06's subject, not this one's)
	misaligned bool
}

func frameOf(seq int32, method, body string) []byte {
	m := socket.NewMessage()
	m.SetSeq(seq)
	m.SetMtype(1)
	m.SetServiceMethod(method)
	m.SetBodyCodec(codec.ID_PLAIN)
	m.SetBody([]byte(body))
	var w bytes.Buffer
	socket.RawProtoFunc(wire.RW{Reader: bytes.NewReader(nil), Writer: &w}).Pack(m)
	return w.Bytes()
}

// guarded runs a read on the socket; if the read is still pending after the only P was yielded
// thousands of times it is blocked on the connection (everything its peer wrote is already delivered:
// it wants bytes nobody will send). It is then released through an expired read deadline and the
// outcome says so. No clock takes part in the decision.
func guarded(e *sockEnv, f func() string) string {
	done := make(chan string, 1)
	go func() { done <- f() }()
	for i := 0; i < 4000; i++ {
		select {
		case s := <-done:
			return s
		default:
			runtime.Gosched()
		}
	}
	e.s.SetReadDeadline(time.Unix(1, 0))
	s := <-done
	e.s.SetReadDeadline(time.Time{})
	return "BLOCKED waiting for more bytes than were delivered; after release: " + s
}

func readMsg(s socket.Socket) string {
	m := socket.NewMessage()
	m.SetNewBody(func(socket.Header) interface{} { return new([]byte) })
	err := s.ReadMessage(m)
	return fmt.Sprintf("err=%v seq=%d method=%q body=%s meta=%q", err, m.Seq(), m.ServiceMethod(), bodyStr(m.Body()), m.Meta().QueryString())
}

func applySock(e *sockEnv, o Op, log *[]string) {
	r := core.NewRand(o.Seed)
	rec := func(f string, a ...interface{}) {
		if log != nil {
			*log = append(*log, o.Name+": "+fmt.Sprintf(f, a...))
		}
	}
	switch o.Name {
	case "setid":
		e.s.SetID(pickStr(r))
		rec("id=%q", normID(e))
	case "swap-store":
		e.s.Swap().Store("k"+fmt.Sprint(r.Intn(4)), pickStr(r))
		rec("swaplen=%d", e.s.SwapLen())
	case "swap-replace":
		nm := goutil.RwMap()
		nm.Store("replaced", pickStr(r))
		e.s.Swap(nm)
		rec("swaplen=%d", e.s.SwapLen())
	case "write-message":
		m := socket.NewMessage()
		m.SetSeq(int32(r.Intn(1000)))
		m.SetMtype(3)
		m.SetServiceMethod("/w/" + pickStr(r))
		m.SetBodyCodec(codec.ID_PLAIN)
		m.SetBody([]byte(pickStr(r)))
		before := e.far.Pending()
		err := e.s.WriteMessage(m)
		buf := make([]byte, e.far.Pending()-before)
		if len(buf) > 0 {
			io.ReadFull(e.far, buf)
		}
		rec("err=%v wire=%q", err, buf)
	case "read-message-leftover":
		// two frames and a bit arrive, one message is read: the rest stays in the socket's read buffer
		if e.misaligned {
			rec("skipped")
			return
		}
		e.misaligned = true
		e.far.Write(frameOf(int32(r.Intn(100)), "/first", "one"))
		e.far.Write(frameOf(int32(r.Intn(100)), "/D-leftover", "D-leftover-body"))
		e.far.Write([]byte("D-garbage"))
		rec("%s", guarded(e, func() string { return readMsg(e.s) }))
	case "read-partial":
		e.misaligned = true
		e.far.Write([]byte("D-partial-0123456789"))
		rec("%s", guarded(e, func() string {
			b := make([]byte, 3)
			n, err := e.s.Read(b)
			return fmt.Sprintf("n=%d err=%v %q", n, err, b[:n])
		}))
	case "unread-garbage":
		e.misaligned = true
		e.far.Write([]byte(strings.Repeat("D-unread", 200)))
	case "deadline":
		// no observable getter; part of the history only
		e.s.SetWriteDeadline(timeZero)
	case "reset-conn":
		a, b := memconn.NewPair()
		old := e.near
		e.s.Reset(a, socket.RawProtoFunc)
		old.Close()
		e.near, e.far = a, b
		e.misaligned = false
		rec("id=%q swaplen=%d", normID(e), e.s.SwapLen())
	default:
		panic("socket op " + o.Name)
	}
}

func normID(e *sockEnv) string {
	id := e.s.ID()
	if id == e.near.RemoteAddr().String() {
		return "<remote addr>"
	}
	return id
}

func sockSnap(e *sockEnv) []KV {
	out := []KV{{"ID", normID(e)}, {"SwapLen", fmt.Sprint(e.s.SwapLen())}}
	n := 0
	e.s.Swap().Range(func(k, v interface{}) bool { n++; return true })
	out = append(out, KV{"Swap.Range", fmt.Sprint(n)}, KV{"Swap.Len", fmt.Sprint(e.s.Swap().Len())})
	out = append(out, KV{"Raw", fmt.Sprint(e.s.Raw() == e.near)})
	out = append(out, KV{"LocalAddr", fmt.Sprint(e.s.LocalAddr().String() == e.near.LocalAddr().String())})
	out = append(out, KV{"RemoteAddr", fmt.Sprint(e.s.RemoteAddr().String() == e.near.RemoteAddr().String())})
	// what the next user reads is exactly what its own connection delivers
	e.far.Write(frameOf(42, "/fresh", "fresh-body"))
	out = append(out, KV{"ReadMessage", guarded(e, func() string { return readMsg(e.s) })})
	e.far.Write([]byte("tail!"))
	out = append(out, KV{"Read", guarded(e, func() string {
		b := make([]byte, 16)
		k, err := e.s.Read(b)
		return fmt.Sprintf("%q/%v", b[:k], err)
	})})
	// and what it writes arrives unchanged
	m := socket.NewMessage()
	m.SetSeq(9)
	m.SetMtype(1)
	m.SetServiceMethod("/out")
	m.SetBody([]byte("out-body"))
	before := e.far.Pending()
	werr := e.s.WriteMessage(m)
	buf := make([]byte, e.far.Pending()-before)
	if len(buf) > 0 {
		io.ReadFull(e.far, buf)
	}
	out = append(out, KV{"WriteMessage", fmt.Sprintf("%q/%v", buf, werr)})
	return out
}

func (sockType) trial(dirty, next []Op, acq int64) (*Diff, bool) {
	a, b := memconn.NewPair()
	e := &sockEnv{s: socket.GetSocket(a, socket.RawProtoFunc), near: a, far: b}
	orig := e.s
	for _, o := range dirty {
		applySock(e, o, nil)
	}
	e.s.Close() // returns it to the pool
	var rec *sockEnv
	for i := 0; i < 16; i++ {
		a2, b2 := memconn.NewPair()
		g := socket.GetSocket(a2, socket.RawProtoFunc)
		if g == orig {
			rec = &sockEnv{s: g, near: a2, far: b2}
			break
		}
	}
	if rec == nil {
		return nil, false
	}
	a3, b3 := memconn.NewPair()
	fresh := &sockEnv{s: socket.NewSocket(a3, socket.RawProtoFunc), near: a3, far: b3}
	if d := cmpSnap(sockSnap(rec), sockSnap(fresh), "differs-after-acquire"); d != nil {
		return d, true
	}
	var l1, l2 []string
	for _, o := range next {
		applySock(rec, o, &l1)
		applySock(fresh, o, &l2)
	}
	for i := range l1 {
		if l1[i] != l2[i] {
			return &Diff{Field: "op-results/" + next[0].Name, Symptom: "differs-after-next-use", Got: clip(l1[i]), Want: clip(l2[i])}, true
		}
	}
	// drain what the next-user ops left unread on both, then compare again
	if d := cmpSnap(sockSnapNoIO(rec), sockSnapNoIO(fresh), "differs-after-next-use"); d != nil {
		return d, true
	}
	rec.s.Close()
	fresh.s.Close()
	return nil, true
}

func sockSnapNoIO(e *sockEnv) []KV {
	out := []KV{{"ID", normID(e)}, {"SwapLen", fmt.Sprint(e.s.SwapLen())}}
	var keys []string
	e.s.Swap().Range(func(k, v interface{}) bool { keys = append(keys, fmt.Sprintf("%v=%v", k, v)); return true })
	sort.Strings(keys)
	out = append(out, KV{"Swap.entries", strings.Join(keys, ",")}, KV{"Raw", fmt.Sprint(e.s.Raw() == e.near)})
	return out
}

// ---------------------------------------------------------------- driver of the object part

var objTypes = map[string]objType{"message": msgType{}, "args": argsType{}, "bytebuffer": bbType{}, "xferpipe": pipeType{}, "socket": sockType{}}

func minimise(t objType, dirty, next []Op, acq int64, want *Diff) ([]Op, []Op) {
	same := func(d *Diff) bool { return d != nil && d.Field == want.Field && d.Symptom == want.Symptom }
	shrink := func(p []Op, run func(q []Op) *Diff) []Op {
		for i := 0; i < len(p); {
			q := append(append([]Op(nil), p[:i]...), p[i+1:]...)
			if same(run(q)) {
				p = q
			} else {
				i++
			}
		}
		return p
	}
	dirty = shrink(dirty, func(q []Op) *Diff { d, _ := t.trial(q, next, acq); return d })
	next = shrink(next, func(q []Op) *Diff { d, _ := t.trial(dirty, q, acq); return d })
	return dirty, next
}

// runObjects executes pairs [from,to) of the object type.
func runObjects(itemID string, typ string, chunk, pairs int, rerun map[string]interface{}) {
	t := objTypes[typ]
	old := debug.SetGCPercent(-1)
	defer func() {
		debug.SetGCPercent(old)
		runtime.GC()
	}()
	var recycles, misses int64
	reported := map[string]bool{}
	for k := 0; k < pairs; k++ {
		r := core.NewRand(*seed, 20, int64(len(typ)), int64(chunk), int64(k))
		dirty := genProgram(r, t.vocabulary(), 6)
		next := genProgram(r, t.vocabulary(), 4)
		acq := int64(r.Uint64() >> 2)
		d, rec := t.trial(dirty, next, acq)
		core.Add("evaluations", 1)
		core.Add("pairs_"+typ, 1)
		if !rec {
			misses++
			continue
		}
		recycles++
		cl := classOf(dirty)
		if len(dirty) <= 3 {
			core.Distinct("nontrivial", "object/"+typ+"/"+cl)
		}
		core.Distinct("dirty_classes_"+typ, cl)
		for _, o := range dirty {
			core.Distinct("dirty_ops_"+typ, o.Name)
		}
		if chunk == 0 && k == 0 {
			core.Sample(map[string]interface{}{"part": "object", "type": typ, "dirty": dirty, "next": next})
		}
		if d == nil {
			continue
		}
		core.Add("violating_pairs_"+typ, 1)
		if reported[fmt.Sprintf("C20/object/%s/%s/%s", typ, fieldLabel(d.Field), d.Symptom)] {
			continue // one minimised witness per fingerprint and chunk
		}
		md, mn := minimise(t, dirty, next, acq, d)
		d2, _ := t.trial(md, mn, acq)
		if d2 == nil || d2.Field != d.Field {
			md, mn, d2 = dirty, next, d
		}
		fp := fmt.Sprintf("C20/object/%s/%s/%s", typ, fieldLabel(d2.Field), d2.Symptom)
		reported[fp] = true
		vid := fmt.Sprintf("%s-k%d", itemID, k)
		desc := map[string]interface{}{"class": "object." + typ, "type": typ, "dirty_class": classOf(md), "dirty": md, "next": mn, "acq": acq, "rerun": rerun}
		core.Begin(vid, desc)
		core.Result(core.R{ID: vid, Verdict: core.Violated, FP: fp,
			What: fmt.Sprintf("recycled %s differs from a fresh one in %s (%s): recycled %s, fresh %s; previous user did %v, next user %v",
				typ, d2.Field, d2.Symptom, d2.Got, d2.Want, opNames(md), opNames(mn)),
			Witness: map[string]interface{}{"diff": d2, "dirty": md, "next": mn}, Desc: desc})
	}
	core.Add("recycles_observed_"+typ, recycles)
	core.Add("recycle_misses_"+typ, misses)
	core.Add("observed_changelen_exposing_nonzero_bytes", changeLenStaleSeen)
	changeLenStaleSeen = 0
	core.Begin(itemID, map[string]interface{}{"class": "object." + typ, "type": typ, "chunk": chunk, "pairs": pairs})
	if recycles == 0 {
		core.Result(core.R{ID: itemID, Verdict: core.Inconclusive, What: fmt.Sprintf("no %s was ever handed out again by its pool in %d attempts", typ, pairs)})
		return
	}
	core.Result(core.R{ID: itemID, Verdict: core.Held})
}

// fieldLabel strips literal keys from a getter name so that fingerprints stay structural.
func fieldLabel(f string) string {
	if i := strings.IndexByte(f, '('); i >= 0 {
		f = f[:i]
	}
	return strings.ReplaceAll(f, "/", ".")
}
