package main

// Sizes around the unpack limit (xfer.SetUnpackLimit; socket.SetMessageSizeLimit / erpc.SetReadLimit
// keep it equal to the read limit): a gzip layer may not produce more than the limit on unpacking.
//
// With the limit L in {4 KiB, 64 KiB} set for the duration of a case (it is process-global; the worker
// executes its items one after the other, the previous state is restored when the case ends) highly
// compressible payloads of sizes around L go through gzip-only pipes, gzip twice and gzip + md5 in
// both orders:
//   - leaf: whatever every gzip layer of the pipe has to produce on unpacking is known from packing
//     layer by layer; all of it <= L: OnUnpack(OnPack(p)) == p exactly; any of it > L: OnUnpack must
//     return an error - never success, and in particular never success with a prefix of p;
//   - end to end: the packed frame is far below the read limit, so only the filter's limit decides.
//     Request direction (large body, small reply) and reply direction (small body, large result), one
//     connection each. L/2 must pass; 2L and 4L must be refused (the handler is never reached / the
//     call does not complete OK); next to the limit either may happen (what a layer inflates includes
//     the protocol's own header on some protocols), but the handler never sees a body different from
//     the one sent and an OK call never returns a different result. A call is awaited until it
//     completes or the process is quiescent (a refused reply leaves the call pending on some
//     protocols: that is counted, it is not this property's subject).

import (
	"bytes"
	"fmt"
	"time"

	erpc "github.com/henrylee2cn/erpc/v6"
	"github.com/henrylee2cn/erpc/v6/codec"
	"github.com/henrylee2cn/erpc/v6/xfer"

	"verifharness/bed"
	"verifharness/core"
	"verifharness/memconn"
	"verifharness/protos"
	"verifharness/quiesce"
	"verifharness/wire"
)

var unpackLimits = []int{4 << 10, 64 << 10}

type sizeClass struct {
	label string
	n     func(L int) int
}

var leafSizes = []sizeClass{
	{"L/2", func(L int) int { return L / 2 }},
	{"L-17", func(L int) int { return L - 17 }},
	{"L-16", func(L int) int { return L - 16 }},
	{"L-15", func(L int) int { return L - 15 }},
	{"L-1", func(L int) int { return L - 1 }},
	{"L", func(L int) int { return L }},
	{"L+1", func(L int) int { return L + 1 }},
	{"2L", func(L int) int { return 2 * L }},
	{"4L", func(L int) int { return 4 * L }},
}

var e2eSizes = []string{"L/2", "L-1", "L", "L+1", "2L", "4L"}

func sizeOf(label string, L int) int {
	for _, s := range leafSizes {
		if s.label == label {
			return s.n(L)
		}
	}
	panic("size class " + label)
}

// extremeLimits: the largest values the 32-bit limit can take (math.MaxUint32 is the natural spelling of "no limit"),
// the sign boundary of 32-bit arithmetic and the default.
var extremeLimits = []int{1<<32 - 1, 1<<32 - 2, 1 << 31, 1<<31 - 1, 1 << 30}

func unpackLimitItems(add func(Item)) {
	for _, L := range extremeLimits {
		for _, pipe := range []string{"z", "g", "zg", "zm", "mz", "zmz"} {
			add(Item{Part: "ulimit-extreme", Pipe: pipe, Pos: L, Scn: "unpack-limit", Class: "unpack-limit-extreme"})
		}
	}
	for _, L := range unpackLimits {
		for _, pipe := range []string{"z", "g", "zz", "zg", "gz", "zm", "mz", "gm", "mg", "zmz", "mzm"} {
			add(Item{Part: "ulimit-leaf", Pipe: pipe, Pos: L, Scn: "unpack-limit", Class: "unpack-limit"})
		}
		for _, pn := range e2eProtos {
			p := protos.ByName(pn)
			pipes := []string{"z", "g", "zz", "zm", "mz"}
			if p.HTTP {
				pipes = []string{"z", "g"}
			}
			for _, pipe := range pipes {
				add(Item{Part: "ulimit-e2e", Proto: pn, Pipe: pipe, Pos: L, Scn: "unpack-limit", Class: "e2e.unpack-limit"})
			}
		}
	}
}

// compressible returns n highly compressible printable bytes whose content still depends on the position
// (a prefix or a shifted copy is not equal to the whole).
func compressible(n int, r *core.Rand) []byte {
	b := bytes.Repeat([]byte{'0'}, n)
	mark := byte('a' + r.Intn(26))
	for i := 0; i < n; i += 997 {
		b[i] = mark
	}
	if n > 0 {
		b[n-1] = '$'
	}
	return b
}

func limitLabel(L int) string { return fmt.Sprintf("limit%dK", L>>10) }

// ---------- leaf ----------

func runUnpackLimitLeaf(it Item, r *core.Rand) {
	L := it.Pos
	ids := []byte(it.Pipe)
	pc := pipeClass(ids)
	x, err := mkPipe(ids)
	if err != nil {
		core.Fatalf("unpack-limit: pipe %q: %v", it.Pipe, err)
	}
	xfer.SetUnpackLimit(uint32(L))
	defer xfer.SetUnpackLimit(0) // back to the default (1 GB, equal to the default read limit)
	for _, sc := range leafSizes {
		n := sc.n(L)
		p := compressible(n, r)
		orig := append([]byte(nil), p...)
		// pack layer by layer (inner-most first): what a gzip layer receives on packing is what it has to produce on unpacking
		cur := p
		maxInflate := 0
		var perr error
		for i := len(ids) - 1; i >= 0 && perr == nil; i-- {
			f, _ := xfer.Get(ids[i])
			if ids[i] != wire.FMd5 && len(cur) > maxInflate {
				maxInflate = len(cur)
			}
			cur, perr = f.OnPack(cur)
		}
		core.Add("evaluations", 1)
		core.Add("unpack_limit_leaf_checks", 1)
		fp := func(sym string) string {
			return fmt.Sprintf("C12/leaf/unpack-limit/%s/%s:%s:%s", pc, sym, sc.label, limitLabel(L))
		}
		if perr != nil {
			violate(it, fp("pack-error"), fmt.Sprintf("OnPack failed (pipe %q, %d bytes): %v", it.Pipe, n, perr), nil)
			continue
		}
		packed := append([]byte(nil), cur...)
		if len(packed) >= L {
			core.Add("unpack_limit_leaf_packed_not_below_limit", 1)
			continue // the packed payload itself is not below the limit: not the situation this class is about
		}
		out, uerr, _ := safely(func() ([]byte, error) { return x.OnUnpack(packed) })
		w := map[string]interface{}{"pipe": it.Pipe, "limit": L, "payload_len": n, "largest_inflate_output": maxInflate, "packed_len": len(packed), "got_len": len(out), "error": fmt.Sprint(uerr)}
		within := maxInflate <= L
		switch {
		case within && uerr != nil:
			violate(it, fp("refused-within-limit"), fmt.Sprintf("pipe %q, unpack limit %d: a payload of %d bytes (no gzip layer has to produce more than %d) was refused: %v", it.Pipe, L, n, maxInflate, uerr), w)
		case within && !bytes.Equal(out, orig):
			violate(it, fp("mismatch-within-limit"), fmt.Sprintf("pipe %q, unpack limit %d: OnUnpack(OnPack(p)) != p for %d bytes (got %d bytes)", it.Pipe, L, n, len(out)), w)
		case within:
			core.Add("unpack_limit_leaf_within_limit_roundtrips", 1)
		case uerr != nil:
			core.Add("unpack_limit_leaf_beyond_limit_refused", 1)
		case len(out) < len(orig) && bytes.Equal(out, orig[:len(out)]):
			violate(it, fp("accepted-truncated"), fmt.Sprintf("pipe %q, unpack limit %d: a payload of %d bytes (a gzip layer has to produce %d) was not refused: OnUnpack returned its first %d bytes and no error", it.Pipe, L, n, maxInflate, len(out)), w)
		case !bytes.Equal(out, orig):
			violate(it, fp("accepted-different"), fmt.Sprintf("pipe %q, unpack limit %d: a payload of %d bytes (a gzip layer has to produce %d) was not refused: OnUnpack returned %d different bytes and no error", it.Pipe, L, n, maxInflate, len(out)), w)
		default:
			violate(it, fp("accepted-beyond-limit"), fmt.Sprintf("pipe %q, unpack limit %d: a payload of %d bytes (a gzip layer has to produce %d) was unpacked although that exceeds the limit", it.Pipe, L, n, maxInflate), w)
		}
		core.Distinct("nontrivial", fmt.Sprintf("unpack-limit/%s/%s/%s", pc, sc.label, limitLabel(L)))
	}
}

// runUnpackLimitExtreme: with the limit at the top of its range every payload of ordinary size is far within it and
// must round-trip exactly; the limit is set through the filter package and through erpc.SetReadLimit (which keeps
// both limits equal).
func runUnpackLimitExtreme(it Item, r *core.Rand) {
	L := it.Pos
	ids := []byte(it.Pipe)
	pc := pipeClass(ids)
	x, err := mkPipe(ids)
	if err != nil {
		core.Fatalf("unpack-limit: pipe %q: %v", it.Pipe, err)
	}
	for _, via := range []string{"xfer", "erpc"} {
		if via == "xfer" {
			xfer.SetUnpackLimit(uint32(L))
		} else {
			erpc.SetReadLimit(uint32(L))
		}
		for _, n := range []int{1, 17, 4 << 10, 300 << 10} {
			p := compressible(n, r)
			orig := append([]byte(nil), p...)
			core.Add("evaluations", 1)
			core.Add("unpack_limit_extreme_checks", 1)
			fp := func(sym string) string {
				return fmt.Sprintf("C12/leaf/unpack-limit-extreme/%s/%s:%d:limit=%d:via-%s", pc, sym, n, L, via)
			}
			if got := xfer.UnpackLimit(); via == "erpc" && int(got) != L {
				violate(it, fp("limits-not-equal"), fmt.Sprintf("erpc.SetReadLimit(%d) left the filters' unpack limit at %d", L, got), nil)
			}
			packed, perr, _ := safely(func() ([]byte, error) { return x.OnPack(p) })
			if perr != nil {
				violate(it, fp("pack-error"), fmt.Sprintf("OnPack failed (pipe %q, %d bytes): %v", it.Pipe, n, perr), nil)
				continue
			}
			packed = append([]byte(nil), packed...)
			out, uerr, _ := safely(func() ([]byte, error) { return x.OnUnpack(packed) })
			w := map[string]interface{}{"pipe": it.Pipe, "limit": L, "set_through": via, "payload_len": n, "packed_len": len(packed), "got_len": len(out), "error": fmt.Sprint(uerr)}
			switch {
			case uerr != nil:
				violate(it, fp("refused-within-limit"), fmt.Sprintf("pipe %q, unpack limit %d (set through %s): a payload of %d bytes was refused: %v", it.Pipe, L, via, n, uerr), w)
			case !bytes.Equal(out, orig):
				violate(it, fp("mismatch-within-limit"), fmt.Sprintf("pipe %q, unpack limit %d (set through %s): OnUnpack(OnPack(p)) != p for %d bytes (got %d bytes)", it.Pipe, L, via, n, len(out)), w)
			default:
				core.Add("unpack_limit_extreme_roundtrips", 1)
			}
			core.Distinct("nontrivial", fmt.Sprintf("unpack-limit-extreme/%s/%d/limit=%d/%s", pc, n, L, via))
		}
		if via == "xfer" {
			xfer.SetUnpackLimit(0)
		} else {
			erpc.SetReadLimit(0)
		}
	}
}

// ---------- end to end ----------

// bigReply is the result of the handler in the reply direction (a function of the size only).
func bigReply(n int) []byte {
	b := bytes.Repeat([]byte{'1'}, n)
	for i := 0; i < n; i += 991 {
		b[i] = 'q'
	}
	if n > 0 {
		b[n-1] = '#'
	}
	return b
}

// awaitQuiet waits until the call completes or nothing in the process can move any more.
func awaitQuiet(ch chan erpc.CallCmd) (done, quiet bool) {
	for i := 0; i < 40; i++ {
		select {
		case <-ch:
			return true, false
		case <-time.After(20 * time.Millisecond):
		}
		q := quiesce.Wait(quiesce.Options{Samples: 3, Interval: 3 * time.Millisecond, Timeout: 2 * time.Second, Self: "main.awaitQuiet"})
		select {
		case <-ch:
			return true, false
		default:
		}
		if q.Quiescent {
			return false, true
		}
	}
	return false, false
}

func runUnpackLimitE2E(it Item, r *core.Rand) {
	id := fmt.Sprintf("i%05d", it.Idx)
	L := it.Pos
	p := protos.ByName(it.Proto)
	pipe := []byte(it.Pipe)
	desc := map[string]interface{}{"class": it.Class, "item": it, "limit": L, "rerun": map[string]interface{}{"idx": it.Idx, "seed": *seed, "tier": *tier}}
	core.Begin(id, desc)
	erpc.SetReadLimit(uint32(L))
	defer erpc.SetReadLimit(0) // default read limit and unpack limit again
	type viol struct {
		symptom, what string
		w             interface{}
	}
	var viols []viol
	incon := ""
	for _, dir := range []string{"request", "reply"} {
		for _, label := range e2eSizes {
			if incon != "" {
				break
			}
			n := sizeOf(label, L)
			add := func(sym, what string, w interface{}) {
				viols = append(viols, viol{dir + "-" + sym + ":" + label + ":" + limitLabel(L), what, w})
			}
			pa := erpc.NewPeer(erpc.PeerConfig{})
			pb := erpc.NewPeer(erpc.PeerConfig{})
			route := pb.RouteCallFunc(Echo)
			ta, tb := &tap{}, &tap{}
			l, err := bed.Connect(pa, pb, p.Func, p.Func, func(ca, cb *memconn.Conn) {
				ca.SetWriteTap(ta.write)
				cb.SetWriteTap(tb.write)
			})
			if err != nil {
				incon = "connect: " + err.Error()
				pa.Close()
				pb.Close()
				break
			}
			tk := fmt.Sprintf("%s.%s.%s", id, dir, label)
			arg := compressible(n, r)
			want := []byte("R:small")
			set := []erpc.MessageSetting{erpc.WithBodyCodec(codec.ID_PLAIN), erpc.WithSetMeta("Tk", tk), erpc.WithXferPipe(pipe...)}
			if dir == "request" {
				set = append(set, erpc.WithSetMeta("Scn", "small-reply"))
			} else {
				arg = []byte("small request body")
				want = bigReply(n)
				set = append(set, erpc.WithSetMeta("Scn", "big-reply"), erpc.WithSetMeta("N", fmt.Sprint(n)))
			}
			var res []byte
			ch := make(chan erpc.CallCmd, 1)
			cmd := l.A.AsyncCall(route, arg, &res, ch, set...)
			done, quiet := awaitQuiet(ch)
			if !done && !quiet {
				incon = fmt.Sprintf("the call (%s direction, %s bytes) neither completed nor did the process become quiescent", dir, label)
				l.CA.Sever(false)
				pa.Close()
				pb.Close()
				break
			}
			core.Add("evaluations", 1)
			core.Add("unpack_limit_e2e_calls", 1)
			o, reached := takeObs(tk)
			frameLen := len(ta.from(0))
			if dir == "reply" {
				frameLen = len(tb.from(0))
			}
			below := frameLen < L
			if below {
				core.Add("unpack_limit_e2e_frames_below_read_limit", 1)
			} else {
				core.Add("unpack_limit_e2e_frames_not_below_read_limit", 1)
			}
			status := "<pending: the process is quiescent and the call has not completed>"
			ok := false
			if done {
				status = cmd.Status().String()
				ok = cmd.Status().OK()
			} else {
				core.Add("observed_refused_"+dir+"_left_the_call_pending_"+it.Proto, 1)
				l.CA.Sever(false)
				select {
				case <-ch:
				case <-time.After(5 * time.Second):
				}
			}
			w := map[string]interface{}{"proto": it.Proto, "pipe": it.Pipe, "limit": L, "direction": dir, "size": n, "frame_len": frameLen, "status": status, "handler_reached": reached, "handler_body_len": len(o.body), "result_len": len(res)}
			// never a different body at the handler, never a different result with an OK status
			if reached && !bytes.Equal(o.body, arg) {
				sym := "handler-saw-different-body"
				if len(o.body) < len(arg) && bytes.Equal(o.body, arg[:len(o.body)]) {
					sym = "handler-saw-truncated-body"
				}
				add(sym, fmt.Sprintf("%s, pipe %q, read limit %d: a body of %d bytes was sent, the handler received %d bytes (request frame %d bytes)", it.Proto, it.Pipe, L, len(arg), len(o.body), frameLen), w)
			}
			if ok && !bytes.Equal(res, want) {
				sym := "result-different"
				if len(res) < len(want) && bytes.Equal(res, want[:len(res)]) {
					sym = "result-truncated"
				}
				add(sym, fmt.Sprintf("%s, pipe %q, read limit %d: the call completed OK with %d result bytes, the handler returned %d (reply frame %d bytes)", it.Proto, it.Pipe, L, len(res), len(want), frameLen), w)
			}
			switch label {
			case "L/2":
				if !ok {
					add("refused-within-limit", fmt.Sprintf("%s, pipe %q, read limit %d, %s direction: %d bytes did not get through: %s", it.Proto, it.Pipe, L, dir, n, status), w)
				} else {
					core.Add("unpack_limit_e2e_within_limit_ok", 1)
				}
			case "2L", "4L":
				switch {
				case !below:
				case dir == "request" && reached:
					add("handler-reached-beyond-limit", fmt.Sprintf("%s, pipe %q, read limit %d: a request whose body inflates to %d bytes was delivered to the handler (%d bytes) instead of being refused", it.Proto, it.Pipe, L, n, len(o.body)), w)
				case ok:
					add("accepted-beyond-limit", fmt.Sprintf("%s, pipe %q, read limit %d, %s direction: %d bytes got through and the call completed OK", it.Proto, it.Pipe, L, dir, n), w)
				default:
					core.Add("unpack_limit_e2e_beyond_limit_refused", 1)
				}
			default:
				if ok {
					core.Add("unpack_limit_e2e_next_to_limit_ok", 1)
				} else {
					core.Add("unpack_limit_e2e_next_to_limit_refused", 1)
				}
			}
			pa.Close()
			pb.Close()
		}
	}
	sig := fmt.Sprintf("e2e-unpack-limit/%s/%s/%s", it.Proto, it.Pipe, limitLabel(L))
	if len(viols) > 0 {
		seen := map[string]bool{}
		first := true
		for _, v := range viols {
			if seen[v.symptom] {
				continue
			}
			seen[v.symptom] = true
			rid := id
			if !first {
				rid = id + "#" + v.symptom
				core.Begin(rid, desc)
			}
			first = false
			core.Result(core.R{ID: rid, Verdict: core.Violated, FP: fmt.Sprintf("C12/e2e/unpack-limit/%s/%s", it.Proto, v.symptom), What: v.what, Witness: v.w, Desc: desc, Sig: sig})
		}
		return
	}
	if incon != "" {
		core.Add("inconclusive_items", 1)
		core.Result(core.R{ID: id, Verdict: core.Inconclusive, What: it.Proto + ": " + incon, Sig: sig})
		return
	}
	core.Distinct("nontrivial", sig)
	core.Result(core.R{ID: id, Verdict: core.Held, Sig: sig, Nontrivial: true})
}
