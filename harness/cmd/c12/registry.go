package main

// Registry class of C12: "a pipe naming an unregistered filter is refused rather than passed through".
//
// A model of the filter registry (id -> filter, name -> filter) is driven by seeded sequences of
// xfer.Reg calls over four labelled classes - fresh/duplicate id x fresh/duplicate name - with the
// panics of refused registrations recovered. After every call the real registry is compared with
// the model through every public observer: Get, GetByName, XferPipe.Append / IDs / Names / Range,
// WithXferPipe, and a raw-protocol frame naming each id touched (Pack / Unpack on the protocol
// object alone, and once per case a scripted frame sent to a real peer). A refused registration
// leaves no trace in either table; an accepted one is visible in both.
//
// Filter ids are process-global and cannot be unregistered: every case draws its fresh ids from a
// dedicated range (0x80..0xFE) through a process-wide counter, and unique names.

import (
	"bytes"
	"encoding/binary"
	"fmt"
	"io"
	"strings"
	"sync/atomic"
	"time"

	erpc "github.com/henrylee2cn/erpc/v6"
	"github.com/henrylee2cn/erpc/v6/codec"
	"github.com/henrylee2cn/erpc/v6/socket"
	"github.com/henrylee2cn/erpc/v6/xfer"

	"verifharness/bed"
	"verifharness/core"
	"verifharness/memconn"
	"verifharness/wire"
)

// xorFilter is a harness filter: xor with a key plus a one byte trailer (so that it is not an involution
// and a payload run through the wrong filter does not come out right).
type xorFilter struct {
	id   byte
	name string
	key  byte
}

func (f *xorFilter) ID() byte     { return f.id }
func (f *xorFilter) Name() string { return f.name }
func (f *xorFilter) OnPack(src []byte) ([]byte, error) {
	dst := make([]byte, len(src)+1)
	for i, b := range src {
		dst[i] = b ^ f.key
	}
	dst[len(src)] = f.key
	return dst, nil
}
func (f *xorFilter) OnUnpack(src []byte) ([]byte, error) {
	if len(src) == 0 || src[len(src)-1] != f.key {
		return nil, fmt.Errorf("xor filter %q: bad trailer", f.name)
	}
	dst := make([]byte, len(src)-1)
	for i := range dst {
		dst[i] = src[i] ^ f.key
	}
	return dst, nil
}

// the model: what the registry must contain (process-wide, the real one is too)
var (
	modelByID   = map[byte]xfer.XferFilter{}
	modelByName = map[string]xfer.XferFilter{}
	nextRegID   = 0x80
	nextRegName = 0
	// every filter object a Reg call was attempted with and refused, by id / name at that time
	refusedByID = map[byte]*xorFilter{}
)

func modelInit() {
	if len(modelByID) > 0 {
		return
	}
	for _, id := range regIDs {
		f, err := xfer.Get(id)
		if err != nil {
			core.Fatalf("registry: built-in filter %q missing: %v", id, err)
		}
		modelByID[id] = f
		modelByName[f.Name()] = f
	}
}

// registeredByHarness tells the other parts of this worker which ids are no longer "unregistered".
func registeredByHarness(id byte) bool {
	_, ok := modelByID[id]
	return ok && bytes.IndexByte(regIDs, id) < 0
}

func tryReg(f xfer.XferFilter) (panicked interface{}) {
	defer func() { panicked = recover() }()
	xfer.Reg(f)
	return nil
}

var regClasses = []string{"fresh-id+fresh-name", "dup-id+fresh-name", "fresh-id+dup-name", "dup-id+dup-name"}

func registryItems(add func(Item), thorough bool) {
	n := 48
	if thorough {
		n = 480
	}
	for k := 0; k < n; k++ {
		add(Item{Part: "registry", Scn: "registry", Class: "registry", Pos: k})
	}
}

// rawFrameThrough builds a raw-protocol CALL frame whose pipe names id and whose payload was packed by f.
func rawFrameThrough(f xfer.XferFilter, id byte, route, tk string) ([]byte, error) {
	s := wire.Spec{Seq: 1, Mtype: erpc.TypeCall, Method: route, Codec: codec.ID_PLAIN, Body: []byte("registry body " + tk),
		Meta: []wire.KV{{K: "Tk", V: tk}, {K: "Scn", V: "ok"}}}
	m, err := wire.Build(s, protoRaw())
	if err != nil {
		return nil, err
	}
	var w bytes.Buffer
	if err := socket.RawProtoFunc(wire.RW{Reader: bytes.NewReader(nil), Writer: &w}).Pack(m); err != nil {
		return nil, err
	}
	plain := w.Bytes() // {4 length}{0}{payload}
	if len(plain) < 5 || plain[4] != 0 {
		return nil, fmt.Errorf("frame layout not as expected: % x", plain[:8])
	}
	payload, err := f.OnPack(plain[5:])
	if err != nil {
		return nil, err
	}
	out := make([]byte, 4, 6+len(payload))
	out = append(out, 1, id)
	out = append(out, payload...)
	binary.BigEndian.PutUint32(out, uint32(len(out)))
	return out, nil
}

func unpackRaw(frame []byte) (spec wire.Spec, err error) {
	p := protoRaw()
	m := wire.NewReceiver(p)
	err = safeErr(func() error {
		return socket.RawProtoFunc(wire.RW{Reader: bytes.NewReader(frame), Writer: io.Discard}).Unpack(m)
	})
	if err == nil {
		spec = wire.Extract(m, p)
	}
	return
}

func runRegistry(it Item, r *core.Rand) {
	modelInit()
	id := fmt.Sprintf("i%05d", it.Idx)
	desc := map[string]interface{}{"class": it.Class, "item": it, "rerun": map[string]interface{}{"idx": it.Idx, "seed": *seed, "tier": *tier}}
	var checks int64
	reported := map[string]bool{}
	var program []string
	viol := func(class, symptom, what string, w interface{}) {
		fp := "C12/leaf/registry/" + class + "/" + symptom
		if reported[fp] {
			return
		}
		reported[fp] = true
		vid := fmt.Sprintf("%s#%d", id, len(reported))
		d := map[string]interface{}{"class": "registry", "item": it, "reg_class": class, "program": append([]string(nil), program...), "rerun": desc["rerun"]}
		core.Begin(vid, d)
		core.Result(core.R{ID: vid, Verdict: core.Violated, FP: fp, What: what, Witness: w, Desc: d})
	}
	// ids and names this case has touched (registered or refused)
	var ids []byte
	var names []string
	var own []*xorFilter    // accepted in this case
	var freshRefused []byte // fresh ids whose registration was refused in this case

	// verify compares the real registry with the model for everything touched so far
	idClass := map[byte]string{}     // class of the Reg call that brought the id into this case
	nameClass := map[string]string{} // likewise for names
	verify := func(stepClass string) {
		for _, bid := range append(append([]byte(nil), regIDs...), ids...) {
			checks += 5
			class := stepClass
			if c, ok := idClass[bid]; ok {
				class = c // a trace is attributed to the registration that left it, not to the step that noticed it
			}
			want, in := modelByID[bid]
			got, err := xfer.Get(bid)
			switch {
			case in && (err != nil || got != want):
				viol(class, "registered-id-not-resolved", fmt.Sprintf("Get(%#x) = %v, %v; the registry must hold the filter %q under that id (after %v)", bid, got, err, want.Name(), program), nil)
			case !in && err == nil:
				viol(class, "refused-id-resolves", fmt.Sprintf("Get(%#x) resolves to the filter %q although every registration under that id was refused (after %v)", bid, got.Name(), program),
					map[string]interface{}{"id": bid, "resolves_to": got.Name(), "program": program})
			}
			// pipes
			x := xfer.NewXferPipe()
			aerr := x.Append(wire.FMd5, bid)
			switch {
			case in && aerr != nil:
				viol(class, "registered-id-not-appendable", fmt.Sprintf("Append(%#x) failed for a registered filter: %v", bid, aerr), nil)
			case !in && aerr == nil:
				viol(class, "refused-id-appendable", fmt.Sprintf("XferPipe.Append accepted the id %#x whose registration was refused: IDs() = %v, Names() = %v (after %v)", bid, x.IDs(), x.Names(), program), nil)
			case in:
				var rng []string
				x.Range(func(i int, f xfer.XferFilter) bool { rng = append(rng, f.Name()); return true })
				if !bytes.Equal(x.IDs(), []byte{wire.FMd5, bid}) || strings.Join(x.Names(), ",") != "md5,"+want.Name() || strings.Join(rng, ",") != "md5,"+want.Name() {
					viol(class, "pipe-observers-differ", fmt.Sprintf("pipe [m %#x]: IDs() %v Names() %v Range %v, the model has %q", bid, x.IDs(), x.Names(), rng, want.Name()), nil)
				}
				// the pipe inverts
				p, perr := x.OnPack([]byte("registry payload"))
				if perr == nil {
					u, uerr := x.OnUnpack(append([]byte(nil), p...))
					if uerr != nil || string(u) != "registry payload" {
						viol(class, "pipe-does-not-invert", fmt.Sprintf("pipe [m %#x] does not invert: %q, %v", bid, u, uerr), nil)
					}
				}
			}
			// message setting: panics exactly for unregistered ids
			pn := func() (p interface{}) {
				defer func() { p = recover() }()
				socket.NewMessage(socket.WithXferPipe(bid))
				return nil
			}()
			if in && pn != nil {
				viol(class, "registered-id-not-appendable", fmt.Sprintf("WithXferPipe(%#x) panicked for a registered filter: %v", bid, pn), nil)
			} else if !in && pn == nil {
				viol(class, "refused-id-appendable", fmt.Sprintf("WithXferPipe(%#x) accepted an id whose registration was refused (after %v)", bid, program), nil)
			}
			// a frame naming the id, protocol object alone
			through := want
			if !in {
				if rf := refusedByID[bid]; rf != nil {
					through = rf // packed by the very filter that was refused: if the receiver used it, the frame would decode
				} else {
					through = modelByID[wire.FMd5]
				}
			}
			frame, ferr := rawFrameThrough(through, bid, "/reg/istry", id)
			if ferr != nil {
				core.Fatalf("registry: frame: %v", ferr)
			}
			spec, uerr := unpackRaw(frame)
			switch {
			case in && (uerr != nil || !bytes.Equal(spec.Pipe, []byte{bid}) || !bytes.HasPrefix(spec.Body, []byte("registry body"))):
				viol(class, "frame-through-registered-filter-refused", fmt.Sprintf("a raw frame whose pipe names the registered id %#x was not unpacked: %v (pipe %v)", bid, uerr, spec.Pipe), nil)
			case !in && uerr == nil:
				viol(class, "frame-naming-refused-id-unpacked", fmt.Sprintf("a raw frame whose pipe names the id %#x (registration refused) was accepted and unpacked: pipe %v, body %q (after %v)", bid, spec.Pipe, spec.Body, program),
					map[string]interface{}{"id": bid, "pipe": spec.Pipe, "body": string(spec.Body), "program": program})
			}
		}
		for _, name := range append([]string{"gzip-1", "gzip-9", "md5"}, names...) {
			checks++
			class := stepClass
			if c, ok := nameClass[name]; ok {
				class = c
			}
			want, in := modelByName[name]
			got, err := xfer.GetByName(name)
			switch {
			case in && (err != nil || got != want):
				gotID := -1
				if err == nil {
					gotID = int(got.ID())
				}
				viol(class, "registered-name-not-resolved", fmt.Sprintf("GetByName(%q) = id %d, %v; the registry must hold id %#x under that name (after %v)", name, gotID, err, want.ID(), program), nil)
			case !in && err == nil:
				viol(class, "refused-name-resolves", fmt.Sprintf("GetByName(%q) resolves to id %#x although every registration under that name was refused (after %v)", name, got.ID(), program), nil)
			}
			// lookup by id and by name agree
			if in && err == nil {
				if byID, e2 := xfer.Get(got.ID()); e2 != nil || byID != got {
					viol(class, "id-and-name-tables-disagree", fmt.Sprintf("GetByName(%q) has id %#x but Get(%#x) does not return that filter", name, got.ID(), got.ID()), nil)
				}
			}
		}
	}

	freshID := func() (byte, bool) {
		if nextRegID > 0xFE {
			return 0, false
		}
		b := byte(nextRegID)
		nextRegID++
		return b, true
	}
	freshName := func() string {
		nextRegName++
		return fmt.Sprintf("c12reg-b%d-%d", *batch, nextRegName)
	}
	steps := 3 + r.Intn(4)
	exhausted := false
	for s := 0; s < steps && !exhausted; s++ {
		class := regClasses[r.Intn(len(regClasses))]
		if s == 0 && r.Intn(2) == 0 {
			class = "fresh-id+fresh-name" // something of our own to collide with
		}
		var fid byte
		var fname string
		// duplicate targets: a built-in filter or one accepted earlier in this case
		dupID := func() byte {
			if len(own) > 0 && r.Intn(2) == 0 {
				return own[r.Intn(len(own))].id
			}
			return regIDs[r.Intn(len(regIDs))]
		}
		dupName := func() string {
			if len(own) > 0 && r.Intn(2) == 0 {
				return own[r.Intn(len(own))].name
			}
			return []string{"gzip-1", "gzip-9", "md5"}[r.Intn(3)]
		}
		ok := true
		switch class {
		case "fresh-id+fresh-name":
			fid, ok = freshID()
			fname = freshName()
		case "dup-id+fresh-name":
			fid, fname = dupID(), freshName()
		case "fresh-id+dup-name":
			fid, ok = freshID()
			fname = dupName()
		case "dup-id+dup-name":
			fid, fname = dupID(), dupName()
		}
		if !ok {
			exhausted = true
			break
		}
		f := &xorFilter{id: fid, name: fname, key: byte(1 + r.Intn(254))}
		ids = append(ids, fid)
		names = append(names, fname)
		if _, known := idClass[fid]; !known && bytes.IndexByte(regIDs, fid) < 0 {
			idClass[fid] = class
		}
		if _, known := nameClass[fname]; !known && fname != "gzip-1" && fname != "gzip-9" && fname != "md5" {
			nameClass[fname] = class
		}
		program = append(program, fmt.Sprintf("Reg(id %#x, name %q) [%s]", fid, fname, class))
		p := tryReg(f)
		checks++
		core.Add("registry_reg_calls", 1)
		core.Add("registry_reg_calls_"+class, 1)
		if class == "fresh-id+fresh-name" {
			if p != nil {
				viol(class, "registration-refused", fmt.Sprintf("Reg of a filter with an unused id %#x and an unused name %q panicked: %v", fid, fname, p), nil)
			} else {
				modelByID[fid] = f
				modelByName[fname] = f
				own = append(own, f)
			}
		} else {
			if p == nil {
				viol(class, "registration-accepted", fmt.Sprintf("Reg(id %#x, name %q) was accepted although the %s taken (after %v)", fid, fname, map[string]string{
					"dup-id+fresh-name": "id is", "fresh-id+dup-name": "name is", "dup-id+dup-name": "id and the name are"}[class], program), nil)
			}
			if _, in := modelByID[fid]; !in {
				refusedByID[fid] = f
				freshRefused = append(freshRefused, fid)
			}
		}
		verify(class)
		core.Distinct("nontrivial", "registry/"+class+"/step"+fmt.Sprint(s))
	}
	// once per case: a real peer receives a frame naming an id whose registration was refused
	if len(freshRefused) > 0 {
		bid := freshRefused[0]
		pb := erpc.NewPeer(erpc.PeerConfig{})
		route := pb.RouteCallFunc(Echo)
		frame, ferr := rawFrameThrough(refusedByID[bid], bid, route, id)
		if ferr != nil {
			core.Fatalf("registry: frame: %v", ferr)
		}
		ca, cb := memconn.NewPair()
		before := atomic.LoadInt64(&handlerCalls)
		sess, stat := pb.ServeConn(cb, socket.RawProtoFunc)
		if stat.OK() {
			ca.Write(frame)
			settled := bed.WaitUntil(10*time.Second, func() bool { return cb.Written() > 0 || !sess.Health() || cb.IsClosed() })
			delta := atomic.LoadInt64(&handlerCalls) - before
			checks++
			core.Add("registry_scripted_frames", 1)
			if delta != 0 {
				viol("fresh-id+dup-name", "handler-reached-through-refused-filter", fmt.Sprintf("a frame whose pipe names the id %#x (registration refused) was delivered to a handler of a real peer (after %v)", bid, program), nil)
			} else if !settled {
				core.Add("registry_scripted_frames_unsettled", 1)
			}
		}
		ca.Close()
		pb.Close()
	}
	core.Add("evaluations", checks)
	core.Add("registry_checks", checks)
	if len(reported) > 0 {
		return // reported under their own ids
	}
	core.Begin(id, desc)
	if exhausted && len(program) == 0 {
		core.Result(core.R{ID: id, Verdict: core.Inconclusive, What: "the dedicated id range 0x80..0xFE of this process is used up"})
		return
	}
	core.Result(core.R{ID: id, Verdict: core.Held})
	if it.Pos%16 == 0 {
		core.Sample(map[string]interface{}{"part": "registry", "program": program})
	}
}
