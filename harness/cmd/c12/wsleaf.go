package main

// Scripted frames naming an unregistered filter, for the websocket sub-protocols (leaf level): the frame is
// produced by the sub-protocol's own Pack with a registered pipe, the id at one position of the pipe list is
// replaced (JSON number / protobuf bytes field), and the sub-protocol's Unpack reads it as one websocket message.
// The frame must be refused (Unpack returns an error); a frame that is accepted - with the body passed through or
// not - is a violation. The unmodified frame is the control.

import (
	"bytes"
	"fmt"
	"regexp"
	"strconv"
	"strings"

	erpc "github.com/henrylee2cn/erpc/v6"
	"github.com/henrylee2cn/erpc/v6/codec"
	wspb "github.com/henrylee2cn/erpc/v6/mixer/websocket/pbSubProto/pb"
	"github.com/henrylee2cn/erpc/v6/socket"

	"verifharness/core"
	"verifharness/protos"
	"verifharness/wire"
)

var wsLeafProtos = []string{"ws-json", "ws-pb"}

func wsLeafItems(add func(Item), thorough bool) {
	for _, pn := range wsLeafProtos {
		for _, b := range []string{"z", "zgm", "m", "mz"} {
			add(Item{Part: "script-leaf", Proto: pn, Pipe: b, Scn: "control", Class: "script-leaf.control"})
			bad := []int{0, 1, 'Q', 'y', 0x7f, 0x80, 0xff}
			if thorough {
				bad = nil
				for id := 0; id < 256; id++ {
					if bytes.IndexByte(regIDs, byte(id)) < 0 {
						bad = append(bad, id)
					}
				}
			}
			for _, id := range bad {
				for pos := 0; pos < len(b); pos++ {
					if len(bad) > 20 && pos != (id%len(b)) {
						continue
					}
					add(Item{Part: "script-leaf", Proto: pn, Pipe: b, Scn: "unregistered", BadID: id, Pos: pos, Class: "script-leaf.unregistered"})
				}
			}
		}
	}
}

var xferPipeJSON = regexp.MustCompile(`"xferPipe":\[([0-9,]*)\]`)

func wsLeafFrame(p protos.P, pipe []byte, tk string, bad, pos int) ([]byte, error) {
	s := wire.Spec{Seq: 1, Mtype: erpc.TypeCall, Method: "/c12/leaf", Codec: codec.ID_PLAIN, Body: []byte("scripted body " + tk), Pipe: pipe,
		Meta: []wire.KV{{K: "Tk", V: tk}}}
	m, err := wire.Build(s, p)
	if err != nil {
		return nil, err
	}
	var w bytes.Buffer
	if err := p.Func(wire.RW{Reader: bytes.NewReader(nil), Writer: &w}).Pack(m); err != nil {
		return nil, err
	}
	f := append([]byte(nil), w.Bytes()...)
	if pos < 0 {
		return f, nil
	}
	switch p.Name {
	case "ws-json":
		mm := xferPipeJSON.FindSubmatchIndex(f)
		if mm == nil {
			return nil, fmt.Errorf("xferPipe list not found in the frame")
		}
		ids := strings.Split(string(f[mm[2]:mm[3]]), ",")
		if len(ids) != len(pipe) {
			return nil, fmt.Errorf("xferPipe list %q does not have %d entries", f[mm[2]:mm[3]], len(pipe))
		}
		ids[pos] = strconv.Itoa(bad)
		out := append([]byte(nil), f[:mm[2]]...)
		out = append(out, strings.Join(ids, ",")...)
		return append(out, f[mm[3]:]...), nil
	case "ws-pb":
		var pl wspb.Payload
		if err := codec.ProtoUnmarshal(f, &pl); err != nil {
			return nil, err
		}
		if !bytes.Equal(pl.XferPipe, pipe) {
			return nil, fmt.Errorf("xferPipe field % x is not the pipe", pl.XferPipe)
		}
		pl.XferPipe = append([]byte(nil), pl.XferPipe...)
		pl.XferPipe[pos] = byte(bad)
		return codec.ProtoMarshal(&pl)
	}
	return nil, fmt.Errorf("no leaf script for %s", p.Name)
}

func runScriptLeaf(it Item) {
	id := fmt.Sprintf("i%05d", it.Idx)
	p := protos.ByName(it.Proto)
	if it.Scn == "unregistered" && registeredByHarness(byte(it.BadID)) {
		return // the registry part of this process has registered that id meanwhile
	}
	desc := map[string]interface{}{"class": it.Class, "item": it, "rerun": map[string]interface{}{"idx": it.Idx, "seed": *seed, "tier": *tier}}
	core.Begin(id, desc)
	pos := it.Pos
	if it.Scn == "control" {
		pos = -1
	}
	frame, err := wsLeafFrame(p, []byte(it.Pipe), id, it.BadID, pos)
	if err != nil {
		core.Fatalf("leaf script frame %s: %v", it.Proto, err)
	}
	var body []byte
	m := socket.NewMessage()
	m.SetNewBody(func(erpc.Header) interface{} { return &body })
	var uerr error
	panicked := false
	func() {
		defer func() {
			if r := recover(); r != nil {
				panicked, uerr = true, fmt.Errorf("PANIC: %v", r)
			}
		}()
		uerr = p.Func(wire.RW{Reader: bytes.NewReader(frame), Writer: &bytes.Buffer{}}).Unpack(m)
	}()
	core.Add("evaluations", 1)
	core.Add("scripted_leaf_frames", 1)
	want := []byte("scripted body " + id)
	if it.Scn == "control" {
		if uerr != nil || !bytes.Equal(body, want) {
			inconclusive(it, fmt.Sprintf("control frame (registered pipe %q, %s) was not unpacked to its body: err=%v body=%q", it.Pipe, it.Proto, uerr, body))
			return
		}
		core.Add("scripted_leaf_control_frames_unpacked", 1)
		core.Result(core.R{ID: id, Verdict: core.Held})
		return
	}
	if panicked {
		core.Result(core.R{ID: id, Verdict: core.Violated, FP: fmt.Sprintf("C12/leaf/script.unregistered/%s/panic", it.Proto),
			What: fmt.Sprintf("%s: Unpack of a frame whose pipe names the unregistered filter %d panicked: %v", it.Proto, it.BadID, uerr), Desc: desc})
		return
	}
	if uerr == nil {
		sym := "accepted"
		if bytes.Equal(body, want) || len(body) > 0 {
			sym = "accepted-body-passed-through"
		}
		core.Result(core.R{ID: id, Verdict: core.Violated, FP: fmt.Sprintf("C12/leaf/script.unregistered/%s/%s", it.Proto, sym),
			What: fmt.Sprintf("%s: a frame whose pipe names the unregistered filter %d at position %d of %q was not refused: Unpack returned no error, learnt pipe %q, body %q",
				it.Proto, it.BadID, it.Pos, it.Pipe, m.XferPipe().IDs(), short(body)),
			Witness: map[string]interface{}{"frame_head": short(frame)}, Desc: desc})
		return
	}
	core.Add("scripted_leaf_unregistered_frames_refused", 1)
	core.Distinct("nontrivial", fmt.Sprintf("script-leaf/%s/%s/pos%d", it.Proto, it.Pipe, it.Pos))
	core.Distinct("scripted_bad_ids", fmt.Sprintf("%s/%d", it.Proto, it.BadID))
	core.Result(core.R{ID: id, Verdict: core.Held})
}
