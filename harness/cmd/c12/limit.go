package main

// Pipes at the documented maximum (254 and 255 filters): the length of the pipe is carried in
// one byte of the frame, so the boundary needs its own executions.
//
//   - leaf ("stream"): the protocol object alone, Pack of back-to-back frames whose first (and third)
//     frame carries such a pipe, Unpack of the stream through a whole and a byte-wise reader; every
//     frame must come back field by field and the stream must end exactly after the last frame.
//   - end to end ("e2e-limit"): real peers; a call / a push with such a pipe immediately followed by an
//     ordinary call on the same session (a receiver that mis-frames the first message garbles or
//     loses the second one), then one more ordinary call.

import (
	"bytes"
	"fmt"
	"io"
	"strings"
	"sync/atomic"
	"time"

	erpc "github.com/henrylee2cn/erpc/v6"
	"github.com/henrylee2cn/erpc/v6/codec"

	"verifharness/bed"
	"verifharness/core"
	"verifharness/memconn"
	"verifharness/protos"
	"verifharness/wire"
)

// protocols whose frames can carry 255 filter ids (http carries one Content-Encoding)
var limitProtos = []string{"raw", "json", "pb", "thrift-binary"}

func limitPipes() []string {
	return []string{
		strings.Repeat("m", 254),
		strings.Repeat("m", 255),
		strings.Repeat("m", 100) + "z" + strings.Repeat("m", 153), // 254, one gzip inside
		strings.Repeat("m", 100) + "z" + strings.Repeat("m", 154), // 255, one gzip inside
		"z" + strings.Repeat("m", 254),                            // 255, gzip outermost
	}
}

func limitItems(add func(Item)) {
	for _, pn := range limitProtos {
		for _, pipe := range append([]string{strings.Repeat("m", 253)}, limitPipes()...) {
			add(Item{Part: "stream", Proto: pn, Pipe: pipe, Scn: "stream-at-limit", Class: "stream-at-limit"})
		}
		for _, pipe := range limitPipes() {
			for _, scn := range []string{"call", "push"} {
				add(Item{Part: "e2e-limit", Proto: pn, Pipe: pipe, Scn: scn, Class: "e2e.pipe-at-limit"})
			}
		}
	}
}

func lenLabel(pipe string) string { return fmt.Sprintf("len%d", len(pipe)) }

// ---------- leaf: the protocol object alone ----------

func runStreamLimit(it Item, r *core.Rand) {
	p := protos.ByName(it.Proto)
	pipe := []byte(it.Pipe)
	fpBase := "C12/leaf/stream-at-limit/" + it.Proto + "/"
	specs := []wire.Spec{
		{Seq: 7, Mtype: erpc.TypeCall, Method: "/a/first", Codec: codec.ID_PLAIN, Body: e2ePayload("text", r), Pipe: pipe, Meta: []wire.KV{{K: "Tk", V: "one"}}},
		{Seq: 8, Mtype: erpc.TypeCall, Method: "/a/second", Codec: codec.ID_PLAIN, Body: e2ePayload("random", r), Meta: []wire.KV{{K: "Tk", V: "two"}}},
		{Seq: 9, Mtype: erpc.TypeReply, Method: "/a/third", Codec: codec.ID_PLAIN, Body: e2ePayload("zeros", r), Pipe: pipe},
		{Seq: 10, Mtype: erpc.TypePush, Method: "/a/fourth", Codec: codec.ID_PLAIN, Body: e2ePayload("one", r)},
	}
	var w bytes.Buffer
	pw := p.Func(wire.RW{Reader: bytes.NewReader(nil), Writer: &w})
	var ends []int
	for i, s := range specs {
		m, err := wire.Build(s, p)
		if err == nil {
			err = safeErr(func() error { return pw.Pack(m) })
		}
		if err != nil {
			core.Add("evaluations", 1)
			violate(it, fpBase+"pack-error:"+lenLabel(it.Pipe), fmt.Sprintf("%s: Pack of frame %d (pipe of %d filters) failed: %v", it.Proto, i, len(s.Pipe), err), nil)
			return
		}
		ends = append(ends, w.Len())
	}
	stream := w.Bytes()
	check := func(label string, data []byte, n int, policy func() int) bool {
		core.Add("evaluations", 1)
		core.Add("limit_streams_unpacked", 1)
		cr := &wire.ChunkReader{B: data, Policy: policy}
		pr := p.Func(wire.RW{Reader: cr, Writer: io.Discard})
		for i := 0; i < n; i++ {
			m := wire.NewReceiver(p)
			if err := safeErr(func() error { return pr.Unpack(m) }); err != nil {
				violate(it, fmt.Sprintf("%sunpack-error:%s", fpBase, lenLabel(it.Pipe)),
					fmt.Sprintf("%s (%s): Unpack of frame %d of %d failed: %v; the first frame carries a pipe of %d filters", it.Proto, label, i, n, err, len(pipe)),
					map[string]interface{}{"frame": i, "frames": n, "reader": label, "pipe_len": len(pipe), "stream_len": len(data), "frame_ends": ends[:n]})
				return false
			}
			got := wire.Extract(m, p)
			want := specs[i]
			field := ""
			switch {
			case got.Seq != want.Seq:
				field = "seq"
			case got.Mtype != want.Mtype:
				field = "mtype"
			case got.Method != want.Method:
				field = "method"
			case !bytes.Equal(got.Pipe, want.Pipe):
				field = "pipe"
			case !bytes.Equal(got.Body, want.Body):
				field = "body"
			case got.Codec != want.Codec:
				field = "codec"
			case fmt.Sprint(got.Meta) != fmt.Sprint(want.Meta):
				field = "meta"
			}
			if field != "" {
				violate(it, fmt.Sprintf("%smismatch-%s:%s", fpBase, field, lenLabel(it.Pipe)),
					fmt.Sprintf("%s (%s): frame %d of %d comes back with a different %s; the first frame carries a pipe of %d filters", it.Proto, label, i, n, field, len(pipe)),
					map[string]interface{}{"frame": i, "want": want.JSON(), "got": got.JSON()})
				return false
			}
		}
		// nothing may be left over and nothing more may be wanted
		m := wire.NewReceiver(p)
		err := safeErr(func() error { return pr.Unpack(m) })
		if err == nil {
			violate(it, fmt.Sprintf("%sdesync:%s", fpBase, lenLabel(it.Pipe)), fmt.Sprintf("%s (%s): a further frame was unpacked after the last one", it.Proto, label), nil)
			return false
		}
		if cr.Off != len(data) {
			violate(it, fmt.Sprintf("%sdesync:%s", fpBase, lenLabel(it.Pipe)), fmt.Sprintf("%s (%s): %d bytes of the stream left unread after %d frames", it.Proto, label, len(data)-cr.Off, n), nil)
			return false
		}
		return true
	}
	ok := check("first frame alone", stream[:ends[0]], 1, nil) &&
		check("four frames", stream, 4, nil) &&
		check("four frames, one byte per read", stream, 4, wire.Policy("one", r)) &&
		check("two frames, 7 bytes per read", stream[:ends[1]], 2, wire.Policy("prime", r))
	core.Distinct("nontrivial", fmt.Sprintf("stream/%s/%s#%d", it.Proto, lenLabel(it.Pipe), it.Idx))
	core.Distinct("limit_stream_proto_len", it.Proto+"/"+lenLabel(it.Pipe))
	if ok && len(pipe) == 255 {
		core.Add("limit_streams_with_255_filters_held", 1)
	}
}

func safeErr(f func() error) (err error) {
	defer func() {
		if x := recover(); x != nil {
			err = fmt.Errorf("PANIC: %v", x)
		}
	}()
	return f()
}

// ---------- end to end ----------

var pushSeen int64

// EchoPush records what a push handler received.
func EchoPush(ctx erpc.PushCtx, arg *[]byte) *erpc.Status {
	o := handlerObs{body: append([]byte(nil), (*arg)...)}
	if rc, ok := ctx.(erpc.ReadCtx); ok {
		o.pipe = rc.Input().XferPipe().IDs()
	}
	obsMu.Lock()
	obs[string(ctx.PeekMeta("Tk"))] = o
	obsMu.Unlock()
	atomic.AddInt64(&pushSeen, 1)
	return nil
}

func takeObs(tk string) (handlerObs, bool) {
	obsMu.Lock()
	defer obsMu.Unlock()
	o, ok := obs[tk]
	delete(obs, tk)
	return o, ok
}

func runLimitE2E(it Item, r *core.Rand) {
	id := fmt.Sprintf("i%05d", it.Idx)
	p := protos.ByName(it.Proto)
	pipe := []byte(it.Pipe)
	desc := map[string]interface{}{"class": it.Class, "item": it, "pipe_len": len(pipe), "rerun": map[string]interface{}{"idx": it.Idx, "seed": *seed, "tier": *tier}}
	core.Begin(id, desc)
	pa := erpc.NewPeer(erpc.PeerConfig{})
	pb := erpc.NewPeer(erpc.PeerConfig{})
	defer pa.Close()
	defer pb.Close()
	route := pb.RouteCallFunc(Echo)
	proute := pb.RoutePushFunc(EchoPush)
	tb := &tap{}
	l, err := bed.Connect(pa, pb, p.Func, p.Func, func(ca, cb *memconn.Conn) { cb.SetWriteTap(tb.write) })
	if err != nil {
		inconclusive(it, "connect: "+err.Error())
		return
	}
	type viol struct {
		symptom, what string
		w             interface{}
	}
	var viols []viol
	add := func(sym, what string, w interface{}) { viols = append(viols, viol{sym, what, w}) }
	incon := ""
	settings := func(tk string, withPipe bool) []erpc.MessageSetting {
		s := []erpc.MessageSetting{erpc.WithBodyCodec(codec.ID_PLAIN), erpc.WithSetMeta("Tk", tk), erpc.WithSetMeta("Scn", "ok")}
		if withPipe {
			s = append(s, erpc.WithXferPipe(pipe...))
		}
		return s
	}
	wait := func(ch chan erpc.CallCmd, n int) bool {
		for i := 0; i < n; i++ {
			select {
			case <-ch:
			case <-time.After(8 * time.Second):
				return false
			}
		}
		return true
	}
	// checkCall judges one completed call; limit tells whether it is the one with the long pipe
	checkCall := func(cmd erpc.CallCmd, tk string, arg, res []byte, limit bool, what string) {
		core.Add("evaluations", 1)
		core.Add("limit_e2e_calls", 1)
		pre := "follow-up-"
		if limit {
			pre = ""
		}
		if stat := cmd.Status(); !stat.OK() {
			add(pre+"call-failed", fmt.Sprintf("%s: %s failed: %s", it.Proto, what, stat.String()), stat.String())
			return
		}
		if !bytes.Equal(res, reply(arg)) {
			add(pre+"result-mismatch", fmt.Sprintf("%s: %s returned a result that is not what the handler produced", it.Proto, what),
				map[string]interface{}{"want": short(reply(arg)), "got": short(res)})
		}
		if o, seen := takeObs(tk); !seen {
			add(pre+"handler-not-observed", fmt.Sprintf("%s: %s completed OK but its handler recorded nothing", it.Proto, what), nil)
		} else {
			wantPipe := []byte(nil)
			if limit {
				wantPipe = pipe
			}
			if !bytes.Equal(o.pipe, wantPipe) {
				add(pre+"receiver-pipe-differs", fmt.Sprintf("%s: %s: the handler saw an input pipe of %d filters, %d were sent", it.Proto, what, len(o.pipe), len(wantPipe)), nil)
			}
			if !bytes.Equal(o.body, arg) {
				add(pre+"payload-mismatch", fmt.Sprintf("%s: %s: the body delivered to the handler differs from what was sent", it.Proto, what),
					map[string]interface{}{"sent": short(arg), "got": short(o.body)})
			}
		}
	}
	followUp := func(n int) {
		if incon != "" || !l.A.Health() && len(viols) > 0 {
			return
		}
		arg := e2ePayload("random", r)
		tk := fmt.Sprintf("%s.f%d", id, n)
		var res []byte
		ch := make(chan erpc.CallCmd, 1)
		cmd := l.A.AsyncCall(route, arg, &res, ch, settings(tk, false)...)
		if !wait(ch, 1) {
			incon = "an ordinary call after the message with the long pipe did not complete within the watchdog"
			return
		}
		checkCall(cmd, tk, arg, res, false, fmt.Sprintf("ordinary call number %d after the %s with a pipe of %d filters", n, it.Scn, len(pipe)))
	}
	replySeqs := map[int32]bool{}
	for round := 0; round < 2 && incon == "" && len(viols) == 0; round++ {
		arg1 := e2ePayload("text", r)
		arg2 := append(e2ePayload("random", r), e2ePayload("random", r)...) // longer than the pipe prefix of a frame
		tk1, tk2 := fmt.Sprintf("%s.%d.a", id, round), fmt.Sprintf("%s.%d.b", id, round)
		switch it.Scn {
		case "call":
			// both frames are on the wire before either reply: a receiver that takes bytes of the second
			// frame for the first one cannot answer both
			var res1, res2 []byte
			ch := make(chan erpc.CallCmd, 2)
			cmd1 := l.A.AsyncCall(route, arg1, &res1, ch, settings(tk1, true)...)
			cmd2 := l.A.AsyncCall(route, arg2, &res2, ch, settings(tk2, false)...)
			if !wait(ch, 2) {
				incon = fmt.Sprintf("the call with a pipe of %d filters and the ordinary call sent right after it did not both complete within the watchdog", len(pipe))
				l.CA.Sever(false)
				break
			}
			checkCall(cmd1, tk1, arg1, res1, true, fmt.Sprintf("call with a pipe of %d filters", len(pipe)))
			checkCall(cmd2, tk2, arg2, res2, false, fmt.Sprintf("ordinary call sent right after the call with a pipe of %d filters", len(pipe)))
			if cmd1.Status().OK() {
				replySeqs[cmd1.Output().Seq()] = true
			}
		case "push":
			before := atomic.LoadInt64(&pushSeen)
			if st := l.A.Push(proute, arg1, settings(tk1, true)...); !st.OK() {
				add("push-failed", fmt.Sprintf("%s: push with a pipe of %d filters failed: %s", it.Proto, len(pipe), st.String()), st.String())
				break
			}
			var res2 []byte
			ch := make(chan erpc.CallCmd, 1)
			cmd2 := l.A.AsyncCall(route, arg2, &res2, ch, settings(tk2, false)...)
			if !wait(ch, 1) {
				incon = fmt.Sprintf("the ordinary call sent right after a push with a pipe of %d filters did not complete within the watchdog", len(pipe))
				l.CA.Sever(false)
				break
			}
			checkCall(cmd2, tk2, arg2, res2, false, fmt.Sprintf("ordinary call sent right after the push with a pipe of %d filters", len(pipe)))
			core.Add("evaluations", 1)
			core.Add("limit_e2e_pushes", 1)
			if !cmd2.Status().OK() {
				break
			}
			// the push frame was read before the call frame; its handler runs on the pool
			if !bed.WaitUntil(5*time.Second, func() bool { return atomic.LoadInt64(&pushSeen) > before }) {
				incon = "the push handler did not run within the watchdog although a later call on the same session was answered"
				break
			}
			if o, seen := takeObs(tk1); !seen {
				add("push-garbled", fmt.Sprintf("%s: a push handler ran, but not for the push that was sent with a pipe of %d filters", it.Proto, len(pipe)), nil)
			} else {
				if !bytes.Equal(o.pipe, pipe) {
					add("receiver-pipe-differs", fmt.Sprintf("%s: the push handler saw an input pipe of %d filters, %d were sent", it.Proto, len(o.pipe), len(pipe)), nil)
				}
				if !bytes.Equal(o.body, arg1) {
					add("payload-mismatch", fmt.Sprintf("%s: the body delivered to the push handler through a pipe of %d filters differs from what was sent", it.Proto, len(pipe)),
						map[string]interface{}{"sent": short(arg1), "got": short(o.body)})
				}
			}
		}
		if incon == "" && len(viols) == 0 {
			followUp(round)
		}
	}
	// the reply frames on the wire: a reply to a call goes through the caller's pipe
	if it.Scn == "call" && len(viols) == 0 && incon == "" {
		reps, perr := parseStream(p, tb.from(0))
		found := 0
		for i := range reps {
			if reps[i].Mtype == erpc.TypeReply && replySeqs[reps[i].Seq] {
				found++
				if !bytes.HasPrefix(reps[i].Pipe, pipe) {
					add("reply-pipe-not-callers", fmt.Sprintf("%s: reply frame carries a pipe of %d filters %s, the call was made with %d filters", it.Proto, len(reps[i].Pipe), short(reps[i].Pipe), len(pipe)), nil)
				} else {
					core.Add("limit_e2e_reply_frames_with_callers_pipe", 1)
				}
			}
		}
		if found < len(replySeqs) {
			add("reply-frame-unreadable", fmt.Sprintf("%s: only %d of the %d reply frames to calls with a pipe of %d filters could be read back from what the server wrote (%d frames parsed, error %v)",
				it.Proto, found, len(replySeqs), len(pipe), len(reps), perr), nil)
		}
	}
	sig := fmt.Sprintf("e2e-limit/%s/%s/%s#%d", it.Proto, it.Scn, lenLabel(it.Pipe), it.Idx)
	if len(viols) > 0 {
		seen := map[string]bool{}
		first := true
		for _, v := range viols {
			if seen[v.symptom] {
				continue
			}
			seen[v.symptom] = true
			rid := id
			if !first {
				rid = id + "#" + v.symptom
				core.Begin(rid, desc)
			}
			first = false
			core.Result(core.R{ID: rid, Verdict: core.Violated, FP: fmt.Sprintf("C12/e2e/pipe-at-limit/%s/%s-%s:%s", it.Proto, it.Scn, v.symptom, lenLabel(it.Pipe)),
				What: v.what, Witness: v.w, Desc: desc, Sig: sig})
		}
		return
	}
	if incon != "" {
		core.Add("inconclusive_items", 1)
		core.Result(core.R{ID: id, Verdict: core.Inconclusive, What: it.Proto + ": " + incon, Sig: sig})
		return
	}
	core.Distinct("nontrivial", sig)
	core.Distinct("limit_e2e_proto_scn_len", it.Proto+"/"+it.Scn+"/"+lenLabel(it.Pipe))
	core.Result(core.R{ID: id, Verdict: core.Held, Sig: sig, Nontrivial: true})
}

// parseStream unpacks consecutive frames with one protocol object until the bytes run out.
func parseStream(p protos.P, b []byte) (out []wire.Spec, err error) {
	rd := bytes.NewReader(b)
	pr := p.Func(wire.RW{Reader: rd, Writer: io.Discard})
	for i := 0; i < 64; i++ {
		m := wire.NewReceiver(p)
		if e := safeErr(func() error { return pr.Unpack(m) }); e != nil {
			if rd.Len() == 0 && len(out) > 0 {
				return out, nil
			}
			return out, e
		}
		out = append(out, wire.Extract(m, p))
	}
	return out, nil
}
