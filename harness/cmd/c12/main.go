// Worker for C12: transfer-filter pipes invert exactly; the integrity filter detects change.
//
// Leaf part (package xfer, xfer/gzip, xfer/md5): every pipe of length <= 3 over the registered
// ids plus PRNG pipes up to 255 and the 256 boundary, six payload classes, OnUnpack(OnPack(p)) == p;
// every single-byte corruption (xor 0x01, 0x80, 0xFF) of a packed payload <= 512 bytes (sampled
// positions above) must be rejected when md5 is the outermost filter, and must never yield
// success with different content when md5 is anywhere in the pipe; unregistered ids refused.
//
// End-to-end part (real peers over memconn, per protocol that carries pipes): a call made with
// pipe X, the frame the server writes back is tapped and parsed with the protocol's own Unpack:
// its pipe ids must start with X; the handler must have learned X from the request frame; a
// scripted frame naming an unregistered filter must never reach a handler.
package main

import (
	"bytes"
	"encoding/json"
	"flag"
	"fmt"
	"io"
	"os"
	"strconv"
	"strings"
	"sync"
	"sync/atomic"
	"time"

	erpc "github.com/henrylee2cn/erpc/v6"
	"github.com/henrylee2cn/erpc/v6/codec"
	"github.com/henrylee2cn/erpc/v6/xfer"

	"verifharness/bed"
	"verifharness/core"
	"verifharness/memconn"
	"verifharness/protos"
	"verifharness/wire"
)

var (
	prop   = flag.String("prop", "C12", "")
	tier   = flag.String("tier", "quick", "")
	seed   = flag.Int64("seed", 1, "")
	batch  = flag.Int("batch", 0, "")
	nbatch = flag.Int("nbatch", 1, "")
	replay = flag.String("replay", "", "")
)

var regIDs = []byte{wire.FGzip1, wire.FGzip9, wire.FMd5}

// ---------- labels ----------

func lenBucket(n int) string {
	switch {
	case n <= 3:
		return fmt.Sprintf("len%d", n)
	case n <= 8:
		return "len4-8"
	case n <= 64:
		return "len9-64"
	case n <= 254:
		return "len65-254"
	case n == 255:
		return "len255"
	}
	return "len256+"
}

func composition(pipe []byte) string {
	if len(pipe) == 0 {
		return "empty"
	}
	nm := bytes.Count(pipe, []byte{wire.FMd5})
	switch {
	case nm == 0:
		return "gzip-only"
	case nm == len(pipe):
		return "md5-only"
	case pipe[0] == wire.FMd5:
		return "md5-outer-mixed"
	}
	return "md5-inner-mixed"
}

func pipeClass(pipe []byte) string { return composition(pipe) + ":" + lenBucket(len(pipe)) }

func hasMd5(pipe []byte) bool { return bytes.IndexByte(pipe, wire.FMd5) >= 0 }

// ---------- items ----------

// Item is one unit of work; the list of items is a pure function of (tier, seed).
type Item struct {
	Idx     int    `json:"idx"`
	Part    string `json:"part"` // roundtrip | corrupt | append | e2e | script
	Pipe    string `json:"pipe"` // filter ids as a string
	Origin  string `json:"origin,omitempty"`
	Payload string `json:"payload,omitempty"` // payload class
	Proto   string `json:"proto,omitempty"`
	Scn     string `json:"scenario,omitempty"`
	BadID   int    `json:"bad_id,omitempty"`
	Pos     int    `json:"pos,omitempty"`
	Class   string `json:"class"`
}

var payloadClasses = []string{"empty", "one", "zeros", "text", "random", "large"}

const sentence = "The quick brown fox jumps over the lazy dog; pack my box with five dozen liquor jugs. "

func payload(class string, r *core.Rand) []byte {
	switch class {
	case "empty":
		return []byte{}
	case "one":
		return []byte{byte(r.Intn(256))}
	case "zeros":
		return make([]byte, 4096)
	case "text":
		return []byte(strings.Repeat(sentence, 3)[:60+r.Intn(190)])
	case "random":
		return r.Bytes(150 + r.Intn(250))
	case "large":
		b := r.Bytes(1 << 20)
		// second half compressible, first half not
		t := []byte(sentence)
		for i := 1 << 19; i < len(b); i++ {
			b[i] = t[i%len(t)]
		}
		return b
	}
	panic("payload class " + class)
}

func allPipes(maxLen int) [][]byte {
	out := [][]byte{{}}
	prev := [][]byte{{}}
	for l := 1; l <= maxLen; l++ {
		var cur [][]byte
		for _, p := range prev {
			for _, id := range regIDs {
				q := append(append([]byte(nil), p...), id)
				cur = append(cur, q)
			}
		}
		out = append(out, cur...)
		prev = cur
	}
	return out
}

// prngPipe draws a pipe of a labelled shape.
func prngPipe(r *core.Rand, k int) []byte {
	var n int
	switch k % 4 {
	case 0:
		n = 4 + r.Intn(5)
	case 1:
		n = 9 + r.Intn(56)
	case 2:
		n = 65 + r.Intn(190)
	default:
		n = 255
	}
	p := make([]byte, n)
	shape := (k / 4) % 5
	for i := range p {
		switch shape {
		case 0: // mixed
			p[i] = regIDs[r.Intn(3)]
		case 1: // md5 only
			p[i] = wire.FMd5
		case 2: // gzip only
			p[i] = regIDs[r.Intn(2)]
		case 3: // mostly md5, some gzip, md5 outermost
			p[i] = wire.FMd5
			if r.Intn(6) == 0 {
				p[i] = regIDs[r.Intn(2)]
			}
		default: // gzip outermost, md5 somewhere inside
			p[i] = regIDs[r.Intn(3)]
		}
	}
	switch shape {
	case 3:
		p[0] = wire.FMd5
		if n > 1 {
			p[1+r.Intn(n-1)] = wire.FGzip1
		}
	case 4:
		p[0] = regIDs[r.Intn(2)]
		p[1+r.Intn(n-1)] = wire.FMd5
	}
	return p
}

func gzipCount(p []byte) int { return len(p) - bytes.Count(p, []byte{wire.FMd5}) }

func e2ePipes(p protos.P, thorough bool, r *core.Rand) []string {
	if p.HTTP {
		// documented: "only support xfer filter: gzip" - pipes made of gzip filters, repeats included
		return []string{"", "z", "g", "zz", "zg", "gz", "gzg"}
	}
	out := []string{"", "z", "g", "m", "zm", "mz", "gm", "mg", "zz", "mm", "mzm", "zmg", "gzm"}
	n := 3
	if thorough {
		n = 24
	}
	for k := 0; k < n; k++ {
		q := prngPipe(r, k)
		if len(q) > 64 && gzipCount(q) > 40 {
			q = q[:64]
		}
		out = append(out, string(q))
	}
	out = append(out, strings.Repeat("m", 255))
	return out
}

var e2eProtos = []string{"raw", "json", "pb", "thrift-binary", "http"}

func buildItems(tierName string, seed int64) []Item {
	thorough := tierName == "thorough"
	var items []Item
	add := func(it Item) {
		it.Idx = len(items)
		items = append(items, it)
	}
	short := allPipes(3)
	// 1. round trips: exhaustive short pipes x all payload classes
	for _, p := range short {
		for _, pc := range payloadClasses {
			add(Item{Part: "roundtrip", Pipe: string(p), Origin: "exhaustive", Payload: pc, Class: "roundtrip." + pc})
		}
	}
	// 2. round trips: PRNG pipes up to 255
	nPrng := 60
	if thorough {
		nPrng = 5000
	}
	pr := core.NewRand(seed, 1201)
	var prng [][]byte
	for k := 0; k < nPrng; k++ {
		prng = append(prng, prngPipe(pr, k))
	}
	for k, p := range prng {
		for _, pc := range payloadClasses {
			if pc == "large" && (gzipCount(p) > 4 || (thorough && k%16 != 0)) {
				continue
			}
			if thorough && pc != "large" && (k+len(pc))%3 != 0 {
				continue // thorough: each pipe with a third of the small payload classes
			}
			add(Item{Part: "roundtrip", Pipe: string(p), Origin: "prng", Payload: pc, Class: "roundtrip." + pc})
		}
	}
	// 3. Append: boundary 255/256 and unregistered ids
	add(Item{Part: "append", Scn: "limit", Class: "append-limit"})
	add(Item{Part: "append", Scn: "unregistered", Class: "append-unregistered"})
	// 4. corruption: exhaustive short pipes (all of them: md5 pipes are asserted, gzip-only ones observed)
	corPayloads := []string{"empty", "one", "zeros", "text", "random"}
	for _, p := range short {
		if len(p) == 0 {
			continue
		}
		for _, pc := range corPayloads {
			add(Item{Part: "corrupt", Pipe: string(p), Origin: "exhaustive", Payload: pc, Class: "corrupt." + pc})
		}
		if hasMd5(p) && (len(p) <= 2 || thorough) {
			add(Item{Part: "corrupt", Pipe: string(p), Origin: "exhaustive", Payload: "large", Class: "corrupt.large"})
		}
	}
	// 5. corruption: PRNG pipes containing md5
	nc := 40
	if thorough {
		nc = 2500
	}
	for k := 0; k < nc && k < len(prng); k++ {
		p := prng[k]
		if !hasMd5(p) {
			continue
		}
		if gzipCount(p) > 60 && !thorough {
			continue
		}
		add(Item{Part: "corrupt", Pipe: string(p), Origin: "prng", Payload: corPayloads[k%len(corPayloads)], Class: "corrupt." + corPayloads[k%len(corPayloads)]})
	}
	// 6. end to end
	er := core.NewRand(seed, 1202)
	for _, pn := range e2eProtos {
		p := protos.ByName(pn)
		for _, pipe := range e2ePipes(p, thorough, er) {
			for _, scn := range []string{"ok", "handler-error", "extra-pipe", "not-found"} {
				if scn == "extra-pipe" && p.HTTP && pipe != "" {
					continue // would need two Content-Encoding headers
				}
				if scn == "extra-pipe" && len(pipe) == 255 {
					// the caller's pipe is at the documented maximum and the handler asks for one more filter
					scn = "extra-pipe-at-limit"
				}
				add(Item{Part: "e2e", Proto: pn, Pipe: pipe, Scn: scn, Class: "e2e." + scn})
			}
		}
	}
	// 7. scripted frames naming an unregistered filter
	for _, pn := range e2eProtos {
		p := protos.ByName(pn)
		base := []string{"z", "zgm", "m"}
		if p.HTTP {
			base = []string{"z"}
		}
		for _, b := range base {
			add(Item{Part: "script", Proto: pn, Pipe: b, Scn: "control", Class: "script.control"})
			var bad []int
			if p.HTTP {
				bad = []int{7, 0, 5} // name variants, see httpBadNames
			} else if thorough && pn != "thrift-binary" {
				for id := 0; id < 256; id++ {
					if bytes.IndexByte(regIDs, byte(id)) < 0 {
						bad = append(bad, id)
					}
				}
			} else {
				bad = []int{0, 1, 'Q', 'y', 0x7f, 0x80, 0xff}
				if pn == "thrift-binary" {
					bad = []int{1, 'Q', 'y', 0x7f} // header values are strings: keep to ASCII
				}
			}
			for _, id := range bad {
				for pos := 0; pos < len(b); pos++ {
					if len(bad) > 20 && pos != (id%len(b)) {
						continue
					}
					add(Item{Part: "script", Proto: pn, Pipe: b, Scn: "unregistered", BadID: id, Pos: pos, Class: "script.unregistered"})
				}
			}
		}
	}
	// 8. pipes of exactly 254 / 255 filters: protocol object alone and end to end (limit.go)
	limitItems(add)
	// 9. the filter registry against its model (registry.go)
	registryItems(add, thorough)
	// 10. payload sizes around the unpack limit (unpacklimit.go)
	unpackLimitItems(add)
	// 11. scripted frames naming an unregistered filter, websocket sub-protocols (wsleaf.go)
	wsLeafItems(add, thorough)
	return items
}

// ---------- reporting ----------

func violate(it Item, fp, what string, witness interface{}) {
	id := fmt.Sprintf("i%05d", it.Idx)
	desc := map[string]interface{}{"class": it.Class, "item": it, "pipe_ids": fmt.Sprintf("%q", it.Pipe),
		"rerun": map[string]interface{}{"idx": it.Idx, "seed": *seed, "tier": *tier}}
	core.Begin(id, desc)
	core.Result(core.R{ID: id, Verdict: core.Violated, FP: fp, What: what, Witness: witness, Desc: desc})
}

func inconclusive(it Item, what string) {
	id := fmt.Sprintf("i%05d", it.Idx)
	core.Add("inconclusive_items", 1)
	core.Result(core.R{ID: id, Verdict: core.Inconclusive, What: what})
}

func short(b []byte) string {
	if len(b) > 48 {
		return fmt.Sprintf("%q...(%d bytes)", b[:48], len(b))
	}
	return fmt.Sprintf("%q", b)
}

func safely(f func() ([]byte, error)) (out []byte, err error, panicked bool) {
	defer func() {
		if r := recover(); r != nil {
			err = fmt.Errorf("PANIC: %v", r)
			panicked = true
		}
	}()
	out, err = f()
	return
}

func mkPipe(ids []byte) (*xfer.XferPipe, error) {
	x := xfer.NewXferPipe()
	if err := x.Append(ids...); err != nil {
		return nil, err
	}
	return x, nil
}

// ---------- leaf: round trip ----------

func runRoundtrip(it Item, r *core.Rand) {
	ids := []byte(it.Pipe)
	pc := pipeClass(ids)
	x, err := mkPipe(ids)
	core.Add("evaluations", 1)
	core.Add("roundtrips", 1)
	if it.Origin == "exhaustive" {
		core.Add("roundtrips_exhaustive_len_le3", 1)
		core.Distinct("exhaustive_pipes_len_le3", it.Pipe)
	}
	core.Distinct("nontrivial", "roundtrip/"+pc+"/"+it.Payload)
	core.Distinct("pipes", it.Pipe)
	core.Max("max_pipe_len", int64(len(ids)))
	if err != nil {
		violate(it, "C12/leaf/"+it.Class+"/"+pc+"/append-refused", fmt.Sprintf("Append of %d registered ids failed: %v", len(ids), err), err.Error())
		return
	}
	if got := x.IDs(); !bytes.Equal(got, ids) {
		violate(it, "C12/leaf/"+it.Class+"/"+pc+"/ids-differ", "IDs() differs from the appended ids", fmt.Sprintf("appended %q, IDs() %q", ids, got))
		return
	}
	p := payload(it.Payload, r)
	orig := append([]byte(nil), p...)
	packed, err, _ := safely(func() ([]byte, error) { return x.OnPack(p) })
	if err != nil {
		violate(it, "C12/leaf/"+it.Class+"/"+pc+"/pack-error", fmt.Sprintf("OnPack failed on pipe %q: %v", it.Pipe, err), err.Error())
		return
	}
	core.Max("max_packed_len", int64(len(packed)))
	// in transit: the receiver works on its own copy
	transit := append([]byte(nil), packed...)
	out, err, _ := safely(func() ([]byte, error) { return x.OnUnpack(transit) })
	if err != nil {
		violate(it, "C12/leaf/"+it.Class+"/"+pc+"/unpack-error", fmt.Sprintf("OnUnpack(OnPack(p)) failed on pipe %q, payload class %s: %v", it.Pipe, it.Payload, err), err.Error())
		return
	}
	if !bytes.Equal(out, orig) {
		violate(it, "C12/leaf/"+it.Class+"/"+pc+"/mismatch", fmt.Sprintf("OnUnpack(OnPack(p)) != p on pipe %q, payload class %s", it.Pipe, it.Payload),
			map[string]interface{}{"pipe": it.Pipe, "sent": short(orig), "got": short(out), "first_diff": firstDiff(orig, out)})
		return
	}
	// a second, independently built pipe object (as the receiver has) must invert it as well
	y, _ := mkPipe(ids)
	out2, err, _ := safely(func() ([]byte, error) { return y.OnUnpack(append([]byte(nil), packed...)) })
	if err != nil || !bytes.Equal(out2, orig) {
		violate(it, "C12/leaf/"+it.Class+"/"+pc+"/mismatch", fmt.Sprintf("a second pipe object with the same ids does not invert the packed payload (pipe %q): err=%v", it.Pipe, err),
			map[string]interface{}{"pipe": it.Pipe, "sent": short(orig), "got": short(out2)})
		return
	}
	if it.Idx%97 == 0 {
		core.Sample(map[string]interface{}{"part": "roundtrip", "pipe": it.Pipe, "payload_class": it.Payload, "payload_len": len(orig), "packed_len": len(packed)})
	}
}

func firstDiff(a, b []byte) int {
	n := len(a)
	if len(b) < n {
		n = len(b)
	}
	for i := 0; i < n; i++ {
		if a[i] != b[i] {
			return i
		}
	}
	if len(a) != len(b) {
		return n
	}
	return -1
}

// ---------- leaf: Append ----------

func runAppend(it Item) {
	switch it.Scn {
	case "limit":
		for _, id := range regIDs {
			// all at once
			x := xfer.NewXferPipe()
			core.Add("evaluations", 4)
			core.Add("append_limit_checks", 4)
			if err := x.Append(bytes.Repeat([]byte{id}, 255)...); err != nil || x.Len() != 255 {
				violate(it, "C12/leaf/append-limit/len255/refused", fmt.Sprintf("Append of 255 ids %q refused: %v (len %d)", id, err, x.Len()), nil)
			}
			if err := x.Append(id); err == nil {
				violate(it, "C12/leaf/append-limit/len256/accepted", fmt.Sprintf("the 256th filter (id %q) was accepted by Append: Len()=%d", id, x.Len()), nil)
			} else if x.Len() > 255 {
				core.Add("observed_len_above_255_after_refused_append", 1)
				violate(it, "C12/leaf/append-limit/len256/kept-despite-error",
					fmt.Sprintf("Append of the 256th filter (id %q) returned %q but the pipe now holds %d filters and OnPack / IDs() use all of them", id, err, x.Len()),
					map[string]interface{}{"len_after_refusal": x.Len(), "ids_len": len(x.IDs())})
			}
			y := xfer.NewXferPipe()
			if err := y.Append(bytes.Repeat([]byte{id}, 256)...); err == nil {
				violate(it, "C12/leaf/append-limit/len256/accepted", fmt.Sprintf("Append of 256 ids %q at once was accepted: Len()=%d", id, y.Len()), nil)
			}
			// one by one
			z := xfer.NewXferPipe()
			var e error
			n := 0
			for ; n < 300 && e == nil; n++ {
				e = z.Append(id)
			}
			if n != 256 {
				violate(it, "C12/leaf/append-limit/len256/accepted", fmt.Sprintf("appending id %q one by one: first refusal at filter number %d, want 256", id, n), nil)
			}
		}
		core.Distinct("nontrivial", "append/limit")
	case "unregistered":
		for id := 0; id < 256; id++ {
			if bytes.IndexByte(regIDs, byte(id)) >= 0 || registeredByHarness(byte(id)) {
				continue
			}
			core.Add("evaluations", 3)
			core.Add("append_unregistered_checks", 3)
			if _, err := xfer.Get(byte(id)); err == nil {
				violate(it, "C12/leaf/append-unregistered/len1/accepted", fmt.Sprintf("xfer.Get(%d) found a filter that was never registered", id), nil)
			}
			for _, ids := range [][]byte{{byte(id)}, {wire.FGzip1, byte(id), wire.FMd5}, {wire.FMd5, wire.FMd5, byte(id)}} {
				x := xfer.NewXferPipe()
				if err := x.Append(ids...); err == nil {
					violate(it, fmt.Sprintf("C12/leaf/append-unregistered/len%d/accepted", len(ids)), fmt.Sprintf("Append(%v) naming the unregistered id %d returned no error", ids, id), nil)
				}
			}
		}
		core.Distinct("nontrivial", "append/unregistered")
	}
}

// ---------- leaf: corruption ----------

var masks = []byte{0x01, 0x80, 0xFF}

func runCorrupt(it Item, r *core.Rand) {
	ids := []byte(it.Pipe)
	pc := pipeClass(ids)
	x, err := mkPipe(ids)
	if err != nil {
		core.Fatalf("corrupt: pipe %q: %v", it.Pipe, err)
	}
	p := payload(it.Payload, r)
	orig := append([]byte(nil), p...)
	packed, err := x.OnPack(p)
	if err != nil {
		return // reported by the round-trip items
	}
	packed = append([]byte(nil), packed...)
	var positions []int
	exhaustive := len(packed) <= 512
	if exhaustive {
		for i := range packed {
			positions = append(positions, i)
		}
	} else {
		ns := 64
		if *tier == "thorough" {
			ns = 400
		}
		if it.Payload == "large" {
			ns = 24
		}
		for i := 0; i < 24; i++ {
			positions = append(positions, i, len(packed)-1-i)
		}
		for i := 0; i < ns; i++ {
			positions = append(positions, r.Intn(len(packed)))
		}
	}
	md5In := hasMd5(ids)
	md5Outer := len(ids) > 0 && ids[0] == wire.FMd5
	buf := make([]byte, len(packed))
	var nEval, rejected, accSame, accDiff, panics int64
	reported := map[string]bool{}
	for _, pos := range positions {
		for _, mk := range masks {
			copy(buf, packed)
			buf[pos] ^= mk
			in := buf
			if len(ids) > 1 || !md5In {
				// gzip layers may keep references; give every evaluation its own slice when cheap
				in = append([]byte(nil), buf...)
			}
			out, e, panicked := safely(func() ([]byte, error) { return x.OnUnpack(in) })
			nEval++
			region := "content"
			if md5Outer && pos >= len(packed)-16 {
				region = "checksum"
			}
			switch {
			case panicked && !md5Outer:
				// a panic below a gzip layer is not the integrity filter accepting anything: recorded, not asserted here
				panics++
			case panicked:
				if !reported["panic"] {
					reported["panic"] = true
					violate(it, "C12/leaf/"+it.Class+"/"+pc+"/panic", fmt.Sprintf("OnUnpack panicked on a single-byte change (pipe %q, position %d of %d, xor %#x): %v", it.Pipe, pos, len(packed), mk, e), nil)
				}
			case e != nil:
				rejected++
			case bytes.Equal(out, orig):
				accSame++
				if md5Outer && !reported["accepted"] {
					reported["accepted"] = true
					violate(it, "C12/leaf/"+it.Class+"/"+pc+"/accepted-changed-"+region,
						fmt.Sprintf("md5 is the outermost filter of pipe %q but a packed payload with byte %d of %d xor %#x was accepted", it.Pipe, pos, len(packed), mk),
						map[string]interface{}{"pipe": it.Pipe, "position": pos, "packed_len": len(packed), "mask": mk, "payload_class": it.Payload})
				}
			default:
				accDiff++
				if md5In && !reported["different"] {
					reported["different"] = true
					violate(it, "C12/leaf/"+it.Class+"/"+pc+"/accepted-different-content",
						fmt.Sprintf("pipe %q contains the integrity filter but OnUnpack succeeded with content different from the original after byte %d of %d xor %#x", it.Pipe, pos, len(packed), mk),
						map[string]interface{}{"pipe": it.Pipe, "position": pos, "packed_len": len(packed), "mask": mk, "payload_class": it.Payload, "sent": short(orig), "got": short(out)})
				}
			}
		}
	}
	core.Add("evaluations", nEval)
	core.Add("corruptions", nEval)
	if panics > 0 {
		core.Add("observed_unpack_panics_in_gzip_layer", panics)
		core.Distinct("observed_unpack_panic_pipe_classes", pc)
	}
	switch {
	case md5Outer:
		core.Add("corruptions_md5_outermost", nEval)
		core.Add("corruptions_md5_outermost_rejected", rejected)
		if exhaustive {
			core.Add("packed_payloads_md5_outermost_all_positions", 1)
		} else {
			core.Add("packed_payloads_md5_outermost_sampled_positions", 1)
		}
	case md5In:
		core.Add("corruptions_md5_inside", nEval)
		core.Add("corruptions_md5_inside_rejected", rejected)
		core.Add("corruptions_md5_inside_accepted_identical_content", accSame)
	default:
		// gzip alone: nothing is promised, outcomes are recorded
		core.Add("corruptions_gzip_only_observed", nEval)
		core.Add("corruptions_gzip_only_rejected", rejected)
		core.Add("corruptions_gzip_only_accepted_identical_content", accSame)
		core.Add("corruptions_gzip_only_accepted_different_content", accDiff)
	}
	if exhaustive {
		core.Add("packed_payloads_all_positions", 1)
	} else {
		core.Add("packed_payloads_sampled_positions", 1)
	}
	if md5In {
		core.Distinct("nontrivial", "corrupt/"+pc+"/"+it.Payload)
	}
	if it.Origin == "exhaustive" {
		core.Distinct("exhaustive_pipes_corrupted_len_le3", it.Pipe)
	}
	if it.Idx%53 == 0 {
		core.Sample(map[string]interface{}{"part": "corrupt", "pipe": it.Pipe, "payload_class": it.Payload, "packed_len": len(packed),
			"all_positions": exhaustive, "evaluations": nEval, "rejected": rejected, "accepted_identical": accSame, "accepted_different": accDiff})
	}
}

// ---------- end to end ----------

type handlerObs struct {
	pipe []byte
	body []byte
}

var (
	handlerCalls int64
	obsMu        sync.Mutex
	obs          = map[string]handlerObs{}
)

const extraFilter = wire.FMd5

// Echo is the call handler of the end-to-end part.
func Echo(ctx erpc.CallCtx, arg *[]byte) ([]byte, *erpc.Status) {
	atomic.AddInt64(&handlerCalls, 1)
	tk := string(ctx.PeekMeta("Tk"))
	obsMu.Lock()
	obs[tk] = handlerObs{pipe: ctx.Input().XferPipe().IDs(), body: append([]byte(nil), (*arg)...)}
	obsMu.Unlock()
	switch string(ctx.PeekMeta("Scn")) {
	case "handler-error":
		return nil, erpc.NewStatus(777, "scripted failure", "c12")
	case "small-reply":
		return []byte("R:small"), nil
	case "big-reply":
		n, _ := strconv.Atoi(string(ctx.PeekMeta("N")))
		return bigReply(n), nil
	case "extra-pipe", "extra-pipe-at-limit":
		if string(ctx.PeekMeta("Xf")) == "z" {
			ctx.AddXferPipe(wire.FGzip1)
		} else {
			ctx.AddXferPipe(extraFilter)
		}
	}
	return reply(*arg), nil
}

func reply(arg []byte) []byte {
	out := make([]byte, 0, len(arg)+2)
	out = append(out, 'R', ':')
	for i := len(arg) - 1; i >= 0; i-- {
		out = append(out, arg[i])
	}
	return out
}

const alnum = "abcdefghijklmnopqrstuvwxyzABCDEFGHIJKLMNOPQRSTUVWXYZ0123456789"

// e2ePayload: printable bodies (byte transparency of protocols and codecs is C05 / C11).
func e2ePayload(class string, r *core.Rand) []byte {
	switch class {
	case "one":
		return []byte{alnum[r.Intn(len(alnum))]}
	case "zeros":
		return bytes.Repeat([]byte{'0'}, 3000)
	case "text":
		return []byte(strings.Repeat(sentence, 1+r.Intn(6)))
	}
	b := make([]byte, 300+r.Intn(300))
	for i := range b {
		b[i] = alnum[r.Intn(len(alnum))]
	}
	return b
}

type tap struct {
	mu sync.Mutex
	b  []byte
}

func (t *tap) write(p []byte, total int64) {
	t.mu.Lock()
	t.b = append(t.b, p...)
	t.mu.Unlock()
}

func (t *tap) from(off int) []byte {
	t.mu.Lock()
	defer t.mu.Unlock()
	return append([]byte(nil), t.b[off:]...)
}

// parseFrames unpacks all frames of b with a fresh protocol object.
func parseFrames(p protos.P, b []byte) (out []wire.Spec, err error) {
	rd := bytes.NewReader(b)
	pr := p.Func(wire.RW{Reader: rd, Writer: io.Discard})
	for rd.Len() > 0 {
		m := wire.NewReceiver(p)
		var e error
		func() {
			defer func() {
				if x := recover(); x != nil {
					e = fmt.Errorf("PANIC: %v", x)
				}
			}()
			e = pr.Unpack(m)
		}()
		if e != nil {
			return out, e
		}
		out = append(out, wire.Extract(m, p))
		if p.Name == "thrift-binary" {
			break // the header transport reads ahead; one frame per call is all that is needed
		}
	}
	return out, nil
}

func runE2E(it Item, r *core.Rand) {
	id := fmt.Sprintf("i%05d", it.Idx)
	p := protos.ByName(it.Proto)
	pipe := []byte(it.Pipe)
	pcl := composition(pipe) + ":" + lenBucket(len(pipe))
	core.Begin(id, map[string]interface{}{"class": it.Class, "item": it, "pipe_ids": fmt.Sprintf("%q", it.Pipe)})
	pa := erpc.NewPeer(erpc.PeerConfig{})
	pb := erpc.NewPeer(erpc.PeerConfig{})
	defer pa.Close()
	defer pb.Close()
	route := pb.RouteCallFunc(Echo)
	ta, tb := &tap{}, &tap{}
	l, err := bed.Connect(pa, pb, p.Func, p.Func, func(ca, cb *memconn.Conn) {
		ca.SetWriteTap(ta.write)
		cb.SetWriteTap(tb.write)
	})
	if err != nil {
		inconclusive(it, "connect: "+err.Error())
		return
	}
	type viol struct {
		symptom, what string
		w             interface{}
	}
	var viols []viol
	offA, offB := 0, 0
	calls := 0
	for ci, plc := range []string{"text", "zeros", "random", "one"} {
		arg := e2ePayload(plc, r)
		tk := fmt.Sprintf("%s.%d", id, ci)
		sm := route
		if it.Scn == "not-found" {
			sm = "/no/such/route"
		}
		set := []erpc.MessageSetting{erpc.WithBodyCodec(codec.ID_PLAIN), erpc.WithSetMeta("Tk", tk), erpc.WithSetMeta("Scn", it.Scn)}
		if p.HTTP {
			set = append(set, erpc.WithSetMeta("Xf", "z"))
		}
		if len(pipe) > 0 {
			set = append(set, erpc.WithXferPipe(pipe...))
		}
		var res []byte
		ch := make(chan erpc.CallCmd, 1)
		cmd := l.A.AsyncCall(sm, arg, &res, ch, set...)
		select {
		case <-ch:
		case <-time.After(8 * time.Second):
			l.CA.Sever(false)
			inconclusive(it, fmt.Sprintf("call %d (%s, scenario %s, pipe class %s) did not complete within the watchdog", ci, it.Proto, it.Scn, pcl))
			return
		}
		calls++
		core.Add("evaluations", 1)
		core.Add("e2e_calls", 1)
		stat := cmd.Status()
		seq := cmd.Output().Seq()
		add := func(sym, what string, w interface{}) { viols = append(viols, viol{sym, what, w}) }
		// caller's view
		switch it.Scn {
		case "ok", "extra-pipe", "extra-pipe-at-limit":
			if !stat.OK() {
				add("call-failed", fmt.Sprintf("%s: call through pipe %q (payload %s) failed: %s", it.Proto, it.Pipe, plc, stat.String()), stat.String())
			} else if !bytes.Equal(res, reply(arg)) {
				add("result-mismatch", fmt.Sprintf("%s: result of a call through pipe %q differs from what the handler returned", it.Proto, it.Pipe),
					map[string]interface{}{"want": short(reply(arg)), "got": short(res)})
			}
		case "handler-error":
			if stat.Code() != 777 {
				add("status-lost", fmt.Sprintf("%s: handler status 777 sent back through pipe %q arrived as %s", it.Proto, it.Pipe, stat.String()), stat.String())
			}
		case "not-found":
			if stat.Code() != erpc.CodeNotFound {
				add("status-lost", fmt.Sprintf("%s: call of an unknown route through pipe %q completed with %s, want 404", it.Proto, it.Pipe, stat.String()), stat.String())
			}
		}
		failedNow := len(viols) > 0
		// the handler's view: pipe learned from the frame, payload restored
		if it.Scn != "not-found" {
			obsMu.Lock()
			o, seen := obs[tk]
			delete(obs, tk)
			obsMu.Unlock()
			if !seen {
				if stat.OK() || stat.Code() == 777 {
					add("handler-not-observed", "call completed but the handler recorded nothing", nil)
				}
			} else {
				core.Add("e2e_handler_observations", 1)
				if !bytes.Equal(o.pipe, pipe) {
					add("receiver-pipe-differs", fmt.Sprintf("%s: the handler saw input pipe %q for a call sent with pipe %q", it.Proto, o.pipe, it.Pipe), nil)
				}
				if !bytes.Equal(o.body, arg) {
					add("payload-mismatch", fmt.Sprintf("%s: body delivered to the handler through pipe %q differs from what was sent", it.Proto, it.Pipe),
						map[string]interface{}{"sent": short(arg), "got": short(o.body)})
				}
			}
		}
		// the frames on the wire
		reqBytes := ta.from(offA)
		offA += len(reqBytes)
		repBytes := tb.from(offB)
		offB += len(repBytes)
		if reqs, e := parseFrames(p, reqBytes); e == nil && len(reqs) >= 1 {
			core.Add("e2e_request_frames_parsed", 1)
			if bytes.Equal(reqs[0].Pipe, pipe) {
				core.Add("e2e_request_frames_carrying_the_pipe", 1)
			}
		}
		reps, e := parseFrames(p, repBytes)
		var rep *wire.Spec
		for i := range reps {
			if reps[i].Mtype == erpc.TypeReply && reps[i].Seq == seq {
				rep = &reps[i]
			}
		}
		switch {
		case rep == nil && e != nil:
			add("reply-frame-unreadable", fmt.Sprintf("%s: the frame the server wrote in reply to a call with pipe %q cannot be unpacked: %v", it.Proto, it.Pipe, e),
				map[string]interface{}{"frame_len": len(repBytes), "frame_head": short(repBytes)})
		case rep == nil:
			if len(repBytes) == 0 {
				add("no-reply-frame", "no bytes written by the server for this call", nil)
			} else {
				add("reply-frame-unreadable", fmt.Sprintf("%s: no REPLY frame with seq %d among the %d frames written by the server", it.Proto, seq, len(reps)), nil)
			}
		default:
			core.Add("e2e_reply_frames_parsed", 1)
			if !bytes.HasPrefix(rep.Pipe, pipe) {
				add("reply-pipe-not-callers", fmt.Sprintf("%s: reply frame carries pipe %q, the call was made with pipe %q", it.Proto, rep.Pipe, it.Pipe),
					map[string]interface{}{"request_pipe": it.Pipe, "reply_pipe": string(rep.Pipe), "scenario": it.Scn})
			} else if len(pipe) > 0 {
				core.Add("e2e_reply_frames_with_callers_nonempty_pipe", 1)
			}
			if it.Scn == "extra-pipe" && len(rep.Pipe) == len(pipe)+1 {
				core.Add("e2e_reply_frames_with_handler_appended_filter", 1)
			}
		}
		if failedNow && !l.A.Health() {
			break
		}
	}
	sig := fmt.Sprintf("e2e/%s/%s/%s", it.Proto, it.Scn, it.Pipe)
	if len(it.Pipe) > 8 {
		sig = fmt.Sprintf("e2e/%s/%s/%s#%d", it.Proto, it.Scn, pcl, it.Idx)
	}
	if len(viols) == 0 {
		if len(pipe) > 0 {
			core.Distinct("nontrivial", sig)
		}
		core.Distinct("e2e_proto_pipeclass", it.Proto+"/"+pcl)
		core.Result(core.R{ID: id, Verdict: core.Held, Sig: sig, Nontrivial: len(pipe) > 0})
		if it.Idx%41 == 0 {
			core.Sample(map[string]interface{}{"part": "e2e", "proto": it.Proto, "pipe": it.Pipe, "scenario": it.Scn, "calls": calls})
		}
		return
	}
	seen := map[string]bool{}
	first := true
	for _, v := range viols {
		if seen[v.symptom] {
			continue
		}
		seen[v.symptom] = true
		rid := id
		desc := map[string]interface{}{"class": it.Class, "item": it, "pipe_ids": fmt.Sprintf("%q", it.Pipe), "rerun": map[string]interface{}{"idx": it.Idx, "seed": *seed, "tier": *tier}}
		if !first {
			rid = id + "#" + v.symptom
			core.Begin(rid, desc)
		}
		first = false
		core.Result(core.R{ID: rid, Verdict: core.Violated, FP: fmt.Sprintf("C12/e2e/%s/%s/%s:%s", it.Scn, it.Proto, v.symptom, pcl), What: v.what, Witness: v.w, Desc: desc, Sig: sig})
	}
}

// ---------- scripted frames ----------

var httpBadNames = map[int]string{7: "gzip-7", 0: "bogus0", 5: "GZIP-1"}

// scriptFrame packs a CALL with the registered pipe and, for pos >= 0, rewrites one filter id.
func scriptFrame(p protos.P, route string, pipe []byte, tk string, bad int, pos int) ([]byte, error) {
	s := wire.Spec{Seq: 1, Mtype: erpc.TypeCall, Method: route, Codec: codec.ID_PLAIN, Body: []byte("scripted body " + tk), Pipe: pipe,
		Meta: []wire.KV{{K: "Tk", V: tk}, {K: "Scn", V: "ok"}}}
	m, err := wire.Build(s, p)
	if err != nil {
		return nil, err
	}
	var w bytes.Buffer
	if err := p.Func(wire.RW{Reader: bytes.NewReader(nil), Writer: &w}).Pack(m); err != nil {
		return nil, err
	}
	f := w.Bytes()
	if pos < 0 {
		return f, nil
	}
	switch p.Name {
	case "raw", "json", "pb":
		if len(f) < 5+len(pipe) || int(f[4]) != len(pipe) || !bytes.Equal(f[5:5+len(pipe)], pipe) {
			return nil, fmt.Errorf("frame layout not as expected: % x", f[:16])
		}
		f[5+pos] = byte(bad)
	case "thrift-binary":
		key := append([]byte("Tp-XferPipe"), byte(len(pipe)))
		key = append(key, pipe...)
		i := bytes.Index(f, key)
		if i < 0 {
			return nil, fmt.Errorf("pipe header not found in the thrift frame")
		}
		f[i+len("Tp-XferPipe")+1+pos] = byte(bad)
	case "http":
		old := []byte("X-Content-Encoding: gzip-1")
		i := bytes.Index(f, old)
		if i < 0 {
			return nil, fmt.Errorf("X-Content-Encoding header not found in the http frame")
		}
		copy(f[i+len("X-Content-Encoding: "):], httpBadNames[bad])
	}
	return f, nil
}

func protoRaw() protos.P { return protos.ByName("raw") }

func runScript(it Item) {
	id := fmt.Sprintf("i%05d", it.Idx)
	p := protos.ByName(it.Proto)
	if it.Scn == "unregistered" && !p.HTTP && registeredByHarness(byte(it.BadID)) {
		return // the registry part of this process has registered that id meanwhile
	}
	desc := map[string]interface{}{"class": it.Class, "item": it, "rerun": map[string]interface{}{"idx": it.Idx, "seed": *seed, "tier": *tier}}
	core.Begin(id, desc)
	pb := erpc.NewPeer(erpc.PeerConfig{})
	defer pb.Close()
	route := pb.RouteCallFunc(Echo)
	pos := it.Pos
	if it.Scn == "control" {
		pos = -1
	}
	frame, err := scriptFrame(p, route, []byte(it.Pipe), id, it.BadID, pos)
	if err != nil {
		core.Fatalf("script frame %s: %v", it.Proto, err)
	}
	ca, cb := memconn.NewPair()
	before := atomic.LoadInt64(&handlerCalls)
	sess, stat := pb.ServeConn(cb, p.Func)
	if !stat.OK() {
		inconclusive(it, "ServeConn: "+stat.String())
		return
	}
	if _, err := ca.Write(frame); err != nil {
		inconclusive(it, "write: "+err.Error())
		return
	}
	// the frame has been dealt with once the server has written something back (a reply is written
	// after the handler decision) or has dropped the connection
	settled := bed.WaitUntil(10*time.Second, func() bool { return cb.Written() > 0 || !sess.Health() || cb.IsClosed() })
	delta := atomic.LoadInt64(&handlerCalls) - before
	ca.Close()
	core.Add("evaluations", 1)
	core.Add("scripted_frames", 1)
	if it.Scn == "control" {
		if delta != 1 {
			inconclusive(it, fmt.Sprintf("control frame (registered pipe %q, %s) reached %d handlers: the scripted path does not work", it.Pipe, it.Proto, delta))
			return
		}
		core.Add("scripted_control_frames_handled", 1)
		core.Result(core.R{ID: id, Verdict: core.Held})
		return
	}
	outcome := "connection-dropped"
	if cb.Written() > 0 {
		outcome = "error-reply"
	}
	if delta != 0 {
		core.Result(core.R{ID: id, Verdict: core.Violated, FP: fmt.Sprintf("C12/e2e/script.unregistered/%s/handler-reached", it.Proto),
			What:    fmt.Sprintf("%s: a frame whose pipe names the unregistered filter %d at position %d of %q was delivered to a handler", it.Proto, it.BadID, it.Pos, it.Pipe),
			Witness: map[string]interface{}{"frame_head": short(frame), "handler_calls": delta}, Desc: desc})
		return
	}
	if !settled {
		inconclusive(it, "the server neither answered nor dropped the connection within the watchdog")
		return
	}
	core.Add("scripted_unregistered_frames_refused", 1)
	core.Add("scripted_unregistered_"+outcome, 1)
	core.Distinct("nontrivial", fmt.Sprintf("script/%s/%s/pos%d", it.Proto, it.Pipe, it.Pos))
	core.Distinct("scripted_bad_ids", fmt.Sprintf("%s/%d", it.Proto, it.BadID))
	core.Result(core.R{ID: id, Verdict: core.Held})
}

// ---------- main ----------

func main() {
	flag.Parse()
	core.Prop = *prop
	only := -1
	if *replay != "" {
		b, err := os.ReadFile(*replay)
		if err != nil {
			core.Fatalf("replay: %v", err)
		}
		var rf struct {
			Desc struct {
				Rerun struct {
					Idx  int    `json:"idx"`
					Seed int64  `json:"seed"`
					Tier string `json:"tier"`
				} `json:"rerun"`
			} `json:"desc"`
		}
		if err := json.Unmarshal(b, &rf); err != nil {
			core.Fatalf("replay: %v", err)
		}
		only = rf.Desc.Rerun.Idx
		if rf.Desc.Rerun.Tier != "" {
			*tier = rf.Desc.Rerun.Tier
			*seed = rf.Desc.Rerun.Seed
		}
	}
	wire.RegFilters()
	bed.Init("OFF")

	items := buildItems(*tier, *seed)
	for _, it := range items {
		if only >= 0 {
			if it.Idx != only {
				continue
			}
		} else if it.Idx%*nbatch != *batch {
			continue
		}
		r := core.NewRand(*seed, 12, int64(it.Idx))
		switch it.Part {
		case "roundtrip":
			runRoundtrip(it, r)
		case "append":
			runAppend(it)
		case "corrupt":
			runCorrupt(it, r)
		case "e2e":
			runE2E(it, r)
		case "script":
			runScript(it)
		case "script-leaf":
			runScriptLeaf(it)
		case "stream":
			runStreamLimit(it, r)
		case "e2e-limit":
			runLimitE2E(it, r)
		case "registry":
			runRegistry(it, r)
		case "ulimit-leaf":
			runUnpackLimitLeaf(it, r)
		case "ulimit-e2e":
			runUnpackLimitE2E(it, r)
		case "ulimit-extreme":
			runUnpackLimitExtreme(it, r)
		}
	}
	core.Finish()
}
