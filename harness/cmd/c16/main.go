// Worker for C16: no handler or message hook runs on a connection that failed authentication.
//
// A real server peer with auth.NewCheckerPlugin, a recording plug-in implementing every
// per-message hook, and call / push / unknown handlers with invocation records keyed by the
// connection's (process-unique, in-memory) remote address. The client side is a script writing
// raw bytes; frames are produced with the raw protocol's own Pack, so they are valid by
// construction. Everything the server writes is captured by a tap on the server end and
// parsed with the raw protocol's Unpack. Completion is decided by quiescence.
package main

import (
	"bytes"
	"encoding/json"
	"flag"
	"fmt"
	"io"
	"os"
	"runtime"
	"runtime/debug"
	"sort"
	"strings"
	"sync"
	"sync/atomic"
	"time"

	erpc "github.com/henrylee2cn/erpc/v6"
	"github.com/henrylee2cn/erpc/v6/plugin/auth"
	"github.com/henrylee2cn/erpc/v6/plugin/heartbeat"
	"github.com/henrylee2cn/erpc/v6/plugin/overloader"

	"verifharness/bed"
	"verifharness/core"
	"verifharness/memconn"
	"verifharness/protos"
	"verifharness/quiesce"
	"verifharness/wire"
)

var (
	prop   = flag.String("prop", "C16", "")
	tier   = flag.String("tier", "quick", "")
	seed   = flag.Int64("seed", 1, "")
	batch  = flag.Int("batch", 0, "")
	nbatch = flag.Int("nbatch", 1, "")
	replay = flag.String("replay", "", "")
)

type discard struct{}

func (discard) Output(calldepth int, msgBytes []byte, loggerLevel erpc.LoggerLevel) {}
func (discard) Flush() error                                                        { return nil }

const watchdog = 20 * time.Second

const goodToken = "c16-good-token"
const badToken = "c16-wrong-token"

var clock int64

var selfTest = os.Getenv("C16_SELFTEST") != ""

func stamp() int64 { return atomic.AddInt64(&clock, 1) }

// ---------- case description ----------

type connSpec struct {
	First   string `json:"first"`           // first-message class (what the client sends first / instead of the auth message)
	Verdict string `json:"verdict"`         // behaviour of the checker function
	Timing  string `json:"timing"`          // pre: bytes written before ServeConn; post: after the accept hook blocks; split: half and half
	After   string `json:"after"`           // hold | close | closewrite: what the client does after its last byte
	Chunk   string `json:"chunk"`           // server-side read chunking
	Early   string `json:"early,omitempty"` // what another server goroutine does on the session while its exchange is still running: push | asynccall | call | all
	Seed    int64  `json:"seed"`
}

type caseDesc struct {
	Class string     `json:"class"`
	Conns []connSpec `json:"conns"`
	// further PostAccept plug-ins to the LEFT and to the RIGHT of the auth checker in the peer's plug-in list:
	// ok (harness recorder returning OK) | refuse (harness plug-in refusing some connections) | overloader (the
	// shipped plug-in, generous limits) | hb (the accept hook of the shipped heartbeat plug-in)
	Left  []string `json:"left,omitempty"`
	Right []string `json:"right,omitempty"`
	// the shared-pre-message class: rounds of {pre-phase sends that fail, then checkers whose receives overlap}
	SharedRounds int   `json:"shared_rounds,omitempty"`
	SharedSeed   int64 `json:"shared_seed,omitempty"`
}

var arrangeKinds = []string{"ok", "ok", "overloader", "hb", "refuse"}

var firstClasses = []string{
	"auth-good", "auth-bad", "auth-good+calls", "auth-bad+calls",
	"call", "call-unknown-route", "push", "reply",
	"call-then-auth", "two-auths", "bad-then-good-auth",
	"type0", "type0-badbody", "type5", "type5-badbody", "type6", "type6-badbody", "type255", "type255-badbody",
	"type4-badbody", "type4-unknowncodec",
	"garbage", "garbage-size-small", "garbage-size-huge", "garbage-size-beyond",
	"partial", "nothing",
}

var verdictClasses = []string{"token", "accept-any", "reject-all", "panic-before", "panic-after", "double-receive", "no-receive-reject",
	"setid-then-reject", "setid-then-accept", "setid-accept-unwritable",
	// the session is reachable (named) while its exchange is still running, and another goroutine writes to it:
	"park-reject", "park-accept", "park-accept-unwritable", // named by the checker after the receive, parked on a harness gate, then the verdict
	"prenamed-reject", "prenamed-token"} // named by a PostAccept plug-in placed before the checker (reachable even while the checker waits for bytes)

var timingClasses = []string{"pre", "post", "split"}
var afterClasses = []string{"hold", "close", "closewrite"}
var earlyKinds = []string{"push", "push", "asynccall", "call", "all"}
var chunkClasses = []string{"whole", "one", "rand"}

// ---------- records ----------

type evt struct {
	Name string `json:"name"`
	At   int64  `json:"at"`
}

type connRec struct {
	mu             sync.Mutex
	spec           connSpec
	addr           string
	ca, cb         *memconn.Conn
	script         []byte
	checkerCalls   int
	checkerRet     int64
	assignedID     string
	mode           string // checker behaviour when it is not the verdict class of the spec
	tokenSeen      string // what the checker's receiver held when its receive returned
	recvDone       bool
	recvOK         bool
	wroteToken     string // shared-pre-message class: the token this connection's client wrote ("": empty body / nothing)
	sentAuth       bool
	deserves       *bool         // shared-pre-message class: whether the token written on THIS connection deserves acceptance
	trail          []string      // the PostAccept hooks (harness plug-ins and the checker) in the order they ran, "!" = refused
	gate           chan struct{} // released by the harness: the parked checker gives its verdict
	gateTimedOut   bool
	parked         bool
	early          []*earlyOp
	verdictReached bool
	verdictOK      bool
	panicked       bool
	handlers       []evt
	hooks          []evt
	out            []byte
	served         int32
	sess           erpc.Session
	sstat          *erpc.Status
}

type caseState struct {
	mu    sync.Mutex
	conns map[string]*connRec
	stray []string
}

var cur atomic.Value // *caseState

func lookup(addr string) *connRec {
	cs := cur.Load().(*caseState)
	cs.mu.Lock()
	defer cs.mu.Unlock()
	r := cs.conns[addr]
	if r == nil {
		if len(cs.stray) < 20 {
			cs.stray = append(cs.stray, addr)
		}
		r = &connRec{addr: addr}
		cs.conns[addr] = r
	}
	return r
}

func noteHandler(addr, name string) {
	at := stamp()
	r := lookup(addr)
	r.mu.Lock()
	r.handlers = append(r.handlers, evt{name, at})
	r.mu.Unlock()
}

func noteHook(addr, name string) {
	at := stamp()
	r := lookup(addr)
	r.mu.Lock()
	if len(r.hooks) < 200 {
		r.hooks = append(r.hooks, evt{name, at})
	}
	r.mu.Unlock()
}

// ---------- server side: checker, handlers, recording plug-in ----------

func checker(sess auth.Session, fn auth.RecvOnce) (ret interface{}, stat *erpc.Status) {
	rec := lookup(sess.RemoteAddr().String())
	rec.mu.Lock()
	rec.checkerCalls++
	mode := rec.spec.Verdict
	if rec.mode != "" {
		mode = rec.mode
	}
	rec.mu.Unlock()
	defer func() {
		p := recover()
		at := stamp()
		rec.mu.Lock()
		if p == nil && stat.OK() {
			rec.trail = append(rec.trail, "auth-checker")
		} else {
			rec.trail = append(rec.trail, "auth-checker!")
		}
		rec.checkerRet = at
		rec.verdictReached = true
		rec.panicked = p != nil
		rec.verdictOK = p == nil && stat.OK()
		if selfTest && mode == "reject-all" {
			// monitor self-test (C16_SELFTEST=1): the checker lets the connection in while the record says "rejected",
			// which is what a framework ignoring the verdict would look like to the oracle
			stat, ret = nil, "pass"
		}
		rec.mu.Unlock()
		if p != nil {
			panic(p)
		}
	}()
	switch mode {
	case "panic-before":
		panic("c16: checker panics before receiving")
	case "no-receive-reject":
		return nil, erpc.NewStatus(403, "auth fail", "rejected without looking")
	}
	var info string
	stat = fn(&info)
	rec.mu.Lock()
	rec.tokenSeen, rec.recvDone, rec.recvOK = info, true, stat.OK()
	rec.mu.Unlock()
	if !stat.OK() {
		return nil, stat
	}
	if strings.HasPrefix(mode, "setid-") || strings.HasPrefix(mode, "park-") {
		// a checker naming the session after the presented identity (unique per connection: id takeover is C07's business)
		id := "user:" + info + "@" + rec.addr
		sess.SetID(id)
		rec.mu.Lock()
		rec.assignedID = id
		rec.mu.Unlock()
		if mode == "setid-then-reject" {
			return nil, erpc.NewStatus(403, "auth fail", "named, then refused")
		}
	}
	if strings.HasPrefix(mode, "park-") || mode == "prenamed-reject" {
		// "the credentials are being verified": parked until the harness has let another goroutine use the session
		rec.mu.Lock()
		rec.parked = true
		gate := rec.gate
		rec.mu.Unlock()
		select {
		case <-gate:
		case <-time.After(3 * watchdog):
			rec.mu.Lock()
			rec.gateTimedOut = true
			rec.mu.Unlock()
		}
		if mode == "park-reject" || mode == "prenamed-reject" {
			return nil, erpc.NewStatus(403, "auth fail", "verified for a while, then refused")
		}
	}
	switch mode {
	case "double-receive":
		var again string
		return nil, fn(&again)
	case "panic-after":
		panic("c16: checker panics after receiving")
	case "reject-all":
		return nil, erpc.NewStatus(403, "auth fail", "nobody gets in")
	case "accept-any":
		return "pass", nil
	}
	if info != goodToken {
		return nil, erpc.NewStatus(403, "auth fail", "wrong token")
	}
	return "pass", nil
}

// AppCall, AppPush and the unknown handlers are the application behind the gate.
func AppCall(ctx erpc.CallCtx, arg *string) (string, *erpc.Status) {
	noteHandler(ctx.IP(), "call")
	return *arg, nil
}

func AppPush(ctx erpc.PushCtx, arg *string) *erpc.Status {
	noteHandler(ctx.IP(), "push")
	return nil
}

// acceptPlugin is "another PostAccept plug-in" next to the checker: it records that it ran and either lets the
// connection through, refuses some connections (by the connection's seed), or runs a shipped plug-in's accept hook.
type acceptPlugin struct {
	name   string
	refuse bool
	inner  erpc.PostAcceptPlugin
}

func (a *acceptPlugin) Name() string { return a.name }
func (a *acceptPlugin) PostAccept(sess erpc.PreSession) *erpc.Status {
	rec := lookup(sess.RemoteAddr().String())
	var st *erpc.Status
	switch {
	case a.inner != nil:
		st = a.inner.PostAccept(sess)
	case a.refuse && (rec.spec.Seed>>3)&1 == 1:
		st = erpc.NewStatus(470, "not today", "refused by "+a.name)
	}
	rec.mu.Lock()
	if st.OK() {
		rec.trail = append(rec.trail, a.name)
	} else {
		rec.trail = append(rec.trail, a.name+"!")
	}
	rec.mu.Unlock()
	return st
}

// arrangement builds the plug-ins of one side of the checker.
func arrangement(side string, kinds []string) []erpc.Plugin {
	var out []erpc.Plugin
	for i, k := range kinds {
		name := fmt.Sprintf("c16-%s%d-%s", side, i+1, k)
		switch k {
		case "ok":
			out = append(out, &acceptPlugin{name: name})
		case "refuse":
			out = append(out, &acceptPlugin{name: name, refuse: true})
		case "hb": // the accept hook of the shipped heartbeat plug-in (its worker goroutine is not started)
			out = append(out, &acceptPlugin{name: name, inner: heartbeat.NewPing(3, false)})
		case "overloader": // the shipped plug-in itself, limits far away
			out = append(out, &acceptPlugin{name: name + "-before"}, overloader.New(overloader.LimitConfig{MaxConn: 100000}), &acceptPlugin{name: name + "-after"})
		default:
			core.Fatalf("unknown plug-in kind %q", k)
		}
	}
	return out
}

// namer is "a PostAccept plug-in before the checker" that names the session before any verdict.
type namer struct{}

func (namer) Name() string { return "c16-namer" }
func (namer) PostAccept(sess erpc.PreSession) *erpc.Status {
	rec := lookup(sess.RemoteAddr().String())
	rec.mu.Lock()
	pre := strings.HasPrefix(rec.spec.Verdict, "prenamed-")
	rec.mu.Unlock()
	if pre {
		id := "pre:" + rec.addr
		sess.SetID(id)
		rec.mu.Lock()
		rec.assignedID = id
		rec.mu.Unlock()
	}
	return nil
}

// earlyOp is one Push / AsyncCall / Call issued by another goroutine of the server on a session found through
// the index while that session's authentication exchange was still running.
type earlyOp struct {
	Op     string `json:"op"`
	Via    string `json:"found_via"`
	At     string `json:"at"`
	Status string `json:"status"`
	ok     bool
	done   int32
	cmd    erpc.CallCmd
}

// refused tells whether the operation has completed with a non-OK status by now.
func (e *earlyOp) refused() bool {
	switch e.Op {
	case "push":
		return !e.ok
	case "asynccall":
		select {
		case <-e.cmd.Done():
			_, st := e.cmd.Reply()
			e.Status = st.String()
			return !st.OK()
		default:
			e.Status = "pending: written, waiting for a reply"
			return false
		}
	}
	if atomic.LoadInt32(&e.done) == 0 {
		e.Status = "pending: Call has not returned"
		return false
	}
	return !e.ok
}

// earlyOps looks the named, not yet judged sessions up (GetSession and RangeSession) and writes to them.
func earlyOps(srv erpc.Peer, recs []*connRec, at string) {
	for _, rec := range recs {
		rec.mu.Lock()
		id, judged, kind := rec.assignedID, rec.verdictReached, rec.spec.Early
		rec.mu.Unlock()
		if id == "" || judged || kind == "" {
			continue
		}
		found := map[string]erpc.Session{}
		if s, ok := srv.GetSession(id); ok && s != nil {
			found["GetSession"] = s
		}
		srv.RangeSession(func(s erpc.Session) bool {
			if s.RemoteAddr().String() == rec.addr {
				found["RangeSession"] = s
				return false
			}
			return true
		})
		core.Add("early_lookups", 1)
		if len(found) == 0 {
			core.Add("early_lookups_not_found", 1)
			continue
		}
		for _, via := range []string{"GetSession", "RangeSession"} {
			sess := found[via]
			if sess == nil {
				continue
			}
			if kind == "push" || kind == "all" {
				st := sess.Push("/c16/notice", "for-members-only")
				e := &earlyOp{Op: "push", Via: via, At: at, ok: st.OK(), Status: st.String()}
				rec.mu.Lock()
				rec.early = append(rec.early, e)
				rec.mu.Unlock()
				core.Add("early_pushes", 1)
			}
			if kind == "asynccall" || kind == "all" {
				e := &earlyOp{Op: "asynccall", Via: via, At: at}
				e.cmd = sess.AsyncCall("/c16/ask", "are-you-there", new(string), make(chan erpc.CallCmd, 1))
				rec.mu.Lock()
				rec.early = append(rec.early, e)
				rec.mu.Unlock()
				core.Add("early_asynccalls", 1)
			}
			if kind == "call" || kind == "all" {
				e := &earlyOp{Op: "call", Via: via, At: at}
				rec.mu.Lock()
				rec.early = append(rec.early, e)
				rec.mu.Unlock()
				core.Add("early_calls", 1)
				go func(sess erpc.Session, rec *connRec, e *earlyOp) { // may never return if the call is written and nobody answers: never waited for
					var res string
					_, st := sess.Call("/c16/ask", "are-you-there", &res).Reply()
					rec.mu.Lock()
					e.ok, e.Status = st.OK(), st.String()
					rec.mu.Unlock()
					atomic.StoreInt32(&e.done, 1)
				}(sess, rec, e)
			}
		}
	}
}

type recorder struct{}

func (recorder) Name() string   { return "c16-recorder" }
func at(ctx erpc.PreCtx) string { return ctx.Session().RemoteAddr().String() }

func (recorder) PreReadHeader(ctx erpc.PreCtx) error { noteHook(at(ctx), "PreReadHeader"); return nil }
func (recorder) PostReadCallHeader(ctx erpc.ReadCtx) *erpc.Status {
	noteHook(at(ctx), "PostReadCallHeader")
	return nil
}
func (recorder) PreReadCallBody(ctx erpc.ReadCtx) *erpc.Status {
	noteHook(at(ctx), "PreReadCallBody")
	return nil
}
func (recorder) PostReadCallBody(ctx erpc.ReadCtx) *erpc.Status {
	noteHook(at(ctx), "PostReadCallBody")
	return nil
}
func (recorder) PostReadPushHeader(ctx erpc.ReadCtx) *erpc.Status {
	noteHook(at(ctx), "PostReadPushHeader")
	return nil
}
func (recorder) PreReadPushBody(ctx erpc.ReadCtx) *erpc.Status {
	noteHook(at(ctx), "PreReadPushBody")
	return nil
}
func (recorder) PostReadPushBody(ctx erpc.ReadCtx) *erpc.Status {
	noteHook(at(ctx), "PostReadPushBody")
	return nil
}
func (recorder) PostReadReplyHeader(ctx erpc.ReadCtx) *erpc.Status {
	noteHook(at(ctx), "PostReadReplyHeader")
	return nil
}
func (recorder) PreReadReplyBody(ctx erpc.ReadCtx) *erpc.Status {
	noteHook(at(ctx), "PreReadReplyBody")
	return nil
}
func (recorder) PostReadReplyBody(ctx erpc.ReadCtx) *erpc.Status {
	noteHook(at(ctx), "PostReadReplyBody")
	return nil
}
func (recorder) PreWriteCall(ctx erpc.WriteCtx) *erpc.Status {
	noteHook(at(ctx), "PreWriteCall")
	return nil
}
func (recorder) PostWriteCall(ctx erpc.WriteCtx) *erpc.Status {
	noteHook(at(ctx), "PostWriteCall")
	return nil
}
func (recorder) PreWriteReply(ctx erpc.WriteCtx) *erpc.Status {
	noteHook(at(ctx), "PreWriteReply")
	return nil
}
func (recorder) PostWriteReply(ctx erpc.WriteCtx) *erpc.Status {
	noteHook(at(ctx), "PostWriteReply")
	return nil
}
func (recorder) PreWritePush(ctx erpc.WriteCtx) *erpc.Status {
	noteHook(at(ctx), "PreWritePush")
	return nil
}
func (recorder) PostWritePush(ctx erpc.WriteCtx) *erpc.Status {
	noteHook(at(ctx), "PostWritePush")
	return nil
}

var (
	_ erpc.PreReadHeaderPlugin       = recorder{}
	_ erpc.PostReadCallHeaderPlugin  = recorder{}
	_ erpc.PreReadCallBodyPlugin     = recorder{}
	_ erpc.PostReadCallBodyPlugin    = recorder{}
	_ erpc.PostReadPushHeaderPlugin  = recorder{}
	_ erpc.PreReadPushBodyPlugin     = recorder{}
	_ erpc.PostReadPushBodyPlugin    = recorder{}
	_ erpc.PostReadReplyHeaderPlugin = recorder{}
	_ erpc.PreReadReplyBodyPlugin    = recorder{}
	_ erpc.PostReadReplyBodyPlugin   = recorder{}
	_ erpc.PreWriteCallPlugin        = recorder{}
	_ erpc.PostWriteCallPlugin       = recorder{}
	_ erpc.PreWriteReplyPlugin       = recorder{}
	_ erpc.PostWriteReplyPlugin      = recorder{}
	_ erpc.PreWritePushPlugin        = recorder{}
	_ erpc.PostWritePushPlugin       = recorder{}
)

// ---------- client side: scripts ----------

var rawP = protos.ByName("raw")

// frames packs the specs with ONE protocol object into a buffer, as one connection would.
func frames(specs ...wire.Spec) []byte {
	var w bytes.Buffer
	pr := rawP.Func(wire.RW{Reader: bytes.NewReader(nil), Writer: &w})
	for _, s := range specs {
		m, err := wire.Build(s, rawP)
		if err != nil {
			core.Fatalf("build frame: %v", err)
		}
		if err := pr.Pack(m); err != nil {
			core.Fatalf("pack frame: %v", err)
		}
	}
	return w.Bytes()
}

func msg(mtype byte, seq int32, method string, codec byte, body string) wire.Spec {
	return wire.Spec{Seq: seq, Mtype: mtype, Method: method, Codec: codec, Body: []byte(body)}
}

type routes struct{ call, push string }

// script returns the bytes the client writes for a first-message class.
func script(class string, rt routes, r *core.Rand) []byte {
	authMsg := func(tok string) wire.Spec { return msg(erpc.TypeAuthCall, 1, "", 's', tok) }
	call := func(seq int32) wire.Spec { return msg(erpc.TypeCall, seq, rt.call, 'j', `"x"`) }
	push := func(seq int32) wire.Spec { return msg(erpc.TypePush, seq, rt.push, 'j', `"y"`) }
	pipeline := func() []wire.Spec {
		var l []wire.Spec
		for i := 0; i < 1+r.Intn(4); i++ {
			l = append(l, call(int32(10+i)))
		}
		return append(l, push(20))
	}
	other := func(t byte, bad bool) []byte {
		m := msg(t, 1, "", 's', goodToken)
		if bad {
			m = msg(t, 1, "", 'j', `{{{`)
		}
		return frames(m, call(2))
	}
	switch class {
	case "auth-good":
		return frames(authMsg(goodToken))
	case "auth-bad":
		return frames(authMsg(badToken))
	case "auth-good+calls":
		return frames(append([]wire.Spec{authMsg(goodToken)}, pipeline()...)...)
	case "auth-bad+calls":
		return frames(append([]wire.Spec{authMsg(badToken)}, pipeline()...)...)
	case "call":
		return frames(call(1), call(2))
	case "call-unknown-route":
		return frames(msg(erpc.TypeCall, 1, "/no/such/route", 'j', `"x"`))
	case "push":
		return frames(push(1), push(2))
	case "reply":
		return frames(msg(erpc.TypeReply, 1, "", 'j', `"z"`), call(2))
	case "call-then-auth":
		return frames(call(1), authMsg(goodToken), call(2))
	case "two-auths":
		return frames(authMsg(goodToken), authMsg(goodToken), call(2))
	case "bad-then-good-auth":
		return frames(authMsg(badToken), authMsg(goodToken), call(2))
	case "type0":
		return other(0, false)
	case "type0-badbody":
		return other(0, true)
	case "type5":
		return other(erpc.TypeAuthReply, false)
	case "type5-badbody":
		return other(erpc.TypeAuthReply, true)
	case "type6":
		return other(6, false)
	case "type6-badbody":
		return other(6, true)
	case "type255":
		return other(255, false)
	case "type255-badbody":
		return other(255, true)
	case "type4-badbody":
		return frames(msg(erpc.TypeAuthCall, 1, "", 'j', `{{{`), call(2))
	case "type4-unknowncodec":
		return frames(msg(erpc.TypeAuthCall, 1, "", 0x7f, goodToken), call(2))
	case "garbage": // a consistent length prefix around random bytes
		n := 1 + r.Intn(200)
		b := append([]byte{0, 0, byte((n + 4) >> 8), byte(n + 4)}, r.Bytes(n)...)
		return append(b, frames(call(2))...)
	case "garbage-size-small":
		return append([]byte{0, 0, 0, byte(r.Intn(4))}, r.Bytes(1+r.Intn(40))...)
	case "garbage-size-huge":
		return append([]byte{0xff, 0xff, 0xff, 0xff}, r.Bytes(1+r.Intn(40))...)
	case "garbage-size-beyond": // announces more than it delivers (kept small: the size of receive buffers is C06's business)
		return append([]byte{0, 0, 0x13, 0x88}, r.Bytes(1+r.Intn(60))...)
	case "partial":
		f := frames(authMsg(goodToken))
		return f[:1+r.Intn(len(f)-1)]
	case "nothing":
		return nil
	}
	core.Fatalf("unknown first-message class %q", class)
	return nil
}

// ---------- parsing what the server wrote ----------

type outFrame struct {
	Mtype  byte   `json:"mtype"`
	Seq    int32  `json:"seq"`
	Status string `json:"status,omitempty"`
}

func parseOut(b []byte) (fs []outFrame, tail int) {
	rd := bytes.NewReader(b)
	pr := rawP.Func(wire.RW{Reader: rd, Writer: io.Discard})
	for rd.Len() > 0 {
		before := rd.Len()
		m := wire.NewReceiver(rawP)
		var err error
		func() {
			defer func() {
				if p := recover(); p != nil {
					err = fmt.Errorf("panic: %v", p)
				}
			}()
			err = pr.Unpack(m)
		}()
		if err != nil {
			return fs, before
		}
		f := outFrame{Mtype: m.Mtype(), Seq: m.Seq()}
		if st := m.Status(); !st.OK() {
			f.Status = st.String()
		}
		fs = append(fs, f)
	}
	return fs, 0
}

// ---------- one case ----------

type finding struct {
	conn    int
	symptom string
	detail  string
}

func quiet() bool {
	return quiesce.Wait(quiesce.Options{Interval: 2 * time.Millisecond, Timeout: watchdog}).Quiescent
}

func chunker(name string, seed int64) func(int) int {
	switch name {
	case "one":
		return memconn.ChunkOne
	case "rand":
		return memconn.ChunkRand(seed, 40)
	}
	return nil
}

func describe(rec *connRec, fs []outFrame, tail int) map[string]interface{} {
	rec.mu.Lock()
	defer rec.mu.Unlock()
	d := map[string]interface{}{
		"spec": rec.spec, "client_bytes": len(rec.script), "checker_calls": rec.checkerCalls, "verdict_reached": rec.verdictReached,
		"verdict_ok": rec.verdictOK, "accept_hooks_in_order": rec.trail, "id_assigned_by_checker": rec.assignedID, "early_operations": rec.early, "checker_panicked": rec.panicked, "checker_return_stamp": rec.checkerRet,
		"handlers": rec.handlers, "hooks": rec.hooks, "server_wrote_bytes": len(rec.out), "server_frames": fs, "unparsable_tail_bytes": tail,
		"serveconn_returned": atomic.LoadInt32(&rec.served) == 1, "server_end_closed": rec.cb.IsClosed(),
	}
	if rec.sstat != nil {
		d["serveconn_status"] = rec.sstat.String()
	}
	return d
}

func runCase(id string, c caseDesc) {
	cs := &caseState{conns: map[string]*connRec{}}
	cur.Store(cs)
	plugins := []erpc.Plugin{recorder{}, namer{}}
	plugins = append(plugins, arrangement("L", c.Left)...)
	plugins = append(plugins, auth.NewCheckerPlugin(checker, erpc.WithBodyCodec('s')))
	plugins = append(plugins, arrangement("R", c.Right)...)
	srv := erpc.NewPeer(erpc.PeerConfig{}, plugins...)
	rt := routes{call: srv.RouteCallFunc(AppCall), push: srv.RoutePushFunc(AppPush)}
	srv.SetUnknownCall(func(ctx erpc.UnknownCallCtx) (interface{}, *erpc.Status) {
		noteHandler(ctx.IP(), "unknown-call")
		return nil, nil
	})
	srv.SetUnknownPush(func(ctx erpc.UnknownPushCtx) *erpc.Status {
		noteHandler(ctx.IP(), "unknown-push")
		return nil
	})
	var recs []*connRec
	var rest [][]byte
	defer func() {
		for _, rec := range recs {
			rec.ca.Close()
			rec.release()
		}
		// bounded: on a tree that lets an early call through, a refused session can hang in Close (it waits for that call)
		closed := make(chan struct{})
		go func() { srv.Close(); close(closed) }()
		select {
		case <-closed:
		case <-time.After(5 * time.Second):
			fmt.Fprintln(os.Stderr, "c16: peer.Close did not return; leaving the peer behind")
		}
	}()
	// phase 1: connections are created; "pre" bytes are in the pipe before the server looks at it
	for _, sp := range c.Conns {
		r := core.NewRand(sp.Seed, 16)
		ca, cb := memconn.NewPair()
		rec := &connRec{spec: sp, addr: ca.LocalAddr().String(), ca: ca, cb: cb, gate: make(chan struct{})}
		rec.script = script(sp.First, rt, r)
		if f := chunker(sp.Chunk, sp.Seed); f != nil {
			cb.SetReadChunk(f)
		}
		cb.SetWriteTap(func(p []byte, total int64) {
			rec.mu.Lock()
			rec.out = append(rec.out, p...)
			rec.mu.Unlock()
		})
		cs.mu.Lock()
		cs.conns[rec.addr] = rec
		cs.mu.Unlock()
		recs = append(recs, rec)
		var first, second []byte
		switch sp.Timing {
		case "pre":
			first = rec.script
		case "post":
			second = rec.script
		default:
			k := len(rec.script) / 2
			first, second = rec.script[:k], rec.script[k:]
		}
		if len(first) > 0 {
			ca.Write(first)
		}
		rest = append(rest, second)
		if len(second) == 0 {
			finish(rec)
		}
	}
	for _, rec := range recs {
		go func(rec *connRec) {
			s, st := srv.ServeConn(rec.cb)
			rec.mu.Lock()
			rec.sess, rec.sstat = s, st
			rec.mu.Unlock()
			atomic.StoreInt32(&rec.served, 1)
		}(rec)
	}
	needPost := false
	for _, b := range rest {
		needPost = needPost || len(b) > 0
	}
	if needPost {
		// the accept hooks of these connections are now blocked in their receive (or done)
		if !quiet() {
			core.Result(core.R{ID: id, Verdict: core.Inconclusive, What: "no quiescence before the late client bytes"})
			return
		}
		// sessions already named (by the plug-in before the checker) are reachable while their checker waits for bytes
		earlyOps(srv, recs, "at the first quiescent point (before the late client bytes)")
		for i, rec := range recs {
			if len(rest[i]) > 0 {
				rec.ca.Write(rest[i])
				finish(rec)
			}
		}
	}
	if !quiet() {
		core.Result(core.R{ID: id, Verdict: core.Inconclusive, What: "no quiescence after the scripts"})
		return
	}
	early := false
	for _, rec := range recs {
		early = early || rec.spec.Early != ""
	}
	if early {
		// the parked checkers have named their sessions; another goroutine of the server finds them and writes to them
		earlyOps(srv, recs, "at the quiescent point after the scripts (parked checkers are verifying)")
		if !quiet() {
			core.Result(core.R{ID: id, Verdict: core.Inconclusive, What: "no quiescence after the early writes"})
			return
		}
		for _, rec := range recs {
			rec.release() // the verdicts
		}
		if !quiet() {
			core.Result(core.R{ID: id, Verdict: core.Inconclusive, What: "no quiescence after the verdicts"})
			return
		}
	}
	for _, rec := range recs {
		rec.mu.Lock()
		to := rec.gateTimedOut
		rec.mu.Unlock()
		if to {
			core.Result(core.R{ID: id, Verdict: core.Inconclusive, What: "a parked checker was not released (watchdog)"})
			return
		}
	}
	var finds []finding
	finds = append(finds, evaluate(srv, cs, recs, false)...)
	for _, rec := range recs {
		rec.mu.Lock()
		if !rec.verdictReached {
			core.Add("conns_pending_at_first_quiescence", 1)
		}
		rec.mu.Unlock()
	}
	// phase 2: every client goes away; whatever was still waiting for bytes is rejected now
	for _, rec := range recs {
		rec.ca.Close()
		rec.release()
	}
	if !quiet() {
		core.Result(core.R{ID: id, Verdict: core.Inconclusive, What: "no quiescence after the clients closed"})
		return
	}
	finds = append(finds, evaluate(srv, cs, recs, true)...)

	// evidence
	for _, rec := range recs {
		rec.mu.Lock()
		outcome := "pending"
		switch {
		case rec.verdictOK && rec.sstat.OK() && atomic.LoadInt32(&rec.served) == 1:
			outcome = "accepted"
			core.Add("conns_accepted", 1)
			core.Add("handler_runs_on_accepted", int64(len(rec.handlers)))
			core.Add("hook_runs_on_accepted", int64(len(rec.hooks)))
		case rec.verdictOK:
			outcome = "accepted-reply-undeliverable"
			core.Add("conns_verdict_ok_but_reply_failed", 1)
		case rec.panicked:
			outcome = "checker-panicked"
			core.Add("conns_checker_panicked", 1)
		case rec.verdictReached:
			outcome = "rejected"
			core.Add("conns_rejected", 1)
		default:
			core.Add("conns_never_judged", 1)
		}
		if len(rec.out) > 0 {
			core.Add("conns_with_server_bytes", 1)
		}
		rec.mu.Unlock()
		// which accept hooks ran after a refusal (recorded, not asserted: the statement does not speak about it)
		rec.mu.Lock()
		after := false
		for _, t := range rec.trail {
			if after {
				core.Add("accept_hooks_run_after_a_refusal", 1)
			}
			after = after || strings.HasSuffix(t, "!")
		}
		rec.mu.Unlock()
		core.Distinct("arrangements", fmt.Sprintf("L=%s|R=%s", strings.Join(c.Left, "+"), strings.Join(c.Right, "+")))
		core.Add("evaluations", 1)
		core.Add("connections", 1)
		core.Distinct("nontrivial", fmt.Sprintf("%s/%s/%s/%s/%s", rec.spec.First, rec.spec.Verdict, rec.spec.Timing, rec.spec.After, outcome))
		core.Distinct("first_x_verdict", rec.spec.First+"/"+rec.spec.Verdict)
		if os.Getenv("C16_DEBUG") != "" {
			fs, tail := parseOut(rec.out)
			b, _ := json.Marshal(describe(rec, fs, tail))
			fmt.Fprintf(os.Stderr, "CONN %s %s\n", outcome, b)
		}
	}
	if len(cs.stray) > 0 {
		core.Fatalf("events attributed to unknown connections: %v", cs.stray)
	}
	if len(finds) == 0 {
		core.Result(core.R{ID: id, Verdict: core.Held, Nontrivial: true, Sig: c.Class})
		return
	}
	seen := map[string]bool{}
	k := 0
	for _, f := range finds {
		rec := recs[f.conn]
		vclass := rec.spec.Verdict
		if rec.spec.Early != "" {
			vclass += "+" + rec.spec.Early
		}
		if len(c.Right) > 0 {
			vclass += "@right=" + strings.Join(c.Right, "+")
		}
		fp := fmt.Sprintf("%s/%s/%s/%s", *prop, rec.spec.First, vclass, f.symptom)
		if seen[fp] {
			continue
		}
		seen[fp] = true
		rid := id
		if k > 0 {
			rid = fmt.Sprintf("%s#%d", id, k)
			core.Begin(rid, c)
		}
		k++
		fs, tail := parseOut(rec.out)
		// the minimal reproduction is this one connection alone
		desc := caseDesc{Class: c.Class, Conns: []connSpec{rec.spec}, Left: c.Left, Right: c.Right}
		core.Result(core.R{ID: rid, Verdict: core.Violated, FP: fp, What: fmt.Sprintf("%s / checker %s: %s", rec.spec.First, rec.spec.Verdict, f.detail),
			Witness: describe(rec, fs, tail), Desc: desc})
	}
}

// release opens the gate of a parked checker (idempotent).
func (rec *connRec) release() {
	rec.mu.Lock()
	defer rec.mu.Unlock()
	if rec.gate != nil {
		select {
		case <-rec.gate:
		default:
			close(rec.gate)
		}
	}
}

// finish performs the client's behaviour after its last byte.
func finish(rec *connRec) {
	switch rec.spec.After {
	case "close":
		rec.ca.Close()
	case "closewrite":
		rec.ca.CloseWrite()
	}
}

// evaluate applies the oracle clauses at a quiescent point. final: the clients have all gone away.
func evaluate(srv erpc.Peer, cs *caseState, recs []*connRec, final bool) []finding {
	var out []finding
	// the session index as it is now: every listed session is attributed to a connection by its remote address
	listedByAddr := map[string][]string{}
	listedTotal := 0
	srv.RangeSession(func(s erpc.Session) bool {
		listedTotal++
		a := s.RemoteAddr().String()
		listedByAddr[a] = append(listedByAddr[a], s.ID())
		return true
	})
	openAccepted, listedEndedAccepted, firstFailed, pendingNamed := 0, 0, -1, 0
	for i, rec := range recs {
		rec.mu.Lock()
		served := atomic.LoadInt32(&rec.served) == 1
		accepted := rec.verdictOK && served && rec.sstat.OK()
		// not authenticated: the verdict was not OK / never reached, or the exchange could not be completed
		// (the AUTH_REPLY was not written) and the accept path refused the connection
		failed := !rec.verdictOK || (served && !rec.sstat.OK())
		if rec.deserves != nil && !*rec.deserves {
			// shared-pre-message class: what counts is the token written on this connection, not what its checker was shown
			failed, accepted = true, false
		}
		refused := served && !rec.sstat.OK()
		judged := rec.verdictReached
		calls := rec.checkerCalls
		ret := rec.checkerRet
		assigned := rec.assignedID
		handlers := append([]evt(nil), rec.handlers...)
		hooks := append([]evt(nil), rec.hooks...)
		outb := append([]byte(nil), rec.out...)
		rec.mu.Unlock()
		add := func(symptom, detail string) { out = append(out, finding{i, symptom, detail}) }
		if calls > 1 {
			add("checker-invoked-n", fmt.Sprintf("the checker was invoked %d times for one connection", calls))
		}
		if failed {
			if firstFailed < 0 {
				firstFailed = i
			}
			if len(handlers) > 0 {
				add("handler-ran", fmt.Sprintf("%d handler invocation(s) (%s first) on a connection whose authentication did not succeed", len(handlers), handlers[0].Name))
			}
			for _, grp := range []struct{ symptom, prefix string }{{"prewrite-hook-ran", "PreWrite"}, {"postwrite-hook-ran", "PostWrite"}, {"hook-ran", ""}} {
				var hs []evt
				for _, h := range hooks {
					isWrite := strings.HasPrefix(h.Name, "PreWrite") || strings.HasPrefix(h.Name, "PostWrite")
					if (grp.prefix != "" && strings.HasPrefix(h.Name, grp.prefix)) || (grp.prefix == "" && !isWrite) {
						hs = append(hs, h)
					}
				}
				if len(hs) > 0 {
					add(grp.symptom, fmt.Sprintf("%d per-message hook invocation(s) (%s first) on a connection whose authentication did not succeed", len(hs), hs[0].Name))
				}
			}
			if refused || final {
				rec.mu.Lock()
				for _, e := range rec.early {
					if !e.refused() {
						add("early-write-not-refused", fmt.Sprintf("%s on the session (found with %s %s) was not refused: %s", e.Op, e.Via, e.At, e.Status))
						break
					}
				}
				rec.mu.Unlock()
			}
			if (judged || refused || final) && !rec.cb.IsClosed() {
				add("not-closed", "the server has not closed the connection at quiescence although its authentication did not succeed")
			}
			// listed? under the default id (remote address), under the id the checker gave it, and by enumeration.
			// A connection still waiting in its exchange (not refused yet) may carry the name its checker gave it.
			if s, ok := srv.GetSession(rec.addr); ok && s != nil {
				add("listed", "GetSession(<remote address>) finds a session for the connection")
			}
			if refused || final {
				if assigned != "" {
					if s, ok := srv.GetSession(assigned); ok && s != nil {
						add("listed", fmt.Sprintf("GetSession(%q) - the id the checker assigned with SetID before the connection was refused - still finds a session", assigned))
					}
				}
				if ids := listedByAddr[rec.addr]; len(ids) > 0 {
					add("listed", fmt.Sprintf("RangeSession lists a session (id %q) for the refused connection; CountSession=%d", ids[0], srv.CountSession()))
				}
			} else if ids := listedByAddr[rec.addr]; len(ids) > 0 {
				if assigned == "" || ids[0] != assigned {
					add("listed", fmt.Sprintf("RangeSession lists a session (id %q) for a connection whose exchange has not completed", ids[0]))
				} else {
					pendingNamed++ // still in its exchange, under the name its checker / a plug-in gave it: not refused yet
				}
			}
			fs, tail := parseOut(outb)
			switch {
			case len(fs) > 1:
				add("extra-frames-written", fmt.Sprintf("the server wrote %d frames to the connection (at most one AUTH_REPLY expected)", len(fs)))
			case len(fs) == 1 && fs[0].Mtype != erpc.TypeAuthReply:
				add("extra-frames-written", fmt.Sprintf("the server wrote a frame of type %d to the connection (only an AUTH_REPLY may be written)", fs[0].Mtype))
			case tail > 0:
				add("extra-frames-written", fmt.Sprintf("the server wrote %d bytes that are not a frame", tail))
			}
			continue
		}
		if calls != 1 && accepted {
			add("checker-invoked-n", fmt.Sprintf("the checker was invoked %d times for an accepted connection", calls))
		}
		for _, h := range handlers {
			if h.At < ret {
				add("handled-before-verdict", fmt.Sprintf("handler %s entered at logical time %d, the checker returned at %d", h.Name, h.At, ret))
				break
			}
		}
		for _, h := range hooks {
			if h.At < ret {
				if strings.HasSuffix(h.Name, "WritePush") || strings.HasSuffix(h.Name, "WriteCall") {
					// the write hooks of the harness's own early Push / Call on a connection that was accepted later:
					// recorded, not asserted
					core.Add("early_write_hooks_on_later_accepted", 1)
					continue
				}
				add("handled-before-verdict", fmt.Sprintf("hook %s ran at logical time %d, the checker returned at %d", h.Name, h.At, ret))
				break
			}
		}
		if accepted {
			switch {
			case !rec.cb.IsClosed():
				openAccepted++
				if len(listedByAddr[rec.addr]) == 0 {
					core.Add("open_accepted_connections_not_listed", 1) // recorded, not asserted (not in the statement)
				}
			case len(listedByAddr[rec.addr]) > 0:
				// an accepted session that has ended and is still in the index: ServeConn inserts after the read
				// loop started (C07's business). Tolerated for accepted connections only.
				listedEndedAccepted++
				core.Add("ended_accepted_sessions_still_listed", 1)
			}
		}
	}
	// CountSession, exactly: the accepted connections that are still open (+ the tolerated ended accepted ones actually listed)
	attributed := false
	for _, f := range out {
		attributed = attributed || f.symptom == "listed"
	}
	if n := srv.CountSession(); !attributed && (n > openAccepted+listedEndedAccepted+pendingNamed || listedTotal > openAccepted+listedEndedAccepted+pendingNamed) {
		// a surplus that could not be attributed to one connection by address or id
		i := firstFailed
		if i < 0 {
			i = 0
		}
		out = append(out, finding{i, "listed", fmt.Sprintf("CountSession reports %d sessions (%d enumerated); %d accepted connections are open, %d ended accepted ones are still listed, %d named ones are still in their exchange", n, listedTotal, openAccepted, listedEndedAccepted, pendingNamed)})
	}
	return out
}

// ---------- the shared-pre-message class ----------
//
// History: (1) trigger - pre-phase sends that FAIL: a client sends its AUTH_CALL and is gone while the checker is
// still deciding (parked on the harness gate), so the AUTH_REPLY cannot be written; (2) probe, right afterwards on
// the same peer: two or three NEW connections whose checkers are all inside their receive before any of their
// clients has sent a byte; the clients then send in a given order: one a valid token, the others an AUTH_CALL with
// an empty body / a wrong token / nothing. Oracle: every checker is shown exactly the token its own connection
// wrote, every connection gets the verdict its own token deserves, and the usual clauses hold for the ones that
// do not deserve acceptance. The class runs with GOMAXPROCS(1) (pooled objects are handed out per P) and with the
// garbage collector held off between the trigger and the moment the probe's checkers are inside their receives
// (a collection empties the pools); both are restored afterwards.

type probeRole struct {
	token string // goodToken | badToken | "" (empty body) | "-" (sends nothing)
}

var sharedOrders = []struct {
	label string
	roles []probeRole // in the order their checkers enter the receive
	write []int       // in the order their clients write
}{
	{"valid-then-empty", []probeRole{{goodToken}, {""}}, []int{0, 1}},
	{"empty-then-valid", []probeRole{{""}, {goodToken}}, []int{0, 1}},
	{"valid+bad-reversed", []probeRole{{goodToken}, {badToken}}, []int{1, 0}},
	{"valid-then-silent", []probeRole{{goodToken}, {"-"}}, []int{0, 1}},
	{"triple-valid-empty-bad", []probeRole{{goodToken}, {""}, {badToken}}, []int{0, 1, 2}},
	{"triple-reversed", []probeRole{{""}, {badToken}, {goodToken}}, []int{2, 1, 0}},
}

// settle yields until cond holds (the process runs on one P here: a yield lets the other goroutines run until they block).
func settle(cond func() bool) bool {
	for i := 0; i < 200000; i++ {
		if cond() {
			for k := 0; k < 50; k++ {
				runtime.Gosched()
			}
			return true
		}
		runtime.Gosched()
	}
	return false
}

func runShared(id string, c caseDesc) {
	defer runtime.GOMAXPROCS(runtime.GOMAXPROCS(1))
	cs := &caseState{conns: map[string]*connRec{}}
	cur.Store(cs)
	srv := erpc.NewPeer(erpc.PeerConfig{}, recorder{}, namer{}, auth.NewCheckerPlugin(checker, erpc.WithBodyCodec('s')))
	rt := routes{call: srv.RouteCallFunc(AppCall), push: srv.RoutePushFunc(AppPush)}
	srv.SetUnknownCall(func(ctx erpc.UnknownCallCtx) (interface{}, *erpc.Status) {
		noteHandler(ctx.IP(), "unknown-call")
		return nil, nil
	})
	var all []*connRec
	gcPercent := 100
	gcOff := false
	defer func() {
		if gcOff {
			debug.SetGCPercent(gcPercent)
		}
		for _, rec := range all {
			rec.ca.Close()
			rec.release()
		}
		closed := make(chan struct{})
		go func() { srv.Close(); close(closed) }()
		select {
		case <-closed:
		case <-time.After(5 * time.Second):
		}
	}()
	newConn := func(label, mode string) *connRec {
		ca, cb := memconn.NewPair()
		rec := &connRec{spec: connSpec{First: "shared-pre-message", Verdict: label, Timing: "post", After: "hold", Chunk: "whole"},
			addr: ca.LocalAddr().String(), ca: ca, cb: cb, gate: make(chan struct{}), mode: mode}
		cb.SetWriteTap(func(p []byte, total int64) {
			rec.mu.Lock()
			rec.out = append(rec.out, p...)
			rec.mu.Unlock()
		})
		cs.mu.Lock()
		cs.conns[rec.addr] = rec
		cs.mu.Unlock()
		all = append(all, rec)
		return rec
	}
	serve := func(rec *connRec) {
		go func() {
			s, st := srv.ServeConn(rec.cb)
			rec.mu.Lock()
			rec.sess, rec.sstat = s, st
			rec.mu.Unlock()
			atomic.StoreInt32(&rec.served, 1)
		}()
	}
	flag := func(rec *connRec, f func() bool) func() bool {
		return func() bool { rec.mu.Lock(); defer rec.mu.Unlock(); return f() }
	}
	r := core.NewRand(c.SharedSeed, 161)
	var finds []finding
	var findRecs []*connRec
	inconclusive := ""
	for round := 0; round < c.SharedRounds && inconclusive == ""; round++ {
		ord := sharedOrders[(round+int(c.SharedSeed%7))%len(sharedOrders)]
		// --- no collection from here until the probe's checkers are inside their receives
		gcPercent = debug.SetGCPercent(-1)
		gcOff = true
		// (1) trigger: two pre-phase sends that fail
		for k := 0; k < 2; k++ {
			mode := []string{"park-reject", "park-accept"}[r.Intn(2)]
			t := newConn("trigger-"+mode, mode)
			t.ca.Write(frames(msg(erpc.TypeAuthCall, 1, "", 's', []string{badToken, goodToken}[r.Intn(2)])))
			serve(t)
			if !settle(flag(t, func() bool { return t.parked })) {
				inconclusive = "the trigger's checker did not reach its gate"
				break
			}
			if r.Intn(2) == 0 {
				t.ca.Close()
			} else {
				t.ca.Sever(true) // reset
			}
			t.release()
			if !settle(func() bool { return atomic.LoadInt32(&t.served) == 1 }) {
				inconclusive = "the trigger's accept path did not return"
				break
			}
			t.mu.Lock()
			if !t.sstat.OK() && t.verdictReached {
				core.Add("shared_triggers_with_unwritable_reply", 1)
			}
			t.mu.Unlock()
		}
		// (2) probe: the checkers enter their receives one after the other, before any client byte
		var probe []*connRec
		for i, role := range ord.roles {
			p := newConn(ord.label, "token")
			p.sentAuth = role.token != "-"
			if p.sentAuth {
				p.wroteToken = role.token
			}
			d := role.token == goodToken
			p.deserves = &d
			probe = append(probe, p)
			serve(p)
			if inconclusive == "" && !settle(flag(p, func() bool { return p.checkerCalls > 0 })) {
				inconclusive = fmt.Sprintf("the checker of probe connection %d was not entered", i)
			}
		}
		debug.SetGCPercent(gcPercent)
		gcOff = false
		// --- collections are welcome again
		if inconclusive != "" {
			break
		}
		if !quiet() {
			inconclusive = "no quiescence with the probe's checkers in their receives"
			break
		}
		for _, wi := range ord.write {
			p := probe[wi]
			if p.sentAuth {
				p.script = frames(msg(erpc.TypeAuthCall, 1, "", 's', p.wroteToken), msg(erpc.TypeCall, 2, rt.call, 'j', `"x"`))
				p.ca.Write(p.script)
			}
			if !quiet() {
				inconclusive = "no quiescence after a probe client wrote"
				break
			}
		}
		if inconclusive != "" {
			break
		}
		judge := func(final bool) {
			for _, f := range evaluate(srv, cs, probe, final) {
				finds = append(finds, f)
				findRecs = append(findRecs, probe[f.conn])
			}
			for _, p := range probe {
				p.mu.Lock()
				served := atomic.LoadInt32(&p.served) == 1
				accepted := served && p.sstat.OK()
				switch {
				case p.recvDone && p.recvOK && p.tokenSeen != p.wroteToken:
					finds = append(finds, finding{0, "checker-saw-foreign-token", fmt.Sprintf("the client of this connection wrote %s, its checker's receiver held %q when the receive returned",
						describeToken(p), p.tokenSeen)})
					findRecs = append(findRecs, p)
				case p.recvDone && !p.sentAuth && !final:
					finds = append(finds, finding{0, "checker-saw-foreign-token", fmt.Sprintf("the client of this connection has not written a byte, its checker's receive returned (receiver %q, status ok=%v)", p.tokenSeen, p.recvOK)})
					findRecs = append(findRecs, p)
				}
				if served && accepted != *p.deserves {
					finds = append(finds, finding{0, "wrong-verdict", fmt.Sprintf("the client of this connection wrote %s; the connection was %s (accept path: %s)",
						describeToken(p), map[bool]string{true: "ACCEPTED", false: "refused"}[accepted], p.sstat.String())})
					findRecs = append(findRecs, p)
				}
				p.mu.Unlock()
			}
		}
		judge(false)
		for _, p := range probe {
			p.ca.Close()
		}
		if !quiet() {
			inconclusive = "no quiescence after the probe's clients closed"
			break
		}
		judge(true)
		if os.Getenv("C16_DEBUG") != "" {
			for i, p := range probe {
				fmt.Fprintf(os.Stderr, "PROBE round %d %s conn %d wrote=%q sent=%v recvDone=%v recvOK=%v saw=%q served=%d status=%v handlers=%d\n", round, ord.label, i, p.wroteToken, p.sentAuth, p.recvDone, p.recvOK, p.tokenSeen, atomic.LoadInt32(&p.served), p.sstat, len(p.handlers))
			}
		}
		core.Add("shared_rounds", 1)
		core.Add("shared_probe_connections", int64(len(probe)))
		core.Add("evaluations", int64(len(probe)))
		core.Add("connections", int64(len(probe)+2))
		core.Distinct("nontrivial", "shared-pre-message/"+ord.label)
		for _, p := range probe {
			p.mu.Lock()
			if atomic.LoadInt32(&p.served) == 1 && p.sstat.OK() {
				core.Add("shared_probe_accepted", 1)
				core.Add("handler_runs_on_accepted", int64(len(p.handlers)))
			}
			p.mu.Unlock()
		}
	}
	core.Add("shared_cases_run_with_gomaxprocs_1", 1)
	if len(cs.stray) > 0 {
		core.Fatalf("events attributed to unknown connections: %v", cs.stray)
	}
	if len(finds) == 0 {
		if inconclusive != "" {
			core.Result(core.R{ID: id, Verdict: core.Inconclusive, What: inconclusive})
			return
		}
		core.Result(core.R{ID: id, Verdict: core.Held, Nontrivial: true, Sig: c.Class})
		return
	}
	seen := map[string]bool{}
	k := 0
	for i, f := range finds {
		rec := findRecs[i]
		fp := fmt.Sprintf("%s/shared-pre-message/%s/%s", *prop, rec.spec.Verdict, f.symptom)
		if seen[fp] {
			continue
		}
		seen[fp] = true
		rid := id
		if k > 0 {
			rid = fmt.Sprintf("%s#%d", id, k)
			core.Begin(rid, c)
		}
		k++
		fs, tail := parseOut(rec.out)
		w := describe(rec, fs, tail)
		w["client_wrote"], w["checker_receiver_held"] = describeToken(rec), rec.tokenSeen
		core.Result(core.R{ID: rid, Verdict: core.Violated, FP: fp, What: fmt.Sprintf("shared-pre-message / %s: %s", rec.spec.Verdict, f.detail), Witness: w, Desc: c})
	}
}

func describeToken(p *connRec) string {
	switch {
	case !p.sentAuth:
		return "nothing"
	case p.wroteToken == "":
		return "an AUTH_CALL with an empty body"
	case p.wroteToken == goodToken:
		return "the valid token"
	}
	return "a wrong token"
}

// ---------- generation ----------

func genConn(r *core.Rand, first, verdict string) connSpec {
	sp := connSpec{First: first, Verdict: verdict, Seed: int64(r.Uint64() >> 1)}
	sp.Timing = timingClasses[r.Intn(len(timingClasses))]
	sp.After = afterClasses[r.Intn(len(afterClasses))]
	sp.Chunk = chunkClasses[r.Intn(len(chunkClasses))]
	if strings.HasPrefix(verdict, "park-") || strings.HasPrefix(verdict, "prenamed-") {
		sp.Early = earlyKinds[r.Intn(len(earlyKinds))]
	}
	if verdict == "setid-accept-unwritable" || verdict == "park-accept-unwritable" {
		sp.After = "close" // the client is gone before the AUTH_REPLY can be written
	}
	if (verdict == "setid-then-accept" || verdict == "park-accept") && sp.After == "close" {
		sp.After = "hold" // the control: named and let in, the reply is deliverable
	}
	return sp
}

func classOf(conns []connSpec) string {
	var l []string
	for _, c := range conns {
		l = append(l, c.First)
	}
	sort.Strings(l)
	if len(l) == 1 {
		return l[0]
	}
	return fmt.Sprintf("group-of-%d", len(l))
}

func main() {
	flag.Parse()
	core.Prop = *prop
	wire.RegFilters()
	bed.Init("OFF")
	erpc.SetLoggerOutputter(discard{})

	if *replay != "" {
		b, err := os.ReadFile(*replay)
		if err != nil {
			core.Fatalf("replay: %v", err)
		}
		var f struct {
			Desc caseDesc `json:"desc"`
		}
		if err := json.Unmarshal(b, &f); err != nil || (len(f.Desc.Conns) == 0 && f.Desc.SharedRounds == 0) {
			core.Fatalf("replay: no case description in %s (%v)", *replay, err)
		}
		core.Begin("replay", f.Desc)
		if f.Desc.SharedRounds > 0 {
			runShared("replay", f.Desc)
		} else {
			runCase("replay", f.Desc)
		}
		core.Finish()
		return
	}

	extra := 1500
	if *tier == "thorough" {
		extra = 19000
	}
	r := core.NewRand(*seed, 16)
	var conns []connSpec
	// the full first-message x verdict matrix once, then seeded random combinations
	for _, f := range firstClasses {
		for _, v := range verdictClasses {
			conns = append(conns, genConn(r, f, v))
		}
	}
	for i := 0; i < extra; i++ {
		if i%6 == 4 { // sessions reachable during their exchange, written to by another goroutine before the verdict
			v := r.Pick("park-reject", "park-reject", "park-accept", "park-accept-unwritable", "prenamed-reject", "prenamed-token")
			f := r.Pick("auth-good", "auth-bad", "auth-good+calls", "two-auths")
			if strings.HasPrefix(v, "prenamed-") && r.Intn(2) == 0 {
				f = firstClasses[r.Intn(len(firstClasses))]
			}
			conns = append(conns, genConn(r, f, v))
			continue
		}
		if i%6 == 1 { // checkers that name the session during the exchange, with clients that present an identity
			conns = append(conns, genConn(r, r.Pick("auth-good", "auth-good+calls", "auth-bad", "two-auths"), r.Pick("setid-then-reject", "setid-accept-unwritable", "setid-then-accept")))
			continue
		}
		if i%3 == 0 { // connections that get in: the clauses about accepted connections need them
			sp := genConn(r, r.Pick("auth-good", "auth-good+calls", "auth-good+calls", "two-auths"), r.Pick("token", "accept-any"))
			if sp.After == "close" {
				sp.After = "hold"
			}
			conns = append(conns, sp)
			continue
		}
		conns = append(conns, genConn(r, firstClasses[r.Intn(len(firstClasses))], verdictClasses[r.Intn(len(verdictClasses))]))
	}
	// group into cases: singles (clean attribution of CountSession) and groups of 2..8 concurrent connections
	var cases []caseDesc
	for i := 0; i < len(conns); {
		n := []int{1, 1, 2, 4, 8}[r.Intn(5)]
		if i+n > len(conns) {
			n = len(conns) - i
		}
		g := conns[i : i+n]
		cd := caseDesc{Class: classOf(g), Conns: g}
		// 0..2 further accept plug-ins on either side of the checker (the overloader at most once per peer)
		pick := func(n int, used map[string]bool) []string {
			var l []string
			for len(l) < n {
				k := arrangeKinds[r.Intn(len(arrangeKinds))]
				if k == "overloader" && used[k] {
					continue
				}
				used[k] = true
				l = append(l, k)
			}
			return l
		}
		used := map[string]bool{}
		cd.Left = pick([]int{0, 0, 1, 2}[r.Intn(4)], used)
		cd.Right = pick([]int{0, 1, 1, 2}[r.Intn(4)], used)
		cases = append(cases, cd)
		i += n
	}
	nShared := 8
	if *tier == "thorough" {
		nShared = 64
	}
	for i := 0; i < nShared; i++ {
		cases = append(cases, caseDesc{Class: "shared-pre-message", SharedRounds: 12, SharedSeed: int64(r.Uint64() >> 1)})
	}
	for i, c := range cases {
		if i%*nbatch != *batch {
			continue
		}
		id := fmt.Sprintf("case%05d", i)
		core.Begin(id, c)
		if i < 3 {
			core.Sample(c)
		}
		if c.SharedRounds > 0 {
			runShared(id, c)
		} else {
			runCase(id, c)
		}
	}
	core.Finish()
}
