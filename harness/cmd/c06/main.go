// Worker for C06: no received byte sequence crashes the process, wedges the session's reader or a
// caller once the input is exhausted, or makes the receiver buffer more than the read limit for one
// message; oversize announcements are answered by disconnecting before the payload is consumed;
// afterwards the session is functional or cleanly disconnected and other sessions keep working.
package main

import (
	"bytes"
	"compress/gzip"
	"encoding/binary"
	"encoding/hex"
	"flag"
	"fmt"
	"github.com/henrylee2cn/erpc/v6/plugin/secure"
	"runtime"
	"strings"
	"time"

	erpc "github.com/henrylee2cn/erpc/v6"
	"github.com/henrylee2cn/erpc/v6/codec"
	"github.com/henrylee2cn/erpc/v6/utils"

	"verifharness/bed"
	"verifharness/core"
	"verifharness/protos"
	"verifharness/quiesce"
	"verifharness/rawpeer"
	"verifharness/tok"
	"verifharness/wire"
)

var (
	prop   = flag.String("prop", "C06", "")
	tier   = flag.String("tier", "quick", "")
	seed   = flag.Int64("seed", 1, "")
	batch  = flag.Int("batch", 0, "")
	nbatch = flag.Int("nbatch", 1, "")
	replay = flag.String("replay", "", "")
)

func HEcho(ctx erpc.CallCtx, arg *[]byte) ([]byte, *erpc.Status) {
	return append([]byte("ok:"), (*arg)...), nil
}
func HTyped(ctx erpc.CallCtx, arg *tok.Arg) (*tok.Arg, *erpc.Status) {
	return &tok.Arg{Tok: "ok:" + arg.Tok}, nil
}
func HPush(ctx erpc.PushCtx, arg *[]byte) *erpc.Status { return nil }

// HStruct is the echo handler for the thrift-struct protocol (bodies must be thrift structs).
func HStruct(ctx erpc.CallCtx, arg *wire.TStruct) (*wire.TStruct, *erpc.Status) {
	return &wire.TStruct{S: "ok:" + arg.S}, nil
}

type input struct {
	Class   string // scenario class (fingerprint)
	Bytes   []byte
	Intact  bool                      // framing intact: the peer is between frames after consuming it, a probe call is meaningful
	Oversz  bool                      // announces a size above the limit and withholds the payload: must be disconnected
	Pending bool                      // the victim has a call pending towards the script; Bytes are (hostile) replies
	Mut     func(reply []byte) []byte `json:"-"` // Pending: applied to a well-formed REPLY frame for the pending call
	Res     string                    // Pending: the caller's result receiver (struct, bytes, pbgen, nil)
	ReplyPB []byte                    // Pending with Res pbgen: the protobuf reply body
	Lowered bool                      // websocket: the victim session is established under a higher read limit, which is then lowered to the batch's limit
	Bomb    bool                      // decompression bomb
	Fed     int64                     // bytes fed
}

func u32(v uint32) []byte {
	b := make([]byte, 4)
	binary.BigEndian.PutUint32(b, v)
	return b
}

func gz(n int) []byte {
	var b bytes.Buffer
	w, _ := gzip.NewWriterLevel(&b, 9)
	w.Write(make([]byte, n))
	w.Close()
	return b.Bytes()
}

// gen builds the k-th input for protocol p (deterministic in r).
func gen(p protos.P, limit uint32, r *core.Rand, routes map[string]string, valid [][]byte) input {
	f := valid[r.Intn(len(valid))]
	if !p.Stream {
		return genWS(limit, r, valid)
	}
	sized := p.Name == "raw" || p.Name == "json" || p.Name == "pb" // {4 byte length}{1 byte pipe length}...
	switch x := r.Intn(20); {
	case x < 2:
		n := []int{1, 2, 3, 4, 5, 8, 16, 64, 300, 5000}[r.Intn(10)]
		return input{Class: "random-bytes", Bytes: r.Bytes(n)}
	case x < 5:
		b := append([]byte(nil), f...)
		for i := 0; i < 1+r.Intn(3); i++ {
			b[r.Intn(len(b))] ^= 1 << uint(r.Intn(8))
		}
		return input{Class: "bitflip", Bytes: b}
	case x < 8:
		return input{Class: "truncated", Bytes: append([]byte(nil), f[:r.Intn(len(f))]...)}
	case x < 10:
		b := append([]byte(nil), f...)
		b[r.Intn(len(b))] = []byte{0x00, 0xFF, 0x7F, 0x80, 0x01}[r.Intn(5)]
		return input{Class: "byte-boundary", Bytes: b}
	case x < 12 && sized:
		// length prefix at boundary values, payload present (rest of the valid frame)
		v := []uint32{0, 1, 2, 3, 4, 5, limit - 1, limit, uint32(len(f)) - 5, uint32(len(f)) - 3, uint32(len(f)) + 1}[r.Intn(11)]
		b := append(u32(v), f[4:]...)
		return input{Class: "size-field-boundary", Bytes: b}
	case x < 14 && sized:
		// oversize announcement, payload withheld
		v := []uint32{limit + 1, limit + 1000, 1<<31 - 1, 1 << 31, 1<<32 - 1}[r.Intn(5)]
		if uint64(limit)+1 > 1<<32-1 {
			v = 1<<32 - 1
		}
		if v <= limit {
			return input{Class: "random-bytes", Bytes: r.Bytes(7)}
		}
		b := append(u32(v), f[4:4+r.Intn(len(f)-4)]...)
		return input{Class: "oversize-announced", Bytes: b, Oversz: true}
	case x < 14 && (p.Name == "thrift-binary" || p.Name == "thrift-struct") && len(f) > 8:
		// THeader framing: {4 byte frame length}{frame}: a length above the read limit (but within what the thrift
		// library itself accepts, < 2^30), most of the payload withheld
		v := []uint32{limit + 1, limit + 4096, limit*4 + 1<<16, 1<<30 - 1}[r.Intn(4)]
		if v <= limit || v >= 1<<30 {
			return input{Class: "random-bytes", Bytes: r.Bytes(7)}
		}
		b := append(u32(v), f[4:4+r.Intn(len(f)-4)]...)
		return input{Class: "thrift-oversize-announced", Bytes: b, Oversz: true}
	case x < 15 && sized && p.Name == "raw":
		// inner length fields of the raw header
		b := append([]byte(nil), f...)
		off := 5 + int(b[4]) // after pipe
		pos := []int{4, off, off + 1 + int(b[off]) + 1}[r.Intn(3)]
		if pos < len(b) {
			b[pos] = []byte{0, 1, 0x7f, 0xff}[r.Intn(4)]
		}
		return input{Class: "raw-inner-length", Bytes: b}
	case x < 16 && p.Pipe && limit <= 1<<20:
		// decompression bomb through the registered gzip filter: small on the wire, far above the limit inflated
		inflated := int(limit)*16 + 256<<10
		body := gz(inflated)
		s := wire.Spec{Seq: 7, Mtype: erpc.TypeCall, Method: routes["echo"], Codec: codec.ID_PLAIN, Body: nil, Class: map[string]string{}}
		fs, err := rawpeer.Pack(p, s)
		if err != nil || !sized {
			return input{Class: "random-bytes", Bytes: r.Bytes(9)}
		}
		// hand-build: {len}{1}{'g'}{gzip(payload)} where payload is what the protocol would have put after the pipe
		inner := fs[0][5:]
		pad := gz(inflated)
		_ = body
		// the inflated stream = inner frame bytes followed by zeros
		var zb bytes.Buffer
		zw, _ := gzip.NewWriterLevel(&zb, 9)
		zw.Write(inner)
		zw.Write(make([]byte, inflated))
		zw.Close()
		_ = pad
		payload := zb.Bytes()
		b := append(u32(uint32(2+len(payload))), 1, wire.FGzip9)
		b = append(b, payload...)
		if uint32(len(b)) > limit {
			return input{Class: "random-bytes", Bytes: r.Bytes(11)}
		}
		return input{Class: "gzip-bomb", Bytes: b, Bomb: true}
	case x < 17 && p.HTTP:
		v := []string{"-1", "0", "99999999999", "abc", "2147483647", fmt.Sprint(uint64(limit) + 1), "4294967296", "4294967297", "8589934592", fmt.Sprint(uint64(1)<<32 + uint64(limit)/2)}[r.Intn(10)]
		b := []byte("POST " + routes["echo"] + " HTTP/1.1\r\nContent-Length: " + v + "\r\nContent-Type: text/plain\r\nX-Seq: 5\r\nX-Mtype: 1\r\n\r\nabc")
		return input{Class: "http-content-length", Bytes: b, Oversz: len(v) >= 10 || v == fmt.Sprint(uint64(limit)+1)}
	case x < 18 && p.HTTP && limit <= 1<<20 && r.Intn(4) == 0:
		// header lines and announced body each within the limit, the message as a whole above it: h + b > limit
		// (h, b at 55-95 % of the limit); the body is withheld, partly sent or sent in full
		h := int(limit) * (55 + r.Intn(40)) / 100
		bl := int(limit) * (55 + r.Intn(40)) / 100
		var hb bytes.Buffer
		hb.WriteString("POST " + routes["echo"] + " HTTP/1.1\r\nContent-Type: text/plain\r\nX-Seq: 5\r\nX-Mtype: 1\r\n")
		for i := 0; hb.Len() < h; i++ {
			fmt.Fprintf(&hb, "X-H%d: %s\r\n", i, strings.Repeat("v", 40))
		}
		fmt.Fprintf(&hb, "Content-Length: %d\r\n\r\n", bl)
		sent := []int{0, bl / 2, bl}[r.Intn(3)]
		hb.Write(bytes.Repeat([]byte("b"), sent))
		return input{Class: "http-headers-plus-body", Bytes: hb.Bytes(), Oversz: true}
	case x < 18 && p.HTTP && limit <= 1<<20 && r.Intn(3) == 0:
		b := append([]byte("POST /"), bytes.Repeat([]byte("a"), int(limit)*4)...)
		return input{Class: "http-endless-line", Bytes: b, Oversz: true}
	case x < 18 && p.HTTP && limit <= 1<<20 && r.Intn(2) == 0:
		// two Content-Length headers: a negative one and then one far above the limit; payload withheld
		big := uint64(limit)*8 + 1<<16
		b := []byte(fmt.Sprintf("POST %s HTTP/1.1\r\nContent-Length: -%d\r\nContent-Length: %d\r\nContent-Type: text/plain\r\nX-Seq: 5\r\nX-Mtype: 1\r\n\r\nabc", routes["echo"], big-64, big))
		return input{Class: "http-dup-content-length", Bytes: b, Oversz: true}
	case x < 18 && p.HTTP && limit <= 1<<20:
		// very many header lines, each short: the message as a whole is far above the limit
		var hb bytes.Buffer
		hb.WriteString("POST " + routes["echo"] + " HTTP/1.1\r\n")
		for i := 0; hb.Len() < int(limit)*6+4096; i++ {
			fmt.Fprintf(&hb, "X-H%d: %s\r\n", i, strings.Repeat("v", 40))
		}
		return input{Class: "http-many-headers", Bytes: hb.Bytes(), Oversz: true}
	case x < 19:
		// several valid frames back to back with junk in between
		b := append(append(append([]byte(nil), f...), r.Bytes(1+r.Intn(6))...), f...)
		return input{Class: "junk-between-frames", Bytes: b}
	default:
		// valid frames only: framing intact
		b := append([]byte(nil), f...)
		for i := 0; i < r.Intn(3); i++ {
			b = append(b, valid[r.Intn(len(valid))]...)
		}
		return input{Class: "valid-frames", Bytes: b, Intact: true}
	}
}

// pbReplyBodies: reply bodies under the protobuf codec for a result type with a generated decoder (secure.Encrypt)
var pbReplyBodies = [][]byte{
	{0x0a, 0x02, 'v', '1', 0x12, 0x03, 'a', 'b', 'c'},
	append([]byte{0x0a, 0x01, 'v', 0x12}, 0xf5, 0xff, 0xff, 0xff, 0xff, 0xff, 0xff, 0xff, 0x7f),
	{0x0a, 0x01, 'v', 0x12, 0xff, 0xff, 0xff, 0xff, 0x07, 'x'},
	{0x0a, 0x01, 'v', 0x12, 0x80},
	{0x0d, 0x01, 0x02, 0x03, 0x04, 0x12, 0x01, 'x'},
	{0x0c, 0x12, 0x01, 'x'},
	{0x0a, 0xff, 0xff, 0xff, 0xff, 0xff, 0xff, 0xff, 0xff, 0xff, 0x01},
	{},
}

// genPending: the victim is the CALLING side - it has one call pending and receives a (hostile) reply to it. The reply is
// derived at run time from a well-formed REPLY frame carrying the pending call's sequence number.
func genPending(p protos.P, limit uint32, r *core.Rand) input {
	sized := p.Name == "raw" || p.Name == "json" || p.Name == "pb"
	res := []string{"struct", "bytes", "pbgen", "nil"}[r.Intn(4)]
	in := input{Pending: true, Res: res}
	if res == "pbgen" {
		in.ReplyPB = pbReplyBodies[r.Intn(len(pbReplyBodies))]
	}
	seedv := int64(r.Uint64() >> 1)
	switch x := r.Intn(12); {
	case x < 2:
		in.Class, in.Intact = "reply-valid", true
		in.Mut = func(f []byte) []byte { return f }
	case x < 5:
		in.Class = "reply-bitflip"
		in.Mut = func(f []byte) []byte {
			rr := core.NewRand(seedv)
			b := append([]byte(nil), f...)
			for i := 0; i < 1+rr.Intn(3); i++ {
				b[rr.Intn(len(b))] ^= 1 << uint(rr.Intn(8))
			}
			return b
		}
	case x < 7:
		in.Class = "reply-truncated"
		in.Mut = func(f []byte) []byte { return append([]byte(nil), f[:core.NewRand(seedv).Intn(len(f))]...) }
	case x < 9:
		in.Class = "reply-byte-boundary"
		in.Mut = func(f []byte) []byte {
			rr := core.NewRand(seedv)
			b := append([]byte(nil), f...)
			b[rr.Intn(len(b))] = []byte{0x00, 0xFF, 0x7F, 0x80, 0x01}[rr.Intn(5)]
			return b
		}
	case x < 10 && sized:
		in.Class = "reply-size-field-boundary"
		in.Mut = func(f []byte) []byte {
			v := []uint32{0, 1, 4, 5, limit, uint32(len(f)) - 3, uint32(len(f)) + 1}[core.NewRand(seedv).Intn(7)]
			return append(u32(v), f[4:]...)
		}
	case x < 11 && sized:
		in.Class, in.Oversz = "reply-oversize-announced", true
		in.Mut = func(f []byte) []byte {
			v := []uint32{limit + 1, 1<<31 - 1, 1<<32 - 1}[core.NewRand(seedv).Intn(3)]
			if v <= limit {
				v = 1<<32 - 1
			}
			return append(u32(v), f[4:4+(len(f)-4)/2]...)
		}
	default:
		in.Class = "reply-twice-then-junk"
		in.Mut = func(f []byte) []byte {
			return append(append(append([]byte(nil), f...), f...), core.NewRand(seedv).Bytes(5)...)
		}
	}
	if res == "pbgen" {
		in.Class += "+pbgen"
	}
	return in
}

// ---- websocket victim: real handshake over memconn, then raw bytes (hand-built hybi frames) ----

// wsFrame builds one masked client frame (opcode: 1 text, 2 binary, 8 close, 9 ping, 10 pong).
func wsFrame(opcode byte, payload []byte, announce int64) []byte {
	n := int64(len(payload))
	if announce >= 0 {
		n = announce // the header announces this length, the payload given is what is actually sent
	}
	b := []byte{0x80 | opcode}
	switch {
	case n < 126:
		b = append(b, 0x80|byte(n))
	case n < 1<<16:
		b = append(b, 0x80|126, byte(n>>8), byte(n))
	default:
		b = append(b, 0x80|127, byte(n>>56), byte(n>>48), byte(n>>40), byte(n>>32), byte(n>>24), byte(n>>16), byte(n>>8), byte(n))
	}
	mask := []byte{0x11, 0x22, 0x33, 0x44}
	b = append(b, mask...)
	for i, c := range payload {
		b = append(b, c^mask[i%4])
	}
	return b
}

// wsPayloads extracts the payloads of the (unmasked) frames a server wrote.
func wsPayloads(b []byte) [][]byte {
	var out [][]byte
	for len(b) >= 2 {
		n := int64(b[1] & 0x7f)
		off := 2
		switch n {
		case 126:
			if len(b) < 4 {
				return out
			}
			n = int64(b[2])<<8 | int64(b[3])
			off = 4
		case 127:
			if len(b) < 10 {
				return out
			}
			n = 0
			for i := 2; i < 10; i++ {
				n = n<<8 | int64(b[i])
			}
			off = 10
		}
		if int64(len(b)) < int64(off)+n {
			return out
		}
		if b[0]&0x0f == 1 || b[0]&0x0f == 2 {
			out = append(out, b[off:int64(off)+n])
		}
		b = b[int64(off)+n:]
	}
	return out
}

type victim struct {
	sess   erpc.Session
	write  func([]byte)
	recv   func() ([]byte, bool)
	close_ func()
}

func dialVictim(srv erpc.Peer, p protos.P, ws bool) (*victim, error) {
	if !ws {
		c := rawpeer.Dial(srv, p.Func, nil)
		if c.Sess == nil {
			return nil, fmt.Errorf("accept failed: %v", c.Stat)
		}
		return &victim{sess: c.Sess, write: c.Write, recv: c.Received, close_: c.Close}, nil
	}
	c, sess, err := bed.ServeWSRaw(srv, p.Func)
	if err != nil {
		return nil, err
	}
	return &victim{sess: sess, write: func(b []byte) { c.Write(b) }, recv: c.Received, close_: c.Close}, nil
}

// genWS builds websocket-level inputs: valid holds the sub-protocol payloads of valid messages.
func genWS(limit uint32, r *core.Rand, valid [][]byte) input {
	pl := valid[r.Intn(len(valid))]
	switch x := r.Intn(16); {
	case x < 1:
		return input{Class: "ws-random-bytes", Bytes: r.Bytes([]int{1, 2, 6, 14, 64, 300, 5000}[r.Intn(7)])}
	case x < 4:
		// a well-formed frame whose sub-protocol payload is damaged
		b := append([]byte(nil), pl...)
		for i := 0; i < 1+r.Intn(3); i++ {
			b[r.Intn(len(b))] ^= 1 << uint(r.Intn(8))
		}
		return input{Class: "ws-payload-bitflip", Bytes: wsFrame(2, b, -1), Intact: true}
	case x < 6:
		b := wsFrame(2, pl, -1)
		b[r.Intn(len(b))] ^= 1 << uint(r.Intn(8))
		return input{Class: "ws-frame-bitflip", Bytes: b}
	case x < 8:
		b := wsFrame(2, pl, -1)
		return input{Class: "ws-truncated", Bytes: b[:r.Intn(len(b))]}
	case x < 10:
		// a data frame announcing more than the read limit, payload withheld
		n := []int64{int64(limit) + 1, int64(limit) + 4096, 1<<31 - 1, 1 << 31, 1<<62 + 5}[r.Intn(5)]
		if limit < 8<<20 && r.Intn(3) == 0 {
			// the session exists since before the limit was lowered (SetReadLimit at run time); one small message has been
			// read under the new limit; the announcement is above the new limit and below the old one
			n = []int64{int64(limit) + 1, int64(limit) + 4096, int64(limit)*2 + 100}[r.Intn(3)]
			return input{Class: "ws-oversize-after-limit-lowered", Bytes: wsFrame(2, pl[:r.Intn(len(pl))], n), Oversz: true, Lowered: true}
		}
		return input{Class: "ws-oversize-announced", Bytes: wsFrame(2, pl[:r.Intn(len(pl))], n), Oversz: true}
	case x < 12:
		// a control frame (ping / pong / close) announcing a huge payload: control frames carry at most 125 bytes
		op := []byte{9, 10, 8}[r.Intn(3)]
		n := []int64{126, 65535, 1 << 20, 1 << 28, 1<<62 + 1}[r.Intn(5)]
		return input{Class: "ws-control-oversize", Bytes: wsFrame(op, nil, n), Bomb: true}
	case x < 13:
		return input{Class: "ws-ping-then-valid", Bytes: append(wsFrame(9, []byte("hi"), -1), wsFrame(2, pl, -1)...), Intact: true}
	case x < 14:
		// a fragmented message (FIN clear) and a text frame
		b := wsFrame(2, pl, -1)
		b[0] &^= 0x80
		return input{Class: "ws-unfinished-fragment", Bytes: append(b, wsFrame(1, pl, -1)...)}
	default:
		b := wsFrame(2, pl, -1)
		for i := 0; i < r.Intn(3); i++ {
			b = append(b, wsFrame(2, valid[r.Intn(len(valid))], -1)...)
		}
		return input{Class: "ws-valid-frames", Bytes: b, Intact: true}
	}
}

func main() {
	flag.Parse()
	core.Prop = *prop
	wire.RegFilters()
	bed.Init("OFF")

	protoNames := []string{"raw", "json", "pb", "http", "ws-json"}
	// the default limit (1 GiB) lets a 4-byte prefix make the receiver allocate and clear up to 1 GiB - legitimate,
	// but slow; the quick tier uses 16 MiB as its largest limit, the thorough tier adds the default
	limits := []uint32{1 << 10, 64 << 10, 1 << 20, 16 << 20}
	perBatch := 200
	if *tier == "thorough" {
		protoNames = []string{"raw", "json", "pb", "http", "thrift-binary", "thrift-struct", "ws-json", "ws-pb"}
		perBatch = 1500
		limits = []uint32{1 << 10, 64 << 10, 1 << 20, 16 << 20, 0}
	}
	p := protos.ByName(protoNames[*batch%len(protoNames)])
	limit := limits[(*batch/len(protoNames))%len(limits)]
	erpc.SetReadLimit(limit)
	effLimit := erpc.GetReadLimit()
	r := core.NewRand(*seed, int64(*batch), 6)

	srv := erpc.NewPeer(erpc.PeerConfig{})
	routes := map[string]string{"echo": srv.RouteCallFunc(HEcho), "typed": srv.RouteCallFunc(HTyped), "push": srv.RoutePushFunc(HPush), "struct": srv.RouteCallFunc(HStruct)}
	if p.Struct {
		routes["echo"] = routes["struct"] // the frames to mutate and the control probe carry thrift structs
	}
	ctlPeer := erpc.NewPeer(erpc.PeerConfig{})
	isWS := !p.Stream
	connectCtl := func() (*bed.Link, error) {
		if isWS {
			return bed.ConnectWS(ctlPeer, srv, p.Func, nil)
		}
		return bed.Connect(ctlPeer, srv, p.Func, p.Func, nil)
	}
	ctl, err := connectCtl()
	if err != nil {
		core.Fatalf("control session: %v", err)
	}
	baseReaders := 2 // the control link has a reader goroutine on each side

	// a few valid frames to mutate
	var specs []wire.Spec
	mk := func(seq int32, mtype byte, method string, c byte, body string, pipe string, meta ...wire.KV) wire.Spec {
		return wire.Spec{Seq: seq, Mtype: mtype, Method: method, Codec: c, Body: []byte(body), Pipe: []byte(pipe), Meta: meta, Class: map[string]string{}}
	}
	if p.Struct {
		specs = append(specs, wire.Spec{Seq: 3, Mtype: erpc.TypeCall, Method: routes["echo"], TS: &wire.TStruct{A: 1, S: "x"}, Class: map[string]string{}})
	} else {
		specs = append(specs, mk(3, erpc.TypeCall, routes["echo"], codec.ID_PLAIN, "hello", "", wire.KV{K: "K1", V: "v1"}))
		specs = append(specs, mk(4, erpc.TypeCall, routes["typed"], codec.ID_JSON, `{"tok":"t","pay":"p"}`, ""))
		if p.Pipe {
			specs = append(specs, mk(5, erpc.TypeCall, routes["echo"], codec.ID_PLAIN, strings.Repeat("z", 200), "z"))
		}
		if p.Push {
			specs = append(specs, mk(6, erpc.TypePush, routes["push"], codec.ID_PLAIN, "p", ""))
		}
		specs = append(specs, mk(7, erpc.TypeReply, "", codec.ID_PLAIN, "late reply", ""))
	}
	valid, err := rawpeer.Pack(p, specs...)
	if err != nil {
		core.Fatalf("pack: %v", err)
	}
	probeSeq := int32(100000)

	// exhaustive part: every byte position of the first valid frame set to each of 5 boundary values,
	// split over the batches that serve this protocol (one slice per read limit)
	var exhaustive []input
	first := valid[0]
	if isWS {
		first = wsFrame(2, valid[0], -1)
	}
	for pos := range first {
		for _, v := range []byte{0x00, 0x01, 0x7f, 0x80, 0xff} {
			if first[pos] == v {
				continue
			}
			b := append([]byte(nil), first...)
			b[pos] = v
			exhaustive = append(exhaustive, input{Class: "byte-exhaustive", Bytes: b})
		}
	}
	slices := *nbatch / len(protoNames)
	if slices < 1 {
		slices = 1
	}
	slice := (*batch / len(protoNames)) % slices
	lo, hi := len(exhaustive)*slice/slices, len(exhaustive)*(slice+1)/slices
	exhaustive = exhaustive[lo:hi]
	core.Add("exhaustive_single_byte_inputs", int64(len(exhaustive)))
	for k := 0; k < perBatch+len(exhaustive); k++ {
		var in input
		if k < len(exhaustive) {
			in = exhaustive[k]
		} else {
			in = gen(p, effLimit, r, routes, valid)
			if p.Stream && !p.Struct && r.Intn(4) == 0 {
				in = genPending(p, effLimit, r)
			}
		}
		id := fmt.Sprintf("b%d.%d", *batch, k)
		hx := hex.EncodeToString(in.Bytes)
		if len(hx) > 400 {
			hx = hx[:400] + "..."
		}
		fp := func(sym string) string {
			return fmt.Sprintf("C06/%s/%s/limit=%d/%s", p.Name, in.Class, limit, sym)
		}
		desc := map[string]interface{}{"class": in.Class, "proto": p.Name, "limit": effLimit, "len": len(in.Bytes), "hex": hx, "index": k}
		core.Begin(id, desc)
		core.Add("evaluations", 1)
		core.Add("bytes_fed", int64(len(in.Bytes)))
		core.Distinct("nontrivial", fmt.Sprintf("%s/%s/limit=%d", p.Name, in.Class, limit))
		if k%53 == 0 {
			core.Sample(desc)
		}
		utils.VerifMaxAlloc(true)
		var m0, m1 runtime.MemStats
		runtime.ReadMemStats(&m0)
		if in.Lowered {
			erpc.SetReadLimit(32 << 20)
		}
		c, derr := dialVictim(srv, p, isWS)
		if in.Lowered {
			erpc.SetReadLimit(limit)
		}
		if derr != nil {
			core.Result(core.R{ID: id, Verdict: core.Inconclusive, What: derr.Error()})
			continue
		}
		if in.Lowered {
			// one small valid message is handled under the new limit first
			c.write(wsFrame(2, valid[0], -1))
			if q := quiesce.Wait(quiesce.Options{Timeout: 30 * time.Second}); !q.Quiescent {
				core.Result(core.R{ID: id, Verdict: core.Inconclusive, What: "watchdog: not quiescent after the first message under the lowered limit"})
				c.close_()
				quiesce.Wait(quiesce.Options{Timeout: 5 * time.Minute})
				continue
			}
			if _, eof := c.recv(); eof {
				core.Result(core.R{ID: id, Verdict: core.Inconclusive, What: "the session ended on its first small message"})
				c.close_()
				continue
			}
			core.Add("websocket_sessions_whose_limit_was_lowered_at_run_time", 1)
			runtime.ReadMemStats(&m0)
			utils.VerifMaxAlloc(true)
		}
		var pend erpc.CallCmd
		var viols [][2]string
		if in.Pending {
			// the victim calls the script; the script answers with the (mutated) reply
			var result interface{}
			replyCodec, replyBody := byte(codec.ID_JSON), []byte(`{"tok":"r","pay":"q"}`)
			switch in.Res {
			case "struct":
				result = new(tok.Arg)
			case "bytes":
				result = new([]byte)
			case "pbgen":
				result = new(secure.Encrypt)
				replyCodec, replyBody = codec.ID_PROTOBUF, in.ReplyPB
			}
			pend = c.sess.AsyncCall("/remote/method", &tok.Arg{Tok: "t", Pay: "p"}, result, make(chan erpc.CallCmd, 1), erpc.WithBodyCodec(codec.ID_JSON))
			var seq int32
			sawCall := bed.WaitUntil(10*time.Second, func() bool {
				got, _ := c.recv()
				fs, _ := rawpeer.Parse(p, got)
				for _, f := range fs {
					if f.Mtype == erpc.TypeCall {
						seq = f.Seq
						return true
					}
				}
				return false
			})
			rf, perr := rawpeer.Pack(p, wire.Spec{Seq: seq, Mtype: erpc.TypeReply, Codec: replyCodec, Body: replyBody, Class: map[string]string{}})
			if !sawCall || perr != nil || len(rf) == 0 {
				core.Result(core.R{ID: id, Verdict: core.Inconclusive, What: "the victim's CALL frame was not seen"})
				c.close_()
				quiesce.Wait(quiesce.Options{Timeout: 30 * time.Second})
				continue
			}
			in.Bytes = in.Mut(rf[0])
			desc["len"], desc["hex"], desc["result_receiver"] = len(in.Bytes), hex.EncodeToString(in.Bytes), in.Res
			core.Add("hostile_replies_to_a_pending_call", 1)
			runtime.ReadMemStats(&m0)
			utils.VerifMaxAlloc(true)
		}
		c.write(in.Bytes)
		q := quiesce.Wait(quiesce.Options{Timeout: 30 * time.Second})
		if !q.Quiescent {
			core.Result(core.R{ID: id, Verdict: core.Inconclusive, What: "watchdog: not quiescent after feeding"})
			c.close_()
			// let the leftover work finish so that it cannot pollute the next measurement
			quiesce.Wait(quiesce.Options{Timeout: 5 * time.Minute})
			continue
		}
		runtime.ReadMemStats(&m1)
		maxReq := utils.VerifMaxAlloc(true)
		_, eof := c.recv()
		if uint64(maxReq) > uint64(effLimit) {
			viols = append(viols, [2]string{"buffer-above-limit", fmt.Sprintf("receive buffer of %d bytes requested with read limit %d", maxReq, effLimit)})
		}
		if effLimit <= 1<<20 {
			growth := m1.TotalAlloc - m0.TotalAlloc
			bound := 8*(uint64(effLimit)+uint64(len(in.Bytes))) + 4<<20
			core.Max("max_totalalloc_growth", int64(growth))
			if growth > bound {
				viols = append(viols, [2]string{"over-allocation", fmt.Sprintf("%d bytes allocated while receiving %d bytes with read limit %d (bound %d)", growth, len(in.Bytes), effLimit, bound)})
			}
		}
		if in.Oversz && !eof {
			viols = append(viols, [2]string{"oversize-not-disconnected", "a frame announcing more than the read limit was not answered by disconnecting while its payload was withheld"})
		}
		// functional or disconnected
		if !eof && in.Intact && !p.Struct {
			probeSeq++
			pf, _ := rawpeer.Pack(p, wire.Spec{Seq: probeSeq, Mtype: erpc.TypeCall, Method: routes["echo"], Codec: codec.ID_PLAIN, Body: []byte("probe"), Class: map[string]string{}})
			before, _ := c.recv()
			if isWS {
				c.write(wsFrame(2, pf[0], -1))
			} else {
				c.write(pf[0])
			}
			quiesce.Wait(quiesce.Options{Timeout: 30 * time.Second})
			after, eof2 := c.recv()
			var fs []wire.Spec
			if isWS {
				for _, pl := range wsPayloads(after[len(before):]) {
					one, _ := rawpeer.Parse(p, pl)
					fs = append(fs, one...)
				}
			} else {
				fs, _ = rawpeer.Parse(p, after[len(before):])
			}
			ok := false
			for _, f := range fs {
				if f.Seq == probeSeq && f.Mtype == erpc.TypeReply && f.Stat == nil && string(f.Body) == "ok:probe" {
					ok = true
				}
			}
			core.Add("victim_probes", 1)
			if !ok && !eof2 {
				viols = append(viols, [2]string{"victim-not-functional", "after whole valid frames the session neither answers a valid probe call nor is disconnected"})
			}
		}
		// input exhausted: the script closes; the victim must end cleanly
		c.close_()
		q = quiesce.Wait(quiesce.Options{Timeout: 30 * time.Second})
		if q.Quiescent {
			readers := quiesce.Blocked(q.Dump, "github.com/henrylee2cn/erpc/v6.(*session).startReadAndHandle")
			if len(readers) > baseReaders {
				viols = append(viols, [2]string{"reader-wedged", fmt.Sprintf("%d reader goroutines remain after the input was exhausted (expected %d): %v", len(readers), baseReaders, quiesce.Brief(readers))})
				baseReaders = len(readers) // a wedged reader stays for the rest of the process
			}
			if c.sess != nil && c.sess.Health() {
				viols = append(viols, [2]string{"still-healthy-after-eof", "session reports healthy after its connection ended"})
			}
			if pend != nil {
				select {
				case <-pend.Done():
				default:
					viols = append(viols, [2]string{"pending-call-wedged", "the call that was pending when the reply bytes arrived is still incomplete after the connection ended and the process is quiescent: " +
						strings.Join(quiesce.Brief(quiesce.Blocked(q.Dump, "github.com/henrylee2cn/erpc/v6.")), " ;; ")})
				}
			}
		}
		// the control session keeps working
		if k%4 == 0 || len(viols) > 0 {
			arg := []byte("ctl")
			var res []byte
			var st *erpc.Status
			if p.Struct {
				var tres wire.TStruct
				st = ctl.A.Call(routes["struct"], &wire.TStruct{S: "ctl"}, &tres, erpc.WithBodyCodec(codec.ID_THRIFT)).Status()
				res = []byte(tres.S)
			} else {
				st = ctl.A.Call(routes["echo"], arg, &res, erpc.WithBodyCodec(codec.ID_PLAIN)).Status()
			}
			core.Add("control_probes", 1)
			if !st.OK() || string(res) != "ok:ctl" {
				viols = append(viols, [2]string{"control-session-broken", fmt.Sprintf("control session call failed after the input: %v %q", st, res)})
				if !ctl.A.Health() {
					ctl, err = connectCtl()
					if err != nil {
						core.Fatalf("control session lost: %v", err)
					}
				}
			}
		}
		if len(viols) == 0 {
			core.Result(core.R{ID: id, Verdict: core.Held})
			continue
		}
		for i, v := range viols {
			rid := id
			if i > 0 {
				rid = fmt.Sprintf("%s#%d", id, i)
				core.Begin(rid, desc)
			}
			core.Result(core.R{ID: rid, Verdict: core.Violated, FP: fp(v[0]), What: p.Name + " " + in.Class + ": " + v[1], Witness: v[1], Desc: desc})
		}
	}
	core.Finish()
}
