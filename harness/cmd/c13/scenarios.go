package main

import (
	"fmt"
	"strings"

	"verifharness/core"
	"verifharness/fwd"
)

// calibrate measures the request and reply frame lengths of the echo call used for mid-write cuts.
func calibrate() (c2s, s2c int) {
	e := &env{sc: Scn{Class: "calibration", Budget: 0, Hook: "plain", Base: "idle"}, id: "cal"}
	defer e.cleanup()
	if err := e.setup(); err != nil {
		core.Fatalf("calibration: %v", err)
	}
	w := e.start("call", "probe")
	if !waitOp(w, gateWait) || !w.Good {
		core.Fatalf("calibration: warm-up call failed: %d %s", w.Code, w.Msg)
	}
	p := e.fw.Current()
	c0, s0 := p.Count(fwd.C2S), p.Count(fwd.S2C)
	w = e.start("call", "probe")
	if !waitOp(w, gateWait) || !w.Good {
		core.Fatalf("calibration: probe call failed: %d %s", w.Code, w.Msg)
	}
	return int(p.Count(fwd.C2S) - c0), int(p.Count(fwd.S2C) - s0)
}

func kClass(k, frame int) string {
	switch {
	case k < 0 || k >= frame:
		return "full"
	case k == 0:
		return "0"
	case k < 4:
		return "len-prefix"
	case k == 4:
		return "len-done"
	case k == frame-1:
		return "last-1"
	}
	return "mid"
}

// finish fills the derived fields of a scenario.
func finish(s Scn, frames [2]int) Scn {
	if s.Hook == "" {
		s.Hook = "plain"
	}
	if s.Base == "" {
		s.Base = "idle"
	}
	if s.Base == "awaiting" && s.NCalls == 0 {
		s.NCalls = 1
	}
	if s.Losses == 0 {
		s.Losses = 1
	}
	if s.Writer == "" {
		s.Writer = "call"
	}
	if s.Refuse != 0 && s.Mode == "" {
		s.Mode = "reject"
	}
	if s.HookRefuse != "" {
		// the server stays reachable; the dial hook refuses by policy. Optionally the first attempts of
		// every round find the port closed (Mode down, Refuse = number of such attempts <= budget)
		s.Script, s.Hook = "", "plain"
		if s.Budget < 1 {
			s.Budget = 1
		}
		if s.Mode != "down" || s.Refuse <= 0 || s.Refuse > s.Budget {
			s.Refuse, s.Mode = 0, ""
		}
		if s.Base != "awaiting" {
			s.Base = "idle"
		}
	}
	if s.Timed {
		// the server is away for longer than DialTimeout and back within the budget; refusals are
		// visible to the dialer (handshake hook) or the port is really closed
		s.Refuse, s.Script, s.Losses = 0, "", 1
		if s.Mode == "" {
			s.Mode = "reject"
		}
		if s.Mode == "reject" {
			s.Hook = "handshake"
		}
		if s.Base != "awaiting" {
			s.Base = "idle"
		}
	} else if s.Refuse == 0 {
		s.Mode = ""
	}
	if s.Budget == 0 {
		s.Refuse, s.Mode = 0, "" // no redial: nothing dials again
	}
	// a refusal that only closes the accepted connection is invisible to a hook without I/O (every such
	// attempt is a completed redial followed by a new loss): the server can only "stay down" with a
	// handshake hook or with the port really down
	if s.Budget < 0 && s.Refuse < 0 {
		s.Refuse = 5 // an unlimited budget never gives up
	}
	visible := s.Mode == "down" || s.Hook == "handshake"
	if s.Refuse < 0 && !visible {
		s.Hook = "handshake"
	}
	// a visible outage longer than one round of attempts is the exhausted class
	if s.Budget > 0 && s.Refuse > s.Budget && visible {
		s.Refuse = -1
	}
	switch s.Base {
	case "mid-write":
		f := frames[0]
		if s.Dir == "" {
			s.Dir = "c2s"
		}
		if s.Dir == "s2c" {
			f = frames[1]
		}
		if s.K > f {
			s.K = -1
		}
		s.KClass = kClass(s.K, f)
	case "big-write", "big-stall":
		s.KClass = fmt.Sprintf("big-%dKiB", s.K)
	default:
		s.K, s.KClass, s.Dir = 0, "-", ""
	}
	script := s.Script
	if i := strings.Index(script, "@"); i >= 0 {
		script = script[:i]
	}
	if (script == "second-redial" || script == "redundant-redial") && s.Refuse < 0 {
		s.Refuse, s.Mode = 0, "" // these orderings need a redial that succeeds
	}
	if script == "drop" && s.Refuse > 0 {
		// the held redial attempt must be the one the forwarder lets through: refused attempts must not reach the hook
		s.Mode = "down"
	}
	switch {
	case script == "w-redials":
		s.Detector = "writer"
	case script == "drop":
		s.Detector = "reader"
	case script != "" || s.Base == "big-write" || s.Base == "big-stall":
		s.Detector = "both"
	default:
		s.Detector = "reader"
	}
	hookEnds := false
	if s.HookRefuse != "" {
		j, down := 0, 0
		if s.Mode == "down" {
			down = s.Refuse
		}
		for l := 0; l < s.Losses && !hookEnds; l++ {
			ok, _ := simulateRound(s, down, &j)
			hookEnds = !ok
		}
	}
	switch {
	case hookEnds:
		s.Class = "exhausted"
	case s.Losses > 1:
		s.Class = "repeated"
	case s.Budget != 0 && s.Refuse < 0:
		s.Class = "exhausted"
	case s.Timed || s.Refuse > 0 || script == "drop" || script == "redundant-redial" || strings.Contains(s.Script, "@redialfn."):
		s.Class = "during-redial"
	case s.Base == "awaiting":
		s.Class = "awaiting-reply"
	case s.Base == "mid-write" || s.Base == "big-write" || s.Base == "big-stall":
		s.Class = "mid-write"
	default:
		s.Class = "idle"
	}
	return s
}

var scripts = []string{
	"w-redials@rd.afterStatusWrite", "w-redials@rd.beforeCancel", "w-redials@rd.beforeSocketClose", "w-redials@rd.beforeRedial",
	"w-redials-overlap@rd.afterStatusWrite", "w-redials-overlap@rd.beforeSocketClose",
	"w-holds-lock",
	"r-holds@redial.afterLock", "r-holds@redial.afterCAS", "r-holds@redialfn.afterReset", "r-holds@redialfn.afterPostDial", "r-holds@redialfn.beforeOk",
	"w-during@rd.enter", "w-during@rd.beforeStatusWrite",
	"drop@redialfn.afterReset", "drop@redialfn.afterPostDial", "drop@redialfn.beforeOk",
	"second-redial", "redundant-redial", "slow-handler",
}

// scenarios builds the deterministic case list of a tier.
func scenarios(tier string, seed int64) []Scn {
	c2s, s2c := calibrate()
	frames := [2]int{c2s, s2c}
	core.Max("request_frame_bytes", int64(c2s))
	core.Max("reply_frame_bytes", int64(s2c))
	r := core.NewRand(seed, 13)
	var out []Scn
	add := func(s Scn) { out = append(out, finish(s, frames)) }
	budgets := []int{0, 1, 3, -1}
	hooks := []string{"plain", "handshake"}

	if tier != "thorough" {
		// mid-frame write: a sample of k
		for i, k := range []int{0, 2, 4, c2s / 2, c2s - 1, -1} {
			add(Scn{Budget: budgets[(i+1)%4], Base: "mid-write", K: k, RST: i%2 == 1, Hook: hooks[i%2], UserID: i%2 == 0})
		}
		add(Scn{Budget: 3, Base: "mid-write", Dir: "s2c", K: s2c / 2, UserID: true})
		add(Scn{Budget: 1, Base: "big-write", K: 1024, RST: true})
		add(Scn{Budget: -1, Base: "big-write", K: 0})
		add(Scn{Budget: 3, Base: "big-stall", K: 512, UserID: true})
		add(Scn{Budget: 1, Base: "big-stall", K: 0, Hook: "handshake"})
		// idle, awaiting
		add(Scn{Budget: 0, Base: "idle"})
		add(Scn{Budget: 3, Base: "idle", UserID: true, RST: true})
		add(Scn{Budget: -1, Base: "idle", Hook: "handshake"})
		add(Scn{Budget: 0, Base: "awaiting", NCalls: 2})
		add(Scn{Budget: 1, Base: "awaiting", NCalls: 3, Hook: "handshake", UserID: true})
		add(Scn{Budget: 3, Base: "awaiting", NCalls: 1, RST: true})
		add(Scn{Budget: -1, Base: "awaiting", NCalls: 2, UserID: true})
		// websocket client sessions (dial plug-in + serve handler of the websocket mixer)
		add(Scn{Budget: 3, Base: "idle", WS: true})
		add(Scn{Budget: 1, Base: "awaiting", NCalls: 2, WS: true, UserID: true, RST: true})
		add(Scn{Budget: 3, Base: "idle", Losses: 2, WS: true, UserID: true})
		// user-assigned ids that are, or look like, addresses
		add(Scn{Budget: 3, Base: "idle", UserID: true, IDForm: "remote-addr"})
		add(Scn{Budget: 1, Base: "awaiting", NCalls: 2, UserID: true, IDForm: "remote-addr", Hook: "handshake", RST: true})
		add(Scn{Budget: 3, Base: "idle", UserID: true, IDForm: "ip-like", Losses: 2})
		add(Scn{Budget: -1, Base: "idle", Refuse: 2, Mode: "reject", UserID: true, IDForm: "remote-addr"})
		// during a redial: refused attempts
		add(Scn{Budget: 3, Base: "idle", Refuse: 2, Mode: "reject", Hook: "handshake", UserID: true})
		add(Scn{Budget: 3, Base: "awaiting", Refuse: 3, Mode: "reject", Hook: "plain"})
		add(Scn{Budget: 1, Base: "idle", Refuse: 1, Mode: "down", UserID: true})
		add(Scn{Budget: -1, Base: "awaiting", Refuse: 7, Mode: "down", Hook: "handshake"})
		add(Scn{Budget: -1, Base: "idle", Refuse: 9, Mode: "reject", Hook: "handshake", RST: true})
		// exhausted
		add(Scn{Budget: 1, Base: "idle", Refuse: -1, Mode: "reject", UserID: true})
		add(Scn{Budget: 3, Base: "awaiting", NCalls: 2, Refuse: -1, Mode: "reject", Writer: "push"})
		add(Scn{Budget: 1, Base: "awaiting", Refuse: -1, Mode: "down", UserID: true})
		add(Scn{Budget: 3, Base: "idle", Refuse: -1, Mode: "down", Hook: "handshake", Writer: "push"})
		add(Scn{Budget: 3, Base: "mid-write", K: 6, Refuse: -1, Mode: "reject"})
		add(Scn{Budget: 1, Base: "idle", Refuse: -1, Mode: "reject", Script: "w-redials@rd.afterStatusWrite"})
		// who notices first
		for i, sc := range []string{"w-redials@rd.afterStatusWrite", "w-redials@rd.beforeCancel", "w-redials@rd.beforeRedial",
			"w-redials-overlap@rd.afterStatusWrite", "w-holds-lock", "r-holds@redial.afterLock", "r-holds@redialfn.beforeOk",
			"w-during@rd.enter", "drop@redialfn.afterReset", "drop@redialfn.afterPostDial"} {
			add(Scn{Budget: []int{1, 3, -1}[i%3], Base: []string{"idle", "awaiting"}[i%2], Script: sc, Writer: []string{"call", "push"}[(i/2)%2],
				Hook: hooks[(i/3)%2], UserID: i%2 == 0, RST: i%4 == 3})
		}
		add(Scn{Budget: 3, Base: "awaiting", Script: "w-holds-lock", Writer: "push", UserID: true})
		add(Scn{Budget: 1, Base: "idle", Script: "w-redials-overlap@rd.beforeSocketClose", Writer: "call", Hook: "handshake"})
		add(Scn{Budget: 3, Base: "idle", Script: "second-redial", Writer: "call", Hook: "handshake", UserID: true})
		add(Scn{Budget: 1, Base: "awaiting", Script: "second-redial", Writer: "call", Hook: "plain"})
		add(Scn{Budget: 1, Base: "idle", Script: "redundant-redial", Writer: "push", UserID: true})
		add(Scn{Budget: 3, Base: "idle", Script: "slow-handler", Writer: "call", Refuse: -1, Mode: "reject", UserID: true})
		add(Scn{Budget: 1, Base: "awaiting", Script: "slow-handler", Writer: "call", Hook: "handshake"})
		add(Scn{Budget: -1, Base: "awaiting", Script: "redundant-redial", Writer: "call", Hook: "handshake"})
		// repeated losses with refused attempts: every round has its own budget of n retries, and a
		// second session dialed afterwards from the same peer is as redial-enabled as the first
		for _, n := range []int{2, 3} {
			i := 0
			for _, l := range []int{n + 1, 2*n + 1} {
				for _, rf := range []int{1, n - 1} {
					if n == 2 && rf == 1 && i%2 == 1 {
						i++
						continue // n = 2: both refusal counts coincide
					}
					md := [][2]string{{"reject", "handshake"}, {"down", "plain"}, {"down", "handshake"}}[(i+n)%3]
					add(Scn{Budget: n, Base: []string{"idle", "awaiting"}[i%2], NCalls: 2, Losses: l, Refuse: rf, Mode: md[0], Hook: md[1],
						UserID: i%2 == 0, RST: i%3 == 0, Second: true})
					i++
				}
			}
			add(Scn{Budget: n, Base: "awaiting", NCalls: 1, Losses: n + 1, Refuse: 1, Mode: "reject", Hook: "handshake", RST: n == 3, Second: true})
			// exactly n refused attempts in total, then the second session
			add(Scn{Budget: n, Base: "idle", Losses: n, Refuse: 1, Mode: "reject", Hook: "handshake", UserID: true, Second: true})
		}
		// repeated
		add(Scn{Budget: 1, Base: "idle", Losses: 3, UserID: true})
		add(Scn{Budget: 3, Base: "awaiting", Losses: 2, Refuse: 1, Mode: "reject", Hook: "handshake"})
		// a few perturbed runs
		for i := 0; i < 3; i++ {
			add(Scn{Budget: []int{1, 3, -1}[i], Base: "awaiting", NCalls: 2, Script: scripts[r.Intn(len(scripts))], Writer: r.Pick("call", "push"),
				DelaySeed: int64(r.Intn(1 << 30)), DelayP: 300, UserID: true})
		}
		// the server is reachable but the dial hook refuses redial attempts: survive while an attempt
		// within the round's budget is accepted, end exactly when the budget is exhausted
		add(Scn{Budget: 1, HookRefuse: "all", Base: "idle", UserID: true})
		add(Scn{Budget: 2, HookRefuse: "all", Base: "awaiting", NCalls: 2, Writer: "push", RST: true})
		add(Scn{Budget: 3, HookRefuse: "all", Base: "idle", Refuse: 3, Mode: "down"}) // only the last attempt of the round reaches the hook
		add(Scn{Budget: 10, HookRefuse: "all", Base: "awaiting", NCalls: 1, UserID: true})
		add(Scn{Budget: 2, HookRefuse: "all", Base: "idle", Refuse: 2, Mode: "down", Writer: "push"})
		add(Scn{Budget: 3, HookRefuse: "after-k", HookK: 2, Losses: 3, Base: "idle", UserID: true})  // two reconnects, then exhausted
		add(Scn{Budget: 1, HookRefuse: "after-k", HookK: 1, Losses: 2, Base: "awaiting", NCalls: 1}) // one reconnect, then exhausted
		add(Scn{Budget: 10, HookRefuse: "after-k", HookK: 3, Losses: 4, Base: "idle", RST: true})
		add(Scn{Budget: 3, HookRefuse: "first-k", HookK: 3, Losses: 2, Base: "idle", UserID: true}) // accepted exactly on the last retry
		add(Scn{Budget: 2, HookRefuse: "first-k", HookK: 3, Base: "awaiting", NCalls: 2})           // one refusal too many: exhausted
		add(Scn{Budget: 10, HookRefuse: "first-k", HookK: 10, Losses: 2, Base: "idle"})
		add(Scn{Budget: 1, HookRefuse: "alternating", Losses: 3, Base: "idle", UserID: true})
		add(Scn{Budget: 2, HookRefuse: "alternating", Losses: 2, Base: "awaiting", NCalls: 1, RST: true})
		// RedialInterval left unset (documented default 100 ms), small budgets; the server comes back by a
		// logical trigger - after exactly k < n refused attempts of the round - or stays away
		for i, n := range []int{2, 3, 5} {
			add(Scn{Budget: n, IntervalUnset: true, Base: "idle", Refuse: n - 1, Mode: "reject", Hook: "handshake", UserID: i%2 == 0, RST: i == 1})
			add(Scn{Budget: n, IntervalUnset: true, Base: "awaiting", NCalls: 1, Refuse: []int{1, 2, 3}[i], Mode: "down", Hook: hooks[i%2]})
			add(Scn{Budget: n, IntervalUnset: true, Base: []string{"idle", "awaiting"}[i%2], NCalls: 2, Refuse: -1, Mode: []string{"down", "reject", "down"}[i], Writer: []string{"call", "push"}[i%2]})
		}
		add(Scn{Budget: 2, IntervalUnset: true, HookRefuse: "all", Base: "idle"})
		add(Scn{Budget: 3, IntervalUnset: true, HookRefuse: "first-k", HookK: 2, Base: "idle", UserID: true})
		add(Scn{Budget: 5, IntervalMs: 20, Base: "idle", Refuse: 4, Mode: "reject", Hook: "handshake"})
		add(Scn{Budget: 3, IntervalMs: 50, Base: "awaiting", NCalls: 1, Refuse: -1, Mode: "down"})
		// a DialTimeout is configured: it bounds one attempt, not the redial round
		add(Scn{Budget: 3, Base: "awaiting", NCalls: 1, Refuse: 2, Mode: "reject", Hook: "handshake", DialTimeoutMs: 150, UserID: true})
		add(Scn{Budget: 1, Base: "idle", Refuse: 1, Mode: "down", DialTimeoutMs: 100})
		add(Scn{Budget: 40, Base: "idle", Timed: true, Mode: "reject", DialTimeoutMs: 100, IntervalMs: 0, UserID: true})
		add(Scn{Budget: 40, Base: "awaiting", NCalls: 2, Timed: true, Mode: "down", DialTimeoutMs: 150, IntervalMs: 0, RST: true})
		add(Scn{Budget: 2000, Base: "awaiting", NCalls: 1, Timed: true, Mode: "reject", DialTimeoutMs: 100, IntervalMs: 1, UserID: true, RST: true})
		add(Scn{Budget: 2000, Base: "idle", Timed: true, Mode: "down", DialTimeoutMs: 200, IntervalMs: 1})
		// an unlimited budget with a DialTimeout and a long outage never ends (last in the list: with a
		// dialer that never gets there the redial loop spins for the rest of the process)
		add(Scn{Budget: -1, Base: "idle", Timed: true, Mode: "reject", DialTimeoutMs: 100, IntervalMs: 1, UserID: true})
		add(Scn{Budget: -1, Base: "awaiting", NCalls: 1, Timed: true, Mode: "down", DialTimeoutMs: 150, IntervalMs: 0})
		return out
	}

	// ---- thorough ----
	var base []Scn
	addb := func(s Scn) { base = append(base, s) }
	// websocket client sessions and user ids that are (or look like) addresses, over budgets and loss classes
	for _, b := range []int{1, 3, -1} {
		for _, bs := range []string{"idle", "awaiting"} {
			addb(Scn{Budget: b, Base: bs, NCalls: 2, WS: true, UserID: b != 1, RST: bs == "idle"})
			addb(Scn{Budget: b, Base: bs, NCalls: 1, UserID: true, IDForm: "remote-addr", Hook: hooks[(b+3)%2]})
			addb(Scn{Budget: b, Base: bs, NCalls: 1, UserID: true, IDForm: "ip-like", RST: true})
		}
		addb(Scn{Budget: b, Base: "idle", Losses: 3, WS: true})
		addb(Scn{Budget: b, Base: "idle", Refuse: 1, Mode: "reject", WS: true, UserID: true, IDForm: "remote-addr"})
	}
	// every k of the request frame, all budgets; of the reply frame, budgets 1 and -1
	for _, b := range budgets {
		for k := 0; k <= c2s; k++ {
			kk := k
			if k == c2s {
				kk = -1
			}
			addb(Scn{Budget: b, Base: "mid-write", K: kk, RST: (k+b)%2 == 0, Hook: hooks[k%2], UserID: k%3 == 0})
		}
	}
	for _, b := range []int{1, -1} {
		for k := 0; k <= s2c; k++ {
			kk := k
			if k == s2c {
				kk = -1
			}
			addb(Scn{Budget: b, Base: "mid-write", Dir: "s2c", K: kk, RST: k%2 == 1, Hook: hooks[(k/2)%2], UserID: k%3 == 1})
		}
	}
	for _, b := range budgets {
		for _, k := range []int{0, 64, 1024, 4096, 8000} {
			addb(Scn{Budget: b, Base: "big-write", K: k, RST: k%128 == 0, UserID: true})
			addb(Scn{Budget: b, Base: "big-stall", K: k, Hook: hooks[(k/64)%2], UserID: k%128 != 0})
			if b > 0 {
				addb(Scn{Budget: b, Base: "big-stall", K: k, Refuse: -1, Mode: []string{"reject", "down"}[(k/64)%2]})
			}
		}
	}
	// idle / awaiting
	for _, b := range budgets {
		for _, h := range hooks {
			for _, rst := range []bool{false, true} {
				addb(Scn{Budget: b, Base: "idle", Hook: h, RST: rst, UserID: rst})
				for _, n := range []int{1, 3} {
					addb(Scn{Budget: b, Base: "awaiting", NCalls: n, Hook: h, RST: rst, UserID: !rst})
				}
			}
		}
	}
	// during a redial
	for _, b := range []int{1, 3, -1} {
		for _, m := range []int{1, 2, 3, 5, 8} {
			for _, md := range [][2]string{{"reject", "handshake"}, {"reject", "plain"}, {"down", "plain"}, {"down", "handshake"}} {
				for _, bs := range []string{"idle", "awaiting"} {
					addb(Scn{Budget: b, Base: bs, NCalls: 2, Refuse: m, Mode: md[0], Hook: md[1], UserID: m%2 == 0, RST: m%3 == 0})
				}
			}
		}
	}
	// exhausted
	for _, b := range []int{1, 3} {
		for _, md := range [][2]string{{"reject", "handshake"}, {"down", "plain"}, {"down", "handshake"}} {
			for _, wr := range []string{"call", "push"} {
				addb(Scn{Budget: b, Base: "idle", Refuse: -1, Mode: md[0], Hook: md[1], Writer: wr, UserID: wr == "call"})
				addb(Scn{Budget: b, Base: "awaiting", NCalls: 2, Refuse: -1, Mode: md[0], Hook: md[1], Writer: wr, RST: true})
				addb(Scn{Budget: b, Base: "mid-write", K: 3 + b, Refuse: -1, Mode: md[0], Hook: md[1], Writer: wr})
			}
		}
	}
	// who notices first
	for _, sc := range scripts {
		for _, b := range []int{1, 3, -1} {
			for _, wr := range []string{"call", "push"} {
				for _, bs := range []string{"idle", "awaiting"} {
					addb(Scn{Budget: b, Base: bs, NCalls: 2, Script: sc, Writer: wr, Hook: hooks[(b+3)%2], UserID: wr == "push", RST: bs == "idle"})
				}
			}
		}
		// with refused attempts and with the server staying down
		for _, b := range []int{1, 3} {
			addb(Scn{Budget: b, Base: "awaiting", NCalls: 1, Script: sc, Writer: "call", Refuse: 1, Mode: "reject", Hook: "handshake", UserID: true})
			if !strings.HasPrefix(sc, "drop@") && !strings.Contains(sc, "@redialfn.") && sc != "second-redial" && sc != "redundant-redial" {
				addb(Scn{Budget: b, Base: "idle", Script: sc, Writer: []string{"call", "push"}[b/2], Refuse: -1, Mode: "reject"})
				addb(Scn{Budget: b, Base: "awaiting", NCalls: 2, Script: sc, Writer: []string{"push", "call"}[b/2], Refuse: -1, Mode: "down", UserID: true})
			}
		}
	}
	// repeated losses with refused attempts (per-round budget) and a second session afterwards
	for _, n := range []int{2, 3} {
		for _, l := range []int{n, n + 1, 2*n + 1} {
			for _, rf := range []int{1, n - 1, n} {
				for mi, md := range [][2]string{{"reject", "handshake"}, {"down", "plain"}, {"down", "handshake"}} {
					addb(Scn{Budget: n, Base: []string{"idle", "awaiting", "mid-write"}[(l+rf+mi)%3], NCalls: 1, K: 9, Losses: l, Refuse: rf, Mode: md[0], Hook: md[1],
						UserID: (l+mi)%2 == 0, RST: rf%2 == 0, Second: true})
				}
			}
		}
	}
	// repeated
	for _, b := range []int{1, 3, -1} {
		for _, l := range []int{2, 3, 5} {
			addb(Scn{Budget: b, Base: "idle", Losses: l, UserID: true})
			addb(Scn{Budget: b, Base: "awaiting", NCalls: 2, Losses: l, Refuse: 1, Mode: "reject", Hook: "handshake", RST: true})
			addb(Scn{Budget: b, Base: "mid-write", K: 7, Losses: l, Hook: "handshake"})
		}
	}
	// the dial hook refuses redial attempts while the server is reachable
	for _, n := range []int{1, 2, 3, 10} {
		for bi, bs := range []string{"idle", "awaiting"} {
			addb(Scn{Budget: n, HookRefuse: "all", Base: bs, NCalls: 2, Writer: []string{"call", "push"}[bi], UserID: bi == 0})
			addb(Scn{Budget: n, HookRefuse: "all", Base: bs, NCalls: 1, Refuse: n, Mode: "down", RST: bi == 1})
			addb(Scn{Budget: n, HookRefuse: "all", Base: bs, NCalls: 1, Refuse: (n + 1) / 2, Mode: "down", Writer: "push"})
			for _, k := range []int{1, n, n + 1} {
				addb(Scn{Budget: n, HookRefuse: "after-k", HookK: k, Losses: k + 1, Base: bs, NCalls: 1, UserID: k%2 == 0})
				addb(Scn{Budget: n, HookRefuse: "first-k", HookK: k, Losses: 2, Base: bs, NCalls: 2, RST: k%2 == 1})
			}
			addb(Scn{Budget: n, HookRefuse: "alternating", Losses: 3, Base: bs, NCalls: 1, UserID: true})
		}
	}
	// RedialInterval unset (default 100 ms) or set to 20 / 50 ms: small budgets, server back after k < n refused attempts or never
	for _, n := range []int{2, 3, 5} {
		for mi, md := range [][2]string{{"reject", "handshake"}, {"down", "plain"}, {"down", "handshake"}} {
			for k := 1; k < n; k += 2 {
				addb(Scn{Budget: n, IntervalUnset: true, Base: []string{"idle", "awaiting"}[(k+mi)%2], NCalls: 1, Refuse: k, Mode: md[0], Hook: md[1], UserID: k%2 == 1})
			}
			addb(Scn{Budget: n, IntervalUnset: true, Base: "idle", Refuse: -1, Mode: md[0], Hook: md[1], Writer: []string{"call", "push"}[mi%2]})
			addb(Scn{Budget: n, IntervalMs: []int{20, 50}[mi%2], Base: "awaiting", NCalls: 2, Refuse: n - 1, Mode: md[0], Hook: md[1]})
		}
		addb(Scn{Budget: n, IntervalUnset: true, HookRefuse: "all", Base: "idle"})
		addb(Scn{Budget: n, IntervalUnset: true, HookRefuse: "alternating", Losses: 2, Base: "awaiting", NCalls: 1})
	}
	// a DialTimeout is configured (bounds one attempt, not the round): ordinary outages, and outages that
	// outlast it while using part of the budget
	for _, dtm := range []int{100, 200, 300} {
		for _, md := range []string{"reject", "down"} {
			for _, bs := range []string{"idle", "awaiting"} {
				addb(Scn{Budget: 3, Base: bs, NCalls: 2, Refuse: 2, Mode: md, Hook: "handshake", DialTimeoutMs: dtm, UserID: bs == "idle"})
				addb(Scn{Budget: 40, Base: bs, NCalls: 1, Timed: true, Mode: md, DialTimeoutMs: dtm, IntervalMs: 0, RST: md == "down"})
				addb(Scn{Budget: 3000, Base: bs, NCalls: 2, Timed: true, Mode: md, DialTimeoutMs: dtm, IntervalMs: 1, UserID: true})
				addb(Scn{Budget: 200, Base: bs, NCalls: 1, Timed: true, Mode: md, DialTimeoutMs: dtm, IntervalMs: 20})
			}
		}
	}
	// seeded random combinations up to 1200
	for len(base) < 1200 {
		s := Scn{Budget: []int{1, 3, -1, 0}[r.Intn(4)], Base: r.Pick("idle", "awaiting", "awaiting", "mid-write", "mid-write"), NCalls: 1 + r.Intn(3),
			Hook: r.Pick("plain", "handshake"), UserID: r.Chance(1, 2), RST: r.Chance(1, 2), Writer: r.Pick("call", "push")}
		if s.Base == "mid-write" {
			s.Dir = r.Pick("c2s", "c2s", "s2c")
			s.K = r.Intn(c2s + 1)
		}
		if s.Budget != 0 {
			switch r.Intn(6) {
			case 0, 1:
				s.Script = scripts[r.Intn(len(scripts))]
			case 2:
				s.Refuse = 1 + r.Intn(3)
				s.Mode = r.Pick("reject", "down")
			case 3:
				s.Script = scripts[r.Intn(len(scripts))]
				s.Refuse = 1
				s.Mode = "reject"
				s.Hook = "handshake"
			case 4:
				s.Losses = 2 + r.Intn(3)
			}
			if s.Script != "" && s.Base == "mid-write" {
				s.Base = "awaiting"
			}
		}
		addb(s)
	}
	// each scenario without perturbation and under two gate-delay seeds
	for v := 0; v < 3; v++ {
		for _, s := range base {
			if v > 0 {
				s.DelaySeed = int64(r.Intn(1 << 30))
				s.DelayP = []int{0, 150, 400}[v]
			}
			add(s)
		}
	}
	for _, dtm := range []int{100, 300} {
		for _, md := range []string{"reject", "down"} {
			add(Scn{Budget: -1, Base: "idle", Timed: true, Mode: md, DialTimeoutMs: dtm, IntervalMs: 1, UserID: md == "down"})
			add(Scn{Budget: -1, Base: "awaiting", NCalls: 1, Timed: true, Mode: md, DialTimeoutMs: dtm, IntervalMs: 0})
		}
	}
	return out
}
