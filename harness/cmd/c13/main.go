// Worker for C13: a redial-enabled client session survives connection loss.
//
// Every scenario builds a fresh server peer (ServeConn on a harness-owned loopback listener), a
// fresh forwarder (harness/fwd) in front of it and a fresh client peer that dials the forwarder
// with a redial budget of 0, 1, 3 or -1 and a 1 ms interval. A connection loss is injected at the
// forwarder (idle, after k bytes of a request or of a reply, while calls await a parked handler,
// during a redial, repeatedly, or with the server staying down), optionally under a gate script
// that decides whether the reader, a writer or both notice the loss and in which order. The oracle
// evaluates only the clauses of the property statement, at quiescence.
package main

import (
	"net/http"

	"encoding/json"
	"flag"
	"fmt"
	"github.com/henrylee2cn/erpc/v6/mixer/websocket"
	"github.com/henrylee2cn/erpc/v6/mixer/websocket/jsonSubProto"
	"net"
	"os"
	"strings"
	"sync"
	"sync/atomic"
	"time"

	erpc "github.com/henrylee2cn/erpc/v6"
	"github.com/henrylee2cn/erpc/v6/codec"

	"verifharness/bed"
	"verifharness/core"
	"verifharness/fwd"
	"verifharness/gates"
	"verifharness/quiesce"
)

var (
	prop    = flag.String("prop", "C13", "")
	tier    = flag.String("tier", "quick", "")
	seed    = flag.Int64("seed", 1, "")
	batch   = flag.Int("batch", 0, "")
	nbatch  = flag.Int("nbatch", 1, "")
	replay  = flag.String("replay", "", "")
	only    = flag.String("only", "", "debug: run only scenarios whose id or script contains this")
	list    = flag.Bool("list", false, "debug: print the scenario list and exit")
	verbose = flag.Bool("v", false, "debug: print per-scenario details on stderr")
)

const kCalls = 10 // K of the property: success within K consecutive calls

// Scn is one scenario (= one case).
type Scn struct {
	Class         string `json:"class"`  // loss class: idle|mid-write|awaiting-reply|during-redial|repeated|exhausted
	Budget        int    `json:"budget"` // RedialTimes: 0, n, -1
	Hook          string `json:"hook"`   // plain (no I/O) | handshake (PreCall answered by a PostAccept plug-in)
	UserID        bool   `json:"user_id"`
	WS            bool   `json:"websocket,omitempty"`       // the client dials through the shipped websocket dial plug-in (json sub-protocol) to the shipped websocket serve handler
	IDForm        string `json:"id_form,omitempty"`         // with UserID: "" = a label of the application; remote-addr = the address string of the server the session was dialed to; ip-like = a text that looks like an address
	Base          string `json:"base"`                      // state at the loss: idle|awaiting|mid-write|big-write
	NCalls        int    `json:"n_calls"`                   // calls awaiting the parked handler
	Dir           string `json:"dir,omitempty"`             // mid-write: c2s (request) | s2c (reply)
	K             int    `json:"k"`                         // mid-write: bytes forwarded before the cut (-1: the whole frame); big-write: KiB
	KClass        string `json:"k_class"`                   // structural class of K
	RST           bool   `json:"rst"`                       // reset instead of orderly close
	Refuse        int    `json:"refuse"`                    // attempts refused after the loss: 0, m, -1 = the server stays down
	Mode          string `json:"refuse_mode"`               // reject (accept+close at the forwarder) | down (listening port closed)
	Script        string `json:"script"`                    // gate script, "" = none
	Writer        string `json:"writer"`                    // call|push: operation racing the reader / the later operation
	Losses        int    `json:"losses"`                    // number of losses (repeated)
	DialTimeoutMs int    `json:"dial_timeout_ms,omitempty"` // PeerConfig.DialTimeout; 0 = the harness default of 5 s
	Timed         bool   `json:"timed_outage,omitempty"`    // the outage lasts longer than DialTimeout (wall clock) but only part of the budget (attempts)
	IntervalMs    int    `json:"interval_ms,omitempty"`     // timed outages: PeerConfig.RedialInterval; 0 = not set (the configuration default of 100 ms)
	IntervalUnset bool   `json:"interval_unset,omitempty"`  // RedialInterval is left unset in the PeerConfig (documented default: 100 ms)
	HookRefuse    string `json:"hook_refuses,omitempty"`    // the PostDial hook refuses redial attempts (server reachable): all | after-k | first-k | alternating
	HookK         int    `json:"hook_k,omitempty"`          // k of after-k / first-k (counted over all redial invocations of the scenario)
	Second        bool   `json:"second_session"`            // afterwards a second session is dialed from the same client peer and must survive one loss
	Detector      string `json:"detector"`                  // reader|writer|both|-
	DelaySeed     int64  `json:"delay_seed"`                // gate delay perturbation
	DelayP        int    `json:"delay_permille"`            //
}

func (s Scn) budgetClass() string {
	switch {
	case s.Budget == 0:
		return "none"
	case s.Budget < 0:
		return "unlimited"
	}
	return "n"
}

func (s Scn) fp(symptom string) string {
	return fmt.Sprintf("C13/%s/%s/%s/%s", s.budgetClass(), s.Class, s.Detector, symptom)
}

func (s Scn) sig() string {
	sig := fmt.Sprintf("%s/b=%d/%s/%s/%s/k=%s/hook=%s/refuse=%s-%s/%s/%s", s.Class, s.Budget, s.Base, s.Detector, s.Script, s.KClass,
		s.Hook, refClass(s.Refuse), s.Mode, s.Writer, map[bool]string{false: "fin", true: "rst"}[s.RST])
	if s.Losses > 1 && s.Refuse > 0 {
		sig += fmt.Sprintf("/losses=%d/refused-per-loss=%d", s.Losses, s.Refuse)
	}
	if s.Second {
		sig += "/second-session"
	}
	if s.IDForm != "" {
		sig += "/id=" + s.IDForm
	}
	if s.WS {
		sig += "/websocket"
	}
	if s.DialTimeoutMs > 0 {
		sig += fmt.Sprintf("/dial-timeout=%dms", s.DialTimeoutMs)
	}
	if s.IntervalUnset {
		sig += "/interval-unset"
	} else if !s.Timed && s.IntervalMs > 0 {
		sig += fmt.Sprintf("/interval=%dms", s.IntervalMs)
	}
	if s.HookRefuse != "" {
		sig += fmt.Sprintf("/hook-refuses-%s-%d/losses=%d", s.HookRefuse, s.HookK, s.Losses)
	}
	if s.Timed {
		sig += fmt.Sprintf("/outage-outlasts-dial-timeout-%s/interval=%dms", s.Mode, s.IntervalMs)
	}
	return sig
}

func refClass(m int) string {
	switch {
	case m < 0:
		return "forever"
	case m == 0:
		return "0"
	}
	return "m"
}

// expectEnd: the session is expected to end (no redial configured, or the server stays down).
func (s Scn) expectEnd() bool { return s.Budget == 0 || s.Refuse < 0 }

// ---------------------------------------------------------------------------------------------
// log observer: counts the dialer's "trying to redial" lines (one per retry attempt, written
// synchronously by the dialing goroutine before the attempt) - used only to steer the "down"
// refusal mode in attempts instead of seconds, never for a verdict.

type logObs struct {
	mu     sync.Mutex
	trying int
	onTry  func(n int)
	times  []time.Time // when each retry of the scenario was announced (the line follows the interval's sleep)
}

var obs = &logObs{}

func (o *logObs) Output(_ int, msg []byte, _ erpc.LoggerLevel) {
	if len(msg) < 20 || string(msg[:17]) != "trying to redial." {
		return
	}
	o.mu.Lock()
	o.trying++
	if len(o.times) < 100000 {
		o.times = append(o.times, time.Now())
	}
	n, f := o.trying, o.onTry
	o.mu.Unlock()
	if f != nil {
		f(n)
	}
}
func (o *logObs) Flush() error { return nil }
func (o *logObs) reset(f func(int)) {
	o.mu.Lock()
	o.trying, o.onTry = 0, f
	o.mu.Unlock()
}
func (o *logObs) begin() {
	o.mu.Lock()
	o.trying, o.onTry, o.times = 0, nil, nil
	o.mu.Unlock()
}
func (o *logObs) stamps() []time.Time {
	o.mu.Lock()
	defer o.mu.Unlock()
	return append([]time.Time(nil), o.times...)
}
func (o *logObs) count() int {
	o.mu.Lock()
	defer o.mu.Unlock()
	return o.trying
}

// ---------------------------------------------------------------------------------------------
// server side

var envs sync.Map // erpc.Peer (server) -> *env

func envOf(p erpc.Peer) *env {
	v, ok := envs.Load(p)
	if !ok {
		return nil
	}
	return v.(*env)
}

// HEcho answers "ok:"+arg.
func HEcho(ctx erpc.CallCtx, arg *string) (string, *erpc.Status) {
	if e := envOf(ctx.Peer()); e != nil {
		atomic.AddInt64(&e.handled, 1)
	}
	return "ok:" + *arg, nil
}

// HPark parks until the scenario releases it, then answers like HEcho.
func HPark(ctx erpc.CallCtx, arg *string) (string, *erpc.Status) {
	if e := envOf(ctx.Peer()); e != nil {
		atomic.AddInt64(&e.handled, 1)
		atomic.AddInt32(&e.entered, 1)
		<-e.park
	}
	return "ok:" + *arg, nil
}

// HBlob answers the length of a large plain body.
func HBlob(ctx erpc.CallCtx, arg *[]byte) ([]byte, *erpc.Status) {
	if e := envOf(ctx.Peer()); e != nil {
		atomic.AddInt64(&e.handled, 1)
	}
	return []byte(fmt.Sprintf("len:%d", len(*arg))), nil
}

// HNote is the push handler.
func HNote(ctx erpc.PushCtx, arg *string) *erpc.Status {
	if e := envOf(ctx.Peer()); e != nil {
		atomic.AddInt64(&e.pushed, 1)
	}
	return nil
}

// HCliNote is a push handler on the CLIENT peer: it parks until the scenario releases it (a slow
// handler keeps readDisconnected waiting in graceCtxWait).
func HCliNote(ctx erpc.PushCtx, arg *string) *erpc.Status {
	if e := envOf(ctx.Peer()); e != nil {
		atomic.AddInt32(&e.cliEntered, 1)
		<-e.cliPark
	}
	return nil
}

// srvHello answers the client's handshake (handshake hook mode).
type srvHello struct{ accepted int64 }

func (h *srvHello) Name() string { return "c13-hello-server" }
func (h *srvHello) PostAccept(sess erpc.PreSession) *erpc.Status {
	var s string
	in := sess.PreReceive(func(erpc.Header) interface{} { return &s })
	if !in.StatusOK() {
		return in.Status()
	}
	if st := sess.PreReply(in, "welcome:"+s, nil); !st.OK() {
		return st
	}
	atomic.AddInt64(&h.accepted, 1)
	return nil
}

// ---------------------------------------------------------------------------------------------
// client side: recording PostDial hook

type hookRec struct {
	Local    string `json:"local"`
	IsRedial bool   `json:"is_redial"`
	OK       bool   `json:"ok"`
}

type dialHook struct {
	handshake bool
	userID    string
	idForm    string
	dials     int32  // sessions dialed through this hook (isRedial=false)
	refuse    string // refusal policy for redial invocations
	refuseK   int
	redials   int32 // redial invocations so far
	mu        sync.Mutex
	recs      []hookRec
}

func (h *dialHook) Name() string { return "c13-dial-hook" }
func (h *dialHook) PostDial(sess erpc.PreSession, isRedial bool) *erpc.Status {
	local := sess.LocalAddr().String()
	var st *erpc.Status
	if isRedial && h.refuse != "" {
		if hookRefuses(h.refuse, h.refuseK, int(atomic.AddInt32(&h.redials, 1))) {
			st = erpc.NewStatus(erpc.CodeUnauthorized, "refused by the dial hook", "")
		}
	}
	if st == nil && h.handshake {
		var reply string
		st = sess.PreCall("/c13/hello", "hello", &reply)
		if st.OK() && reply != "welcome:hello" {
			st = erpc.NewStatus(erpc.CodeDialFailed, "handshake", "unexpected reply "+reply)
		}
	}
	if !isRedial {
		n := atomic.AddInt32(&h.dials, 1)
		if st.OK() && h.userID != "" {
			if n == 1 {
				switch h.idForm {
				case "remote-addr":
					// an application that names its sessions after the server they talk to
					h.userID = sess.RemoteAddr().String()
				case "ip-like":
					h.userID = "10.1.2.3:4567"
				}
				sess.SetID(h.userID)
			} else {
				sess.SetID(fmt.Sprintf("%s-%d", h.userID, n)) // a further session of the same peer gets its own id
			}
		}
	}
	h.mu.Lock()
	h.recs = append(h.recs, hookRec{local, isRedial, st.OK()})
	h.mu.Unlock()
	if st.OK() {
		return nil
	}
	return st
}

// hookRefuses is the refusal policy: j is the 1-based number of the redial invocation in the scenario.
func hookRefuses(policy string, k, j int) bool {
	switch policy {
	case "all":
		return true
	case "after-k":
		return j > k
	case "first-k":
		return j <= k
	case "alternating":
		return j%2 == 1
	}
	return false
}

func (h *dialHook) snapshot() []hookRec {
	h.mu.Lock()
	defer h.mu.Unlock()
	return append([]hookRec(nil), h.recs...)
}

// ---------------------------------------------------------------------------------------------

type op struct {
	Kind   string `json:"kind"`  // call|park|blob|push
	Phase  string `json:"phase"` // inflight|writer|later|probe
	Tok    string `json:"tok"`
	done   int32
	Code   int32  `json:"code"`
	Msg    string `json:"msg,omitempty"`
	Good   bool   `json:"good"` // OK status and the expected result
	Result string `json:"result,omitempty"`
	ch     chan struct{}
}

func (o *op) isDone() bool { return atomic.LoadInt32(&o.done) == 1 }

type viol struct{ symptom, what string }

type env struct {
	sc         Scn
	id         string
	srv        erpc.Peer
	srvLis     net.Listener
	hello      *srvHello
	fw         *fwd.Forwarder
	cli        erpc.Peer
	sess       erpc.Session   // the session under test (the second one in the second-session phase)
	all        []erpc.Session // every session dialed from the client peer
	hook       *dialHook
	park       chan struct{}
	parkRel    sync.Once
	cliPark    chan struct{}
	cliParkRel sync.Once
	cliEntered int32
	cliNote    string
	entered    int32
	handled    int64
	pushed     int64
	paths      map[string]string

	mu       sync.Mutex
	ops      []*op
	beforeOk []string // client local address at each redialfn.beforeOk hit of the client session
	viols    []viol
	incon    string
	tokN     int
	frameC2S int64
	frameS2C int64
	srvWG    sync.WaitGroup
	faultIdx int  // number of hook records when the last fault was injected
	nFaults  int  // faults injected so far
	beyond   bool // dial attempts beyond any budget were observed: tear the client down hard
}

func (e *env) markFault() { e.faultIdx = len(e.hook.snapshot()); e.nFaults++ }

// attemptBound is a logical bound on the dial attempts the forwarder can see with a finite budget n:
// a redial round makes at most n+1 attempts, and a round is only started by the reader of a lost
// connection or by an operation that finds the session closed. sound tells whether exceeding it is a
// violation (only the reader and the harness' own operations start rounds, or no connection can be
// established any more) or merely a reason to stop (gate scripts on the known stale-reader findings
// cause extra reconnects; there the bound is ten times wider and only ends the case).
func (e *env) attemptBound() (bound int, sound bool) {
	sc := e.sc
	n := sc.Budget
	if n <= 0 {
		return 0, false
	}
	e.mu.Lock()
	ops := len(e.ops)
	e.mu.Unlock()
	rounds := e.nFaults + ops + 2
	m := sc.Refuse
	if m < 0 {
		m = 0
	}
	clean := sc.Script == "" && (sc.Base == "idle" || sc.Base == "awaiting" || sc.Base == "mid-write")
	if clean || sc.expectEnd() {
		return 1 + (n+1)*rounds + m*(e.nFaults+1) + 10, true
	}
	return 1 + (n+1)*(10*rounds+10) + m*(e.nFaults+1) + 100, false
}

// qwait waits for quiescence, but not for ever behind a client that keeps dialing: when the forwarder
// has seen more attempts than any budget allows, the observation is complete.
func (e *env) qwait() quiesce.Result {
	deadline := time.Now().Add(30 * time.Second)
	for {
		q := quiesce.Wait(quiesce.Options{Samples: 5, Interval: 40 * time.Millisecond, Timeout: 450 * time.Millisecond})
		if q.Quiescent {
			return q
		}
		if bound, sound := e.attemptBound(); bound > 0 && e.fw != nil && e.fw.Attempts() > bound && !e.beyond {
			e.beyond = true
			a := e.fw.Attempts()
			if sound {
				e.violate("redial-beyond-budget", "the forwarder has seen connection attempt number %d and the client is still dialing: with RedialTimes=%d a round has at most %d attempts, and %d fault(s) were injected and %d operation(s) issued, so at most %d attempts can be accounted for; PostDial ran %d times; close notified: %v, status=%s",
					a, e.sc.Budget, e.sc.Budget+1, e.nFaults, len(e.ops), bound, len(e.hook.snapshot()), closeNotified(e.sess), statusName(e.sess))
			} else {
				e.inconclusive("the client keeps dialing (attempt %d seen, more than %d) under a gate script; case stopped", a, bound)
			}
			return q
		}
		if e.beyond || time.Now().After(deadline) {
			return q
		}
	}
}

func (e *env) violate(symptom, format string, a ...interface{}) {
	e.mu.Lock()
	e.viols = append(e.viols, viol{symptom, fmt.Sprintf(format, a...)})
	e.mu.Unlock()
}

func (e *env) inconclusive(format string, a ...interface{}) {
	e.mu.Lock()
	if e.incon == "" {
		e.incon = fmt.Sprintf(format, a...)
	}
	e.mu.Unlock()
}

func (e *env) isClient(s erpc.Session) bool {
	if s == nil {
		return false
	}
	for _, x := range e.all {
		if s == x {
			return true
		}
	}
	return false
}

// dialProto: the protocol argument of Dial (websocket sessions name their sub-protocol).
func (e *env) dialProto() []erpc.ProtoFunc {
	if e.sc.WS {
		return []erpc.ProtoFunc{jsonSubProto.NewJSONSubProtoFunc()}
	}
	return nil
}

func connClass(code int32) bool { return code >= 100 && code <= 199 }

func (e *env) setup() error {
	sc := e.sc
	gates.Reset()
	gates.Record(true)
	if sc.DelayP > 0 {
		gates.SetDelay(sc.DelaySeed, sc.DelayP)
	}
	obs.begin()
	e.park = make(chan struct{})
	e.cliPark = make(chan struct{})
	// server
	var plugins []erpc.Plugin
	if sc.Hook == "handshake" {
		e.hello = &srvHello{}
		plugins = append(plugins, e.hello)
	}
	e.srv = erpc.NewPeer(erpc.PeerConfig{}, plugins...)
	envs.Store(e.srv, e)
	e.paths = map[string]string{
		"echo": e.srv.RouteCallFunc(HEcho),
		"park": e.srv.RouteCallFunc(HPark),
		"blob": e.srv.RouteCallFunc(HBlob),
		"note": e.srv.RoutePushFunc(HNote),
	}
	lis, err := net.Listen("tcp4", "127.0.0.1:0")
	if err != nil {
		return fmt.Errorf("server listen: %v", err)
	}
	e.srvLis = lis
	e.srvWG.Add(1)
	go func() {
		defer e.srvWG.Done()
		if sc.WS {
			// the shipped websocket serve handler behind a plain http server
			http.Serve(lis, websocket.NewServeHandler(e.srv, nil, jsonSubProto.NewJSONSubProtoFunc()))
			return
		}
		for {
			c, err := lis.Accept()
			if err != nil {
				return
			}
			go e.srv.ServeConn(c)
		}
	}()
	e.fw, err = fwd.New(lis.Addr().String())
	if err != nil {
		return fmt.Errorf("forwarder: %v", err)
	}
	// client
	e.hook = &dialHook{handshake: sc.Hook == "handshake", refuse: sc.HookRefuse, refuseK: sc.HookK}
	if sc.UserID {
		e.hook.userID = "c13-user-" + e.id
		e.hook.idForm = sc.IDForm
	}
	cfg := erpc.PeerConfig{RedialTimes: int32(sc.Budget), RedialInterval: time.Millisecond, DialTimeout: 5 * time.Second}
	if sc.DialTimeoutMs > 0 {
		cfg.DialTimeout = time.Duration(sc.DialTimeoutMs) * time.Millisecond
	}
	if sc.Timed || sc.IntervalUnset || sc.IntervalMs > 0 {
		cfg.RedialInterval = time.Duration(sc.IntervalMs) * time.Millisecond // 0: not set - the documented default of 100 ms applies
	}
	if sc.WS {
		e.cli = erpc.NewPeer(cfg, websocket.NewDialPlugin("/"), e.hook)
	} else {
		e.cli = erpc.NewPeer(cfg, e.hook)
	}
	envs.Store(e.cli, e)
	e.cliNote = e.cli.RoutePushFunc(HCliNote)
	sess, st := e.cli.Dial(e.fw.Addr(), e.dialProto()...)
	if !st.OK() {
		return fmt.Errorf("dial: %v", st)
	}
	e.sess = sess
	e.all = append(e.all, sess)
	gates.OnHit(func(point string, s erpc.Session) {
		if point == "redialfn.beforeOk" && e.isClient(s) {
			a := s.LocalAddr().String()
			e.mu.Lock()
			e.beforeOk = append(e.beforeOk, a)
			e.mu.Unlock()
		}
	})
	return nil
}

// start runs one operation in its own goroutine.
func (e *env) start(kind, phase string) *op {
	e.mu.Lock()
	e.tokN++
	o := &op{Kind: kind, Phase: phase, Tok: fmt.Sprintf("t%04d", e.tokN), ch: make(chan struct{})}
	e.ops = append(e.ops, o)
	e.mu.Unlock()
	sess := e.sess
	go func() {
		var st *erpc.Status
		switch kind {
		case "call", "park":
			var res string
			arg := o.Tok
			path := e.paths["echo"]
			if kind == "park" {
				path = e.paths["park"]
			}
			st = sess.Call(path, &arg, &res).Status()
			o.Result = res
			o.Good = st.OK() && res == "ok:"+o.Tok
		case "blob":
			var res []byte
			arg := blob
			st = sess.Call(e.paths["blob"], &arg, &res, erpc.WithBodyCodec(codec.ID_PLAIN)).Status()
			o.Result = string(res)
			o.Good = st.OK() && string(res) == fmt.Sprintf("len:%d", len(blob))
		case "push":
			arg := o.Tok
			st = sess.Push(e.paths["note"], &arg)
			o.Good = st.OK()
		}
		if st != nil {
			o.Code = st.Code()
			o.Msg = st.Msg()
			if c := st.Cause(); c != nil {
				o.Msg += ": " + c.Error()
			}
			if len(o.Msg) > 160 {
				o.Msg = o.Msg[:160]
			}
		}
		atomic.StoreInt32(&o.done, 1)
		close(o.ch)
	}()
	return o
}

var blob = func() []byte {
	b := make([]byte, 8<<20)
	for i := range b {
		b[i] = 'a' + byte(i%23)
	}
	return b
}()

func waitOp(o *op, d time.Duration) bool {
	select {
	case <-o.ch:
		return true
	case <-time.After(d):
		return false
	}
}

// watchdogs only ever yield inconclusive; generous because the machine may be heavily loaded
const gateWait = 20 * time.Second

// matchHooks pairs every hook record with the forwarder's record of the same connection. Local
// addresses can repeat within a scenario (ephemeral ports are reused), so records with the same
// address are paired in order of occurrence. A connection attempt that failed inside the dialer
// (reset before the dial completed) has a forwarder record but no hook record; that can only make a
// pairing point at a refused record, never at a forwarded one that the hook did not run on.
func (e *env) matchHooks() ([]hookRec, []*fwd.Rec) {
	recs := e.hook.snapshot()
	fw := e.fw.Records()
	byAddr := map[string][]int{}
	for i := range fw {
		byAddr[fw[i].ClientAddr] = append(byAddr[fw[i].ClientAddr], i)
	}
	out := make([]*fwd.Rec, len(recs))
	for i, r := range recs {
		l := byAddr[r.Local]
		if len(l) > 0 {
			out[i] = &fw[l[0]]
			byAddr[r.Local] = l[1:]
		}
	}
	return recs, out
}

// hookedLive reports whether a redial hook returned OK (index >= from) on a forwarded connection that is still alive.
func (e *env) hookedLive(from int) bool {
	recs, m := e.matchHooks()
	for i := from; i < len(recs); i++ {
		if recs[i].IsRedial && recs[i].OK && m[i] != nil && m[i].Forwarded && !m[i].Ended {
			return true
		}
	}
	return false
}

func (e *env) matchClient(s erpc.Session) bool { return e.isClient(s) }

// loss injects one loss according to the scenario; returns the operations in flight at the loss.
func (e *env) loss(round int) (inflight []*op) {
	sc := e.sc
	pipe := e.fw.Current()
	if pipe == nil || pipe.Dead() {
		e.inconclusive("no live forwarded connection before loss %d", round)
		return
	}
	// base state
	switch sc.Base {
	case "awaiting":
		atomic.StoreInt32(&e.entered, 0)
		for i := 0; i < sc.NCalls; i++ {
			inflight = append(inflight, e.start("park", "inflight"))
		}
		if !bed.WaitUntil(gateWait, func() bool { return atomic.LoadInt32(&e.entered) >= int32(sc.NCalls) }) {
			e.inconclusive("parked handlers did not start")
			return
		}
	case "mid-write":
		if e.frameC2S == 0 {
			// measure the frame lengths of an echo call with a token of the same length
			c0, s0 := pipe.Count(fwd.C2S), pipe.Count(fwd.S2C)
			p := e.start("call", "probe")
			if !waitOp(p, gateWait) || !p.Good {
				e.inconclusive("probe call failed: %+v", *p)
				return
			}
			e.frameC2S, e.frameS2C = pipe.Count(fwd.C2S)-c0, pipe.Count(fwd.S2C)-s0
		}
	}
	// refusal for the attempts that follow the loss
	if sc.Refuse != 0 && (round == 0 || sc.Class == "repeated") {
		if sc.Mode == "down" {
			if sc.Refuse > 0 {
				m := sc.Refuse
				fw := e.fw
				obs.reset(func(n int) {
					if n == m {
						fw.Up()
					}
				})
			}
			if err := e.fw.Down(); err != nil {
				e.inconclusive("forwarder down: %v", err)
				return
			}
		} else {
			e.fw.Refuse(sc.Refuse, sc.RST)
		}
	}
	// gate script: arm
	var tR, tW *gates.Trap
	script, point := sc.Script, ""
	if i := strings.Index(script, "@"); i >= 0 {
		script, point = sc.Script[:i], sc.Script[i+1:]
	}
	if round > 0 {
		script = "" // scripts apply to the first loss only
	}
	switch script {
	case "w-redials", "w-redials-overlap", "w-during":
		tR = gates.Park(point, e.matchClient)
	case "w-holds-lock":
		tR = gates.Park("rd.afterStatusWrite", e.matchClient)
		tW = gates.Park("redial.afterLock", e.matchClient)
	case "r-holds":
		tR = gates.Park(point, e.matchClient)
	case "drop":
		tR = gates.Park(point, e.matchClient)
	case "second-redial":
		tR = gates.Park("rd.beforeSocketClose", e.matchClient)
		tW = gates.Park("redialfn.beforeOk", e.matchClient)
	case "redundant-redial":
		tR = gates.Park("redialfn.beforeOk", e.matchClient)
	case "slow-handler":
		// no gates: a push handler running on the client keeps the reader waiting in readDisconnected
		var ss erpc.Session
		e.srv.RangeSession(func(x erpc.Session) bool { ss = x; return false })
		if ss == nil {
			e.inconclusive("no server-side session to push from")
			return
		}
		note := "n"
		if st := ss.Push(e.cliNote, &note); !st.OK() {
			e.inconclusive("server push failed: %v", st)
			return
		}
		if !bed.WaitUntil(gateWait, func() bool { return atomic.LoadInt32(&e.cliEntered) > 0 }) {
			e.inconclusive("client push handler did not start")
			return
		}
	}
	if script == "w-redials-overlap" {
		tW = gates.Park("redialfn.beforeOk", e.matchClient)
	}
	fwdsBefore := e.fw.Forwards()

	// the loss itself
	switch sc.Base {
	case "idle", "awaiting":
		e.markFault()
		pipe.Drop(sc.RST)
	case "mid-write":
		dir, frame := fwd.C2S, e.frameC2S
		if sc.Dir == "s2c" {
			dir, frame = fwd.S2C, e.frameS2C
		}
		k := int64(sc.K)
		if k < 0 || k > frame {
			k = frame
		}
		pipe.CutAfter(dir, k, sc.RST)
		inflight = append(inflight, e.start("call", "inflight"))
	case "big-write":
		pipe.CutAfter(fwd.C2S, int64(sc.K)<<10, sc.RST)
		inflight = append(inflight, e.start("blob", "inflight"))
	case "big-stall":
		// the reader sees an orderly end of stream while the writer is blocked in the middle of a large frame
		pipe.StallAfter(int64(sc.K) << 10)
		inflight = append(inflight, e.start("blob", "inflight"))
	}
	select {
	case <-pipe.Done():
	case <-time.After(gateWait):
		e.inconclusive("the fault did not trigger (frame shorter than the cut offset?)")
		return
	}
	if sc.Base != "idle" && sc.Base != "awaiting" && script != "drop" {
		e.markFault() // cut faults trigger on their own; the redial hook cannot have run before they did
	}
	if sc.Base == "big-stall" {
		// the reader has seen the end of stream and runs readDisconnected while the writer is still
		// blocked in its write; then the reset that a vanished peer sends for further data arrives
		quiesce.Wait(quiesce.Options{Samples: 3, Interval: 10 * time.Millisecond, Timeout: 10 * time.Second})
		pipe.Reset()
	}

	// gate script: choreography
	writerKind := sc.Writer
	if writerKind == "" {
		writerKind = "call"
	}
	shortQ := func() {
		quiesce.Wait(quiesce.Options{Samples: 3, Interval: 10 * time.Millisecond, Timeout: 10 * time.Second})
	}
	switch script {
	case "w-redials":
		// the reader is held at a point of readDisconnected while a writer notices the closed
		// session, redials and re-sends; then the stale reader continues
		if !tR.WaitArrived(gateWait) {
			e.inconclusive("ordering infeasible: reader did not reach %s", point)
			return
		}
		w := e.start(writerKind, "writer")
		inflight = append(inflight, w)
		waitOp(w, gateWait) // completes when the redial succeeded or failed; a blocked writer is judged at quiescence
		shortQ()
		tR.Release()
	case "w-redials-overlap":
		if !tR.WaitArrived(gateWait) {
			e.inconclusive("ordering infeasible: reader did not reach %s", point)
			return
		}
		w := e.start(writerKind, "writer")
		inflight = append(inflight, w)
		if !tW.WaitArrived(gateWait) {
			// the writer's redial did not succeed (server down): nothing to overlap
			tR.Release()
			tW.Release()
			if !sc.expectEnd() {
				e.inconclusive("ordering infeasible: writer did not reach redialfn.beforeOk")
				return
			}
			break
		}
		tR.Release()
		shortQ()
		tW.Release()
	case "w-holds-lock":
		if !tR.WaitArrived(gateWait) {
			e.inconclusive("ordering infeasible: reader did not reach rd.afterStatusWrite")
			return
		}
		w := e.start(writerKind, "writer")
		inflight = append(inflight, w)
		if !tW.WaitArrived(gateWait) {
			e.inconclusive("ordering infeasible: writer did not reach redial.afterLock")
			return
		}
		tR.Release()
		shortQ() // the reader runs until it blocks (on the session lock or on the writer's call)
		tW.Release()
	case "r-holds":
		// the reader holds the session lock inside redialForClient / the redial closure while a writer arrives
		if !tR.WaitArrived(gateWait) {
			e.inconclusive("ordering infeasible: reader did not reach %s", point)
			return
		}
		w := e.start(writerKind, "writer")
		inflight = append(inflight, w)
		shortQ()
		tR.Release()
	case "w-during":
		// the reader is held before it marks the session; a writer uses the dead connection meanwhile
		if !tR.WaitArrived(gateWait) {
			e.inconclusive("ordering infeasible: reader did not reach %s", point)
			return
		}
		w := e.start(writerKind, "writer")
		inflight = append(inflight, w)
		shortQ()
		tR.Release()
	case "second-redial":
		// a writer redials while the old reader is held before it closes the socket; the old reader then
		// closes the fresh connection, the writer's re-send fails and it redials a second time while the
		// reader that was started for the first fresh connection is only now entering its loop
		if !tR.WaitArrived(gateWait) {
			e.inconclusive("ordering infeasible: reader did not reach rd.beforeSocketClose")
			return
		}
		w := e.start("call", "writer")
		inflight = append(inflight, w)
		if !tW.WaitArrived(gateWait) {
			e.inconclusive("ordering infeasible: writer did not reach redialfn.beforeOk")
			return
		}
		tR2 := gates.Park("ctx.get", e.matchClient)
		tWw := gates.Park("write.beforeLock", e.matchClient)
		tW2 := gates.Park("redialfn.afterReset", e.matchClient)
		tR.Release()
		shortQ() // the old reader closes the (new) socket and blocks on the session lock
		tW.Release()
		// the writer is held before its re-send until the reader started for the fresh connection is in its loop
		if !tWw.WaitArrived(gateWait) || !tR2.WaitArrived(gateWait) {
			e.inconclusive("ordering infeasible: re-send / new reader not reached")
			return
		}
		tWw.Release()
		if !tW2.WaitArrived(gateWait) {
			e.inconclusive("ordering infeasible: second redial not reached")
			return
		}
		// whatever that reader receives, it is held right after the read until the redialing writer has
		// settled (in its hook, or past it)
		tR3 := gates.Park("read.afterMessage", e.matchClient)
		tR2.Release()
		shortQ() // the reader started for the first fresh connection now reads from the session's socket
		tW2.Release()
		shortQ()
		tR3.Release()
	case "slow-handler":
		// the reader has marked the session and waits for the running handler; a call notices the
		// closed session, runs its own redial round, then the handler returns and the reader goes on
		shortQ()
		w := e.start(writerKind, "writer")
		inflight = append(inflight, w)
		waitOp(w, gateWait)
		shortQ()
		e.cliParkRel.Do(func() { close(e.cliPark) })
	case "redundant-redial":
		// the reader is about to finish its redial (new connection installed) when a writer arrives: the
		// writer remembers the NEW connection, finds the session not usable and, once it gets the lock,
		// redials again, replacing a healthy connection; the reader of the replaced connection is held
		// at the entry of readDisconnected until that second redial is complete
		if !tR.WaitArrived(gateWait) {
			e.inconclusive("ordering infeasible: reader did not reach redialfn.beforeOk")
			return
		}
		tR2 := gates.Park("rd.enter", e.matchClient)
		w := e.start(writerKind, "writer")
		inflight = append(inflight, w)
		shortQ()
		tR.Release()
		if !waitOp(w, gateWait) {
			tR2.Release()
			break // judged at quiescence
		}
		if !tR2.WaitArrived(gateWait) {
			e.inconclusive("ordering infeasible: the reader of the replaced connection did not enter readDisconnected")
			return
		}
		tR2.Release()
	case "drop":
		// loss during the redial: the fresh connection is killed while the redialing goroutine is held
		if !tR.WaitArrived(gateWait) {
			e.inconclusive("ordering infeasible: %s not reached", point)
			return
		}
		if !bed.WaitUntil(gateWait, func() bool { return e.fw.Forwards() > fwdsBefore }) {
			tR.Release()
			e.inconclusive("the forwarder did not see the redialed connection")
			return
		}
		e.markFault()
		e.fw.Current().Drop(sc.RST)
		tR.Release()
	}
	return
}

func briefStuck(q quiesce.Result) []string {
	var gs []quiesce.G
	for _, g := range q.Dump {
		keep := false
		for _, f := range g.Frames {
			if strings.Contains(f, "henrylee2cn/erpc/v6.") && !strings.Contains(f, "erpc/v6.init.") {
				keep = true
			}
			if strings.Contains(f, "startReadAndHandle") && strings.Contains(g.State, "IO wait") {
				keep = false
				break
			}
		}
		if keep {
			gs = append(gs, g)
		}
	}
	var out []string
	for _, g := range gs {
		f := g.Frames
		if len(f) > 14 {
			f = f[:14]
		}
		for i := range f {
			f[i] = strings.TrimPrefix(f[i], "github.com/henrylee2cn/erpc/v6")
		}
		out = append(out, "g"+g.ID+" ["+g.State+"] "+strings.Join(f, " < "))
	}
	if len(out) > 12 {
		out = out[:12]
	}
	return out
}

// judgeOps applies clause 1 to operations that were in flight at a loss.
func (e *env) judgeOps(ops []*op, q quiesce.Result, endExpected bool) {
	for _, o := range ops {
		if !o.isDone() {
			e.violate("call-hung", "%s %s (%s) issued before/at the loss is not complete at quiescence; blocked: %v", o.Kind, o.Tok, o.Phase, briefStuck(q))
			continue
		}
		if o.Code == 0 {
			if !o.Good && o.Kind != "push" {
				// an OK completion with a wrong result belongs to C01/C04, not here
				core.Add("ok_with_unexpected_result", 1)
			}
			continue
		}
		if !connClass(o.Code) {
			e.violate("status-not-conn-class", "%s %s (%s) in flight at the loss completed with status %d %q, which is not a connection error", o.Kind, o.Tok, o.Phase, o.Code, o.Msg)
		}
	}
}

func sameSession(a, b erpc.Session) bool { return a == b }

func (e *env) run() {
	sc := e.sc
	// warm-up: the session works
	w := e.start("call", "probe")
	if !waitOp(w, gateWait) || !w.Good {
		e.inconclusive("warm-up call failed: code=%d %s", w.Code, w.Msg)
		return
	}
	id0 := e.sess.ID()
	if sc.UserID && id0 != e.hook.userID {
		e.inconclusive("user id not installed: %q", id0)
		return
	}
	losses := sc.Losses
	if losses < 1 {
		losses = 1
	}
	for round := 0; round < losses; round++ {
		hooksBefore := len(e.hook.snapshot())
		if sc.HookRefuse != "" {
			if e.hookRefusalLoss(round, losses, hooksBefore, id0) {
				return
			}
			continue
		}
		if sc.Timed {
			e.timedOutage(hooksBefore, id0)
			return
		}
		inflight := e.loss(round)
		if e.incon != "" {
			return
		}
		core.Add("losses_injected", 1)
		q := e.qwait()
		if !q.Quiescent {
			e.inconclusive("watchdog: process not quiescent after loss %d (%s)", round, strings.Join(briefStuck(q), " | "))
			return
		}
		e.judgeOps(inflight, q, sc.expectEnd())
		if len(e.viols) > 0 {
			return // the session is wedged or misbehaved already; later clauses would only repeat it
		}
		if sc.expectEnd() {
			e.judgeEnded(q)
			return
		}
		if e.endedWithBudgetLeft(fmt.Sprintf("loss %d of %d", round+1, losses)) {
			return
		}
		e.judgeReconnected(hooksBefore, id0)
		if len(e.viols) > 0 || e.incon != "" {
			return
		}
	}
	if sc.Second {
		e.secondSession()
	}
}

// simulateRound applies the documented rule to one redial round: attempts 1..n+1; the first down
// attempts find the port closed (no hook invocation); every other attempt reaches the hook, which
// refuses according to the policy. It returns whether an attempt within the budget is accepted and
// the number of hook invocations the round makes. *j is the running number of redial invocations.
func simulateRound(sc Scn, down int, j *int) (survives bool, hooks int) {
	for a := 1; a <= sc.Budget+1; a++ {
		if a <= down {
			continue
		}
		*j++
		hooks++
		if !hookRefuses(sc.HookRefuse, sc.HookK, *j) {
			return true, hooks
		}
	}
	return false, hooks
}

// hookRefusalLoss: the server stays reachable, the dial hook refuses redial attempts by policy. The
// session survives a loss iff an attempt within the round's budget is accepted; otherwise it ends
// exactly when the budget is exhausted: after RedialTimes+1 attempts, with no further attempt.
// It returns true when the scenario is over.
func (e *env) hookRefusalLoss(round, losses, hooksBefore int, id0 string) bool {
	sc := e.sc
	pipe := e.fw.Current()
	if pipe == nil || pipe.Dead() {
		e.inconclusive("no live forwarded connection before loss %d", round+1)
		return true
	}
	var inflight []*op
	if sc.Base == "awaiting" {
		atomic.StoreInt32(&e.entered, 0)
		for i := 0; i < sc.NCalls; i++ {
			inflight = append(inflight, e.start("park", "inflight"))
		}
		if !bed.WaitUntil(gateWait, func() bool { return atomic.LoadInt32(&e.entered) >= int32(sc.NCalls) }) {
			e.inconclusive("parked handlers did not start")
			return true
		}
	}
	// expected by the documented rule
	j := 0
	for _, r := range e.hook.snapshot() {
		if r.IsRedial {
			j++
		}
	}
	redialsBefore := j
	down := 0
	if sc.Mode == "down" && sc.Refuse > 0 {
		down = sc.Refuse
	}
	survives, wantHooks := simulateRound(sc, down, &j)
	if down > 0 {
		m, fw := down, e.fw
		obs.reset(func(n int) {
			if n == m {
				fw.Up()
			}
		})
		if err := e.fw.Down(); err != nil {
			e.inconclusive("forwarder down: %v", err)
			return true
		}
	}
	a0 := e.fw.Attempts()
	e.markFault()
	pipe.Drop(sc.RST)
	core.Add("losses_injected", 1)
	core.Add("hook_refusal_rounds", 1)
	q := e.qwait()
	if !q.Quiescent {
		e.inconclusive("watchdog: process not quiescent after loss %d", round+1)
		return true
	}
	e.judgeOps(inflight, q, !survives)
	if len(e.viols) > 0 {
		return true
	}
	gotHooks := -redialsBefore
	for _, r := range e.hook.snapshot() {
		if r.IsRedial {
			gotHooks++
		}
	}
	attempts := e.fw.Attempts() - a0
	when := fmt.Sprintf("loss %d of %d (hook refuses %s/%d, RedialTimes=%d, %d attempt(s) against a closed port first)", round+1, losses, sc.HookRefuse, sc.HookK, sc.Budget, down)
	if survives {
		if closeNotified(e.sess) {
			e.violate("session-ended-with-budget-left", "after %s the close notification has fired (status=%s) although the hook accepts attempt %d of the round's %d; hook invocations in the round: %d, attempts seen by the forwarder: %d",
				when, statusName(e.sess), down+wantHooks, sc.Budget+1, gotHooks, attempts)
			return true
		}
		if gotHooks > wantHooks {
			e.violate("redial-beyond-budget", "after %s PostDial(isRedial=true) ran %d times where the round needs %d (the hook accepts its invocation %d)", when, gotHooks, wantHooks, wantHooks)
			return true
		}
		e.judgeReconnected(hooksBefore, id0)
		return len(e.viols) > 0 || e.incon != ""
	}
	// the round's budget is exhausted: the session has ended, exactly then
	if gotHooks != wantHooks || attempts > sc.Budget+1 {
		sym := "redial-beyond-budget"
		if gotHooks < wantHooks {
			sym = "session-ended-with-budget-left"
		}
		e.violate(sym, "after %s the round's budget is exhausted by %d hook invocation(s); PostDial(isRedial=true) ran %d times and the forwarder saw %d attempt(s) (at most %d); close notified: %v, status=%s",
			when, wantHooks, gotHooks, attempts, sc.Budget+1, closeNotified(e.sess), statusName(e.sess))
		return true
	}
	e.judgeEnded(q)
	if len(e.viols) == 0 && e.incon == "" {
		// and it stays ended: nothing dials while the session is idle
		a1 := e.fw.Attempts()
		q2 := e.qwait()
		if q2.Quiescent && e.fw.Attempts() != a1 {
			e.violate("redial-beyond-budget", "the ended session made %d further connection attempts while idle", e.fw.Attempts()-a1)
		}
	}
	return true
}

// timedOutage: the connection is lost and the server stays unreachable for longer than DialTimeout
// (wall clock, only to make the outage outlast the timeout), but for only a part of the redial budget
// counted in attempts. DialTimeout bounds one dial attempt, not the round: the session must still be
// redialing when the server is back, reach it with its next attempt and carry on. The verdict is on
// attempts (retries the dialer had consumed when the server was back, attempts seen by the forwarder)
// against the budget; if the budget was already used up by attempts, the case is inconclusive.
func (e *env) timedOutage(hooksBefore int, id0 string) {
	sc := e.sc
	pipe := e.fw.Current()
	if pipe == nil || pipe.Dead() {
		e.inconclusive("no live forwarded connection before the loss")
		return
	}
	var inflight []*op
	if sc.Base == "awaiting" {
		atomic.StoreInt32(&e.entered, 0)
		for i := 0; i < sc.NCalls; i++ {
			inflight = append(inflight, e.start("park", "inflight"))
		}
		if !bed.WaitUntil(gateWait, func() bool { return atomic.LoadInt32(&e.entered) >= int32(sc.NCalls) }) {
			e.inconclusive("parked handlers did not start")
			return
		}
	}
	obs.reset(nil)
	if sc.Mode == "down" {
		if err := e.fw.Down(); err != nil {
			e.inconclusive("forwarder down: %v", err)
			return
		}
	} else {
		e.fw.Refuse(-1, sc.RST)
	}
	a0 := e.fw.Attempts()
	e.markFault()
	t0 := time.Now()
	pipe.Drop(sc.RST)
	core.Add("losses_injected", 1)
	core.Add("timed_outages", 1)
	// the only use of the wall clock: the outage certainly outlasts DialTimeout
	dt := time.Duration(sc.DialTimeoutMs) * time.Millisecond
	time.Sleep(2*dt + 150*time.Millisecond)
	for time.Since(t0) < 2*dt+150*time.Millisecond {
		time.Sleep(10 * time.Millisecond)
	}
	// the server is back
	if sc.Mode == "down" {
		if err := e.fw.Up(); err != nil {
			e.inconclusive("forwarder up: %v", err)
			return
		}
	} else {
		e.fw.Refuse(0, false)
	}
	retriesAtUp := obs.count()      // retries the dialer had announced when the server was reachable again
	attemptsAtUp := e.fw.Attempts() // attempts that had reached the forwarder by then
	e.markFault()
	core.Max("max_retries_consumed_during_timed_outage", int64(retriesAtUp))
	budgetLeft := sc.Budget < 0 || retriesAtUp <= sc.Budget-2
	if sc.Budget < 0 {
		// an unlimited budget never gives up: wait for the reconnect; a dialer that keeps announcing
		// retries none of which reaches the reachable server will never get there
		deadline := time.Now().Add(30 * time.Second)
		for !e.hookedLive(hooksBefore) {
			if r := obs.count(); r >= retriesAtUp+50 && e.fw.Attempts() == attemptsAtUp {
				e.violate("no-reconnect-while-reachable", "the server has been reachable again since the dialer's retry %d; the dialer has announced %d further retries (unlimited budget, DialTimeout %d ms) and not one connection attempt reached the forwarder (attempts seen: %d during the outage, 0 since): the session does not reconnect; status=%s",
					retriesAtUp, r-retriesAtUp, sc.DialTimeoutMs, attemptsAtUp-a0, statusName(e.sess))
				return
			}
			if time.Now().After(deadline) {
				e.inconclusive("watchdog: no reconnect and fewer than 50 further retries after the server was back")
				return
			}
			time.Sleep(2 * time.Millisecond)
		}
	}
	q := e.qwait()
	if !q.Quiescent {
		e.inconclusive("watchdog: process not quiescent after the timed outage (%s)", strings.Join(briefStuck(q), " | "))
		return
	}
	e.judgeOps(inflight, q, false)
	if len(e.viols) > 0 {
		return
	}
	if closeNotified(e.sess) {
		if !budgetLeft {
			e.inconclusive("budget used up by attempts before the server was back (%d retries of %d announced during the outage): machine too slow for this case", retriesAtUp, sc.Budget)
			return
		}
		seen := "not observable while the port is closed"
		if sc.Mode != "down" {
			seen = fmt.Sprint(e.fw.Attempts() - a0)
		}
		e.violate("session-ended-with-budget-left", "the session ended (close notification fired, status=%s) although the server was reachable again when the dialer had announced only %d of its %d retries (RedialTimes=%d, DialTimeout %d ms, outage longer than DialTimeout); connection attempts that reached the forwarder in this round: %s, of %d allowed; attempts since the server was back: %d",
			statusName(e.sess), retriesAtUp, sc.Budget, sc.Budget, sc.DialTimeoutMs, seen, sc.Budget+1, e.fw.Attempts()-attemptsAtUp)
		return
	}
	e.judgeReconnected(hooksBefore, id0)
}

// roundBudgetNeverExhausted: in this scenario no redial round can legitimately run out of attempts -
// only the reader redials (no gate script, no writer racing it), and every outage is shorter than one
// round (the generator turns visible outages longer than the budget into the exhausted class).
func (e *env) roundBudgetNeverExhausted() bool {
	sc := e.sc
	if sc.Budget == 0 || sc.expectEnd() || sc.Script != "" {
		return false
	}
	switch sc.Base {
	case "idle", "awaiting", "mid-write":
	default:
		return false
	}
	return sc.Budget < 0 || sc.Refuse <= sc.Budget
}

// endedWithBudgetLeft: the session "survives" every loss, not only the first - its close notification
// must not have fired while no redial round ever ran out of attempts.
func (e *env) endedWithBudgetLeft(when string) bool {
	if !e.roundBudgetNeverExhausted() || !closeNotified(e.sess) {
		return false
	}
	sc := e.sc
	e.violate("session-ended-with-budget-left", "after %s the close notification has fired (status=%s) although every outage lasted %d refused attempt(s) and each redial round has %d attempts (RedialTimes=%d): the session ended with budget left; attempts seen by the forwarder: %d",
		when, statusName(e.sess), sc.Refuse, sc.Budget+1, sc.Budget, e.fw.Attempts())
	return true
}

// secondSession dials a further session from the same client peer after the first one went through
// its outages; it must be redial-enabled like the first: survive one loss (no refused attempt).
func (e *env) secondSession() {
	sc := e.sc
	e.fw.Refuse(0, false)
	e.fw.Up()
	s2, st := e.cli.Dial(e.fw.Addr(), e.dialProto()...)
	if !st.OK() {
		e.inconclusive("second session: dial failed: %v", st)
		return
	}
	first := e.sess
	e.sess = s2
	e.all = append(e.all, s2)
	core.Add("second_sessions", 1)
	w := e.start("call", "probe")
	if !waitOp(w, gateWait) || !w.Good {
		e.inconclusive("second session: warm-up call failed: code=%d %s", w.Code, w.Msg)
		return
	}
	id0 := s2.ID()
	pipe := e.fw.Current()
	if pipe == nil || pipe.Dead() || pipe.ClientAddr() != s2.LocalAddr().String() {
		e.inconclusive("second session: its forwarded connection was not identified")
		return
	}
	hooksBefore := len(e.hook.snapshot())
	e.markFault()
	pipe.Drop(sc.RST)
	core.Add("losses_injected", 1)
	q := e.qwait()
	if !q.Quiescent {
		e.inconclusive("watchdog: process not quiescent after the second session's loss (%s)", strings.Join(briefStuck(q), " | "))
		return
	}
	if closeNotified(s2) {
		e.violate("session-ended-with-budget-left", "a second session dialed from the same client peer (RedialTimes=%d) after the first session's outages ended at its first loss although no attempt was refused: close notification fired, status=%s (the first session: status=%s, close notified=%v)",
			sc.Budget, statusName(s2), statusName(first), closeNotified(first))
		return
	}
	e.judgeReconnected(hooksBefore, id0)
}

// judgeReconnected applies clause 2 after a loss from which the session must recover.
func (e *env) judgeReconnected(hooksBefore int, id0 string) {
	sc := e.sc
	live := e.hookedLive(hooksBefore)
	// the redial hook returned OK, after the last injected fault, on a connection the server accepted
	hooked := false
	recs, m := e.matchHooks()
	for i := e.faultIdx; i < len(recs); i++ {
		if recs[i].IsRedial && recs[i].OK && m[i] != nil && m[i].Forwarded {
			hooked = true
		}
	}
	if live {
		core.Add("reconnects_at_quiescence", 1)
	} else {
		core.Add("not_reconnected_at_quiescence", 1)
		core.Distinct("not_reconnected_sigs", sc.sig()+" status="+statusName(e.sess))
	}
	if hooked {
		// same Session value, id kept, indexed
		if sc.UserID {
			if id := e.sess.ID(); id != id0 {
				e.violate("id-changed", "user-assigned id %q became %q after the redial", id0, id)
			}
		}
		if got, ok := e.cli.GetSession(e.sess.ID()); !ok || !sameSession(got, e.sess) {
			e.violate("not-indexed", "the redial hook returned OK on a connection accepted by the server, no fault was injected since, the process is quiescent, and GetSession(%q) does not return the session: it is not in the client peer's index (status=%s, live redialed connection: %v, close notified: %v)",
				e.sess.ID(), statusName(e.sess), live, closeNotified(e.sess))
			return
		}
	}
	// K consecutive calls on the same Session value
	first := -1
	var codes []int32
	for i := 0; i < kCalls; i++ {
		o := e.start("call", "later")
		if !waitOp(o, 30*time.Second) {
			q := e.qwait()
			if q.Quiescent && !o.isDone() {
				e.violate("call-hung", "later call %d on the reconnected session is not complete at quiescence; blocked: %v", i, briefStuck(q))
			} else if !o.isDone() {
				e.inconclusive("watchdog: later call %d neither complete nor quiescent", i)
			}
			return
		}
		codes = append(codes, o.Code)
		if o.Good && first < 0 {
			first = i
		}
		if first >= 0 && !o.Good && o.Code != 0 {
			e.violate("failure-after-success", "later call %d failed with %d %q after call %d had succeeded and no new fault was injected (codes %v)", i, o.Code, o.Msg, first, codes)
			return
		}
	}
	core.Add("later_calls", int64(len(codes)))
	if first < 0 {
		// does a fresh session work? (distinguishes a dead Session value from an unreachable server)
		fresh, st := e.cli.Dial(e.fw.Addr(), e.dialProto()...)
		works := false
		if st.OK() {
			var res string
			arg := "fresh"
			works = fresh.Call(e.paths["echo"], &arg, &res).Status().OK()
			fresh.Close()
		}
		switch {
		case works && hooked:
			e.violate("new-session-needed", "no success within %d consecutive calls on the redialed Session (codes %v) while a freshly dialed session works", kCalls, codes)
		case works:
			e.violate("no-success-within-10", "the server is reachable (a freshly dialed session works) but %d consecutive calls on the session failed (codes %v); redial hook OK on a live connection: %v", kCalls, codes, hooked)
		default:
			e.inconclusive("server not reachable through the forwarder after the outage (harness): %v", st)
		}
		return
	}
	if first > 0 {
		core.Add("later_calls_failed_before_first_success", int64(first))
	}
	// after the calls: still the same id and indexed
	if sc.UserID {
		if id := e.sess.ID(); id != id0 {
			e.violate("id-changed", "user-assigned id %q became %q after the redial", id0, id)
		}
	}
	if got, ok := e.cli.GetSession(e.sess.ID()); !ok || !sameSession(got, e.sess) {
		q := e.qwait()
		if got, ok = e.cli.GetSession(e.sess.ID()); q.Quiescent && (!ok || !sameSession(got, e.sess)) {
			e.violate("not-indexed", "after successful calls on the redialed session, GetSession(%q) does not return it", e.sess.ID())
		}
	}
}

// judgeEnded applies clause 4 (and "fails fast" for sessions without redial).
func (e *env) judgeEnded(q quiesce.Result) {
	sc := e.sc
	if sc.Budget == 0 {
		// not a redial-enabled session: only "fails fast" applies - a later operation completes with a
		// connection error without dialing
		e.judgeLater()
		return
	}
	select {
	case <-e.sess.CloseNotify():
	default:
		e.violate("close-notify-missing", "the server stays down, the process is quiescent (nobody is dialing) and the close notification has not fired; status=%s", statusName(e.sess))
	}
	listed := false
	e.cli.RangeSession(func(s erpc.Session) bool {
		if sameSession(s, e.sess) {
			listed = true
		}
		return true
	})
	if listed {
		e.violate("still-indexed", "the session is still listed in the client peer's index after it ended")
	}
	if sc.HookRefuse == "first-k" {
		return // the hook accepts from now on: a later operation legitimately brings the session back
	}
	e.judgeLater()
}

// judgeLater issues one operation on a session that has ended.
func (e *env) judgeLater() {
	sc := e.sc
	before := e.fw.Attempts()
	kind := sc.Writer
	if kind == "" {
		kind = "call"
	}
	o := e.start(kind, "later")
	waitOp(o, 30*time.Second)
	q2 := e.qwait()
	if !q2.Quiescent {
		e.inconclusive("watchdog: process not quiescent after the later %s", kind)
		return
	}
	if !o.isDone() {
		e.violate("call-hung", "a %s issued after the session ended is not complete at quiescence; blocked: %v", kind, briefStuck(q2))
		return
	}
	if !connClass(o.Code) {
		e.violate("later-call-not-conn-error", "a %s issued after the session ended completed with status %d %q instead of a connection error", kind, o.Code, o.Msg)
	}
	if sc.Mode != "down" || sc.HookRefuse != "" {
		extra := e.fw.Attempts() - before
		core.Max("max_attempts_by_one_later_call", int64(extra))
		bound := sc.Budget + 1
		if sc.Budget == 0 {
			bound = 0
		}
		if extra > bound {
			e.violate("too-many-attempts", "one later %s caused %d further dial attempts at the forwarder (budget %d: at most %d)", kind, extra, sc.Budget, bound)
		}
	}
}

func closeNotified(s erpc.Session) bool {
	select {
	case <-s.CloseNotify():
		return true
	default:
		return false
	}
}

func statusName(s erpc.Session) string {
	v := erpc.VerifStatus(s)
	if v >= 0 && int(v) < len(erpc.VerifStatusNames) {
		return erpc.VerifStatusNames[v]
	}
	return fmt.Sprint(v)
}

// interval is the redial interval in force by the documented configuration rule.
func (s Scn) interval() time.Duration {
	if s.Timed || s.IntervalUnset || s.IntervalMs > 0 {
		if s.IntervalMs <= 0 {
			return 100 * time.Millisecond // unset: "default 100ms"
		}
		return time.Duration(s.IntervalMs) * time.Millisecond
	}
	return time.Millisecond
}

// judgeSpacing: the redial budget is a number of retries RedialInterval apart. The dialer announces
// every retry right after the interval's sleep, and the rounds of one session are sequential, so two
// consecutive announcements of the scenario are at least one interval apart (time.Sleep never returns
// early). Asserted for every consecutive pair as a lower bound with half the interval as slack; a slow machine only makes the spacing larger, so the clock can only
// err towards "held".
func (e *env) judgeSpacing() {
	if e.hook == nil || len(e.all) != 1 || len(e.viols) > 0 {
		return
	}
	ts := obs.stamps()
	core.Add("retries_announced", int64(len(ts)))
	if len(ts) < 2 {
		return
	}
	iv := e.sc.interval()
	if iv >= 10*time.Millisecond {
		core.Add("spaced_retry_sequences_checked", 1)
	}
	minGap, at := ts[1].Sub(ts[0]), 1
	for i := 2; i < len(ts); i++ {
		if g := ts[i].Sub(ts[i-1]); g < minGap {
			minGap, at = g, i
		}
	}
	if minGap < iv/2 {
		unset := ""
		if e.sc.IntervalUnset || (e.sc.Timed && e.sc.IntervalMs == 0) {
			unset = " (RedialInterval not set: documented default)"
		}
		e.violate("redial-interval-not-honoured", "the dialer announced retry %d only %v after retry %d (%d retries announced in %v); with a redial interval of %v%s every retry follows the previous one by at least one interval (asserted: half of it, %v); RedialTimes=%d; close notified: %v, status=%s",
			at+1, minGap, at, len(ts), ts[len(ts)-1].Sub(ts[0]), iv, unset, iv/2, e.sc.Budget, closeNotified(e.sess), statusName(e.sess))
	}
}

// judgeHooks applies clause 3: every successful redial ran the redial hook exactly once.
func (e *env) judgeHooks() {
	recs, m := e.matchHooks()
	e.mu.Lock()
	oks := append([]string(nil), e.beforeOk...)
	e.mu.Unlock()
	// chronological list of the connections on which the redial hook returned OK
	var hooked []string
	reconnects := 0
	for i, r := range recs {
		if r.IsRedial && r.OK {
			hooked = append(hooked, r.Local)
			if m[i] != nil && m[i].Forwarded {
				reconnects++
			}
		}
	}
	core.Add("redial_hook_ok", int64(len(hooked)))
	core.Add("redials_completed", int64(len(oks)))
	core.Add("reconnects_observed", int64(reconnects))
	if len(e.viols) > 0 {
		return
	}
	// every completed redial (redialfn.beforeOk) is preceded, in the same closure invocation, by exactly
	// one OK return of PostDial(isRedial=true) on the same connection: the two chronological lists agree
	same := len(oks) == len(hooked)
	for i := 0; same && i < len(oks); i++ {
		same = oks[i] == hooked[i]
	}
	if !same {
		e.violate("redial-hook-count", "%d redials completed (connections %v) but PostDial(isRedial=true) returned OK %d times (connections %v)", len(oks), oks, len(hooked), hooked)
	}
}

func (e *env) gateSig() (string, int) {
	var b strings.Builder
	n := 0
	hits := gates.Hits()
	first, last := -1, -1
	for i, h := range hits {
		if e.isClient(h.Sess) && (strings.HasPrefix(h.Point, "rd.") || strings.HasPrefix(h.Point, "redial")) {
			if first < 0 {
				first = i
			}
			last = i
		}
	}
	if first < 0 {
		return "", 0
	}
	hits = hits[first : last+1]
	short := map[string]string{"rd.": "r", "redial.": "d", "redialfn.": "f", "asynccall.": "a", "push.": "p", "write.": "w"}
	for _, h := range hits {
		if !e.isClient(h.Sess) {
			continue
		}
		for pre, s := range short {
			if strings.HasPrefix(h.Point, pre) {
				if pre == "asynccall." || pre == "push." || pre == "write." {
					// only the write attempts matter for the interleaving
					if h.Point != "asynccall.beforeWrite" && h.Point != "push.beforeWrite" && h.Point != "write.afterLock" {
						break
					}
				}
				n++
				b.WriteString(s + ":" + strings.TrimPrefix(h.Point, pre) + " ")
				break
			}
		}
	}
	s := b.String()
	if len(s) > 1500 {
		s = s[:1500] + "..."
	}
	return s, n
}

func (e *env) cleanup() bool {
	e.parkRel.Do(func() { close(e.park) })
	e.cliParkRel.Do(func() { close(e.cliPark) })
	gates.Reset()
	obs.reset(nil)
	if e.fw != nil && e.beyond {
		// a client that dials beyond every budget: take the network away first, then close it
		e.fw.Close()
	} else if e.fw != nil {
		// the server is reachable again: a session that is still redialing can finish and be closed
		e.fw.Refuse(0, false)
		e.fw.Up()
	}
	done := make(chan struct{})
	go func() {
		for _, x := range e.all {
			x.Close()
		}
		if e.cli != nil {
			e.cli.Close()
		}
		close(done)
	}()
	closed := func(d time.Duration) bool {
		select {
		case <-done:
			return true
		case <-time.After(d):
			return false
		}
	}
	if !closed(2 * time.Second) {
		core.Add("cleanup_close_blocked", 1)
		// a wedged session (e.g. a hook waiting for a reply that was consumed elsewhere): break its
		// connections but keep the server reachable, so that whatever holds the session lock can finish
		if e.fw != nil {
			e.fw.KillAll()
		}
		if !closed(20 * time.Second) {
			core.Add("cleanup_close_still_blocked", 1)
		}
	}
	if e.fw != nil {
		e.fw.Close()
	}
	if e.srvLis != nil {
		e.srvLis.Close()
	}
	if e.srv != nil {
		d2 := make(chan struct{})
		go func() { e.srv.Close(); close(d2) }()
		select {
		case <-d2:
		case <-time.After(20 * time.Second):
			core.Add("cleanup_server_close_blocked", 1)
		}
		envs.Delete(e.srv)
	}
	if e.cli != nil {
		envs.Delete(e.cli)
	}
	e.srvWG.Wait()
	closed(time.Second)
	// goroutines that stay blocked for ever do not disturb later quiescence decisions; running ones do
	q := quiesce.Wait(quiesce.Options{Samples: 3, Interval: 5 * time.Millisecond, Timeout: 20 * time.Second})
	return q.Quiescent
}

func runScenario(id string, sc Scn) (dirty bool) {
	e := &env{sc: sc, id: id}
	core.Add("evaluations", 1)
	err := e.setup()
	if err != nil {
		e.inconclusive("setup: %v", err)
	} else {
		e.run()
		e.judgeSpacing()
		if e.incon == "" {
			e.judgeHooks()
		}
	}
	sig, hits := e.gateSig()
	core.Add("gate_hits", int64(hits))
	if e.fw != nil {
		core.Add("dial_attempts_at_forwarder", int64(e.fw.Attempts()))
		core.Add("forwarded_connections", int64(e.fw.Forwards()))
	}
	core.Add("handler_runs", atomic.LoadInt64(&e.handled))
	witness := map[string]interface{}{}
	if len(e.viols) > 0 || e.incon != "" || *verbose {
		witness["gate_hits"] = sig
		witness["hook"] = e.hook.snapshot()
		if e.fw != nil {
			witness["forwarder"] = e.fw.Records()
		}
		e.mu.Lock()
		var ops []op
		for _, o := range e.ops {
			if o.isDone() {
				ops = append(ops, op{Kind: o.Kind, Phase: o.Phase, Tok: o.Tok, Code: o.Code, Msg: o.Msg, Good: o.Good})
			} else {
				ops = append(ops, op{Kind: o.Kind, Phase: o.Phase, Tok: o.Tok, Code: -999, Msg: "not complete"})
			}
		}
		e.mu.Unlock()
		witness["ops"] = ops
		if e.sess != nil {
			witness["status"] = statusName(e.sess)
		}
	}
	clean := e.cleanup()
	if !clean {
		core.Add("dirty_after_cleanup", 1)
	}
	if *verbose {
		b, _ := json.Marshal(witness)
		fmt.Fprintf(os.Stderr, "%s %s viols=%v incon=%q\n   %s\n", id, sc.sig(), e.viols, e.incon, b)
	}
	if e.incon == "" {
		core.Distinct("nontrivial", sc.sig())
		core.Distinct("interleavings", sig)
	}
	switch {
	case len(e.viols) > 0:
		for i, v := range e.viols {
			rid := id
			if i > 0 {
				rid = fmt.Sprintf("%s#%d", id, i)
				core.Begin(rid, sc)
			}
			witness["clause"] = v.what
			core.Result(core.R{ID: rid, Verdict: core.Violated, FP: sc.fp(v.symptom), What: fmt.Sprintf("budget %d, %s, script %q: %s", sc.Budget, sc.Class, sc.Script, v.what), Witness: witness, Desc: sc})
		}
	case e.incon != "":
		core.Add("inconclusive_"+strings.SplitN(e.incon, ":", 2)[0], 1)
		core.Result(core.R{ID: id, Verdict: core.Inconclusive, What: e.incon, Witness: witness, Desc: sc})
	default:
		core.Result(core.R{ID: id, Verdict: core.Held})
	}
	return !clean
}

func main() {
	flag.Parse()
	core.Prop = *prop
	bed.Init("DEBUG")
	erpc.SetLoggerOutputter(obs)
	gates.Install()

	if *replay != "" {
		b, err := os.ReadFile(*replay)
		if err != nil {
			core.Fatalf("replay: %v", err)
		}
		var f struct {
			Desc Scn `json:"desc"`
		}
		if err := json.Unmarshal(b, &f); err != nil || f.Desc.Class == "" {
			core.Fatalf("replay: no scenario in %s (%v)", *replay, err)
		}
		core.Begin("replay", f.Desc)
		runScenario("replay", f.Desc)
		core.Finish()
		return
	}

	scs := scenarios(*tier, *seed)
	if *list {
		for i, s := range scs {
			fmt.Printf("s%04d %s\n", i, s.sig())
		}
		return
	}
	dirty := false
	for i, sc := range scs {
		if i%*nbatch != *batch {
			continue
		}
		id := fmt.Sprintf("s%04d", i)
		if *only != "" && !strings.Contains(id, *only) && !strings.Contains(sc.sig(), *only) {
			continue
		}
		core.Begin(id, sc)
		if i%97 == 0 {
			core.Sample(sc)
		}
		if dirty {
			// a previous scenario left running goroutines behind: quiescence can no longer be decided in this process
			core.Result(core.R{ID: id, Verdict: core.Inconclusive, What: "process not clean after an earlier scenario", Desc: sc})
			continue
		}
		dirty = runScenario(id, sc)
	}
	core.Finish()
}
