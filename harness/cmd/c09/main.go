// Worker for C09: plug-in hooks fire once, in stage and registration order, and can veto.
//
// One case = one generated placement of recording plug-ins on a fresh pair of real peers
// (global-left at NewPeer, AppendLeft/AppendRight before and after routes exist, nested
// SubRoute groups, per-handler plug-ins) plus a list of CALL / PUSH messages, each with at
// most one scripted non-OK verdict. A small reference model (chain) says which plug-ins are
// applicable to a message at each stage; the oracle asserts only the clauses of the property.
// Scenario class "plugin-pairs" (genPairs) adds messages for which two or three plug-ins on the
// chains of the same message misbehave independently (refusal + panicking / refusing reply hook,
// two refusals, refusal + verdict of the caller's plug-in, handler fault + reply hook, ...).
package main

import (
	"encoding/json"
	"flag"
	"fmt"
	"io/ioutil"
	"os"
	"reflect"
	"sort"
	"strings"
	"sync"
	"sync/atomic"
	"time"

	erpc "github.com/henrylee2cn/erpc/v6"

	"github.com/henrylee2cn/erpc/v6/socket"

	"verifharness/bed"
	"verifharness/core"
	"verifharness/gates"
	"verifharness/memconn"
	"verifharness/protos"
	"verifharness/quiesce"
	"verifharness/wire"
)

var (
	prop   = flag.String("prop", "C09", "")
	tier   = flag.String("tier", "quick", "")
	seed   = flag.Int64("seed", 1, "")
	batch  = flag.Int("batch", 0, "")
	nbatch = flag.Int("nbatch", 1, "")
	replay = flag.String("replay", "", "")
	only   = flag.Int("only", -1, "run only this configuration index (debugging)")
	onlyRd = flag.Int("rd", -1, "run only this redial case index (debugging)")
	class  = flag.String("class", "", "run only this scenario class: placement | redial (debugging)")
	dump   = flag.Bool("dump", false, "print traces of violating messages to stderr (debugging)")
)

// ---------------------------------------------------------------- stages

const (
	sPreWriteCall = iota
	sPostWriteCall
	sPreWriteReply
	sPostWriteReply
	sPreWritePush
	sPostWritePush
	sPreReadHeader
	sPostReadCallHeader
	sPreReadCallBody
	sPostReadCallBody
	sPostReadPushHeader
	sPreReadPushBody
	sPostReadPushBody
	sPostReadReplyHeader
	sPreReadReplyBody
	sPostReadReplyBody
	sHandler // pseudo stage: the handler function itself
	nStages
)

var stageName = [nStages]string{"PreWriteCall", "PostWriteCall", "PreWriteReply", "PostWriteReply", "PreWritePush", "PostWritePush",
	"PreReadHeader", "PostReadCallHeader", "PreReadCallBody", "PostReadCallBody", "PostReadPushHeader", "PreReadPushBody",
	"PostReadPushBody", "PostReadReplyHeader", "PreReadReplyBody", "PostReadReplyBody", "HANDLER"}

func stageByName(n string) int {
	for i, s := range stageName {
		if s == n {
			return i
		}
	}
	return -1
}

func bits(st ...int) (m uint32) {
	for _, s := range st {
		m |= 1 << uint(s)
	}
	return
}

// the six recording plug-in types and the stages each implements
var typeStages = map[string]uint32{
	"all":  1<<uint(sHandler) - 1,
	"name": 0,
	"read": bits(sPreReadHeader, sPostReadCallHeader, sPreReadCallBody, sPostReadCallBody, sPostReadPushHeader, sPreReadPushBody,
		sPostReadPushBody, sPostReadReplyHeader, sPreReadReplyBody, sPostReadReplyBody),
	"write": bits(sPreWriteCall, sPostWriteCall, sPreWriteReply, sPostWriteReply, sPreWritePush, sPostWritePush),
	"call": bits(sPreWriteCall, sPostWriteCall, sPostReadCallHeader, sPreReadCallBody, sPostReadCallBody, sPreWriteReply, sPostWriteReply,
		sPostReadReplyHeader, sPreReadReplyBody, sPostReadReplyBody),
	"push": bits(sPreWritePush, sPostWritePush, sPostReadPushHeader, sPreReadPushBody, sPostReadPushBody),
}

func implements(typ string, st int) bool { return typeStages[typ]&(1<<uint(st)) != 0 }

// kind of message a stage belongs to ("" for PreReadHeader / handler: decided by context)
func stageKind(st int) string {
	switch st {
	case sPreWriteCall, sPostWriteCall, sPostReadCallHeader, sPreReadCallBody, sPostReadCallBody:
		return "call"
	case sPreWriteReply, sPostWriteReply, sPostReadReplyHeader, sPreReadReplyBody, sPostReadReplyBody:
		return "reply"
	case sPreWritePush, sPostWritePush, sPostReadPushHeader, sPreReadPushBody, sPostReadPushBody:
		return "push"
	}
	return ""
}

// stageScope: which container the stage is dispatched through, as plugin.go warnInvalidHandlerHooks and the
// call sites document: "route" = the matched handler's chain, "global" = the peer's global container only.
func stageScope(st int) string {
	switch st {
	case sPreReadCallBody, sPostReadCallBody, sPreReadPushBody, sPostReadPushBody, sPreWriteReply, sPostWriteReply:
		return "route"
	}
	return "global"
}

func isReadStage(st int) bool { return st >= sPostReadCallHeader && st <= sPostReadReplyBody }

// ---------------------------------------------------------------- configuration (pure data; replayable)

type PlugSpec struct {
	Name string `json:"name"` // unique per peer: identifies the instance in traces and scripts
	Type string `json:"type"`
	As   string `json:"as,omitempty"` // the name eRPC sees, when it differs (a plug-in added again under the name of a removed one)
}

func (p PlugSpec) pub() string {
	if p.As != "" {
		return p.As
	}
	return p.Name
}

// Op is one step of the registration script of a peer, executed in order.
type Op struct {
	Kind   string     `json:"op"`               // new | left | right | group | call | push | ucall | upush (unknown-route handlers) | remove (PluginContainer().Remove(Fn))
	ID     int        `json:"id,omitempty"`     // group id / route id (unique per peer)
	Parent int        `json:"parent,omitempty"` // parent group id (0 = root router)
	Fn     string     `json:"fn,omitempty"`     // name in the handler pool
	Plugs  []PlugSpec `json:"plugins"`
}

type PeerSpec struct {
	Ops []Op `json:"ops"`
}

type Veto struct {
	Side   string `json:"side"` // src | dst
	Plugin string `json:"plugin"`
	Stage  string `json:"stage"`
}

// Act is one more scripted plug-in behaviour for the same message, independent of Veto (scenario class
// "plugin-pairs": several plug-ins on one chain each doing something other than "OK" for one message).
type Act struct {
	Side   string `json:"side"` // src | dst
	Plugin string `json:"plugin"`
	Stage  string `json:"stage"`
	Do     string `json:"do"` // status: the hook returns a non-OK status of its own | panic: the hook panics
}

type Msg struct {
	ID    string `json:"id"`
	From  string `json:"from"` // A | B
	Kind  string `json:"kind"` // call | push
	Route int    `json:"route"`
	Sub   int    `json:"sub,omitempty"` // method index for controller routes
	Veto  *Veto  `json:"veto,omitempty"`
	// Also: further scripted behaviours of (other) plug-ins for this message; Pair names the pair class
	Also []Act  `json:"also,omitempty"`
	Pair string `json:"pair,omitempty"`
	// Fault is what the handler of a CALL does instead of answering OK (reply-side fault classes):
	// err | panic | unmarshal:<codec id> | big | slow
	Fault string `json:"fault,omitempty"`
}

type Config struct {
	Class string   `json:"class"`
	A     PeerSpec `json:"A"`
	B     PeerSpec `json:"B"`
	Msgs  []Msg    `json:"msgs"`
}

func (c *Config) peer(side int) *PeerSpec {
	if side == 0 {
		return &c.A
	}
	return &c.B
}

func cloneConfig(c *Config) *Config {
	b, _ := json.Marshal(c)
	var d Config
	json.Unmarshal(b, &d)
	return &d
}

func sideIdx(s string) int {
	if s == "A" {
		return 0
	}
	return 1
}

var sideName = [2]string{"A", "B"}

// ---------------------------------------------------------------- reference model

// pref is a plug-in together with its placement relative to one route.
type pref struct {
	PlugSpec
	Class string
	rank  int // 0 global-left, 1..3 group depth, 4 handler-level, 5 global-right
	op    int // index of the registering op
	pos   int // position inside that op's plug-in list
}

func mkPrefs(op *Op, opIdx int, class string, rank int) []pref {
	out := make([]pref, len(op.Plugs))
	for i, p := range op.Plugs {
		out[i] = pref{p, class, rank, opIdx, i}
	}
	return out
}

func (p *PeerSpec) opByID(id int) (int, *Op) {
	for i := range p.Ops {
		if p.Ops[i].ID == id && id != 0 {
			return i, &p.Ops[i]
		}
	}
	return -1, nil
}

func (p *PeerSpec) routeDepth(rid int) int {
	_, op := p.opByID(rid)
	d := 0
	for op != nil && op.Parent != 0 {
		d++
		_, op = p.opByID(op.Parent)
	}
	return d
}

// chain returns the documented plug-in order on peer p: the global container (global-left then
// global-right) and, for route rid (0 = no route matched), the handler's chain: global-left,
// groups outer to inner, handler-level, global-right. AppendLeft puts its arguments in front of
// the plug-ins already on the left (plugin.go appendLeft); the oracle does not assert an order
// between plug-ins of different AppendLeft calls.
func chain(p *PeerSpec, rid int) (global, route []pref) {
	ri := -1
	depthOf := map[int]int{}
	if rid != 0 {
		var rop *Op
		ri, rop = p.opByID(rid)
		var path []int
		for g := rop.Parent; g != 0; {
			path = append(path, g)
			_, gop := p.opByID(g)
			g = gop.Parent
		}
		for i, g := range path {
			depthOf[g] = len(path) - i
		}
	}
	late := func(i int, side string) string {
		switch {
		case rid == 0:
			return "appended-global-" + side
		case i > ri:
			return "late-global-" + side
		}
		return "early-global-" + side
	}
	var left, right, handler []pref
	var groups [8][]pref
	for i := range p.Ops {
		op := &p.Ops[i]
		switch op.Kind {
		case "new":
			left = mkPrefs(op, i, "global-left", 0)
		case "left":
			left = append(mkPrefs(op, i, late(i, "left"), 0), left...)
		case "right":
			right = append(right, mkPrefs(op, i, late(i, "right"), 5)...)
		case "remove": // Remove(name) on the global container: gone from the global container and from every chain derived from it
			left, right = dropPub(left, op.Fn), dropPub(right, op.Fn)
		case "group":
			if d, ok := depthOf[op.ID]; ok {
				groups[d] = mkPrefs(op, i, fmt.Sprintf("group-depth%d", d), d)
			}
		case "call", "push":
			if i == ri {
				handler = mkPrefs(op, i, "handler-level", 4)
			}
		case "ucall", "upush": // SetUnknownCall / SetUnknownPush: derived from the root container like a root-level handler
			if i == ri {
				handler = mkPrefs(op, i, "unknown-handler-level", 4)
			}
		}
	}
	global = append(append([]pref{}, left...), right...)
	if rid != 0 {
		route = append(route, left...)
		for d := 1; d < len(groups); d++ {
			route = append(route, groups[d]...)
		}
		route = append(route, handler...)
		route = append(route, right...)
	}
	return
}

func dropPub(ps []pref, pub string) []pref {
	out := ps[:0:0]
	for _, p := range ps {
		if p.pub() != pub {
			out = append(out, p)
		}
	}
	return out
}

// cmpReg: -1 a must fire before b, +1 after, 0 not asserted.
func cmpReg(a, b pref) int {
	switch {
	case a.rank != b.rank:
		if a.rank < b.rank {
			return -1
		}
		return 1
	case a.op == b.op:
		if a.pos < b.pos {
			return -1
		} else if a.pos == b.pos {
			return 0 // the same plug-in twice is reported as a duplicate
		}
		return 1
	case a.rank == 5: // successive AppendRight calls
		if a.op < b.op {
			return -1
		}
		return 1
	}
	return 0
}

func names(ps []pref) []string {
	out := make([]string, len(ps))
	for i, p := range ps {
		out[i] = p.Name + "(" + p.Type + "," + p.Class + ")"
		if p.As != "" {
			out[i] = p.Name + " as " + p.As + "(" + p.Type + "," + p.Class + ")"
		}
	}
	return out
}

// foreignClass labels a plug-in that is neither global nor on the route's chain.
func foreignClass(p *PeerSpec, name string) string {
	for i := range p.Ops {
		for _, q := range p.Ops[i].Plugs {
			if q.Name == name {
				switch p.Ops[i].Kind {
				case "group":
					return "foreign-group"
				case "call", "push", "ucall", "upush":
					return "foreign-handler"
				}
				g, _ := chain(p, 0)
				for _, x := range g {
					if x.Name == name {
						return "global"
					}
				}
				if p.Ops[i].Kind == "right" {
					return "removed-global-right"
				}
				return "removed-global-left"
			}
		}
	}
	return "unregistered"
}

// expectedHooks lists, in model order, the (side, plug-in, stage) positions at which a hook is
// expected to fire for the message when every verdict is OK (used to pick a veto position).
func expectedHooks(c *Config, m *Msg) []Veto {
	x := sideIdx(m.From)
	y := 1 - x
	gx, _ := chain(c.peer(x), 0)
	gy, ry := chain(c.peer(y), m.Route)
	var out []Veto
	add := func(side string, ch []pref, st int) {
		for _, p := range ch {
			if implements(p.Type, st) {
				out = append(out, Veto{side, p.Name, stageName[st]})
			}
		}
	}
	if m.Kind == "call" {
		add("src", gx, sPreWriteCall)
		add("src", gx, sPostWriteCall)
		add("dst", gy, sPreReadHeader)
		add("dst", gy, sPostReadCallHeader)
		if m.Route != 0 {
			add("dst", ry, sPreReadCallBody)
			add("dst", ry, sPostReadCallBody)
			add("dst", ry, sPreWriteReply)
			add("dst", ry, sPostWriteReply)
		} else {
			add("dst", gy, sPreWriteReply)
			add("dst", gy, sPostWriteReply)
		}
		add("src", gx, sPostReadReplyHeader)
		add("src", gx, sPreReadReplyBody)
		if m.Route != 0 {
			add("src", gx, sPostReadReplyBody)
		}
	} else {
		add("src", gx, sPreWritePush)
		add("src", gx, sPostWritePush)
		add("dst", gy, sPreReadHeader)
		add("dst", gy, sPostReadPushHeader)
		if m.Route != 0 {
			add("dst", ry, sPreReadPushBody)
			add("dst", ry, sPostReadPushBody)
		}
	}
	return out
}

// ---------------------------------------------------------------- handler pool (concrete Go names)

type Arg struct{ N int }
type Res struct {
	N int
	S string      `json:"S,omitempty" xml:"S,omitempty"`
	X interface{} `json:"X,omitempty" xml:"X,omitempty"`
}

const (
	bigReply  = 8192 // bytes of reply body for the "big" fault
	sizeLimit = 4096 // message size limit while a "big" call is in flight (process-global, restored afterwards)
	slowAge   = 5 * time.Millisecond
	slowSleep = 25 * time.Millisecond
)

// misbehave implements the reply-side fault classes; the fault travels in the metadata of the CALL.
func misbehave(fx string, n int, setCodec func(byte)) (*Res, *erpc.Status) {
	switch {
	case fx == "err":
		return nil, erpc.NewStatus(417, "handler says no", nil)
	case fx == "panic":
		panic("c09: handler panic")
	case strings.HasPrefix(fx, "unmarshal:") && len(fx) == 11:
		setCodec(fx[10]) // a body the chosen codec cannot marshal: a channel inside (json, xml), not a message (protobuf, thrift), not text (plain)
		return &Res{N: n, X: make(chan int)}, nil
	case fx == "big":
		return &Res{N: n, S: strings.Repeat("x", bigReply)}, nil
	case fx == "slow":
		time.Sleep(slowSleep) // outlives the context age set for this call: the reply context has expired
	}
	return &Res{N: n + 1}, nil
}

func onCall(c erpc.CallCtx, a *Arg) (*Res, *erpc.Status) {
	mid := string(c.PeekMeta("Mid"))
	if r := current(); r != nil {
		r.handler(c.Peer(), mid, c.ServiceMethod(), ptrOf(c), linkKey(c.Session()))
	}
	c.SetMeta("Mid", mid)
	return misbehave(string(c.PeekMeta("Fx")), a.N, c.SetBodyCodec)
}

func onUnknownCall(c erpc.UnknownCallCtx) (interface{}, *erpc.Status) {
	mid := string(c.PeekMeta("Mid"))
	if r := current(); r != nil {
		r.handler(c.Peer(), mid, c.ServiceMethod(), ptrOf(c), linkKey(c.Session()))
	}
	c.SetMeta("Mid", mid)
	res, stat := misbehave(string(c.PeekMeta("Fx")), 0, c.SetBodyCodec)
	if res == nil {
		return nil, stat
	}
	return res, stat
}

func onUnknownPush(c erpc.UnknownPushCtx) *erpc.Status {
	mid := string(c.PeekMeta("Mid"))
	if r := current(); r != nil {
		r.handler(c.Peer(), mid, c.ServiceMethod(), ptrOf(c), linkKey(c.Session()))
	}
	return nil
}

func onPush(c erpc.PushCtx, a *Arg) *erpc.Status {
	mid := string(c.PeekMeta("Mid"))
	if r := current(); r != nil {
		r.handler(c.Peer(), mid, c.ServiceMethod(), ptrOf(c), linkKey(c.Session()))
	}
	return nil
}

func HC00(c erpc.CallCtx, a *Arg) (*Res, *erpc.Status) { return onCall(c, a) }
func HC01(c erpc.CallCtx, a *Arg) (*Res, *erpc.Status) { return onCall(c, a) }
func HC02(c erpc.CallCtx, a *Arg) (*Res, *erpc.Status) { return onCall(c, a) }
func HC03(c erpc.CallCtx, a *Arg) (*Res, *erpc.Status) { return onCall(c, a) }
func HC04(c erpc.CallCtx, a *Arg) (*Res, *erpc.Status) { return onCall(c, a) }
func HC05(c erpc.CallCtx, a *Arg) (*Res, *erpc.Status) { return onCall(c, a) }
func HC06(c erpc.CallCtx, a *Arg) (*Res, *erpc.Status) { return onCall(c, a) }
func HC07(c erpc.CallCtx, a *Arg) (*Res, *erpc.Status) { return onCall(c, a) }

type CtlA struct{ erpc.CallCtx }

func (c *CtlA) M1(a *Arg) (*Res, *erpc.Status) { return onCall(c.CallCtx, a) }
func (c *CtlA) M2(a *Arg) (*Res, *erpc.Status) { return onCall(c.CallCtx, a) }

type CtlB struct{ erpc.CallCtx }

func (c *CtlB) M1(a *Arg) (*Res, *erpc.Status) { return onCall(c.CallCtx, a) }
func (c *CtlB) M2(a *Arg) (*Res, *erpc.Status) { return onCall(c.CallCtx, a) }
func (c *CtlB) M3(a *Arg) (*Res, *erpc.Status) { return onCall(c.CallCtx, a) }

func HP00(c erpc.PushCtx, a *Arg) *erpc.Status { return onPush(c, a) }
func HP01(c erpc.PushCtx, a *Arg) *erpc.Status { return onPush(c, a) }
func HP02(c erpc.PushCtx, a *Arg) *erpc.Status { return onPush(c, a) }
func HP03(c erpc.PushCtx, a *Arg) *erpc.Status { return onPush(c, a) }
func HP04(c erpc.PushCtx, a *Arg) *erpc.Status { return onPush(c, a) }
func HP05(c erpc.PushCtx, a *Arg) *erpc.Status { return onPush(c, a) }

type PshA struct{ erpc.PushCtx }

func (c *PshA) N1(a *Arg) *erpc.Status { return onPush(c.PushCtx, a) }
func (c *PshA) N2(a *Arg) *erpc.Status { return onPush(c.PushCtx, a) }

type poolEntry struct {
	name string
	fn   func() interface{}
	subs int // 0: function handler; n: controller struct with n methods
}

var callPool = []poolEntry{
	{"HC00", func() interface{} { return HC00 }, 0}, {"HC01", func() interface{} { return HC01 }, 0},
	{"HC02", func() interface{} { return HC02 }, 0}, {"HC03", func() interface{} { return HC03 }, 0},
	{"HC04", func() interface{} { return HC04 }, 0}, {"HC05", func() interface{} { return HC05 }, 0},
	{"HC06", func() interface{} { return HC06 }, 0}, {"HC07", func() interface{} { return HC07 }, 0},
	{"CtlA", func() interface{} { return new(CtlA) }, 2}, {"CtlB", func() interface{} { return new(CtlB) }, 3},
}

var pushPool = []poolEntry{
	{"HP00", func() interface{} { return HP00 }, 0}, {"HP01", func() interface{} { return HP01 }, 0},
	{"HP02", func() interface{} { return HP02 }, 0}, {"HP03", func() interface{} { return HP03 }, 0},
	{"HP04", func() interface{} { return HP04 }, 0}, {"HP05", func() interface{} { return HP05 }, 0},
	{"PshA", func() interface{} { return new(PshA) }, 2},
}

func poolFind(kind, name string) *poolEntry {
	pool := callPool
	if kind == "push" {
		pool = pushPool
	}
	for i := range pool {
		if pool[i].name == name {
			return &pool[i]
		}
	}
	return nil
}

// ---------------------------------------------------------------- recording plug-ins

type entry struct {
	Idx   int
	Side  int
	Plug  string // "" for the handler
	Stage int
	Mid   string
	Seq   int32
	Link  string
	Ctx   uintptr
	Veto  bool
	Panic bool // the hook panicked (scripted) after this entry was recorded
	Code  int32
	Route string
}

type script struct {
	mid   string
	side  int
	plug  string
	stage int
	link  string // PreReadHeader: the dedicated link the veto is armed for
	code  int32
	msg   string
	do    string // "" / status: return the status | panic
}

type run struct {
	mu     sync.Mutex
	trace  []entry
	seqMid map[string]string // link/originSide/seq -> message id
	sc     *script           // the message's (first) scripted verdict
	also   []*script         // further scripted behaviours for the same message (Msg.Also)
	peers  [2]erpc.Peer
	// results of the Remove calls of the registration scripts
	removes []removeRes
}

type removeRes struct {
	side, op int
	name     string
	err      error
}

var cur atomic.Value // *run

func current() *run {
	r, _ := cur.Load().(*run)
	return r
}

func ptrOf(v interface{}) uintptr {
	rv := reflect.ValueOf(v)
	if rv.Kind() == reflect.Ptr {
		return rv.Pointer()
	}
	return 0
}

func linkKey(s erpc.CtxSession) string {
	if s == nil {
		return ""
	}
	l, r := s.LocalAddr().String(), s.RemoteAddr().String()
	if l > r {
		l, r = r, l
	}
	return l + "~" + r
}

func (r *run) handler(p erpc.Peer, mid, route string, ctx uintptr, link string) {
	side := -1
	for i := range r.peers {
		if r.peers[i] == p {
			side = i
		}
	}
	r.mu.Lock()
	r.trace = append(r.trace, entry{Idx: len(r.trace), Side: side, Stage: sHandler, Mid: mid, Link: link, Ctx: ctx, Route: route})
	r.mu.Unlock()
}

type base struct {
	name string // instance key
	pub  string // what eRPC sees
	side int
	r    *run
}

func (b *base) Name() string { return b.pub }
func (b *base) key() string  { return b.name }

// record appends the trace entry and returns the scripted verdict.
func (b *base) record(stage int, sess erpc.CtxSession, ctx interface{}, msg erpc.Message) *script {
	e := entry{Side: b.side, Plug: b.name, Stage: stage, Link: linkKey(sess), Seq: -1}
	if stage != sPreWriteCall && stage != sPostWriteCall {
		e.Ctx = ptrOf(ctx) // the pooled handler context (identifies the message being read / answered)
	}
	r := b.r
	r.mu.Lock()
	defer r.mu.Unlock()
	if msg != nil {
		e.Seq = msg.Seq()
		e.Mid = string(msg.Meta().Peek("Mid"))
		if e.Mid == "" {
			// replies to a refused call carry no metadata: the sequence number identifies the call
			origin := b.side
			switch stage {
			case sPostReadCallHeader, sPreReadCallBody, sPostReadCallBody, sPostReadPushHeader, sPreReadPushBody, sPostReadPushBody,
				sPreWriteReply, sPostWriteReply:
				origin = 1 - b.side
			}
			e.Mid = r.seqMid[fmt.Sprintf("%s/%d/%d", e.Link, origin, e.Seq)]
		}
	}
	var hit *script
	if sc := r.sc; sc != nil && sc.side == b.side && sc.plug == b.name && sc.stage == stage {
		if stage == sPreReadHeader {
			if sc.link != "" && sc.link == e.Link {
				hit = sc
			}
		} else if sc.mid == e.Mid {
			hit = sc
		}
	}
	for _, sc := range r.also {
		if hit == nil && sc.side == b.side && sc.plug == b.name && sc.stage == stage && stage != sPreReadHeader && sc.mid == e.Mid {
			hit = sc
		}
	}
	if hit != nil && hit.do == "panic" {
		e.Panic = true
	} else if hit != nil {
		e.Veto = true
		e.Code = hit.code
	}
	e.Idx = len(r.trace)
	r.trace = append(r.trace, e)
	return hit
}

func (b *base) w(stage int, c erpc.WriteCtx) *erpc.Status {
	if sc := b.record(stage, c.Session(), c, c.Output()); sc != nil {
		return sc.act()
	}
	return nil
}

func (b *base) rd(stage int, c erpc.ReadCtx) *erpc.Status {
	if sc := b.record(stage, c.Session(), c, c.Input()); sc != nil {
		return sc.act()
	}
	return nil
}

// act carries out the scripted behaviour (the trace entry has been written, no lock is held).
func (sc *script) act() *erpc.Status {
	if sc.do == "panic" {
		panic("c09: scripted panic: " + sc.msg)
	}
	return erpc.NewStatus(sc.code, sc.msg, nil)
}

func (b *base) hdr(c erpc.PreCtx) error {
	if sc := b.record(sPreReadHeader, c.Session(), c, nil); sc != nil {
		return fmt.Errorf("%s", sc.msg)
	}
	return nil
}

type (
	pAll   struct{ base }
	pName  struct{ base }
	pRead  struct{ base }
	pWrite struct{ base }
	pCall  struct{ base }
	pPush  struct{ base }
)

func (p *pAll) PreWriteCall(c erpc.WriteCtx) *erpc.Status       { return p.w(sPreWriteCall, c) }
func (p *pAll) PostWriteCall(c erpc.WriteCtx) *erpc.Status      { return p.w(sPostWriteCall, c) }
func (p *pAll) PreWriteReply(c erpc.WriteCtx) *erpc.Status      { return p.w(sPreWriteReply, c) }
func (p *pAll) PostWriteReply(c erpc.WriteCtx) *erpc.Status     { return p.w(sPostWriteReply, c) }
func (p *pAll) PreWritePush(c erpc.WriteCtx) *erpc.Status       { return p.w(sPreWritePush, c) }
func (p *pAll) PostWritePush(c erpc.WriteCtx) *erpc.Status      { return p.w(sPostWritePush, c) }
func (p *pAll) PreReadHeader(c erpc.PreCtx) error               { return p.hdr(c) }
func (p *pAll) PostReadCallHeader(c erpc.ReadCtx) *erpc.Status  { return p.rd(sPostReadCallHeader, c) }
func (p *pAll) PreReadCallBody(c erpc.ReadCtx) *erpc.Status     { return p.rd(sPreReadCallBody, c) }
func (p *pAll) PostReadCallBody(c erpc.ReadCtx) *erpc.Status    { return p.rd(sPostReadCallBody, c) }
func (p *pAll) PostReadPushHeader(c erpc.ReadCtx) *erpc.Status  { return p.rd(sPostReadPushHeader, c) }
func (p *pAll) PreReadPushBody(c erpc.ReadCtx) *erpc.Status     { return p.rd(sPreReadPushBody, c) }
func (p *pAll) PostReadPushBody(c erpc.ReadCtx) *erpc.Status    { return p.rd(sPostReadPushBody, c) }
func (p *pAll) PostReadReplyHeader(c erpc.ReadCtx) *erpc.Status { return p.rd(sPostReadReplyHeader, c) }
func (p *pAll) PreReadReplyBody(c erpc.ReadCtx) *erpc.Status    { return p.rd(sPreReadReplyBody, c) }
func (p *pAll) PostReadReplyBody(c erpc.ReadCtx) *erpc.Status   { return p.rd(sPostReadReplyBody, c) }

func (p *pRead) PreReadHeader(c erpc.PreCtx) error              { return p.hdr(c) }
func (p *pRead) PostReadCallHeader(c erpc.ReadCtx) *erpc.Status { return p.rd(sPostReadCallHeader, c) }
func (p *pRead) PreReadCallBody(c erpc.ReadCtx) *erpc.Status    { return p.rd(sPreReadCallBody, c) }
func (p *pRead) PostReadCallBody(c erpc.ReadCtx) *erpc.Status   { return p.rd(sPostReadCallBody, c) }
func (p *pRead) PostReadPushHeader(c erpc.ReadCtx) *erpc.Status { return p.rd(sPostReadPushHeader, c) }
func (p *pRead) PreReadPushBody(c erpc.ReadCtx) *erpc.Status    { return p.rd(sPreReadPushBody, c) }
func (p *pRead) PostReadPushBody(c erpc.ReadCtx) *erpc.Status   { return p.rd(sPostReadPushBody, c) }
func (p *pRead) PostReadReplyHeader(c erpc.ReadCtx) *erpc.Status {
	return p.rd(sPostReadReplyHeader, c)
}
func (p *pRead) PreReadReplyBody(c erpc.ReadCtx) *erpc.Status  { return p.rd(sPreReadReplyBody, c) }
func (p *pRead) PostReadReplyBody(c erpc.ReadCtx) *erpc.Status { return p.rd(sPostReadReplyBody, c) }

func (p *pWrite) PreWriteCall(c erpc.WriteCtx) *erpc.Status   { return p.w(sPreWriteCall, c) }
func (p *pWrite) PostWriteCall(c erpc.WriteCtx) *erpc.Status  { return p.w(sPostWriteCall, c) }
func (p *pWrite) PreWriteReply(c erpc.WriteCtx) *erpc.Status  { return p.w(sPreWriteReply, c) }
func (p *pWrite) PostWriteReply(c erpc.WriteCtx) *erpc.Status { return p.w(sPostWriteReply, c) }
func (p *pWrite) PreWritePush(c erpc.WriteCtx) *erpc.Status   { return p.w(sPreWritePush, c) }
func (p *pWrite) PostWritePush(c erpc.WriteCtx) *erpc.Status  { return p.w(sPostWritePush, c) }

func (p *pCall) PreWriteCall(c erpc.WriteCtx) *erpc.Status      { return p.w(sPreWriteCall, c) }
func (p *pCall) PostWriteCall(c erpc.WriteCtx) *erpc.Status     { return p.w(sPostWriteCall, c) }
func (p *pCall) PostReadCallHeader(c erpc.ReadCtx) *erpc.Status { return p.rd(sPostReadCallHeader, c) }
func (p *pCall) PreReadCallBody(c erpc.ReadCtx) *erpc.Status    { return p.rd(sPreReadCallBody, c) }
func (p *pCall) PostReadCallBody(c erpc.ReadCtx) *erpc.Status   { return p.rd(sPostReadCallBody, c) }
func (p *pCall) PreWriteReply(c erpc.WriteCtx) *erpc.Status     { return p.w(sPreWriteReply, c) }
func (p *pCall) PostWriteReply(c erpc.WriteCtx) *erpc.Status    { return p.w(sPostWriteReply, c) }
func (p *pCall) PostReadReplyHeader(c erpc.ReadCtx) *erpc.Status {
	return p.rd(sPostReadReplyHeader, c)
}
func (p *pCall) PreReadReplyBody(c erpc.ReadCtx) *erpc.Status  { return p.rd(sPreReadReplyBody, c) }
func (p *pCall) PostReadReplyBody(c erpc.ReadCtx) *erpc.Status { return p.rd(sPostReadReplyBody, c) }

func (p *pPush) PreWritePush(c erpc.WriteCtx) *erpc.Status      { return p.w(sPreWritePush, c) }
func (p *pPush) PostWritePush(c erpc.WriteCtx) *erpc.Status     { return p.w(sPostWritePush, c) }
func (p *pPush) PostReadPushHeader(c erpc.ReadCtx) *erpc.Status { return p.rd(sPostReadPushHeader, c) }
func (p *pPush) PreReadPushBody(c erpc.ReadCtx) *erpc.Status    { return p.rd(sPreReadPushBody, c) }
func (p *pPush) PostReadPushBody(c erpc.ReadCtx) *erpc.Status   { return p.rd(sPostReadPushBody, c) }

func newPlugin(spec PlugSpec, side int, r *run) erpc.Plugin {
	b := base{spec.Name, spec.pub(), side, r}
	switch spec.Type {
	case "all":
		return &pAll{b}
	case "name":
		return &pName{b}
	case "read":
		return &pRead{b}
	case "write":
		return &pWrite{b}
	case "call":
		return &pCall{b}
	case "push":
		return &pPush{b}
	}
	core.Fatalf("unknown plug-in type %q", spec.Type)
	return nil
}

// hasStage tells whether the Go value implements eRPC's interface for the stage.
func hasStage(p erpc.Plugin, st int) bool {
	ok := false
	switch st {
	case sPreWriteCall:
		_, ok = p.(erpc.PreWriteCallPlugin)
	case sPostWriteCall:
		_, ok = p.(erpc.PostWriteCallPlugin)
	case sPreWriteReply:
		_, ok = p.(erpc.PreWriteReplyPlugin)
	case sPostWriteReply:
		_, ok = p.(erpc.PostWriteReplyPlugin)
	case sPreWritePush:
		_, ok = p.(erpc.PreWritePushPlugin)
	case sPostWritePush:
		_, ok = p.(erpc.PostWritePushPlugin)
	case sPreReadHeader:
		_, ok = p.(erpc.PreReadHeaderPlugin)
	case sPostReadCallHeader:
		_, ok = p.(erpc.PostReadCallHeaderPlugin)
	case sPreReadCallBody:
		_, ok = p.(erpc.PreReadCallBodyPlugin)
	case sPostReadCallBody:
		_, ok = p.(erpc.PostReadCallBodyPlugin)
	case sPostReadPushHeader:
		_, ok = p.(erpc.PostReadPushHeaderPlugin)
	case sPreReadPushBody:
		_, ok = p.(erpc.PreReadPushBodyPlugin)
	case sPostReadPushBody:
		_, ok = p.(erpc.PostReadPushBodyPlugin)
	case sPostReadReplyHeader:
		_, ok = p.(erpc.PostReadReplyHeaderPlugin)
	case sPreReadReplyBody:
		_, ok = p.(erpc.PreReadReplyBodyPlugin)
	case sPostReadReplyBody:
		_, ok = p.(erpc.PostReadReplyBodyPlugin)
	}
	return ok
}

// selfCheck: the model's stage table must agree with the method sets of the Go types.
func selfCheck() {
	for typ := range typeStages {
		p := newPlugin(PlugSpec{Name: "x", Type: typ}, 0, nil)
		for st := 0; st < sHandler; st++ {
			if hasStage(p, st) != implements(typ, st) {
				core.Fatalf("plug-in type %s: stage table and method set disagree on %s", typ, stageName[st])
			}
		}
	}
}

// ---------------------------------------------------------------- generator

var typeDist = []string{"all", "all", "all", "all", "all", "all", "read", "read", "read", "write", "write", "write", "call", "call", "push", "push", "name", "name"}

func genPeer(r *core.Rand, side string) PeerSpec {
	n := 0
	plugs := func(min, max int) []PlugSpec {
		k := min + r.Intn(max-min+1)
		out := make([]PlugSpec, 0, k)
		for i := 0; i < k; i++ {
			n++
			t := typeDist[r.Intn(len(typeDist))]
			out = append(out, PlugSpec{Name: fmt.Sprintf("%s%02d%s", strings.ToLower(side), n, t[:1]), Type: t})
		}
		return out
	}
	id := 0
	var rest []Op
	depth := map[int]int{0: 0}
	gids := []int{0}
	for i, ng := 0, r.Intn(5); i < ng; i++ {
		parent := gids[r.Intn(len(gids))]
		if r.Intn(2) == 0 {
			parent = gids[len(gids)-1] // prefer deep nesting
		}
		if depth[parent] >= 3 {
			parent = 0
		}
		id++
		depth[id] = depth[parent] + 1
		rest = append(rest, Op{Kind: "group", ID: id, Parent: parent, Plugs: plugs(0, 3)})
		gids = append(gids, id)
	}
	for _, g := range gids {
		nr := 1 + r.Intn(3)
		if g == 0 {
			nr = r.Intn(3)
		}
		usedC, usedP := map[int]bool{}, map[int]bool{}
		for j := 0; j < nr; j++ {
			id++
			op := Op{ID: id, Parent: g, Plugs: plugs(0, 2)}
			if r.Intn(5) < 3 {
				k := r.Intn(len(callPool))
				for usedC[k] {
					k = (k + 1) % len(callPool)
				}
				usedC[k] = true
				op.Kind, op.Fn = "call", callPool[k].name
			} else {
				k := r.Intn(len(pushPool))
				for usedP[k] {
					k = (k + 1) % len(pushPool)
				}
				usedP[k] = true
				op.Kind, op.Fn = "push", pushPool[k].name
			}
			rest = append(rest, op)
		}
	}
	for i, na := 0, r.Intn(4); i < na; i++ {
		k := "right"
		if r.Intn(5) < 2 {
			k = "left"
		}
		rest = append(rest, Op{Kind: k, Plugs: plugs(0, 2)})
	}
	// random order respecting "a group exists before anything is registered on it"
	ops := []Op{{Kind: "new", Plugs: plugs(0, 2)}}
	created := map[int]bool{0: true}
	for len(rest) > 0 {
		var ready []int
		for i, op := range rest {
			if op.Kind == "left" || op.Kind == "right" || created[op.Parent] {
				ready = append(ready, i)
			}
		}
		i := ready[r.Intn(len(ready))]
		if rest[i].Kind == "group" {
			created[rest[i].ID] = true
		}
		ops = append(ops, rest[i])
		rest = append(rest[:i], rest[i+1:]...)
	}
	return PeerSpec{ops}
}

func genConfig(r *core.Rand, nmsg int) *Config {
	c := &Config{A: genPeer(r, "A"), B: genPeer(r, "B")}
	c.Class = "static-placement"
	for _, p := range []*PeerSpec{&c.A, &c.B} {
		seenRoute := false
		for _, op := range p.Ops {
			if op.Kind == "call" || op.Kind == "push" {
				seenRoute = true
			}
			if (op.Kind == "left" || op.Kind == "right") && seenRoute && len(op.Plugs) > 0 {
				c.Class = "late-append"
			}
		}
	}
	for i := 0; i < nmsg; i++ {
		m := Msg{ID: fmt.Sprintf("m%02d", i), From: sideName[r.Intn(2)], Kind: "call"}
		if r.Intn(5) < 2 {
			m.Kind = "push"
		}
		dst := c.peer(1 - sideIdx(m.From))
		var cand []*Op
		for j := range dst.Ops {
			if dst.Ops[j].Kind == m.Kind {
				cand = append(cand, &dst.Ops[j])
			}
		}
		if len(cand) > 0 && r.Intn(12) != 0 {
			op := cand[r.Intn(len(cand))]
			m.Route = op.ID
			if pe := poolFind(op.Kind, op.Fn); pe.subs > 0 {
				m.Sub = r.Intn(pe.subs)
			}
		}
		if r.Intn(10) >= 3 {
			if hooks := expectedHooks(c, &m); len(hooks) > 0 {
				v := hooks[r.Intn(len(hooks))]
				m.Veto = &v
			}
		}
		c.Msgs = append(c.Msgs, m)
	}
	genReplyFaults(core.NewRand(int64(r.Uint64()>>1), 17), c)
	genContainerOps(core.NewRand(int64(r.Uint64()>>1), 23), c)
	genPairs(core.NewRand(int64(r.Uint64()>>1), 29), c, npair)
	return c
}

// Scenario class "plugin-pairs" (a fourth pass with its own PRNG stream: the placements and the messages of the earlier
// passes are unchanged): npair further messages per configuration for which TWO (sometimes three) plug-ins on the chains
// of the message each do something other than answering OK - independent plug-ins installed together:
//
//	veto+reply-panic    a non-OK verdict before the handler (PostReadCallHeader / PreReadCallBody / PostReadCallBody; global,
//	                    group or handler-level plug-in) and a PreWriteReply / PostWriteReply hook on the chain of the reply
//	                    that panics for the reply carrying the refusal
//	veto+reply-status   the same with a reply hook that returns a non-OK status of its own
//	veto+reply-both     a refusal, a PreWriteReply status and a PostWriteReply panic (three plug-in behaviours)
//	veto+veto           two non-OK verdicts at different hook positions before the handler (the first one recorded counts)
//	caller-veto+veto    two plug-ins of the caller both refuse in PreWriteCall / PreWritePush (the first one recorded counts, nothing is written)
//	veto+caller-verdict a refusal by the receiver and a non-OK verdict of a plug-in of the caller (PostWriteCall or a reply-read stage)
//	fault+reply-act     a handler fault (err / panic / unmarshal / big) and a reply hook that panics or returns a status
//	reply-act+reply-act two reply hooks misbehaving for an ordinary reply
//	body-panic          PostReadCallBody / PostReadPushBody panics (recovered by handleCall / handlePush), alone or after / before
//	                    another behaviour
//
// Panics are scripted only at stages that run inside handleCall / handlePush (PostReadCallBody, PreWriteReply,
// PostWriteReply, PostReadPushBody): these recover. PreReadHeader is never part of a pair (it ends the session).
var pairKindsCall = []string{"veto+reply-panic", "veto+reply-panic", "veto+reply-panic", "veto+reply-panic", "veto+reply-status", "veto+reply-status",
	"veto+reply-both", "veto+veto", "veto+veto", "veto+caller-verdict", "fault+reply-act", "fault+reply-act", "reply-act+reply-act", "body-panic", "caller-veto+veto"}
var pairKindsPush = []string{"veto+veto", "veto+veto", "veto+caller-verdict", "body-panic", "body-panic", "caller-veto+veto"}
var pairFaults = []string{"err", "panic", "unmarshal:j", "unmarshal:p", "unmarshal:s", "big"}

var npair = 4

func genPairs(r *core.Rand, c *Config, n int) {
	base := len(c.Msgs)
	for i := 0; i < n; i++ {
		var m Msg
		for try := 0; try < 8; try++ {
			m = Msg{ID: fmt.Sprintf("m%02d", base+i), From: sideName[r.Intn(2)], Kind: "call"}
			if r.Intn(5) == 0 {
				m.Kind = "push"
			}
			dst := c.peer(1 - sideIdx(m.From))
			want := map[string]string{"call": "ucall", "push": "upush"}[m.Kind]
			var cand []*Op
			for j := range dst.Ops {
				if k := dst.Ops[j].Kind; k == m.Kind || k == want {
					cand = append(cand, &dst.Ops[j])
				}
			}
			if len(cand) > 0 && r.Intn(16) != 0 {
				op := cand[r.Intn(len(cand))]
				m.Route = op.ID
				if pe := poolFind(op.Kind, op.Fn); pe != nil && pe.subs > 0 {
					m.Sub = r.Intn(pe.subs)
				}
			}
			if m.Route == 0 {
				// no route drawn: the message goes to an unregistered name - which IS the unknown handler's route when the
				// receiving peer has one (the last one set counts)
				for j := range dst.Ops {
					if dst.Ops[j].Kind == want {
						m.Route = dst.Ops[j].ID
					}
				}
			}
			kinds := pairKindsCall
			if m.Kind == "push" {
				kinds = pairKindsPush
			}
			m.Pair = kinds[r.Intn(len(kinds))]
			if fillPair(r, c, &m) {
				break
			}
			m.Pair, m.Veto, m.Also, m.Fault = "", nil, nil, "" // no such pair of hooks on this route: draw again; in the end an ordinary message
		}
		c.Msgs = append(c.Msgs, m)
	}
}

// fillPair picks the hook positions of the pair class m.Pair on the chains of m; false when the chains have none.
func fillPair(r *core.Rand, c *Config, m *Msg) bool {
	hooks := expectedHooks(c, m)
	gy, _ := chain(c.peer(1-sideIdx(m.From)), 0)
	isGlobal := func(name string) bool {
		for _, p := range gy {
			if p.Name == name {
				return true
			}
		}
		return false
	}
	sel := func(side string, globalOnly bool, not *Veto, stages ...int) []Veto {
		var out, other []Veto
		for _, h := range hooks {
			ok := false
			for _, st := range stages {
				ok = ok || h.Stage == stageName[st]
			}
			if !ok || h.Side != side || (globalOnly && !isGlobal(h.Plugin)) || (not != nil && h == *not) {
				continue
			}
			out = append(out, h)
			if not != nil && h.Plugin != not.Plugin {
				other = append(other, h)
			}
		}
		if len(other) > 0 && r.Intn(5) != 0 { // mostly ANOTHER plug-in; sometimes the same one may do both
			return other
		}
		return out
	}
	pick := func(hs []Veto) *Veto {
		if len(hs) == 0 {
			return nil
		}
		v := hs[r.Intn(len(hs))]
		return &v
	}
	act := func(v *Veto, do string) Act { return Act{Side: v.Side, Plugin: v.Plugin, Stage: v.Stage, Do: do} }
	do := func() string {
		if r.Intn(3) == 0 {
			return "status"
		}
		return "panic"
	}
	pre := []int{sPostReadCallHeader, sPreReadCallBody, sPostReadCallBody}
	body := sPostReadCallBody
	if m.Kind == "push" {
		pre = []int{sPostReadPushHeader, sPreReadPushBody, sPostReadPushBody}
		body = sPostReadPushBody
	}
	// the reply to a call refused in PostReadCallHeader goes through the global container only
	replyHooks := func(v *Veto, stages ...int) []Veto {
		return sel("dst", v != nil && v.Stage == stageName[sPostReadCallHeader], v, stages...)
	}
	switch m.Pair {
	case "veto+reply-panic", "veto+reply-status", "veto+reply-both":
		v := pick(sel("dst", false, nil, pre...))
		if v == nil {
			return false
		}
		m.Veto = v
		if m.Pair == "veto+reply-both" {
			a, b := pick(replyHooks(v, sPreWriteReply)), pick(replyHooks(v, sPostWriteReply))
			if a == nil || b == nil {
				return false
			}
			m.Also = []Act{act(a, "status"), act(b, "panic")}
			return true
		}
		stages := []int{sPreWriteReply}
		if r.Intn(4) == 0 {
			stages = []int{sPostWriteReply}
		}
		a := pick(replyHooks(v, stages...))
		if a == nil {
			return false
		}
		m.Also = []Act{act(a, strings.TrimPrefix(m.Pair, "veto+reply-"))}
	case "veto+veto":
		v := pick(sel("dst", false, nil, pre...))
		if v == nil {
			return false
		}
		w := pick(sel("dst", false, v, pre...))
		if w == nil {
			return false
		}
		m.Veto, m.Also = v, []Act{act(w, "status")}
	case "caller-veto+veto":
		v := pick(sel("src", false, nil, sPreWriteCall, sPreWritePush))
		if v == nil {
			return false
		}
		w := pick(sel("src", false, v, sPreWriteCall, sPreWritePush))
		if w == nil || w.Plugin == v.Plugin {
			return false
		}
		m.Veto, m.Also = v, []Act{act(w, "status")}
	case "veto+caller-verdict":
		v := pick(sel("dst", false, nil, pre...))
		w := pick(sel("src", false, nil, sPostWriteCall, sPostReadReplyHeader, sPreReadReplyBody, sPostWritePush))
		if v == nil || w == nil {
			return false
		}
		m.Veto, m.Also = v, []Act{act(w, "status")}
	case "fault+reply-act":
		if m.Route == 0 {
			return false
		}
		a := pick(sel("dst", false, nil, sPreWriteReply, sPreWriteReply, sPostWriteReply))
		if a == nil {
			return false
		}
		m.Fault = pairFaults[r.Intn(len(pairFaults))]
		m.Also = []Act{act(a, do())}
	case "reply-act+reply-act":
		a := pick(sel("dst", false, nil, sPreWriteReply, sPostWriteReply))
		if a == nil {
			return false
		}
		b := pick(sel("dst", false, a, sPreWriteReply, sPostWriteReply))
		if b == nil {
			return false
		}
		m.Also = []Act{act(a, do()), act(b, do())}
	case "body-panic":
		p := pick(sel("dst", false, nil, body))
		if p == nil {
			return false
		}
		m.Also = []Act{act(p, "panic")}
		switch r.Intn(3) {
		case 0: // an earlier refusal: the panicking hook is never reached
			if v := pick(sel("dst", false, p, pre[0], pre[1])); v != nil {
				m.Veto = v
			}
		case 1: // a reply hook with a verdict of its own: never reached either, the reply comes from the recover path
			if a := pick(sel("dst", false, nil, sPreWriteReply, sPostWriteReply)); a != nil && m.Kind == "call" {
				m.Also = append(m.Also, act(a, do()))
			}
		}
	default:
		return false
	}
	return true
}

// genContainerOps is a third pass (own PRNG stream): operations on the global container after
// registration - Remove(name) of global plug-ins (from NewPeer, AppendLeft, AppendRight) at any later
// point of the script, optionally followed by further appends, by adding a plug-in under the removed
// name again, and Remove of a name that was never registered.
func genContainerOps(r *core.Rand, c *Config) {
	for side := 0; side < 2; side++ {
		p := c.peer(side)
		if r.Intn(2) == 0 {
			continue
		}
		n := 0
		insert := func(after int, op Op) int {
			at := after + 1 + r.Intn(len(p.Ops)-after)
			p.Ops = append(p.Ops[:at], append([]Op{op}, p.Ops[at:]...)...)
			return at
		}
		fresh := func(as string) PlugSpec {
			n++
			t := typeDist[r.Intn(len(typeDist))]
			return PlugSpec{Name: fmt.Sprintf("%sx%d%s", strings.ToLower(sideName[side]), n, t[:1]), Type: t, As: as}
		}
		for k, nk := 0, 1+r.Intn(2); k < nk; k++ {
			type cand struct {
				op   int
				name string
			}
			var cands []cand
			g, _ := chain(p, 0) // what is on the global container at the end of the script so far
			for _, x := range g {
				cands = append(cands, cand{x.op, x.pub()})
			}
			if len(cands) == 0 {
				break
			}
			t := cands[r.Intn(len(cands))]
			at := insert(t.op, Op{Kind: "remove", Fn: t.name})
			if r.Intn(3) == 0 { // a later append refreshes every derived container
				k := "right"
				if r.Intn(2) == 0 {
					k = "left"
				}
				at = insert(at, Op{Kind: k, Plugs: []PlugSpec{fresh("")}})
			}
			if r.Intn(3) == 0 { // the name comes back with a new instance
				k := "right"
				if r.Intn(2) == 0 {
					k = "left"
				}
				insert(at, Op{Kind: k, Plugs: []PlugSpec{fresh(t.name)}})
			}
		}
		if r.Intn(3) == 0 {
			insert(0, Op{Kind: "remove", Fn: fmt.Sprintf("never-registered-%d", r.Intn(100))})
		}
	}
	for _, p := range []*PeerSpec{&c.A, &c.B} {
		for _, op := range p.Ops {
			if op.Kind == "remove" && c.Class == "static-placement" {
				c.Class = "container-ops"
			}
		}
	}
}

// checkContainers compares what the global container reports after the registration script with the
// operations performed: Remove answers nil exactly for a name that is on the container, GetAll lists
// exactly the plug-ins added and not removed, GetByName finds exactly those.
func (r *run) checkContainers(cfg *Config) []viol {
	var out []viol
	msg := &Msg{ID: "none", From: "A", Kind: "call"}
	if len(cfg.Msgs) > 0 {
		msg = &cfg.Msgs[0]
	}
	for side := 0; side < 2; side++ {
		p := cfg.peer(side)
		pc := r.peers[side].PluginContainer()
		global, _ := chain(p, 0)
		var got, want []string
		for _, x := range pc.GetAll() {
			got = append(got, x.Name())
		}
		inst := map[string]string{}
		for _, x := range global {
			want = append(want, x.pub())
			inst[x.pub()] = x.Name
		}
		wit := func(detail string) map[string]interface{} {
			var script []string
			for _, op := range p.Ops {
				switch op.Kind {
				case "new", "left", "right":
					var ns []string
					for _, q := range op.Plugs {
						ns = append(ns, q.pub())
					}
					script = append(script, op.Kind+"("+strings.Join(ns, ",")+")")
				case "remove":
					script = append(script, "Remove("+op.Fn+")")
				}
			}
			return map[string]interface{}{"peer": sideName[side], "container_operations": script, "GetAll": got, "expected_on_container": want, "detail": detail}
		}
		report := func(symptom, class, what string) {
			out = append(out, viol{symptom, "container", class, what, msg, wit(what)})
		}
		// Remove results: replay the script on a name set
		present := map[string]string{} // public name -> side of the container
		ri := 0
		for i, op := range p.Ops {
			switch op.Kind {
			case "new", "left", "right":
				for _, q := range op.Plugs {
					present[q.pub()] = map[string]string{"new": "left", "left": "left", "right": "right"}[op.Kind]
				}
			case "remove":
				for ; ri < len(r.removes) && (r.removes[ri].side != side || r.removes[ri].op != i); ri++ {
				}
				if ri == len(r.removes) {
					continue
				}
				res := r.removes[ri]
				if where, ok := present[op.Fn]; ok {
					delete(present, op.Fn)
					if res.err != nil {
						report("remove-result", "removed-global-"+where, fmt.Sprintf("peer %s: Remove(%q) of a plug-in on the global container returned the error %q", sideName[side], op.Fn, res.err))
					}
				} else if res.err == nil {
					report("remove-result", "never-registered", fmt.Sprintf("peer %s: Remove(%q) of a name that is not on the global container returned nil", sideName[side], op.Fn))
				}
			}
		}
		a, b := append([]string{}, got...), append([]string{}, want...)
		sort.Strings(a)
		sort.Strings(b)
		if strings.Join(a, ",") != strings.Join(b, ",") {
			report("container-state", "global", fmt.Sprintf("peer %s: GetAll() of the global container lists %v, the operations performed leave %v", sideName[side], got, want))
		}
		for _, x := range global {
			if q := pc.GetByName(x.pub()); q == nil {
				report("container-state", x.Class, fmt.Sprintf("peer %s: GetByName(%q) returns nil for a plug-in on the global container", sideName[side], x.pub()))
			} else if b, ok := q.(interface{ key() string }); ok && b.key() != x.Name {
				report("container-state", x.Class, fmt.Sprintf("peer %s: GetByName(%q) returns the instance %s, the one on the container is %s", sideName[side], x.pub(), b.key(), x.Name))
			}
		}
		for _, op := range p.Ops {
			if op.Kind == "remove" && inst[op.Fn] == "" && pc.GetByName(op.Fn) != nil {
				report("container-state", "removed-global", fmt.Sprintf("peer %s: GetByName(%q) still finds the plug-in after Remove returned", sideName[side], op.Fn))
			}
		}
	}
	return out
}

var faultKinds = []string{"err", "panic", "unmarshal:j", "unmarshal:p", "unmarshal:t", "unmarshal:x", "unmarshal:s", "big", "slow"}

// genReplyFaults is a second pass over a generated configuration (its own PRNG stream, so placements
// and messages of the first pass are unchanged): unknown-route handlers with their own plug-ins on
// some peers, and reply-side faults on some CALLs.
func genReplyFaults(r *core.Rand, c *Config) {
	for side := 0; side < 2; side++ {
		p := c.peer(side)
		maxID, n := 0, 0
		for _, op := range p.Ops {
			if op.ID > maxID {
				maxID = op.ID
			}
		}
		for _, k := range []string{"ucall", "upush"} {
			if r.Intn(3) != 0 {
				continue
			}
			maxID++
			op := Op{Kind: k, ID: maxID}
			for i, np := 0, r.Intn(3); i < np; i++ {
				n++
				t := typeDist[r.Intn(len(typeDist))]
				op.Plugs = append(op.Plugs, PlugSpec{Name: fmt.Sprintf("%su%d%s", strings.ToLower(sideName[side]), n, t[:1]), Type: t})
			}
			at := 1 + r.Intn(len(p.Ops))
			p.Ops = append(p.Ops[:at], append([]Op{op}, p.Ops[at:]...)...)
			want := "call"
			if k == "upush" {
				want = "push"
			}
			for i := range c.Msgs {
				if m := &c.Msgs[i]; m.Route == 0 && m.Kind == want && sideIdx(m.From) == 1-side {
					m.Route = op.ID // unregistered name, answered by the unknown handler
				}
			}
		}
	}
	for i := range c.Msgs {
		m := &c.Msgs[i]
		if m.Kind != "call" || m.Route == 0 || r.Intn(20) >= 7 {
			continue
		}
		m.Fault = faultKinds[r.Intn(len(faultKinds))]
		// (always for "slow": with a context age on the session a refused call could lose its reply to the deadline as well)
		if v := m.Veto; v != nil && (r.Intn(3) != 0 || m.Fault == "slow") {
			switch v.Stage { // a refusal before the handler would keep the fault from happening
			case "PreWriteCall", "PreReadHeader", "PostReadCallHeader", "PreReadCallBody", "PostReadCallBody":
				m.Veto = nil
			}
		}
	}
}

// ---------------------------------------------------------------- execution

type routerAPI interface {
	SubRoute(string, ...erpc.Plugin) *erpc.SubRouter
	RouteCall(interface{}, ...erpc.Plugin) []string
	RouteCallFunc(interface{}, ...erpc.Plugin) string
	RoutePush(interface{}, ...erpc.Plugin) []string
	RoutePushFunc(interface{}, ...erpc.Plugin) string
}

func (r *run) buildPeer(side int, spec *PeerSpec) (erpc.Peer, map[int][]string) {
	return r.buildPeerCfg(side, spec, erpc.PeerConfig{})
}

func (r *run) buildPeerCfg(side int, spec *PeerSpec, pcfg erpc.PeerConfig) (erpc.Peer, map[int][]string) {
	var peer erpc.Peer
	subs := map[int]*erpc.SubRouter{}
	routes := map[int][]string{}
	mk := func(ps []PlugSpec) []erpc.Plugin {
		out := make([]erpc.Plugin, len(ps)) // cap == len: appendLeft appends to its argument slice
		for i, p := range ps {
			out[i] = newPlugin(p, side, r)
		}
		return out
	}
	if len(spec.Ops) == 0 || spec.Ops[0].Kind != "new" {
		spec.Ops = append([]Op{{Kind: "new"}}, spec.Ops...)
	}
	for i := range spec.Ops {
		op := &spec.Ops[i]
		var rt routerAPI = peer
		if op.Parent != 0 {
			rt = subs[op.Parent]
		}
		switch op.Kind {
		case "new":
			peer = erpc.NewPeer(pcfg, mk(op.Plugs)...)
		case "left":
			peer.PluginContainer().AppendLeft(mk(op.Plugs)...)
		case "right":
			peer.PluginContainer().AppendRight(mk(op.Plugs)...)
		case "remove":
			r.removes = append(r.removes, removeRes{side, i, op.Fn, peer.PluginContainer().Remove(op.Fn)})
		case "group":
			subs[op.ID] = rt.SubRoute(fmt.Sprintf("g%d", op.ID), mk(op.Plugs)...)
		case "call":
			pe := poolFind("call", op.Fn)
			if pe.subs > 0 {
				routes[op.ID] = rt.RouteCall(pe.fn(), mk(op.Plugs)...)
			} else {
				routes[op.ID] = []string{rt.RouteCallFunc(pe.fn(), mk(op.Plugs)...)}
			}
		case "push":
			pe := poolFind("push", op.Fn)
			if pe.subs > 0 {
				routes[op.ID] = rt.RoutePush(pe.fn(), mk(op.Plugs)...)
			} else {
				routes[op.ID] = []string{rt.RoutePushFunc(pe.fn(), mk(op.Plugs)...)}
			}
		case "ucall":
			peer.SetUnknownCall(onUnknownCall, mk(op.Plugs)...)
			routes[op.ID] = []string{"/c09/unregistered/call"}
		case "upush":
			peer.SetUnknownPush(onUnknownPush, mk(op.Plugs)...)
			routes[op.ID] = []string{"/c09/unregistered/push"}
		}
	}
	return peer, routes
}

// ctx.put gate hits per session: the deterministic "this message has been fully handled" signal
var puts sync.Map // erpc.Session -> *int64

func putsOf(s erpc.Session) int64 {
	if v, ok := puts.Load(s); ok {
		return atomic.LoadInt64(v.(*int64))
	}
	return 0
}

func onGate(point string, sess erpc.Session) {
	if sess == nil {
		return
	}
	if point != "ctx.put" {
		rdGate(point, sess)
		return
	}
	v, ok := puts.Load(sess)
	if !ok {
		v, _ = puts.LoadOrStore(sess, new(int64))
	}
	atomic.AddInt64(v.(*int64), 1)
}

type outcome struct {
	sent      bool
	bytes     int64
	stat      *erpc.Status
	link      string
	dedicated bool
	route     string
}

type viol struct {
	symptom, kind, class, what string
	msg                        *Msg
	witness                    map[string]interface{}
}

func (v viol) fp() string { return fmt.Sprintf("%s/%s/%s/%s", *prop, v.kind, v.class, v.symptom) }

type caseStats struct {
	faults, msgs, hooks, vetoScripted, vetoFired, vetoHonoured, handlerRuns, hdrAttributed, unexpected int64
}

const watchdog = 10 * time.Second

// runConfig executes the configuration on a fresh pair of peers and returns the violations;
// inconclusive != "" when the machinery could not observe enough to judge.
func runConfig(cfg *Config, st *caseStats, distinct bool) (viols []viol, inconclusive string) {
	r := &run{seqMid: map[string]string{}}
	cur.Store(r)
	var routes [2]map[int][]string
	r.peers[0], routes[0] = r.buildPeer(0, &cfg.A)
	r.peers[1], routes[1] = r.buildPeer(1, &cfg.B)
	defer func() {
		r.peers[0].Close()
		r.peers[1].Close()
	}()
	viols = append(viols, r.checkContainers(cfg)...)
	for _, rm := range r.removes {
		if distinct {
			if rm.err == nil {
				core.Add("container_remove_ok", 1)
			} else {
				core.Add("container_remove_refused", 1)
			}
		}
	}
	pf := protos.ByName("raw").Func
	link, err := bed.Connect(r.peers[0], r.peers[1], pf, pf, nil)
	if err != nil {
		return nil, "connect: " + err.Error()
	}
	sess := [2]erpc.Session{link.A, link.B}
	conn := [2]*memconn.Conn{link.CA, link.CB}
	mainKey := linkKey(link.A)
	var seqs [2]int32
	expPuts := [2]int64{putsOf(link.A), putsOf(link.B)}

	for mi := range cfg.Msgs {
		m := &cfg.Msgs[mi]
		x := sideIdx(m.From)
		y := 1 - x
		name := "/c09/no/such/route"
		if m.Route != 0 {
			ns := routes[y][m.Route]
			if m.Sub >= len(ns) {
				return viols, fmt.Sprintf("route %d has %d names, message wants #%d", m.Route, len(ns), m.Sub)
			}
			name = ns[m.Sub]
		}
		var sc *script
		if v := m.Veto; v != nil {
			sc = &script{mid: m.ID, side: x, plug: v.Plugin, stage: stageByName(v.Stage), code: int32(1000 + mi), msg: "veto:" + v.Plugin + ":" + v.Stage}
			if v.Side == "dst" {
				sc.side = y
			}
			st.vetoScripted++
		}
		var also []*script
		for k, a := range m.Also {
			as := &script{mid: m.ID, side: x, plug: a.Plugin, stage: stageByName(a.Stage), code: int32(2000 + 8*mi + k), msg: "veto:" + a.Plugin + ":" + a.Stage, do: a.Do}
			if a.Side == "dst" {
				as.side = y
			}
			if as.stage < 0 || as.stage == sPreReadHeader {
				return viols, fmt.Sprintf("message %s: a further behaviour cannot be scripted at stage %q", m.ID, a.Stage)
			}
			also = append(also, as)
		}
		out := outcome{route: name}
		setting := func(msg erpc.Message) {
			msg.Meta().Set("Mid", m.ID)
			if m.Fault != "" {
				msg.Meta().Set("Fx", m.Fault)
			}
		}
		gotSeq := int32(-1)
		do := func(s erpc.Session) (string, bool) { // returns inconclusive reason, completed
			done := make(chan *erpc.Status, 1)
			go func() {
				if m.Kind == "call" {
					var res Res
					cmd := s.Call(name, &Arg{N: mi}, &res, setting)
					gotSeq = cmd.Output().Seq()
					done <- cmd.Status()
				} else {
					done <- s.Push(name, &Arg{N: mi}, setting)
				}
			}()
			select {
			case out.stat = <-done:
				return "", true
			case <-time.After(watchdog):
				return fmt.Sprintf("message %s (%s) did not complete within the watchdog", m.ID, m.Kind), false
			}
		}

		if sc != nil && sc.stage == sPreReadHeader {
			// PreReadHeader sees no message and its error ends the session: the message travels on a
			// connection of its own, and the verdict is armed for that connection before it is served.
			out.dedicated = true
			l2, err := bed.Connect(r.peers[x], r.peers[y], pf, pf, func(ca, cb *memconn.Conn) {
				a, b := ca.LocalAddr().String(), ca.RemoteAddr().String()
				if a > b {
					a, b = b, a
				}
				out.link = a + "~" + b
				sc.link = out.link
				r.mu.Lock()
				r.seqMid[fmt.Sprintf("%s/%d/%d", out.link, x, 1)] = m.ID
				r.sc, r.also = sc, also
				r.mu.Unlock()
			})
			if err != nil {
				return viols, "connect (dedicated): " + err.Error()
			}
			w0 := l2.CA.Written()
			why, ok := do(l2.A)
			if !ok {
				l2.CA.Sever(false)
				return viols, why
			}
			out.bytes = l2.CA.Written() - w0
			out.sent = out.bytes != 0 // the receiving session may already be gone when the message is written
			select {
			case <-l2.B.CloseNotify():
			case <-time.After(2 * time.Second):
				// the session survived the scripted error: wait for whatever it still does with the message
				quiesce.Wait(quiesce.Options{Timeout: 5 * time.Second, Self: "main.runConfig"})
			}
			l2.A.Close()
			l2.B.Close()
		} else {
			out.link = mainKey
			seqs[x]++
			r.mu.Lock()
			r.seqMid[fmt.Sprintf("%s/%d/%d", mainKey, x, seqs[x])] = m.ID
			r.sc, r.also = sc, also
			r.mu.Unlock()
			w0 := conn[x].Written()
			oldLimit := socket.MessageSizeLimit()
			switch m.Fault {
			case "big":
				socket.SetMessageSizeLimit(sizeLimit)
			case "slow":
				sess[y].(erpc.PreSession).SetContextAge(slowAge)
			}
			why, ok := do(sess[x])
			// the caller has its answer: the reply (and its fallback) has been packed, the context age has been read
			switch m.Fault {
			case "big":
				socket.SetMessageSizeLimit(oldLimit)
			case "slow":
				sess[y].(erpc.PreSession).SetContextAge(0)
			}
			if !ok {
				link.CA.Sever(false)
				return viols, why
			}
			if gotSeq >= 0 && gotSeq != seqs[x] {
				return viols, fmt.Sprintf("message %s: sequence number %d, the harness predicted %d", m.ID, gotSeq, seqs[x])
			}
			out.bytes = conn[x].Written() - w0
			out.sent = out.bytes != 0
			if m.Kind == "push" {
				expPuts[x]++ // Push takes and returns a context on the sending session
			}
			if out.sent {
				expPuts[y]++
				if m.Kind == "call" {
					expPuts[x]++ // the reply
				}
			}
			if !bed.WaitUntil(watchdog, func() bool { return putsOf(sess[0]) >= expPuts[0] && putsOf(sess[1]) >= expPuts[1] }) {
				return viols, fmt.Sprintf("message %s: handling did not finish (contexts returned A %d/%d, B %d/%d; status %v)", m.ID,
					putsOf(sess[0]), expPuts[0], putsOf(sess[1]), expPuts[1], out.stat)
			}
			if !link.A.Health() || !link.B.Health() {
				return viols, fmt.Sprintf("message %s: the connection died (status %v)", m.ID, out.stat)
			}
		}
		r.mu.Lock()
		r.sc, r.also = nil, nil
		r.mu.Unlock()
		vs := r.evaluate(cfg, m, out, st, distinct)
		viols = append(viols, vs...)
		st.msgs++
	}
	r.mu.Lock()
	st.hooks += int64(len(r.trace))
	r.mu.Unlock()
	return viols, ""
}

// ---------------------------------------------------------------- oracle

type aent struct {
	entry
	kind string
}

// attributed returns the trace entries of message mid in trace order. Entries of stages that see a
// message carry its id; PreReadHeader entries (no message yet) belong to the message that was then
// read into the same pooled context on the same session.
func (r *run) attributed(m *Msg, out outcome, y int) []aent {
	r.mu.Lock()
	trace := append([]entry(nil), r.trace...)
	r.mu.Unlock()
	owner := make([]string, len(trace))
	kind := make([]string, len(trace))
	pending := map[string][]int{}
	lastHdr := map[string]string{} // side|link -> key of the reader's current round
	// a scripted PreReadHeader error (dedicated connection): the round up to that entry is the message's
	vetoAt := -1
	if out.dedicated {
		for i, e := range trace {
			if e.Stage == sPreReadHeader && e.Link == out.link && e.Side == y && e.Veto {
				vetoAt = i
				break
			}
		}
	}
	for i, e := range trace {
		key := fmt.Sprintf("%d|%s|%x", e.Side, e.Link, e.Ctx)
		if e.Stage == sPreReadHeader {
			if vetoAt >= 0 && e.Link == out.link && e.Side == y {
				if i <= vetoAt {
					owner[i], kind[i] = m.ID, m.Kind
				}
				continue
			}
			sl := fmt.Sprintf("%d|%s", e.Side, e.Link)
			if old, ok := lastHdr[sl]; ok && old != key {
				delete(pending, old) // a round that never led to an identifiable message
			}
			lastHdr[sl] = key
			pending[key] = append(pending[key], i)
			continue
		}
		if e.Mid == "" {
			continue
		}
		owner[i] = e.Mid
		kind[i] = stageKind(e.Stage)
		if e.Stage == sHandler {
			kind[i] = "handler"
		}
		anchor := isReadStage(e.Stage) || e.Stage == sHandler || e.Stage == sPreWriteReply || e.Stage == sPostWriteReply
		if anchor && e.Ctx != 0 {
			k := kind[i]
			if e.Stage == sPreWriteReply || e.Stage == sPostWriteReply {
				k = "call" // the context that answers is the one the CALL was read into
			}
			for _, j := range pending[key] {
				owner[j], kind[j] = e.Mid, k
			}
			delete(pending, key)
		}
	}
	var res []aent
	for i, e := range trace {
		if owner[i] == m.ID {
			k := kind[i]
			if k == "handler" {
				k = m.Kind
			}
			res = append(res, aent{e, k})
		}
	}
	return res
}

type checker struct {
	cfg   *Config
	m     *Msg
	ents  []aent
	viols []viol
	wit   func() map[string]interface{}
	count func(key string) // evidence counters (nil in minimisation runs)
	// the reply of a call refused in PostReadCallHeader goes through the global container (evidence counters only)
	globalOnly bool
	// scenario classes that are not about placement (redial-retry) label every finding with their own class
	classOverride string
}

func (ck *checker) report(symptom, kind, class, what string) {
	if ck.classOverride != "" {
		class = ck.classOverride
	}
	for _, v := range ck.viols {
		if v.symptom == symptom && v.kind == kind && v.class == class {
			return
		}
	}
	w := ck.wit()
	w["detail"] = what
	ck.viols = append(ck.viols, viol{symptom, kind, class, what, ck.m, w})
}

// stage checks one stage at one side: duplicates, foreign plug-ins, registration order and, when the
// stage is due (active), that every applicable plug-in up to the first non-OK verdict was called.
// It returns the entry that ended the stage - the first non-OK verdict or panicking hook -, if one was recorded.
func (ck *checker) stage(side int, kind string, st int, req, allowed []pref, active bool) *aent {
	var es []*aent
	for i := range ck.ents {
		e := &ck.ents[i]
		if e.Side == side && e.Stage == st && e.kind == kind {
			es = append(es, e)
		}
	}
	find := func(ps []pref, n string) *pref {
		for i := range ps {
			if ps[i].Name == n {
				return &ps[i]
			}
		}
		return nil
	}
	where := fmt.Sprintf("%s %s on peer %s", kind, stageName[st], sideName[side])
	seen := map[string]int{}
	var veto *aent
	var prev []*pref
	var misordered [][2]*pref
	repeated := false
	for _, e := range es {
		seen[e.Plug]++
		p := find(allowed, e.Plug)
		if (e.Veto || e.Panic) && veto == nil {
			veto = e // the entry that ended the stage: a non-OK verdict, or a (scripted) panic of the hook
		}
		if p == nil {
			ck.report("foreign-plugin", kind, foreignClass(ck.cfg.peer(side), e.Plug),
				fmt.Sprintf("%s: hook of %s recorded, which is neither on the global container nor on the matched route's chain", where, e.Plug))
			continue
		}
		if seen[e.Plug] == 2 {
			repeated = true
			ck.report("duplicate", kind, p.Class, fmt.Sprintf("%s: hook of %s recorded more than once for message %s", where, e.Plug, ck.m.ID))
		}
		for _, q := range prev {
			if cmpReg(*q, *p) > 0 {
				misordered = append(misordered, [2]*pref{q, p})
			}
		}
		prev = append(prev, p)
	}
	// when a stage ran twice the entries of the second run follow those of the first: that is the duplicate, not a wrong order
	for _, qp := range misordered {
		if repeated {
			break
		}
		ck.report("registration-order", kind, qp[1].Class,
			fmt.Sprintf("%s: %s (%s) fired before %s (%s)", where, qp[0].Name, qp[0].Class, qp[1].Name, qp[1].Class))
	}
	if veto != nil && find(req, veto.Plug) == nil {
		// a non-OK verdict from a plug-in that should not have seen the message (reported above) ended the stage somewhere:
		// which of the applicable hooks still had to run is not defined
		active = false
	}
	if active {
		for i := range req {
			p := &req[i]
			if !implements(p.Type, st) {
				continue
			}
			if ck.count != nil && strings.HasPrefix(p.Class, "late-global") && stageScope(st) == "route" && !ck.globalOnly {
				res := "fired"
				if seen[p.Name] == 0 {
					res = "missing"
				}
				ck.count(fmt.Sprintf("late_global_hooks_due_handler_depth%d_%s", ck.cfg.peer(side).routeDepth(ck.m.Route), res))

			}
			if seen[p.Name] == 0 {
				ck.report("missing-hook", kind, p.Class,
					fmt.Sprintf("%s: %s (%s plug-in, %s) is on the applicable chain but its hook was not called", where, p.Name, p.Type, p.Class))
				continue
			}
			if veto != nil && veto.Plug == p.Name {
				break
			}
		}
	}
	return veto
}

func union(a, b []pref) []pref {
	out := append([]pref{}, a...)
	for _, p := range b {
		dup := false
		for _, q := range a {
			if q.Name == p.Name {
				dup = true
			}
		}
		if !dup {
			out = append(out, p)
		}
	}
	return out
}

// documented stage order: (group, rank) per stage and side role; stages of different groups are not compared
func stageRank(st int, atDst bool) (group, rank int) {
	if atDst {
		switch st {
		case sPreReadHeader:
			return 1, 0
		case sPostReadCallHeader, sPostReadPushHeader:
			return 1, 1
		case sPreReadCallBody, sPreReadPushBody:
			return 1, 2
		case sPostReadCallBody, sPostReadPushBody:
			return 1, 3
		case sHandler:
			return 1, 4
		case sPreWriteReply:
			return 1, 5
		case sPostWriteReply:
			return 1, 6
		}
		return 0, 0
	}
	switch st {
	case sPreWriteCall, sPreWritePush:
		return 2, 0
	case sPostWriteCall, sPostWritePush:
		return 2, 1
	case sPreReadHeader:
		return 3, 0
	case sPostReadReplyHeader:
		return 3, 1
	case sPreReadReplyBody:
		return 3, 2
	case sPostReadReplyBody:
		return 3, 3
	}
	return 0, 0
}

func (ck *checker) stageOrder(x int, classOf func(side int, plug string) string) {
	for i := range ck.ents {
		for j := i + 1; j < len(ck.ents); j++ {
			a, b := &ck.ents[i], &ck.ents[j]
			if a.Side != b.Side {
				continue
			}
			ga, ra := stageRank(a.Stage, a.Side != x)
			gb, rb := stageRank(b.Stage, b.Side != x)
			bad := ga != 0 && ga == gb && ra > rb
			// the request is written before its reply is read
			if a.Side == x && ga == 3 && ra >= 1 && gb == 2 && rb == 0 {
				bad = true
			}
			if !bad {
				continue
			}
			plug, kind := b.Plug, b.kind
			if plug == "" {
				plug, kind = a.Plug, a.kind
			}
			ck.report("stage-order", kind, classOf(b.Side, plug), fmt.Sprintf("on peer %s %s of %q was recorded before %s of %q for message %s",
				sideName[a.Side], stageName[a.Stage], a.Plug, stageName[b.Stage], b.Plug, ck.m.ID))
		}
	}
}

func (r *run) evaluate(cfg *Config, m *Msg, out outcome, st *caseStats, distinct bool) []viol {
	x := sideIdx(m.From)
	y := 1 - x
	gx, _ := chain(cfg.peer(x), 0)
	gy, ry := chain(cfg.peer(y), m.Route)
	matched := m.Route != 0
	ents := r.attributed(m, out, y)
	ck := &checker{cfg: cfg, m: m, ents: ents}
	if distinct {
		ck.count = func(k string) { core.Add(k, 1) }
	}
	handlerRuns := 0
	for _, e := range ents {
		if e.Stage == sHandler {
			handlerRuns++
		} else if e.Stage == sPreReadHeader {
			st.hdrAttributed++
		}
	}
	st.handlerRuns += int64(handlerRuns)
	ck.wit = func() map[string]interface{} {
		var rec []string
		for _, e := range ents {
			s := fmt.Sprintf("%s %s %s", sideName[e.Side], stageName[e.Stage], e.Plug)
			if e.Stage == sHandler {
				s = fmt.Sprintf("%s HANDLER %s", sideName[e.Side], e.Route)
			}
			if e.Veto {
				s += fmt.Sprintf(" -> non-OK %d", e.Code)
			}
			if e.Panic {
				s += " -> panics"
			}
			rec = append(rec, s)
		}
		w := map[string]interface{}{"message": m, "route_name": out.route, "route_group_depth": cfg.peer(y).routeDepth(m.Route),
			"sender_global_chain": names(gx), "receiver_global_chain": names(gy), "receiver_route_chain": names(ry),
			"recorded": rec, "handler_invocations": handlerRuns, "bytes_written_by_sender": out.bytes}
		if out.stat != nil {
			w["caller_status"] = out.stat.String()
		} else {
			w["caller_status"] = "OK"
		}
		return w
	}
	classOf := func(side int, plug string) string {
		chains := [][]pref{gx}
		if side == y {
			chains = [][]pref{ry, gy}
		}
		for _, ch := range chains {
			for _, p := range ch {
				if p.Name == plug {
					return p.Class
				}
			}
		}
		return foreignClass(cfg.peer(side), plug)
	}
	anchored := func(side int) bool { // some entry other than PreReadHeader attributed on that side's reading context
		for _, e := range ents {
			if e.Side == side && e.Ctx != 0 && e.Stage != sPreReadHeader {
				return true
			}
		}
		return false
	}
	allowedY := union(ry, gy)
	code := int32(0)
	msgText := ""
	if out.stat != nil {
		code, msgText = out.stat.Code(), out.stat.Msg()
	}
	// scripted behaviours that really happened for this message, in trace order ("<stage>-<status|panic>")
	firedLabel := func(e *aent) string {
		if e.Panic {
			return stageName[e.Stage] + "-panic"
		}
		return stageName[e.Stage] + "-status"
	}
	var fired []*aent
	callerVerdict := false // a plug-in of the caller itself returned a non-OK verdict for the call or its reply
	for i := range ents {
		if e := &ents[i]; e.Veto || e.Panic {
			fired = append(fired, e)
			if e.Side == x && e.Veto && e.Stage != sPreWriteCall && e.Stage != sPreWritePush {
				callerVerdict = true
			}
		}
	}
	vetoChecks := func(v *aent, callerSees bool, kind string) {
		st.vetoFired++
		ok := true
		cls := classOf(v.Side, v.Plug)
		// plug-in pairs: the configuration class names the other behaviours that happened for the same message
		for _, e := range fired {
			if e.Idx != v.Idx {
				cls += "+" + firedLabel(e)
			}
		}
		if callerSees && callerVerdict && v.Side != x {
			// the caller's own plug-in gave a verdict on the call / reply as well: which of the two statuses the caller
			// is to receive is not stated
			callerSees = false
		}
		if handlerRuns > 0 {
			ok = false
			ck.report("veto-ignored-handler-ran", kind, cls, fmt.Sprintf("%s of %s returned a non-OK verdict (code %d) but the handler of %s was invoked %d time(s)",
				stageName[v.Stage], v.Plug, v.Code, out.route, handlerRuns))
		}
		if callerSees {
			want := "veto:" + v.Plug + ":" + stageName[v.Stage]
			if code != v.Code || msgText != want {
				ok = false
				ck.report("veto-status-mismatch", kind, cls, fmt.Sprintf("%s of %s returned status (%d, %q) but the caller received (%d, %q)",
					stageName[v.Stage], v.Plug, v.Code, want, code, msgText))
			}
		}
		if ok {
			st.vetoHonoured++
		}
	}

	var vetoPos = "none"
	if m.Kind == "call" {
		w0 := ck.stage(x, "call", sPreWriteCall, gx, gx, true)
		ck.stage(x, "call", sPostWriteCall, gx, gx, w0 == nil && out.sent)
		if w0 != nil {
			vetoPos = stageName[w0.Stage]
			vetoChecks(w0, true, "call")
			if out.bytes != 0 {
				ck.report("veto-bytes-written", "call", classOf(x, w0.Plug), fmt.Sprintf("PreWriteCall of %s returned a non-OK verdict but %d bytes were written to the connection", w0.Plug, out.bytes))
			}
		}
		active := out.sent
		h0 := ck.stage(y, "call", sPreReadHeader, gy, gy, out.dedicated || (active && anchored(y)))
		if h0 != nil {
			vetoPos = stageName[h0.Stage]
			vetoChecks(h0, false, "call")
			active = false
		}
		h1 := ck.stage(y, "call", sPostReadCallHeader, gy, gy, active)
		b1 := ck.stage(y, "call", sPreReadCallBody, ry, allowedY, active && matched && h1 == nil)
		b2 := ck.stage(y, "call", sPostReadCallBody, ry, allowedY, active && matched && h1 == nil && b1 == nil)
		var pre *aent
		prePanic := false // a hook before the handler panicked: the call is answered from the recover path (no reply hook demanded)
		for _, v := range []*aent{h1, b1, b2} {
			if v != nil && v.Panic {
				prePanic = true
				break
			}
			if v != nil && pre == nil {
				pre = v
			}
		}
		if pre != nil {
			vetoPos = stageName[pre.Stage]
			vetoChecks(pre, true, "call")
		}
		// the REPLY: written through the handler's chain once the route was matched, else through the global container
		// (after a refusal in PostReadCallHeader only the global plug-ins are required: the route was never looked up)
		rq := gy
		ck.globalOnly = true
		if matched && h1 == nil {
			rq = ry
			ck.globalOnly = false
		}
		// reply-side faults take effect when the handler ran. What the pinned call path documents by its structure:
		// a panicking handler is answered from the recover path (no reply hooks demanded); a reply whose first write
		// fails (body not marshallable, over the size limit, reply context expired) has had its PreWriteReply and is
		// replaced by an error reply without PostWriteReply (none demanded). At most once, order and scope always apply.
		fault := ""
		if handlerRuns > 0 {
			fault = m.Fault
		}
		firstWriteFails := strings.HasPrefix(fault, "unmarshal:") || fault == "big" || m.Fault == "slow"
		// a panicking reply hook ends its stage like a non-OK verdict does (hooks after it are not demanded); after a panic
		// in PreWriteReply the reply is written from the recover path (no PostWriteReply demanded)
		w1 := ck.stage(y, "reply", sPreWriteReply, rq, allowedY, active && fault != "panic" && !prePanic)
		w2 := ck.stage(y, "reply", sPostWriteReply, rq, allowedY, active && w1 == nil && fault != "panic" && !prePanic && !firstWriteFails)
		if w1 == nil { // PostWriteReply only for a reply that went through PreWriteReply
			seenPre := map[string]bool{}
			for _, e := range ents {
				if e.Side == y && e.Stage == sPreWriteReply {
					seenPre[e.Plug] = true
				}
			}
			for _, e := range ents {
				if e.Side == y && e.Stage == sPostWriteReply && !seenPre[e.Plug] {
					for _, p := range allowedY {
						if p.Name == e.Plug && implements(p.Type, sPreWriteReply) {
							ck.report("missing-hook", "reply", p.Class, fmt.Sprintf("reply on peer %s: PostWriteReply of %s was called for a reply whose PreWriteReply it never saw", sideName[y], p.Name))
						}
					}
				}
			}
		}
		if fault != "" && distinct {
			st.faults++
			core.Add("reply_fault_executed_"+strings.Replace(fault, ":", "_codec_", 1), 1)
			core.Distinct("reply_fault_outcomes", fmt.Sprintf("%s -> caller status %d", fault, code))
			npre, npost := 0, 0
			for _, e := range ents {
				if e.Side == y && e.Stage == sPreWriteReply {
					npre++
				} else if e.Side == y && e.Stage == sPostWriteReply {
					npost++
				}
			}
			core.Add("reply_fault_prewritereply_hooks", int64(npre))
			core.Add("reply_fault_postwritereply_hooks", int64(npost))
			for _, p := range rq {
				if implements(p.Type, sPreWriteReply) {
					core.Distinct("nontrivial", p.Class+"/reply/fault:"+fault)
				}
			}
		}
		replyOK := active && matched && pre == nil && handlerRuns > 0 && fault == "" && !prePanic && !(w1 != nil && w1.Panic)
		ck.stage(x, "reply", sPreReadHeader, gx, gx, active && anchored(x) && hasReplyRead(ents, x))
		r1 := ck.stage(x, "reply", sPostReadReplyHeader, gx, gx, active)
		r2 := ck.stage(x, "reply", sPreReadReplyBody, gx, gx, active && r1 == nil && replyOK)
		r3 := ck.stage(x, "reply", sPostReadReplyBody, gx, gx, active && r1 == nil && r2 == nil && replyOK)
		for _, v := range []*aent{w1, w2, r1, r2, r3} {
			if v != nil && vetoPos == "none" {
				vetoPos = stageName[v.Stage]
			}
		}
		if m.Veto == nil && len(m.Also) == 0 && m.Fault == "" && matched && (code != 0 || handlerRuns != 1) {
			st.unexpected++
		}
	} else {
		w0 := ck.stage(x, "push", sPreWritePush, gx, gx, true)
		w1 := ck.stage(x, "push", sPostWritePush, gx, gx, w0 == nil && out.sent)
		if w0 != nil {
			vetoPos = stageName[w0.Stage]
			vetoChecks(w0, true, "push")
			if out.bytes != 0 {
				ck.report("veto-bytes-written", "push", classOf(x, w0.Plug), fmt.Sprintf("PreWritePush of %s returned a non-OK verdict but %d bytes were written to the connection", w0.Plug, out.bytes))
			}
		}
		active := out.sent
		h0 := ck.stage(y, "push", sPreReadHeader, gy, gy, out.dedicated || (active && anchored(y)))
		if h0 != nil {
			vetoPos = stageName[h0.Stage]
			vetoChecks(h0, false, "push")
			active = false
		}
		h1 := ck.stage(y, "push", sPostReadPushHeader, gy, gy, active)
		b1 := ck.stage(y, "push", sPreReadPushBody, ry, allowedY, active && matched && h1 == nil)
		b2 := ck.stage(y, "push", sPostReadPushBody, ry, allowedY, active && matched && h1 == nil && b1 == nil)
		for _, v := range []*aent{h1, b1, b2} {
			if v != nil {
				vetoPos = stageName[v.Stage]
				if !v.Panic { // a panicking hook is not a verdict: nothing is stated about the handler then
					vetoChecks(v, false, "push")
				}
				break
			}
		}
		if w1 != nil && vetoPos == "none" {
			vetoPos = stageName[w1.Stage]
		}
		if m.Veto == nil && len(m.Also) == 0 && matched && handlerRuns != 1 {
			st.unexpected++
		}
	}
	ck.stageOrder(x, classOf)
	if distinct && matched { // evidence: messages to a route that was registered while a since removed global plug-in was present
		py := cfg.peer(y)
		ri, _ := py.opByID(m.Route)
		for j, op := range py.Ops {
			if op.Kind != "remove" || j < ri {
				continue
			}
			for a := 0; a < ri; a++ {
				for _, q := range py.Ops[a].Plugs {
					k := py.Ops[a].Kind
					if q.pub() != op.Fn || (k != "new" && k != "left" && k != "right") {
						continue
					}
					due := implements(q.Type, sPreWriteReply)
					if m.Kind == "push" {
						due = implements(q.Type, sPreReadPushBody)
					} else {
						due = due || implements(q.Type, sPreReadCallBody)
					}
					stillGone := true
					for _, g := range gy {
						if g.Name == q.Name {
							stillGone = false
						}
					}
					if !due || !stillGone {
						continue
					}
					later := "no-later-append"
					for _, o2 := range py.Ops[j+1:] {
						if o2.Kind == "left" || o2.Kind == "right" {
							later = "later-append"
						}
					}
					side := "left"
					if k == "right" {
						side = "right"
					}
					core.Add("messages_to_routes_registered_before_a_remove_"+strings.Replace(later, "-", "_", -1), 1)
					core.Distinct("nontrivial", fmt.Sprintf("removed-global-%s/%s/route-registered-before-remove/%s", side, m.Kind, later))
				}
			}
		}
	}
	if distinct && m.Pair != "" { // evidence of the plug-in pair class: what was scripted, what happened, what the caller saw
		var labels []string
		var firstVeto *aent
		for _, e := range fired {
			labels = append(labels, firedLabel(e))
			if e.Veto && firstVeto == nil {
				firstVeto = e
			}
		}
		scripted := len(m.Also)
		if m.Veto != nil {
			scripted++
		}
		what := "OK"
		switch {
		case firstVeto != nil && code == firstVeto.Code:
			what = "the status of the first verdict"
		case code >= 1000:
			what = "the status of a later verdict"
		case code != 0:
			what = fmt.Sprintf("%d", code)
		}
		core.Add("pair_messages", 1)
		core.Add("pair_"+m.Pair+"_messages", 1)
		core.Add("pair_behaviours_scripted", int64(scripted))
		core.Add("pair_behaviours_happened", int64(len(fired)))
		if len(fired) >= 2 {
			core.Add("pair_messages_with_two_or_more_behaviours_happening", 1)
		}
		if len(labels) == 0 {
			labels = []string{"none"}
		}
		if m.Fault != "" && handlerRuns > 0 {
			labels = append(labels, "handler-fault:"+m.Fault)
		}
		core.Distinct("pair_outcomes", fmt.Sprintf("%s %s: %s -> caller status: %s", m.Kind, m.Pair, strings.Join(labels, "+"), what))
		if firstVeto != nil && firstVeto.Side == y && len(fired) >= 2 && !callerVerdict && m.Kind == "call" {
			core.Add("pair_veto_status_judged_with_another_behaviour_happening", 1)
		}
		if len(fired) >= 2 || (len(fired) == 1 && m.Fault != "" && handlerRuns > 0) {
			core.Distinct("nontrivial", fmt.Sprintf("%s/%s/pair:%s", classOf(fired[0].Side, fired[0].Plug), m.Kind, strings.Join(labels, "+")))
		}
	}
	if distinct {
		classes := map[string]bool{}
		if m.Veto != nil && vetoPos != "none" {
			side := x
			if m.Veto.Side == "dst" {
				side = y
			}
			classes[classOf(side, m.Veto.Plugin)] = true
		} else {
			for _, p := range append(append([]pref{}, gx...), union(ry, gy)...) {
				classes[p.Class] = true
			}
		}
		for c := range classes {
			kinds := []string{m.Kind}
			if m.Kind == "call" {
				kinds = append(kinds, "reply")
			}
			for _, k := range kinds {
				if vetoPos == "none" || stageKind(stageByName(vetoPos)) == k || (vetoPos == "PreReadHeader" && k == m.Kind) {
					core.Distinct("nontrivial", c+"/"+k+"/"+vetoPos)
				}
			}
		}
		core.Distinct("veto_positions", m.Kind+"/"+vetoPos)
	}
	if *dump && len(ck.viols) > 0 {
		b, _ := json.MarshalIndent(ck.viols[0].witness, "", " ")
		fmt.Fprintf(os.Stderr, "%s\n%s\n", ck.viols[0].fp(), b)
	}
	return ck.viols
}

func hasReplyRead(ents []aent, x int) bool {
	for _, e := range ents {
		if e.Side == x && e.kind == "reply" && isReadStage(e.Stage) {
			return true
		}
	}
	return false
}

// ---------------------------------------------------------------- witness minimisation

// shrink removes plug-ins, routes, groups, append calls and the scripted verdict while the same
// fingerprint is still reported for the (single) message.
func shrink(cfg *Config, v viol) *Config {
	best := cloneConfig(cfg)
	best.Msgs = []Msg{*v.msg}
	fp := v.fp()
	budget := 600
	reproduces := func(c *Config) bool {
		for side := 0; side < 2; side++ { // a duplicate route name makes eRPC exit
			seen := map[string]bool{}
			for _, op := range c.peer(side).Ops {
				if k := fmt.Sprintf("%s/%d/%s", op.Kind, op.Parent, op.Fn); op.Fn != "" {
					if seen[k] {
						return false
					}
					seen[k] = true
				}
			}
		}
		var st caseStats
		vs, inc := runConfig(cloneConfig(c), &st, false)
		if inc != "" {
			budget = 0 // a run that ends in a watchdog costs seconds: keep what has been reached
			return false
		}
		for _, w := range vs {
			if w.fp() == fp {
				return true
			}
		}
		return false
	}
	if !reproduces(best) {
		return nil
	}
	for progress := true; progress && budget > 0; {
		progress = false
		var cands []func(c *Config) bool
		m := best.Msgs[0]
		y := 1 - sideIdx(m.From)
		for side := 0; side < 2; side++ {
			side := side
			ops := best.peer(side).Ops
			for oi := len(ops) - 1; oi >= 0; oi-- {
				oi := oi
				op := ops[oi]
				referenced := false
				for _, o := range ops {
					if o.Parent == op.ID && op.ID != 0 {
						referenced = true
					}
				}
				isTarget := side == y && op.ID == m.Route && op.ID != 0
				removable := false
				switch op.Kind {
				case "call", "push", "ucall", "upush":
					removable = !isTarget
				case "group":
					removable = !referenced
				case "left", "right":
					removable = len(op.Plugs) == 0
				case "remove":
					removable = true
				}
				if op.Parent != 0 { // hang the route / group one level higher
					cands = append(cands, func(c *Config) bool {
						p := c.peer(side)
						_, par := p.opByID(p.Ops[oi].Parent)
						p.Ops[oi].Parent = par.Parent
						return true
					})
				}
				if removable {
					cands = append(cands, func(c *Config) bool {
						p := c.peer(side)
						p.Ops = append(p.Ops[:oi], p.Ops[oi+1:]...)
						return true
					})
				}
				for pi := len(op.Plugs) - 1; pi >= 0; pi-- {
					pi := pi
					cands = append(cands, func(c *Config) bool {
						o := &c.peer(side).Ops[oi]
						o.Plugs = append(o.Plugs[:pi], o.Plugs[pi+1:]...)
						return true
					})
				}
			}
		}
		if m.Veto != nil {
			cands = append(cands, func(c *Config) bool { c.Msgs[0].Veto = nil; return true })
		}
		if m.Fault != "" {
			cands = append(cands, func(c *Config) bool { c.Msgs[0].Fault = ""; return true })
		}
		for ai := range m.Also {
			ai := ai
			cands = append(cands, func(c *Config) bool {
				c.Msgs[0].Also = append(c.Msgs[0].Also[:ai:ai], c.Msgs[0].Also[ai+1:]...)
				return true
			})
		}
		for _, f := range cands {
			if budget <= 0 {
				break
			}
			c := cloneConfig(best)
			f(c)
			budget--
			if reproduces(c) {
				best = c
				progress = true
				break
			}
		}
	}
	return best
}

// ---------------------------------------------------------------- main

type discard struct{}

func (discard) Output(calldepth int, msgBytes []byte, loggerLevel erpc.LoggerLevel) {}
func (discard) Flush() error                                                        { return nil }

var shrunk = map[string]bool{}

func runCase(id string, idx int, cfg *Config) {
	desc := map[string]interface{}{"class": cfg.Class, "cfg": idx, "tier": *tier, "seed": *seed}
	core.Begin(id, desc)
	var st caseStats
	viols, inc := runConfig(cfg, &st, true)
	core.Add("evaluations", st.msgs)
	core.Add("configurations", 1)
	core.Add("hooks_recorded", st.hooks)
	core.Add("vetoes_scripted", st.vetoScripted)
	core.Add("vetoes_fired", st.vetoFired)
	core.Add("vetoes_honoured", st.vetoHonoured)
	core.Add("handler_invocations", st.handlerRuns)
	core.Add("prereadheader_hooks_attributed", st.hdrAttributed)
	core.Add("ok_messages_with_unexpected_outcome", st.unexpected)
	if cfg.Class == "late-append" {
		core.Add("configurations_with_late_append", 1)
	}
	core.Sample(map[string]interface{}{"config": cfg, "messages": st.msgs, "hooks_recorded": st.hooks})
	sig := fmt.Sprintf("cfg%d", idx)
	if len(viols) == 0 {
		if inc != "" {
			core.Result(core.R{ID: id, Verdict: core.Inconclusive, What: inc, Sig: sig})
			return
		}
		core.Result(core.R{ID: id, Verdict: core.Held, Sig: sig})
		return
	}
	if inc != "" {
		fmt.Fprintf(os.Stderr, "case %s: stopped early: %s\n", id, inc)
	}
	groups := map[string][]viol{}
	var keys []string
	for _, v := range viols {
		if _, ok := groups[v.fp()]; !ok {
			keys = append(keys, v.fp())
		}
		groups[v.fp()] = append(groups[v.fp()], v)
	}
	sort.Strings(keys)
	for i, k := range keys {
		v := groups[k][0]
		rid := id
		if i > 0 {
			rid = fmt.Sprintf("%s#%d", id, i)
			core.Begin(rid, desc)
		}
		wit := v.witness
		rdesc := map[string]interface{}{"class": cfg.Class, "cfg": idx, "tier": *tier, "seed": *seed}
		one := cloneConfig(cfg)
		one.Msgs = []Msg{*v.msg}
		rdesc["config"] = one
		if !shrunk[k] && *replay == "" {
			shrunk[k] = true
			if small := shrink(cfg, v); small != nil {
				var st2 caseStats
				vs2, _ := runConfig(cloneConfig(small), &st2, false)
				for _, w := range vs2 {
					if w.fp() == k {
						wit = map[string]interface{}{"minimised": w.witness, "minimised_config": small, "original": v.witness}
						rdesc["config"] = small
						v.what = w.what
						break
					}
				}
			}
		}
		core.Result(core.R{ID: rid, Verdict: core.Violated, FP: k,
			What:    fmt.Sprintf("%s (%d observation(s) in this configuration)", v.what, len(groups[k])),
			Witness: wit, Desc: rdesc, Sig: sig})
	}
}

func main() {
	flag.Parse()
	core.Prop = *prop
	wire.RegFilters()
	bed.Init("OFF")
	erpc.SetLoggerOutputter(discard{})
	gates.Install()
	gates.OnHit(onGate)
	selfCheck()

	if *replay != "" {
		b, err := ioutil.ReadFile(*replay)
		if err != nil {
			core.Fatalf("replay: %v", err)
		}
		var f struct {
			Desc struct {
				Config *Config    `json:"config"`
				Redial *RedialCfg `json:"redial"`
				Cfg    int        `json:"cfg"`
			} `json:"desc"`
		}
		if err := json.Unmarshal(b, &f); err != nil || (f.Desc.Config == nil && f.Desc.Redial == nil) {
			core.Fatalf("replay: no configuration in %s (%v)", *replay, err)
		}
		if f.Desc.Redial != nil {
			runRedialCase("replay", f.Desc.Cfg, f.Desc.Redial)
		} else {
			runCase("replay", f.Desc.Cfg, f.Desc.Config)
		}
		core.Finish()
		return
	}

	ncfg, nmsg, nrd := 150, 12, 60
	if *tier == "thorough" {
		ncfg, nmsg, nrd = 5000, 30, 640
		npair = 10
	}
	// scenario class "redial": messages issued while a dialed client session is redialing (real loopback TCP)
	for i := 0; i < nrd; i++ {
		if i%*nbatch != *batch || (*onlyRd >= 0 && i != *onlyRd) || *only >= 0 || *class == "placement" {
			continue
		}
		runRedialCase(fmt.Sprintf("rd%04d", i), i, genRedial(core.NewRand(*seed, int64(i), 909)))
	}
	for i := 0; i < ncfg; i++ {
		if i%*nbatch != *batch || (*only >= 0 && i != *only) || *onlyRd >= 0 || *class == "redial" {
			continue
		}
		cfg := genConfig(core.NewRand(*seed, int64(i), 9), nmsg)
		runCase(fmt.Sprintf("cfg%04d", i), i, cfg)
	}
	core.Finish()
}
