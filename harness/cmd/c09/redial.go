package main

// Scenario class "redial": a client session created by Peer.Dial with RedialTimes != 0 loses its
// connection (loopback TCP through harness/fwd); CALLs / AsyncCalls / PUSHes are issued while the
// session is redialing, so their first write is refused with the connection-closed status and is
// repeated on the redialed connection. The per-message clauses (no (plug-in, stage) twice, stage
// order, registration order, every applicable hook of a message that completed OK was called) are
// applied on the calling side, where the recording plug-ins sit on the global container.

import (
	"fmt"
	"net"
	"os"
	"runtime"
	"sync"
	"sync/atomic"
	"time"

	erpc "github.com/henrylee2cn/erpc/v6"

	"verifharness/bed"
	"verifharness/core"
	"verifharness/fwd"
	"verifharness/protos"
	"verifharness/quiesce"
)

// RedialCfg is one redial case (pure data; replayable).
type RedialCfg struct {
	Class      string   `json:"class"` // "redial"
	Mode       string   `json:"mode"`  // down: the forwarder's port is closed (ECONNREFUSED) until the messages wait; refuse: the next M attempts are accepted and closed at once
	M          int      `json:"m"`
	RST        bool     `json:"rst"`
	Times      int      `json:"redial_times"`
	IntervalMs int      `json:"redial_interval_ms"`
	Ops        []string `json:"ops"` // call | async | push, each from its own goroutine
	Client     PeerSpec `json:"client"`
}

func genRedial(r *core.Rand) *RedialCfg {
	rc := &RedialCfg{Class: "redial", Mode: "down", M: 1 + r.Intn(3), RST: r.Intn(2) == 0, IntervalMs: 1 + r.Intn(5)}
	if r.Intn(3) == 0 {
		rc.Mode = "refuse"
	}
	switch {
	case rc.Mode == "refuse":
		rc.Times = []int{-1, 3, 5, 10}[r.Intn(4)]
	case r.Intn(4) == 0:
		rc.Times, rc.IntervalMs = 10, 5 // a finite budget that may run out before the port is back: those messages are not judged
	default:
		rc.Times = -1
	}
	k := 1
	if r.Intn(2) == 0 {
		k = 4
	}
	for i := 0; i < k; i++ {
		rc.Ops = append(rc.Ops, []string{"call", "async", "push"}[r.Intn(3)])
	}
	n := 0
	plugs := func(max int) []PlugSpec {
		var out []PlugSpec
		for i, k := 0, r.Intn(max+1); i < k; i++ {
			n++
			t := typeDist[r.Intn(len(typeDist))]
			out = append(out, PlugSpec{Name: fmt.Sprintf("c%02d%s", n, t[:1]), Type: t})
		}
		return out
	}
	n++
	rc.Client.Ops = []Op{{Kind: "new", Plugs: append([]PlugSpec{{Name: fmt.Sprintf("c%02da", n), Type: "all"}}, plugs(1)...)}}
	for i, na := 0, r.Intn(3); i < na; i++ {
		k := "right"
		if r.Intn(2) == 0 {
			k = "left"
		}
		rc.Client.Ops = append(rc.Client.Ops, Op{Kind: k, Plugs: plugs(2)})
	}
	return rc
}

// gate hits on the redialing client session
type rdCounters struct {
	sess        erpc.Session
	beforeWrite int64 // asynccall.beforeWrite + push.beforeWrite: a message has passed its pre-write hooks
	afterLock   int64 // redial.afterLock: redialForClient entered (reader rounds and write retries)
	afterCAS    int64 // redial.afterCAS: a redial round actually ran
}

var rdCur atomic.Value // *rdCounters

func rdGate(point string, sess erpc.Session) {
	c, _ := rdCur.Load().(*rdCounters)
	if c == nil || c.sess != sess {
		return
	}
	switch point {
	case "asynccall.beforeWrite", "push.beforeWrite":
		atomic.AddInt64(&c.beforeWrite, 1)
	case "redial.afterLock":
		atomic.AddInt64(&c.afterLock, 1)
	case "redial.afterCAS":
		atomic.AddInt64(&c.afterCAS, 1)
	}
}

type rdOp struct {
	kind string
	mid  string
	stat *erpc.Status
	done chan struct{}
}

type rdStats struct {
	ops, ok, connErr, otherErr, retries, handlerOK, handlerOdd, hooks int64
}

func runRedial(rc *RedialCfg, st *rdStats) (viols []viol, inconclusive string) {
	r := &run{seqMid: map[string]string{}}
	cur.Store(r)
	pf := protos.ByName("raw").Func
	srv := erpc.NewPeer(erpc.PeerConfig{})
	callPath := srv.RouteCallFunc(HC00)
	pushPath := srv.RoutePushFunc(HP00)
	lis, err := net.Listen("tcp4", "127.0.0.1:0")
	if err != nil {
		return nil, "listen: " + err.Error()
	}
	var acc sync.WaitGroup
	acc.Add(1)
	go func() {
		defer acc.Done()
		for {
			c, err := lis.Accept()
			if err != nil {
				return
			}
			go srv.ServeConn(c, pf)
		}
	}()
	fw, err := fwd.New(lis.Addr().String())
	if err != nil {
		lis.Close()
		return nil, "forwarder: " + err.Error()
	}
	cli, _ := r.buildPeerCfg(0, &rc.Client, erpc.PeerConfig{RedialTimes: int32(rc.Times),
		RedialInterval: time.Duration(rc.IntervalMs) * time.Millisecond, DialTimeout: 5 * time.Second})
	r.peers = [2]erpc.Peer{cli, srv}
	defer func() {
		rdCur.Store((*rdCounters)(nil))
		fw.Up()
		cli.Close() // first: an actively closed session does not redial when the connection goes away
		srv.Close()
		lis.Close()
		fw.Close()
		acc.Wait()
	}()
	sess, dst := cli.Dial(fw.Addr(), pf)
	if !dst.OK() {
		return nil, "dial: " + dst.String()
	}
	var res Res
	if s := sess.Call(callPath, &Arg{}, &res, erpc.WithSetMeta("Mid", "warmup")).Status(); !s.OK() {
		return nil, "warm-up call: " + s.String()
	}
	cnt := &rdCounters{sess: sess}
	rdCur.Store(cnt)
	pipe := fw.Current()
	if pipe == nil {
		return nil, "no forwarded connection"
	}

	ops := make([]*rdOp, len(rc.Ops))
	start := make(chan struct{})
	for i, k := range rc.Ops {
		o := &rdOp{kind: k, mid: fmt.Sprintf("r%02d", i), done: make(chan struct{})}
		ops[i] = o
		go func(i int) {
			defer close(o.done)
			<-start
			set := erpc.WithSetMeta("Mid", o.mid)
			switch o.kind {
			case "call":
				var res Res
				o.stat = sess.Call(callPath, &Arg{N: i}, &res, set).Status()
			case "async":
				var res Res
				cmd := sess.AsyncCall(callPath, &Arg{N: i}, &res, make(chan erpc.CallCmd, 1), set)
				<-cmd.Done()
				o.stat = cmd.Status()
			default:
				o.stat = sess.Push(pushPath, &Arg{N: i}, set)
			}
		}(i)
	}
	a0 := fw.Attempts()
	if rc.Mode == "down" {
		if err := fw.Down(); err != nil {
			close(start)
			return nil, "forwarder down: " + err.Error()
		}
	} else {
		fw.Refuse(rc.M, rc.RST)
	}
	pipe.Drop(rc.RST)
	noticed := bed.WaitUntil(watchdog, func() bool { return !sess.Health() || fw.Attempts() > a0 })
	close(start)
	if !noticed {
		fw.Up()
		return nil, "the client session never noticed the dropped connection"
	}
	if rc.Mode == "down" {
		// the messages pass their pre-write hooks and wait for the running redial; then the port comes back
		bed.WaitUntil(5*time.Second, func() bool { return atomic.LoadInt64(&cnt.beforeWrite) >= int64(len(ops)) })
		for i := 0; i < 8; i++ {
			runtime.Gosched()
		}
		if err := fw.Up(); err != nil {
			return nil, "forwarder up: " + err.Error()
		}
	}
	for _, o := range ops {
		select {
		case <-o.done:
		case <-time.After(2 * watchdog):
			return nil, fmt.Sprintf("message %s (%s) did not complete (redial path wedged?)", o.mid, o.kind)
		}
	}
	if q := quiesce.Wait(quiesce.Options{Samples: 5, Interval: 40 * time.Millisecond, Timeout: 5 * time.Second, Self: "main.runRedial"}); !q.Quiescent && *dump {
		for _, g := range q.Dump {
			if g.State == "running" || g.State == "runnable" || g.State == "sleep" || g.State == "syscall" {
				fmt.Fprintf(os.Stderr, "ACTIVE %s\n", quiesce.Brief([]quiesce.G{g}))
			}
		}
	}

	st.retries += atomic.LoadInt64(&cnt.afterLock) - atomic.LoadInt64(&cnt.afterCAS)
	retried := atomic.LoadInt64(&cnt.afterLock) > atomic.LoadInt64(&cnt.afterCAS)
	gx, _ := chain(&rc.Client, 0)
	r.mu.Lock()
	trace := append([]entry(nil), r.trace...)
	r.mu.Unlock()
	st.hooks += int64(len(trace))
	for _, o := range ops {
		st.ops++
		kind := "call"
		if o.kind == "push" {
			kind = "push"
		}
		ok := o.stat.OK()
		switch {
		case ok:
			st.ok++
		case erpc.IsConnError(o.stat) || o.stat.Code() == erpc.CodeWriteFailed:
			st.connErr++
		default:
			st.otherErr++
		}
		var ents []aent
		handlerRuns := 0
		for _, e := range trace {
			if e.Mid != o.mid || e.Stage == sPreReadHeader {
				continue
			}
			if e.Stage == sHandler {
				handlerRuns++
				continue
			}
			if e.Side == 0 {
				ents = append(ents, aent{e, stageKind(e.Stage)})
			}
		}
		if ok && kind == "call" {
			if handlerRuns == 1 {
				st.handlerOK++
			} else {
				st.handlerOdd++
			}
		}
		m := &Msg{ID: o.mid, From: "A", Kind: kind}
		ck := &checker{cfg: &Config{A: rc.Client}, m: m, ents: ents, classOverride: "redial-retry"}
		ck.wit = func() map[string]interface{} {
			var rec []string
			for _, e := range ents {
				rec = append(rec, fmt.Sprintf("%s %s (seq %d)", stageName[e.Stage], e.Plug, e.Seq))
			}
			status := "OK"
			if o.stat != nil {
				status = o.stat.String()
			}
			return map[string]interface{}{"operation": o.kind, "message": o.mid, "caller_status": status, "handler_invocations": handlerRuns,
				"client_global_chain": names(gx), "recorded_on_client": rec, "forwarder": fw.Records(),
				"redialForClient_entries": atomic.LoadInt64(&cnt.afterLock), "redial_rounds": atomic.LoadInt64(&cnt.afterCAS)}
		}
		// a message that failed (redial budget exhausted, connection lost again) is judged for duplicates and order only
		if kind == "call" {
			ck.stage(0, "call", sPreWriteCall, gx, gx, ok)
			ck.stage(0, "call", sPostWriteCall, gx, gx, ok)
			ck.stage(0, "reply", sPostReadReplyHeader, gx, gx, ok)
			ck.stage(0, "reply", sPreReadReplyBody, gx, gx, ok)
			ck.stage(0, "reply", sPostReadReplyBody, gx, gx, ok)
		} else {
			ck.stage(0, "push", sPreWritePush, gx, gx, ok)
			ck.stage(0, "push", sPostWritePush, gx, gx, ok)
		}
		ck.stageOrder(0, func(int, string) string { return "redial-retry" })
		viols = append(viols, ck.viols...)
		if ok && retried {
			core.Distinct("nontrivial", fmt.Sprintf("redial-retry/%s/%s/completed-ok-after-write-retry", kind, rc.Mode))
		}
	}
	return viols, ""
}

func runRedialCase(id string, idx int, rc *RedialCfg) {
	desc := map[string]interface{}{"class": "redial", "cfg": idx, "tier": *tier, "seed": *seed, "redial": rc}
	core.Begin(id, desc)
	var st rdStats
	viols, inc := runRedial(rc, &st)
	core.Add("evaluations", st.ops)
	core.Add("redial_cases", 1)
	core.Add("redial_messages", st.ops)
	core.Add("redial_messages_ok", st.ok)
	core.Add("redial_messages_connection_error_not_judged_for_missing_hooks", st.connErr)
	core.Add("redial_messages_other_error", st.otherErr)
	core.Add("redial_write_retries_observed", st.retries)
	core.Add("redial_ok_calls_handler_ran_once", st.handlerOK)
	core.Add("redial_ok_calls_handler_count_not_one", st.handlerOdd)
	core.Add("hooks_recorded", st.hooks)
	sig := fmt.Sprintf("rd%d", idx)
	if len(viols) == 0 {
		if inc != "" {
			core.Add("redial_cases_inconclusive", 1)
			core.Result(core.R{ID: id, Verdict: core.Inconclusive, What: inc, Sig: sig})
			return
		}
		core.Result(core.R{ID: id, Verdict: core.Held, Sig: sig})
		return
	}
	seen := map[string]bool{}
	n := 0
	for _, v := range viols {
		if seen[v.fp()] {
			continue
		}
		seen[v.fp()] = true
		rid := id
		if n > 0 {
			rid = fmt.Sprintf("%s#%d", id, n)
			core.Begin(rid, desc)
		}
		n++
		core.Result(core.R{ID: rid, Verdict: core.Violated, FP: v.fp(), What: fmt.Sprintf("[%s, %s] %s", rc.Mode, v.witness["operation"], v.what),
			Witness: v.witness, Desc: desc, Sig: sig})
	}
}
