package main

import (
	"bytes"
	"fmt"
	"reflect"
	"strings"
)

// deq is reflect.DeepEqual with NaN == NaN, optional nil == empty, and a path to the first difference.
func deq(a, b reflect.Value, o eqOpts) (bool, string) {
	if a.Type() != b.Type() {
		return false, fmt.Sprintf("(type %s vs %s)", a.Type(), b.Type())
	}
	switch a.Kind() {
	case reflect.Bool:
		return a.Bool() == b.Bool(), ""
	case reflect.Int, reflect.Int8, reflect.Int16, reflect.Int32, reflect.Int64:
		return a.Int() == b.Int(), ""
	case reflect.Uint, reflect.Uint8, reflect.Uint16, reflect.Uint32, reflect.Uint64, reflect.Uintptr:
		return a.Uint() == b.Uint(), ""
	case reflect.Float32, reflect.Float64:
		x, y := a.Float(), b.Float()
		return x == y || (x != x && y != y), ""
	case reflect.String:
		return a.String() == b.String(), ""
	case reflect.Ptr, reflect.Interface:
		if a.IsNil() || b.IsNil() {
			return a.IsNil() == b.IsNil(), "(nil vs non-nil)"
		}
		ok, p := deq(a.Elem(), b.Elem(), o)
		return ok, "*" + p
	case reflect.Slice:
		if a.IsNil() != b.IsNil() && !(o.nilEmpty && a.Len() == 0 && b.Len() == 0) {
			return false, "(nil vs empty)"
		}
		fallthrough
	case reflect.Array:
		if a.Len() != b.Len() {
			return false, fmt.Sprintf("(len %d vs %d)", a.Len(), b.Len())
		}
		if a.Kind() == reflect.Slice && a.Type().Elem().Kind() == reflect.Uint8 && bytes.Equal(a.Bytes(), b.Bytes()) {
			return true, ""
		}
		for i := 0; i < a.Len(); i++ {
			if ok, p := deq(a.Index(i), b.Index(i), o); !ok {
				return false, fmt.Sprintf("[%d]%s", i, p)
			}
		}
		return true, ""
	case reflect.Map:
		if a.IsNil() != b.IsNil() && !(o.nilEmpty && a.Len() == 0 && b.Len() == 0) {
			return false, "(nil vs empty)"
		}
		if a.Len() != b.Len() {
			return false, fmt.Sprintf("(len %d vs %d)", a.Len(), b.Len())
		}
		it := a.MapRange()
		for it.Next() {
			bv := b.MapIndex(it.Key())
			if !bv.IsValid() {
				return false, fmt.Sprintf("[%q](missing)", fmt.Sprint(it.Key()))
			}
			if ok, p := deq(it.Value(), bv, o); !ok {
				return false, fmt.Sprintf("[%q]%s", fmt.Sprint(it.Key()), p)
			}
		}
		return true, ""
	case reflect.Struct:
		t := a.Type()
		for i := 0; i < t.NumField(); i++ {
			f := t.Field(i)
			if f.PkgPath != "" || (o.skipXXX && strings.HasPrefix(f.Name, "XXX_")) {
				continue
			}
			if ok, p := deq(a.Field(i), b.Field(i), o); !ok {
				return false, "." + f.Name + p
			}
		}
		return true, ""
	}
	return true, "" // func, chan, ...: not generated
}

func flatKind(k reflect.Kind) bool {
	switch k {
	case reflect.Bool, reflect.String, reflect.Float32, reflect.Float64,
		reflect.Int, reflect.Int8, reflect.Int16, reflect.Int32, reflect.Int64,
		reflect.Uint, reflect.Uint8, reflect.Uint16, reflect.Uint32, reflect.Uint64:
		return true
	}
	return false
}

// clone deep-copies v (exported fields); rev reverses every slice and array on the way.
func clone(v reflect.Value, rev bool) reflect.Value {
	out := reflect.New(v.Type()).Elem()
	switch v.Kind() {
	case reflect.Ptr:
		if !v.IsNil() {
			p := reflect.New(v.Type().Elem())
			p.Elem().Set(clone(v.Elem(), rev))
			out.Set(p)
		}
	case reflect.Interface:
		if !v.IsNil() {
			out.Set(clone(v.Elem(), rev))
		}
	case reflect.Slice:
		if !v.IsNil() {
			n := v.Len()
			s := reflect.MakeSlice(v.Type(), n, n)
			if flatKind(v.Type().Elem().Kind()) {
				reflect.Copy(s, v)
				if rev {
					sw := reflect.Swapper(s.Interface())
					for i, j := 0, n-1; i < j; i, j = i+1, j-1 {
						sw(i, j)
					}
				}
				out.Set(s)
				break
			}
			for i := 0; i < n; i++ {
				j := i
				if rev {
					j = n - 1 - i
				}
				s.Index(j).Set(clone(v.Index(i), rev))
			}
			out.Set(s)
		}
	case reflect.Array:
		n := v.Len()
		for i := 0; i < n; i++ {
			j := i
			if rev {
				j = n - 1 - i
			}
			out.Index(j).Set(clone(v.Index(i), rev))
		}
	case reflect.Map:
		if !v.IsNil() {
			m := reflect.MakeMapWithSize(v.Type(), v.Len())
			it := v.MapRange()
			for it.Next() {
				m.SetMapIndex(clone(it.Key(), false), clone(it.Value(), rev))
			}
			out.Set(m)
		}
	case reflect.Struct:
		t := v.Type()
		for i := 0; i < t.NumField(); i++ {
			if t.Field(i).PkgPath != "" {
				continue
			}
			out.Field(i).Set(clone(v.Field(i), rev))
		}
	default:
		out.Set(v)
	}
	return out
}

// shrink minimises the addressable value v while test() keeps returning true.
// Every accepted step strictly simplifies the value, so it terminates; budget bounds the tests.
func shrink(v reflect.Value, test func() bool, budget *int) {
	try := func(apply, undo func()) bool {
		if *budget <= 0 {
			return false
		}
		*budget--
		apply()
		if test() {
			return true
		}
		undo()
		return false
	}
	isZero := func(x reflect.Value) bool { return x.IsZero() }
	switch v.Kind() {
	case reflect.Struct:
		t := v.Type()
		for i := 0; i < t.NumField(); i++ {
			if t.Field(i).PkgPath != "" || !v.Field(i).CanSet() {
				continue
			}
			f := v.Field(i)
			if isZero(f) {
				continue
			}
			save := clone(f, false)
			if try(func() { f.Set(reflect.Zero(f.Type())) }, func() { f.Set(save) }) {
				continue
			}
			shrink(f, test, budget)
		}
	case reflect.Ptr:
		if v.IsNil() {
			return
		}
		shrink(v.Elem(), test, budget)
	case reflect.Slice:
		for v.Len() > 0 { // drop from the end
			save := v.Slice(0, v.Len())
			if !try(func() { v.Set(save.Slice(0, save.Len()-1)) }, func() { v.Set(save) }) {
				break
			}
		}
		for v.Len() > 0 { // drop from the front
			save := v.Slice(0, v.Len())
			if !try(func() { v.Set(save.Slice(1, save.Len())) }, func() { v.Set(save) }) {
				break
			}
		}
		if v.Type().Elem().Kind() == reflect.Uint8 {
			return
		}
		for i := 0; i < v.Len(); i++ {
			shrink(v.Index(i), test, budget)
		}
	case reflect.Array:
		for i := 0; i < v.Len(); i++ {
			e := v.Index(i)
			if isZero(e) {
				continue
			}
			save := clone(e, false)
			if try(func() { e.Set(reflect.Zero(e.Type())) }, func() { e.Set(save) }) {
				continue
			}
			shrink(e, test, budget)
		}
	case reflect.Map:
		for _, k := range v.MapKeys() {
			val := v.MapIndex(k)
			if try(func() { v.SetMapIndex(k, reflect.Value{}) }, func() { v.SetMapIndex(k, val) }) {
				continue
			}
			// shrink a copy of the element and store it back
			e := clone(val, false)
			inner := func() bool { v.SetMapIndex(k, e); return test() }
			shrink(e, inner, budget)
			v.SetMapIndex(k, e)
		}
	case reflect.String:
		for v.Len() > 1 {
			s := v.String()
			h := len(s) / 2
			if try(func() { v.SetString(s[:h]) }, func() { v.SetString(s) }) {
				continue
			}
			if try(func() { v.SetString(s[h:]) }, func() { v.SetString(s) }) {
				continue
			}
			break
		}
	case reflect.Int, reflect.Int8, reflect.Int16, reflect.Int32, reflect.Int64:
		x := v.Int()
		for _, c := range []int64{1, 2, 3} {
			if x == c || try(func() { v.SetInt(c) }, func() { v.SetInt(x) }) {
				break
			}
		}
	case reflect.Uint, reflect.Uint8, reflect.Uint16, reflect.Uint32, reflect.Uint64:
		x := v.Uint()
		for _, c := range []uint64{1, 2, 3} {
			if x == c || try(func() { v.SetUint(c) }, func() { v.SetUint(x) }) {
				break
			}
		}
	}
}

// shrinkBytes is a small delta debugger over an input byte string: ranges of halving sizes are
// removed while test keeps holding; ranges of 4 and fewer bytes are tried at every offset.
func shrinkBytes(in []byte, test func([]byte) bool, budget int) []byte {
	cur := append([]byte(nil), in...)
	var sizes []int
	for c := (len(cur) + 1) / 2; c > 4; c /= 2 {
		sizes = append(sizes, c)
	}
	sizes = append(sizes, 4, 3, 2, 1)
	for again := true; again && budget > 0; {
		again = false
		for _, chunk := range sizes {
			for off := 0; off+chunk <= len(cur) && budget > 0; {
				cand := append(append([]byte(nil), cur[:off]...), cur[off+chunk:]...)
				budget--
				if test(cand) {
					cur = cand
					again = true
				} else if chunk <= 4 {
					off++
				} else {
					off += chunk
				}
			}
		}
	}
	return cur
}
