package main

import (
	"bytes"
	"encoding/json"
	"encoding/xml"
	"fmt"
	"math"
	"net/url"
	"reflect"
	"strconv"
	"strings"

	"verifharness/core"
)

// Numeric boundary probes for the text codecs. A number is written as text into a document
// addressing one integer / float leaf of a destination (struct field, tagged field, slice or
// array element, nested struct field, named type, pointer), for every kind and width.
//
//	form, plain  parse numbers themselves. Independent oracle: strconv.ParseInt / ParseUint /
//	             ParseFloat of the same text with the leaf's exact bit size (base 10). The decode
//	             may always fail; when it SUCCEEDS the leaf must hold exactly the value the text
//	             denotes: success on a text the oracle calls out of range (silent truncation / wrap /
//	             overflow to Inf) or malformed, or with another value (double rounding), is a violation.
//	json, xml    parse through the standard library: differential against encoding/json /
//	             encoding/xml on the same bytes and an identical destination.
//
// The probe table is enumerated exhaustively (context x kind x text class); evaluations beyond
// the table draw random digit strings around the boundaries.

var numKinds = []reflect.Kind{reflect.Int8, reflect.Int16, reflect.Int32, reflect.Int64, reflect.Int,
	reflect.Uint8, reflect.Uint16, reflect.Uint32, reflect.Uint64, reflect.Uint, reflect.Float32, reflect.Float64}

type NumSlices struct {
	I8  []int8
	I16 []int16
	I32 []int32
	I64 []int64
	I   []int
	U8  []uint8
	U16 []uint16
	U32 []uint32
	U64 []uint64
	U   []uint
	F32 []float32
	F64 []float64
}
type NumArrays struct {
	I8  [2]int8
	I16 [2]int16
	I32 [2]int32
	I64 [2]int64
	I   [2]int
	U8  [2]uint8
	U16 [2]uint16
	U32 [2]uint32
	U64 [2]uint64
	U   [2]uint
	F32 [2]float32
	F64 [2]float64
}
type NumNested struct {
	Pre string
	In  Scalars
}
type NumPtrs struct {
	I8  *int8
	I16 *int16
	I32 *int32
	I64 *int64
	I   *int
	U8  *uint8
	U16 *uint16
	U32 *uint32
	U64 *uint64
	U   *uint
	F32 *float32
	F64 *float64
}
type NumNamed struct {
	I8  NInt8
	U16 NUint16
	I64 NInt64
	F32 NFloat32
	F64 NFloat64
}

type numCtx struct {
	name string // field | tagged | named | elem-slice | elem-array | nested | ptr | value | ptr-ptr
	typ  reflect.Type
}

func numContexts(codecName string) []numCtx {
	t := func(v interface{}) reflect.Type { return reflect.TypeOf(v) }
	switch codecName {
	case "form":
		return []numCtx{{"field", t(Scalars{})}, {"tagged", t(FTagged{})}, {"named", t(NumNamed{})},
			{"elem-slice", t(NumSlices{})}, {"elem-array", t(NumArrays{})}, {"nested", t(NumNested{})}}
	case "plain":
		return []numCtx{{"value", nil}, {"named", nil}, {"ptr-ptr", nil}}
	case "json":
		return []numCtx{{"field", t(Scalars{})}, {"named", t(NumNamed{})}, {"elem-slice", t(NumSlices{})},
			{"elem-array", t(NumArrays{})}, {"nested", t(NumNested{})}, {"ptr", t(NumPtrs{})}}
	case "xml":
		return []numCtx{{"field", t(Scalars{})}, {"named", t(NumNamed{})}, {"elem-slice", t(NumSlices{})},
			{"nested", t(NumNested{})}, {"ptr", t(NumPtrs{})}}
	}
	return nil
}

var plainNamed = map[reflect.Kind]reflect.Type{
	reflect.Int8: reflect.TypeOf(NInt8(0)), reflect.Uint16: reflect.TypeOf(NUint16(0)), reflect.Int64: reflect.TypeOf(NInt64(0)),
	reflect.Float32: reflect.TypeOf(NFloat32(0)), reflect.Float64: reflect.TypeOf(NFloat64(0)),
}

var plainTypes = map[reflect.Kind]reflect.Type{
	reflect.Int8: reflect.TypeOf(int8(0)), reflect.Int16: reflect.TypeOf(int16(0)), reflect.Int32: reflect.TypeOf(int32(0)),
	reflect.Int64: reflect.TypeOf(int64(0)), reflect.Int: reflect.TypeOf(int(0)),
	reflect.Uint8: reflect.TypeOf(uint8(0)), reflect.Uint16: reflect.TypeOf(uint16(0)), reflect.Uint32: reflect.TypeOf(uint32(0)),
	reflect.Uint64: reflect.TypeOf(uint64(0)), reflect.Uint: reflect.TypeOf(uint(0)),
	reflect.Float32: reflect.TypeOf(float32(0)), reflect.Float64: reflect.TypeOf(float64(0)),
}

func kindBits(k reflect.Kind) int {
	switch k {
	case reflect.Int8, reflect.Uint8:
		return 8
	case reflect.Int16, reflect.Uint16:
		return 16
	case reflect.Int32, reflect.Uint32, reflect.Float32:
		return 32
	}
	return 64
}

func isSigned(k reflect.Kind) bool { return k >= reflect.Int && k <= reflect.Int64 }
func isFloat(k reflect.Kind) bool  { return k == reflect.Float32 || k == reflect.Float64 }

type numText struct{ label, text string }

// numTexts lists the labelled boundary texts for a kind.
func numTexts(k reflect.Kind) []numText {
	w := uint(kindBits(k))
	var out []numText
	add := func(l, t string) { out = append(out, numText{l, t}) }
	if isFloat(k) {
		max, above, tiny, under := "340282346638528859811704183484516925440", "3.5e38", "1e-45", "1e-60"
		if w == 64 {
			max, above, tiny, under = "1.7976931348623157e308", "1.8e308", "5e-324", "1e-400"
		}
		add("max", max)
		add("-max", "-"+max)
		add("above-max", above)
		add("-above-max", "-"+above)
		add("far-above-max", "1e400")
		add("tiny", tiny)
		add("underflow", under)
		// above the midpoint between two float32 by less than half a float64 ulp: parsing as float64
		// and converting rounds twice
		add("double-rounding", "1.00000005960464477539062500001")
		add("2^24+1", "16777217")
		add("2^53+1", "9007199254740993")
		add("zero", "0")
		add("minus-zero", "-0")
		add("plus", "+1.5")
		add("leading-zeros", "0001.50")
		add("frac-only", ".5")
		add("trailing-dot", "5.")
		add("exp", "1e2")
		add("exp-upper-plus", "1E+2")
		add("dangling-exp", "1e")
		add("hex-float", "0x1p-2")
		add("hex-int", "0x10")
		add("inf", "Inf")
		add("-inf", "-Infinity")
		add("nan", "NaN")
		add("underscore", "1_000")
		add("two-dots", "1.2.3")
		add("comma", "1,5")
		add("empty", "")
		add("space-lead", " 1.5")
		add("space-trail", "1.5 ")
		add("newline-trail", "1.5\n")
		add("only-sign", "-")
		add("text", "abc")
		add("arabic-digits", "١٢٣")
		return out
	}
	pow := func(e uint) string { // 2^e as decimal text
		if e < 64 {
			return strconv.FormatUint(1<<e, 10)
		}
		return "18446744073709551616"
	}
	if isSigned(k) {
		min := strconv.FormatInt(-1<<(w-1), 10)
		max := strconv.FormatInt(1<<(w-1)-1, 10)
		add("min", min)
		add("max", max)
		add("min-1", decAdd(min, -1))
		add("max+1", decAdd(max, 1))
		add("+max", "+"+max)
		add("leading-zeros-max", "000"+max)
		add("-leading-zeros-min", "-000"+min[1:])
		add("-1", "-1")
	} else {
		max := strconv.FormatUint(math.MaxUint64>>(64-w), 10)
		add("min", "0")
		add("max", max)
		add("max+1", decAdd(max, 1))
		add("+max", "+"+max)
		add("leading-zeros-max", "000"+max)
		add("-1", "-1")
		add("-max", "-"+max)
		add("minus-zero", "-0")
	}
	add("2^w", pow(w))
	add("2^w+1", decAdd(pow(w), 1))
	add("2^w+255", decAdd(pow(w), 255))
	add("-2^w", "-"+pow(w))
	add("2^32", pow(32))
	add("2^63", pow(63))
	add("2^64", pow(64))
	add("2^64+1", decAdd(pow(64), 1))
	add("-2^64", "-"+pow(64))
	add("10^30", "1"+strings.Repeat("0", 30))
	add("zero", "0")
	add("plus", "+5")
	add("leading-zeros", "007")
	add("plus-minus", "+-5")
	add("empty", "")
	add("space-lead", " 5")
	add("space-trail", "5 ")
	add("tab-lead", "\t5")
	add("newline-trail", "5\n")
	add("hex", "0x10")
	add("hex-upper", "0X1F")
	add("octal-o", "0o17")
	add("binary", "0b101")
	add("exp", "1e2")
	add("frac-zero", "5.0")
	add("frac", "5.5")
	add("underscore", "1_000")
	add("comma", "1,000")
	add("only-sign", "-")
	add("text", "abc")
	add("true", "true")
	add("arabic-digits", "١٢٣")
	add("fullwidth-digits", "１２３")
	add("nul-trail", "5\x00")
	return out
}

// decAdd adds a small integer to a decimal text (no big-number package needed for +-1 / +255).
func decAdd(dec string, d int) string {
	neg := strings.HasPrefix(dec, "-")
	digits := strings.TrimPrefix(dec, "-")
	if neg {
		d = -d
	}
	// |dec| + d with d possibly negative, |dec| >= |d| in every use
	b := []byte(digits)
	carry := d
	for i := len(b) - 1; i >= 0 && carry != 0; i-- {
		v := int(b[i]-'0') + carry
		carry = 0
		for v < 0 {
			v += 10
			carry--
		}
		carry += v / 10
		b[i] = byte('0' + v%10)
	}
	s := string(b)
	if carry > 0 {
		s = strconv.Itoa(carry) + s
	}
	if neg {
		s = "-" + s
	}
	return s
}

type numProbe struct {
	ctx   numCtx
	kind  reflect.Kind
	label string
	text  string
}

var numTables = map[string][]numProbe{}

func numTable(codecName string) []numProbe {
	if t, ok := numTables[codecName]; ok {
		return t
	}
	var out []numProbe
	for _, c := range numContexts(codecName) {
		for _, k := range numKinds {
			if c.typ != nil {
				if _, ok := findLeaf(c.typ, k); !ok {
					continue
				}
			} else if c.name == "named" && plainNamed[k] == nil {
				continue
			}
			for _, t := range numTexts(k) {
				out = append(out, numProbe{c, k, t.label, t.text})
			}
		}
	}
	numTables[codecName] = out
	return out
}

// findLeaf returns the index path to the first field of t whose (element / pointee) kind is k.
func findLeaf(t reflect.Type, k reflect.Kind) ([]int, bool) {
	for i := 0; i < t.NumField(); i++ {
		ft := t.Field(i).Type
		switch ft.Kind() {
		case reflect.Slice, reflect.Array, reflect.Ptr:
			if ft.Elem().Kind() == k {
				return []int{i}, true
			}
		case reflect.Struct:
			if p, ok := findLeaf(ft, k); ok {
				return append([]int{i}, p...), true
			}
		default:
			if ft.Kind() == k {
				return []int{i}, true
			}
		}
	}
	return nil, false
}

var holders = map[reflect.Type]reflect.Type{}

// guarded returns an addressable zero T between canary words and the canary check.
func guarded(t reflect.Type) (reflect.Value, func() string) {
	ht := holders[t]
	if ht == nil {
		c := reflect.TypeOf([4]uint64{})
		ht = reflect.StructOf([]reflect.StructField{{Name: "Pre", Type: c}, {Name: "V", Type: t}, {Name: "Post", Type: c}})
		holders[t] = ht
	}
	h := reflect.New(ht).Elem()
	for i := 0; i < 4; i++ {
		h.Field(0).Index(i).SetUint(canaryWord)
		h.Field(2).Index(i).SetUint(canaryWord)
	}
	return h.Field(1), func() string {
		for i := 0; i < 4; i++ {
			if h.Field(0).Index(i).Uint() != canaryWord || h.Field(2).Index(i).Uint() != canaryWord {
				return fmt.Sprintf("canary word %d next to the destination changed", i)
			}
		}
		return ""
	}
}

func randomNumText(r *core.Rand) string {
	n := 1 + r.Intn(22)
	if r.Intn(3) == 0 { // around the widths' digit counts
		n = []int{3, 5, 10, 19, 20}[r.Intn(5)]
	}
	b := make([]byte, n)
	for i := range b {
		b[i] = byte('0' + r.Intn(10))
	}
	if r.Intn(4) == 0 {
		copy(b, []string{"128", "256", "32768", "65536", "2147483648", "4294967296", "9223372036854775808", "18446744073709551616", "340282350", "17976931348"}[r.Intn(10)])
	}
	s := string(b)
	switch r.Intn(8) {
	case 0:
		s = "-" + s
	case 1:
		s = "+" + s
	case 2:
		s = s + "." + strconv.Itoa(r.Intn(1000))
	case 3:
		s = s[:1] + "." + s[1:] + "e" + strconv.Itoa(r.Intn(400))
	case 4:
		s = "-" + s[:1] + "e" + strconv.Itoa(r.Intn(400))
	}
	return s
}

// numericEval runs probe number k of the codec's table (or a random one beyond the table).
func numericEval(s *spec, k int, r *core.Rand) (pr numProbe, f *failure) {
	tab := numTable(s.codec)
	if k < len(tab) {
		pr = tab[k]
	} else {
		pr = tab[r.Intn(len(tab))]
		pr.label, pr.text = "random", randomNumText(r)
	}
	return pr, numericProbe(s, pr)
}

func numericProbe(s *spec, pr numProbe) *failure {
	tclass := "num-" + pr.ctx.name + "-" + pr.kind.String()
	var doc []byte
	var dst reflect.Value // addressable destination of the decode
	var check func() string
	var leaf func() reflect.Value
	pos := 0 // element position of the probe
	switch s.codec {
	case "plain":
		kt := plainTypes[pr.kind]
		if pr.ctx.name == "named" {
			kt = plainNamed[pr.kind]
		}
		doc = []byte(pr.text)
		if pr.ctx.name == "ptr-ptr" {
			dst, check = guarded(reflect.PtrTo(kt))
			dst.Set(reflect.New(kt))
			leaf = func() reflect.Value { return dst.Elem() }
		} else {
			dst, check = guarded(kt)
			leaf = func() reflect.Value { return dst }
		}
	default:
		path, _ := findLeaf(pr.ctx.typ, pr.kind)
		dst, check = guarded(pr.ctx.typ)
		ft := pr.ctx.typ
		var names []string
		for _, i := range path {
			sf := ft.Field(i)
			name := sf.Name
			if tag := sf.Tag.Get("form"); tag != "" && s.codec == "form" {
				name = tag
			}
			names = append(names, name)
			ft = sf.Type
		}
		elems := 1
		switch ft.Kind() {
		case reflect.Slice:
			elems, pos = 2, 1
		case reflect.Array:
			elems, pos = ft.Len(), 0
		}
		leaf = func() reflect.Value {
			v := dst.FieldByIndex(path)
			switch v.Kind() {
			case reflect.Slice, reflect.Array:
				if v.Len() <= pos {
					return reflect.Value{}
				}
				return v.Index(pos)
			case reflect.Ptr:
				if v.IsNil() {
					return reflect.Value{}
				}
				return v.Elem()
			}
			return v
		}
		vals := make([]string, elems)
		for i := range vals {
			vals[i] = "1"
		}
		vals[pos] = pr.text
		switch s.codec {
		case "form":
			var parts []string
			for _, v := range vals {
				parts = append(parts, url.QueryEscape(names[len(names)-1])+"="+url.QueryEscape(v))
			}
			doc = []byte(strings.Join(parts, "&"))
		case "json":
			body := vals[0]
			if ft.Kind() == reflect.Slice || ft.Kind() == reflect.Array {
				body = "[" + strings.Join(vals, ",") + "]"
			}
			for i := len(names) - 1; i >= 0; i-- {
				body = fmt.Sprintf("{%q:%s}", names[i], body)
			}
			doc = []byte(body)
		case "xml":
			var sb strings.Builder
			sb.WriteString("<" + pr.ctx.typ.Name() + ">")
			for _, n := range names[:len(names)-1] {
				sb.WriteString("<" + n + ">")
			}
			for _, v := range vals {
				sb.WriteString("<" + names[len(names)-1] + ">")
				xml.EscapeText(&sb, []byte(v))
				sb.WriteString("</" + names[len(names)-1] + ">")
			}
			for i := len(names) - 2; i >= 0; i-- {
				sb.WriteString("</" + names[i] + ">")
			}
			sb.WriteString("</" + pr.ctx.typ.Name() + ">")
			doc = []byte(sb.String())
		}
	}
	keep := append([]byte(nil), doc...)
	w := map[string]interface{}{"text": fmt.Sprintf("%q", pr.text), "text_class": pr.label, "document": showBytes(keep),
		"dest_type": dst.Addr().Type().String(), "leaf_kind": pr.kind.String(), "context": pr.ctx.name}
	fail := func(sym, what string) *failure { return &failure{symptom: sym, what: what, witness: w, tclass: tclass} }
	err, pn := safely(func() error { return s.cd.Unmarshal(doc, dst.Addr().Interface()) })
	if pn != nil {
		w["panic"], w["where"] = pn.msg, pn.where
		return fail("panic:"+pn.class, fmt.Sprintf("Unmarshal(%q, %s) panicked: %s at %s", trunc(keep, 80), w["dest_type"], pn.msg, pn.where))
	}
	if c := check(); c != "" {
		return fail("canary", "Unmarshal wrote outside the destination: "+c)
	}
	if !bytes.Equal(doc, keep) {
		return fail("input-modified", "Unmarshal changed its input buffer")
	}
	if s.codec == "json" || s.codec == "xml" {
		ref := reflect.New(dst.Type())
		var lerr error
		if s.codec == "json" {
			lerr = json.Unmarshal(keep, ref.Interface())
		} else {
			lerr = xml.Unmarshal(keep, ref.Interface())
		}
		w["stdlib_error"], w["codec_error"] = fmt.Sprint(lerr), fmt.Sprint(err)
		if (lerr != nil) != (err != nil) {
			return fail("differs-from-stdlib", fmt.Sprintf("%s: codec error %v, standard library error %v", pr.text, err, lerr))
		}
		if ok, path := deq(ref.Elem(), dst, eqOpts{}); !ok {
			w["decoded"], w["stdlib_decoded"] = show(dst.Interface()), show(ref.Elem().Interface())
			return fail("differs-from-stdlib", fmt.Sprintf("number text %q: result differs from the standard library's at %s", pr.text, path))
		}
		return nil
	}
	if err != nil {
		return nil // refused: always clean
	}
	// success: the leaf must hold exactly what the text denotes
	lv := leaf()
	if !lv.IsValid() {
		w["decoded"] = show(dst.Interface())
		return fail("wrong-value", fmt.Sprintf("number text %q accepted but the addressed element was not stored", pr.text))
	}
	bits := kindBits(pr.kind)
	var oerr error
	same := false
	var denoted interface{}
	switch {
	case isFloat(pr.kind):
		var o float64
		o, oerr = strconv.ParseFloat(pr.text, bits)
		g := lv.Float()
		same, denoted = o == g || (o != o && g != g), o
	case isSigned(pr.kind):
		var o int64
		o, oerr = strconv.ParseInt(pr.text, 10, bits)
		same, denoted = o == lv.Int(), o
	default:
		var o uint64
		o, oerr = strconv.ParseUint(pr.text, 10, bits)
		same, denoted = o == lv.Uint(), o
	}
	w["stored"] = fmt.Sprint(lv.Interface())
	if oerr == nil {
		if same {
			return nil
		}
		w["denoted"] = fmt.Sprint(denoted)
		return fail("wrong-value", fmt.Sprintf("number text %q decoded into %s as %v, it denotes %v", pr.text, pr.kind, lv.Interface(), denoted))
	}
	w["oracle"] = oerr.Error()
	if ne, ok := oerr.(*strconv.NumError); ok && ne.Err == strconv.ErrRange {
		return fail("out-of-range-accepted", fmt.Sprintf("number text %q is not representable in %s (%v) but was accepted and stored as %v", pr.text, pr.kind, oerr, lv.Interface()))
	}
	if s.codec == "form" && pr.text == "" && lv.IsZero() {
		// the form codec reads a blank field as zero on purpose (val == "" -> "0")
		core.Add("form_blank_number_read_as_zero", 1)
		return nil
	}
	return fail("malformed-accepted", fmt.Sprintf("text %q is not a decimal number (%v) but was accepted into %s as %v", pr.text, oerr, pr.kind, lv.Interface()))
}
