package main

import (
	"bytes"
	"encoding/json"
	"encoding/xml"
	"fmt"
	"reflect"

	"github.com/henrylee2cn/erpc/v6/socket"

	"verifharness/core"
)

// Used receivers: the value is decoded a second time into a destination that already holds
// another generated value of the same type (a caller reusing its result variable, a pre-filled
// struct). What the result must be is what the codec's underlying decoder documents:
//
//	protobuf  proto.Unmarshal resets the message first            -> exactly the encoded value
//	thrift    Read assigns every field present in the encoding;   -> exactly the encoded value
//	          ThriftEmpty / TStruct always write all their fields
//	plain     the destination is assigned                         -> exactly the encoded value
//	form      a struct field is assigned when its key is present; -> the encoded value, except that
//	          empty slices have no urlencoded representation         empty slices keep the receiver's;
//	          url.Values / map destinations are replaced             maps exactly
//	json,xml  encoding/json and encoding/xml MERGE into a non-    -> whatever the standard library
//	          empty destination by design                            itself yields for the same bytes
//	                                                                 and an identical copy of the receiver
//
// Half of the decodes go through socket.Message.UnmarshalBody with the receiver as the message
// body, which is how a session decodes a reply into the caller's result variable.

// usedEligible: slice receivers passed by value cannot be reset by a callee, and the byte-slice
// bypass has its receiver states already.
func usedEligible(s *spec) bool {
	return s.dest != destSliceVal && s.codec != "bypass" && s.dclass == ""
}

// generateUsed returns a *T holding what the receiver held before: mostly non-zero, non-empty.
func generateUsed(s *spec, r *core.Rand) reflect.Value {
	c := baseCtx(r, s.cfg)
	if r.Intn(2) == 0 {
		c.apply("mixed")
	} else {
		c.ln, c.bin, c.num = []string{"3", "7"}[r.Intn(2)], "bytes", []string{"small", "max", "rand"}[r.Intn(3)]
	}
	p := reflect.New(s.typ)
	if s.gen != nil {
		c.fillValues(p.Elem())
	} else {
		c.fill(p.Elem(), 0)
	}
	return p
}

// usedDest builds a destination holding a deep copy of used (between canary words where the
// type allows it).
func usedDest(s *spec, used reflect.Value) *dest {
	if s.dest == destHolder {
		d := newDest(s, core.NewRand(1), 0, true)
		d.val().Set(clone(used, false))
		return d
	}
	pv := reflect.New(s.typ)
	pv.Elem().Set(clone(used, false))
	return &dest{arg: pv.Interface(), val: func() reflect.Value { return pv.Elem() }, check: func() string { return "" }}
}

// formExpected mirrors which struct fields the form codec assigns: all but empty slices
// (and zero-length arrays), whose keys do not occur in the encoding.
func formExpected(exp, value reflect.Value) {
	t := value.Type()
	for i := 0; i < t.NumField(); i++ {
		f := t.Field(i)
		if f.PkgPath != "" {
			continue
		}
		fv := value.Field(i)
		if f.Tag.Get("form") == "" && fv.Kind() == reflect.Struct {
			formExpected(exp.Field(i), fv)
			continue
		}
		if (fv.Kind() == reflect.Slice || fv.Kind() == reflect.Array) && fv.Len() == 0 {
			continue
		}
		exp.Field(i).Set(clone(fv, false))
	}
}

// usedRoundtrip encodes *p and decodes it into a receiver that holds a copy of *used.
func usedRoundtrip(s *spec, p reflect.Value, byValue bool, used reflect.Value, viaMsg bool) *failure {
	var in interface{} = p.Interface()
	if byValue {
		in = p.Elem().Interface()
	}
	var enc []byte
	if err, pn := safely(func() error {
		b, e := s.cd.Marshal(in)
		enc = b
		return e
	}); err != nil || pn != nil {
		return nil // judged by the fresh round trip
	}
	data := append([]byte(nil), enc...)
	keep := append([]byte(nil), data...)
	via := "codec.Unmarshal"
	if viaMsg {
		via = "socket.Message.UnmarshalBody (receiver = message body)"
	}
	w := map[string]interface{}{"type": fmt.Sprintf("%T", in), "value": show(p.Elem().Interface()), "encoded": showBytes(data),
		"receiver_before": show(used.Elem().Interface()), "via": via}
	d := usedDest(s, used.Elem())
	err, pn := safely(func() error {
		if viaMsg {
			return socket.NewMessage(socket.WithBodyCodec(s.cfg.id), socket.WithBody(d.arg)).UnmarshalBody(data)
		}
		return s.cd.Unmarshal(data, d.arg)
	})
	if pn != nil {
		w["panic"], w["where"] = pn.msg, pn.where
		return &failure{"used-receiver-panic:" + pn.class, "Unmarshal of a valid encoding into a used receiver panicked: " + pn.msg + " at " + pn.where, w, ""}
	}
	if c := d.check(); c != "" {
		w["canary"] = c
		return &failure{"canary", "Unmarshal into a used receiver wrote outside the destination: " + c, w, ""}
	}
	if !bytes.Equal(data, keep) {
		return &failure{"input-modified", "Unmarshal changed its input buffer", w, ""}
	}
	// the expectation
	exp := clone(used.Elem(), false)
	opts := s.cfg.eq
	var libErr error
	rule := "the receiver is assigned: exactly the encoded value"
	switch s.codec {
	case "json":
		libErr = json.Unmarshal(data, exp.Addr().Interface())
		opts, rule = eqOpts{}, "differential: encoding/json Unmarshal of the same bytes into an identical copy of the receiver"
	case "xml":
		libErr = xml.Unmarshal(data, exp.Addr().Interface())
		opts, rule = eqOpts{}, "differential: encoding/xml Unmarshal of the same bytes into an identical copy of the receiver"
	case "form":
		if exp.Kind() == reflect.Struct {
			formExpected(exp, p.Elem())
			rule = "every field whose key is in the encoding is assigned (empty slices have no key and keep the receiver's)"
		} else {
			exp = p.Elem()
		}
	default:
		exp = p.Elem()
	}
	w["expected"], w["rule"] = show(exp.Interface()), rule
	if (err != nil) != (libErr != nil) {
		w["error"] = fmt.Sprint(err)
		return &failure{"used-receiver-unmarshal-error", fmt.Sprintf("Unmarshal into a used receiver: error %v (expected %v)", err, libErr), w, ""}
	}
	got := d.val()
	ok, path := deq(exp, got, opts)
	if ok {
		return nil
	}
	if viaMsg && len(data) == 0 {
		// Message.UnmarshalBody returns before decoding when the body is empty (a zero proto3 message,
		// an empty string, empty url.Values): the receiver keeps its content. Recorded, not judged.
		core.Add("message_empty_body_used_receiver_left_untouched "+s.codec, 1)
		return nil
	}
	w["decoded"] = show(got.Interface())
	w["first_difference_at"] = path
	return &failure{"used-receiver-mismatch", fmt.Sprintf("decoding into a receiver that held another value: result differs from the expected value at %s", path), w, ""}
}
