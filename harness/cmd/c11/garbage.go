package main

import (
	"encoding/binary"
	"fmt"
	"net/url"
	"reflect"
	"strings"

	"verifharness/core"
)

// garbage input classes
// (cycled by k; the two structure-aware classes get a double share)
var gclasses = []string{"random", "random-text", "mutated", "truncated", "cross-type", "cross-codec", "crafted", "mutated", "crafted"}

type garbler struct {
	byCodec map[string][]*spec // round-trip capable specs per codec
	byClass map[string]*spec   // codec/tclass
}

func newGarbler(specs []*spec) *garbler {
	g := &garbler{byCodec: map[string][]*spec{}, byClass: map[string]*spec{}}
	for _, s := range specs {
		g.byClass[s.codec+"/"+s.tclass] = s
		if !s.garbOnly {
			g.byCodec[s.codec] = append(g.byCodec[s.codec], s)
		}
	}
	return g
}

// valid returns the encoding of a generated value of spec s (nil if the codec refuses it).
func valid(s *spec, r *core.Rand) []byte {
	p := generate(s, r, "mixed")
	var in interface{} = p.Interface()
	if s.pass == "value" {
		in = p.Elem().Interface()
	}
	var out []byte
	_, pn := safely(func() error {
		b, err := s.cd.Marshal(in)
		if err == nil {
			out = append([]byte(nil), b...)
		}
		return err
	})
	if pn != nil {
		return nil
	}
	if len(out) > 8192 {
		out = out[:8192]
	}
	return out
}

func (g *garbler) source(s *spec, r *core.Rand, other bool) *spec {
	if len(s.siblings) > 0 && (other || s.garbOnly) && r.Intn(2) == 0 {
		return g.byClass[s.codec+"/"+s.siblings[r.Intn(len(s.siblings))]]
	}
	l := g.byCodec[s.codec]
	if !other && !s.garbOnly {
		return s
	}
	return l[r.Intn(len(l))]
}

func (g *garbler) make(class string, s *spec, r *core.Rand) []byte {
	switch class {
	case "random":
		n := r.Intn(48)
		if r.Intn(10) == 0 {
			n = r.Intn(4096)
		}
		return r.Bytes(n)
	case "random-text":
		return randomText(s.codec, r)
	case "mutated":
		b := valid(g.source(s, r, false), r)
		for i, n := 0, 1+r.Intn(4); i < n; i++ {
			b = mutate(b, r)
		}
		return b
	case "truncated":
		b := valid(g.source(s, r, false), r)
		if len(b) == 0 {
			return b
		}
		return b[:r.Intn(len(b))]
	case "cross-type":
		return valid(g.source(s, r, true), r)
	case "cross-codec":
		for {
			c := codecOrder[r.Intn(len(codecOrder))]
			if c != s.codec {
				l := g.byCodec[c]
				return valid(l[r.Intn(len(l))], r)
			}
		}
	case "crafted":
		return crafted(s, r)
	}
	panic("garbage class " + class)
}

var special = []byte{0, 0xff, 0x7f, 0x80, '&', '=', '%', '"', '<', '>', '{', '}', '[', ']', ',', ':', '-', '9', ' ', '\\', '\n', 12, 15, 13, 11}

func mutate(b []byte, r *core.Rand) []byte {
	b = append([]byte(nil), b...)
	if len(b) == 0 {
		return r.Bytes(1 + r.Intn(4))
	}
	i := r.Intn(len(b))
	switch r.Intn(8) {
	case 0:
		b[i] ^= 1 << uint(r.Intn(8))
	case 1:
		b[i] = byte(r.Intn(256))
	case 2:
		b[i] = special[r.Intn(len(special))]
	case 3: // delete a range
		j := i + 1 + r.Intn(8)
		if j > len(b) {
			j = len(b)
		}
		b = append(b[:i], b[j:]...)
	case 4: // insert random bytes
		ins := r.Bytes(1 + r.Intn(6))
		b = append(b[:i], append(ins, b[i:]...)...)
	case 5: // duplicate a range (more elements than the destination holds)
		j := i + 1 + r.Intn(24)
		if j > len(b) {
			j = len(b)
		}
		seg := append([]byte(nil), b[i:j]...)
		for k, n := 0, 1+r.Intn(6); k < n; k++ {
			b = append(b[:j], append(append([]byte(nil), seg...), b[j:]...)...)
		}
	case 6: // blow a digit run up
		if b[i] >= '0' && b[i] <= '9' {
			big := []string{"99999999999999999999", "340282350000000000000000000000000000001", "1e999", "-", "0x", "1.2.3"}[r.Intn(6)]
			b = append(b[:i], append([]byte(big), b[i:]...)...)
		} else {
			b[i] = byte(r.Intn(256))
		}
	case 7: // overwrite 4 bytes with a big-endian / varint length
		v := []uint32{0x7fffffff, 0x80000000, 0xffffffff, 0x00010000, uint32(len(b)), uint32(len(b) - i)}[r.Intn(6)]
		if i+4 <= len(b) {
			binary.BigEndian.PutUint32(b[i:], v)
		} else {
			b[i] = 0xff
		}
	}
	return b
}

func randomText(codecName string, r *core.Rand) []byte {
	var al string
	switch codecName {
	case "form":
		al = "abAILS01239=&&==%+;._- %2%zzü"
	case "json":
		al = `{}[]",:0123456789.eE-+ truefalsn\u{}[]""::,,`
	case "xml":
		al = `<>/="' abAISL01&;#x![]-?<><>//`
	case "plain":
		al = "0123456789+-.eExXnNaAiIfFtTrRuUlL_ "
	case "bypass":
		return r.Bytes(r.Intn(40))
	default: // binary codecs: small byte values are type / wire-type / length bytes
		n := r.Intn(40)
		b := make([]byte, n)
		for i := range b {
			if r.Intn(4) == 0 {
				b[i] = byte(r.Intn(256))
			} else {
				b[i] = byte(r.Intn(17))
			}
		}
		return b
	}
	rs := []rune(al)
	n := r.Intn(40)
	var sb strings.Builder
	for i := 0; i < n; i++ {
		sb.WriteRune(rs[r.Intn(len(rs))])
	}
	return []byte(sb.String())
}

var textPool = []string{"", "0", "1", "-1", "2", "3", "127", "128", "255", "256", "65535", "65536", "-129", "2147483648",
	"9223372036854775807", "9223372036854775808", "-9223372036854775809", "18446744073709551616", "1.5", "1e400", "-1e-400",
	"NaN", "+Inf", "true", "false", "T", "abc", "ü", "0x1F", " 1", "1 ", "1_000", "2006-01-02", "25:61", "١٢٣", "\x00", "\xff\xfe"}

func pool(r *core.Rand) string { return textPool[r.Intn(len(textPool))] }

func nameOf(s *spec, r *core.Rand) string {
	if len(s.names) > 0 && r.Intn(8) != 0 {
		return s.names[r.Intn(len(s.names))]
	}
	return []string{"", "x", "A1", "zz", "a3", "L", "S", "in"}[r.Intn(8)]
}

// crafted builds structure-aware garbage: well-formed (or nearly) documents addressing the
// destination's own field names with the wrong number / kind of values.
func crafted(s *spec, r *core.Rand) []byte {
	switch s.codec {
	case "form":
		var parts []string
		for i, n := 0, 1+r.Intn(5); i < n; i++ {
			k := nameOf(s, r)
			for j, m := 0, 1+r.Intn(9); j < m; j++ { // up to 9 values for one key
				kv := url.QueryEscape(k) + "=" + url.QueryEscape(pool(r))
				switch r.Intn(12) {
				case 0:
					kv = url.QueryEscape(k)
				case 1:
					kv = k + "=%zz"
				case 2:
					kv = "=" + pool(r)
				}
				parts = append(parts, kv)
			}
		}
		sep := "&"
		if r.Intn(10) == 0 {
			sep = ";"
		}
		return []byte(strings.Join(parts, sep))
	case "json":
		return []byte(craftJSON(s, r, 0, true))
	case "xml":
		return []byte(craftXML(s, r, 0))
	case "plain":
		t := pool(r)
		switch r.Intn(4) {
		case 0:
			t = pool(r) + pool(r)
		case 1:
			t = "-" + t
		}
		return []byte(t)
	case "protobuf":
		return craftProto(s, r, 0)
	case "thrift":
		return craftThrift(r, 0, true)
	}
	return nil
}

func craftJSON(s *spec, r *core.Rand, depth int, top bool) string {
	k := r.Intn(10)
	if top {
		k = 8 + r.Intn(2)
		if r.Intn(6) == 0 {
			k = r.Intn(8)
		}
	}
	if depth > 4 && k >= 8 {
		k = 0
	}
	switch k {
	case 0, 1:
		t := pool(r)
		if _, err := fmt.Sscanf(t, "%f", new(float64)); err == nil && !strings.ContainsAny(t, " _xNI+") {
			return t
		}
		return "1"
	case 2, 3:
		return fmt.Sprintf("%q", pool(r))
	case 4:
		return "null"
	case 5:
		return "true"
	case 6:
		return fmt.Sprintf("%d", int64(r.Uint64()))
	case 7:
		return fmt.Sprintf("%g", float64(r.Intn(1000))*1e300)
	case 8:
		var el []string
		for i, n := 0, r.Intn(10); i < n; i++ {
			el = append(el, craftJSON(s, r, depth+1, false))
		}
		return "[" + strings.Join(el, ",") + "]"
	}
	var el []string
	for i, n := 0, r.Intn(6); i < n; i++ {
		el = append(el, fmt.Sprintf("%q:%s", nameOf(s, r), craftJSON(s, r, depth+1, false)))
	}
	return "{" + strings.Join(el, ",") + "}"
}

func craftXML(s *spec, r *core.Rand, depth int) string {
	name := "Root"
	if s.typ != nil && s.typ.Name() != "" && r.Intn(4) != 0 {
		name = s.typ.Name()
	}
	if depth > 0 {
		name = nameOf(s, r)
		if i := strings.IndexByte(name, '>'); i >= 0 {
			name = name[:i]
		}
		if name == "" {
			name = "e"
		}
	}
	var sb strings.Builder
	sb.WriteString("<" + name)
	for i, n := 0, r.Intn(3); i < n; i++ {
		fmt.Fprintf(&sb, " %s=\"%s\"", []string{"a", "n", "at", "x"}[r.Intn(4)], strings.NewReplacer("\"", "", "<", "", "&", "", "\x00", "").Replace(pool(r)))
	}
	sb.WriteString(">")
	if depth < 4 {
		for i, n := 0, r.Intn(7); i < n; i++ {
			if r.Intn(3) == 0 {
				sb.WriteString(strings.NewReplacer("<", "&lt;", "&", "&amp;", "\x00", "").Replace(pool(r)))
			} else {
				sb.WriteString(craftXML(s, r, depth+1))
			}
		}
	} else {
		sb.WriteString(pool(r))
	}
	switch r.Intn(12) {
	case 0: // unclosed
	case 1:
		sb.WriteString("</wrong>")
	default:
		sb.WriteString("</" + name + ">")
	}
	return sb.String()
}

func putVarint(b []byte, v uint64) []byte {
	for v >= 0x80 {
		b = append(b, byte(v)|0x80)
		v >>= 7
	}
	return append(b, byte(v))
}

// pbFields lists (field number, wire type) of a generated message type from its struct tags.
func pbFields(s *spec) [][2]uint64 {
	var out [][2]uint64
	if s.typ == nil || s.typ.Kind() != reflect.Struct {
		return nil
	}
	for i := 0; i < s.typ.NumField(); i++ {
		parts := strings.Split(s.typ.Field(i).Tag.Get("protobuf"), ",")
		if len(parts) < 2 {
			continue
		}
		var n uint64
		fmt.Sscanf(parts[1], "%d", &n)
		wt := map[string]uint64{"varint": 0, "fixed64": 1, "bytes": 2, "fixed32": 5, "zigzag32": 0, "zigzag64": 0, "group": 3}[parts[0]]
		out = append(out, [2]uint64{n, wt})
	}
	return out
}

func craftProto(s *spec, r *core.Rand, depth int) []byte {
	var b []byte
	known := pbFields(s)
	for i, n := 0, 1+r.Intn(6); i < n; i++ {
		fn := uint64(1 + r.Intn(9))
		wt := []uint64{0, 2, 2, 3}[r.Intn(4)]
		switch k := r.Intn(10); {
		case k < 4 && len(known) > 0: // a field of the destination with its own wire type
			f := known[r.Intn(len(known))]
			fn, wt = f[0], f[1]
		case k < 7:
		case k == 7:
			fn, wt = uint64(r.Intn(300)), uint64(r.Intn(8))
		default:
			fn, wt = uint64(r.Uint64())>>uint(r.Intn(64)), uint64(r.Intn(8))
		}
		b = putVarint(b, fn<<3|wt)
		switch wt {
		case 0:
			switch r.Intn(4) {
			case 0:
				b = putVarint(b, r.Uint64())
			case 1: // overlong
				for j, m := 0, 9+r.Intn(4); j < m; j++ {
					b = append(b, 0xff)
				}
				b = append(b, byte(r.Intn(128)))
			default:
				b = putVarint(b, uint64(r.Intn(300)))
			}
		case 1:
			b = append(b, r.Bytes(8)...)
		case 2:
			payload := r.Bytes(r.Intn(12))
			if depth < 3 && r.Intn(3) == 0 {
				payload = craftProto(s, r, depth+1)
			}
			l := uint64(len(payload))
			switch r.Intn(10) {
			case 0:
				l = uint64(len(payload)) + 1 + uint64(r.Intn(5))
			case 1: // lengths around the int32 / int64 boundaries
				l = []uint64{1 << 31, 1<<31 - 1, 1<<32 - 1, 1 << 63, 1<<64 - 1}[r.Intn(5)]
			case 2, 3: // positive as an int, but index + length wraps around
				l = 1<<63 - 1 - uint64(r.Intn(1+len(b)+16))
			}
			b = putVarint(b, l)
			b = append(b, payload...)
		case 3:
			if depth < 3 {
				b = append(b, craftProto(s, r, depth+1)...)
			}
			if r.Intn(3) != 0 {
				b = putVarint(b, fn<<3|4)
			}
		case 5:
			b = append(b, r.Bytes(4)...)
		}
	}
	return b
}

// craftThrift writes a struct body in the binary protocol with wrong types, sizes and nesting.
func craftThrift(r *core.Rand, depth int, top bool) []byte {
	var b []byte
	be32 := func(v uint32) { b = append(b, byte(v>>24), byte(v>>16), byte(v>>8), byte(v)) }
	size := func(actual int) {
		switch r.Intn(8) {
		case 0:
			be32([]uint32{0x7fffffff, 0x80000000, 0xffffffff, 0x00100001, 0x01000000}[r.Intn(5)])
		case 1:
			be32(uint32(actual + 1 + r.Intn(3)))
		default:
			be32(uint32(actual))
		}
	}
	var value func(t byte, depth int)
	elemType := func() byte {
		if r.Intn(10) == 0 {
			return byte(r.Intn(256))
		}
		return []byte{2, 3, 4, 6, 8, 10, 11, 12, 13, 14, 15}[r.Intn(11)]
	}
	value = func(t byte, depth int) {
		switch t {
		case 2, 3:
			b = append(b, byte(r.Intn(256)))
		case 6:
			b = append(b, r.Bytes(2)...)
		case 8:
			b = append(b, r.Bytes(4)...)
		case 4, 10:
			b = append(b, r.Bytes(8)...)
		case 11:
			p := r.Bytes(r.Intn(10))
			size(len(p))
			b = append(b, p...)
		case 12:
			if depth < 70 {
				n := r.Intn(3)
				if depth > 6 {
					n = 1
				}
				for i := 0; i < n; i++ {
					ft := elemType()
					b = append(b, ft, 0, byte(1+r.Intn(6)))
					value(ft, depth+1)
				}
			}
			if r.Intn(10) != 0 {
				b = append(b, 0)
			}
		case 13:
			kt, vt := elemType(), elemType()
			n := r.Intn(4)
			if depth > 4 {
				n = 0
			}
			b = append(b, kt, vt)
			size(n)
			for i := 0; i < n; i++ {
				value(kt, depth+1)
				value(vt, depth+1)
			}
		case 14, 15:
			et := elemType()
			n := r.Intn(5)
			if depth > 4 {
				n = 0
			}
			b = append(b, et)
			size(n)
			for i := 0; i < n; i++ {
				value(et, depth+1)
			}
		}
	}
	// the five fields of TStruct with right or wrong types, plus strangers; sometimes a 66-deep struct chain
	n := 1 + r.Intn(7)
	for i := 0; i < n; i++ {
		id := byte(1 + r.Intn(6))
		want := map[byte]byte{1: 8, 2: 10, 3: 11, 4: 11, 5: 15, 6: 12}[id]
		ft := want
		if r.Intn(3) == 0 {
			ft = elemType()
		}
		b = append(b, ft, byte(r.Intn(2))*byte(r.Intn(256)), id)
		if ft == 12 && r.Intn(6) == 0 {
			for d := 0; d < 66; d++ {
				b = append(b, 12, 0, 1)
			}
			continue
		}
		if id == 5 && ft == 15 && r.Intn(2) == 0 {
			m := r.Intn(6)
			b = append(b, 8)
			size(m)
			b = append(b, r.Bytes(4*m)...)
			continue
		}
		value(ft, depth+1)
	}
	if r.Intn(8) != 0 {
		b = append(b, 0)
	}
	return b
}
