// Worker for C11: body codecs round-trip their value domain and fail cleanly on garbage.
//
// Leaf-level: codec.Get(id).Marshal / Unmarshal of the six built-in codecs are driven directly.
//
//   - round trip: a value of a labelled type class is generated with one factor (string class,
//     integer class, float class, length class, ...) varied at a time or all at once ("mixed"),
//     encoded, decoded into a fresh destination lying between canary words, and compared with
//     a NaN-aware, order-sensitive deep equality.
//   - garbage: random bytes, random text over the codec's alphabet, mutated / truncated valid
//     encodings, valid encodings of another type or another codec, and structure-aware
//     documents addressing the destination's own field names are decoded; only a panic leaving
//     Unmarshal, a changed canary or a changed input buffer is a violation.
//
// An evaluation is a pure function of (seed, group name, k); batches take k = batch mod nbatch.
// Fingerprint: C11/<codec>/<roundtrip|garbage>/<type class>/<symptom>.
package main

import (
	"bytes"
	"crypto/md5"
	"encoding/hex"
	"encoding/json"
	"flag"
	"fmt"
	"hash/fnv"
	"os"
	"reflect"
	"regexp"
	"runtime/debug"
	"strings"
	"unicode"

	"verifharness/core"
)

var (
	prop   = flag.String("prop", "C11", "")
	tier   = flag.String("tier", "quick", "")
	seed   = flag.Int64("seed", 1, "")
	batch  = flag.Int("batch", 0, "")
	nbatch = flag.Int("nbatch", 1, "")
	replay = flag.String("replay", "", "")
)

const (
	canaryWord = 0xA5C3A5C3A5C3A5C3
	guard      = 8
)

// ---------- running code under recover ----------

type panicInfo struct {
	msg   string
	class string
	where string // first frame inside /repo
}

var frameRE = regexp.MustCompile(`(?m)^\t(\S*(?:/repo/|henrylee2cn/erpc[^/]*/(?:v6/)?)([^\s:]+:\d+))`)

func safely(f func() error) (err error, pn *panicInfo) {
	defer func() {
		if r := recover(); r != nil {
			pn = &panicInfo{msg: fmt.Sprint(r), class: panicClass(fmt.Sprint(r))}
			st := string(debug.Stack())
			for _, m := range frameRE.FindAllStringSubmatch(st, -1) {
				if !strings.Contains(m[1], "/verif/") {
					pn.where = m[2]
					break
				}
			}
		}
	}()
	return f(), nil
}

// panicClass turns a panic message into a short label: letters only, no numbers or addresses.
func panicClass(s string) string {
	var words []string
	for _, w := range strings.FieldsFunc(s, func(c rune) bool { return !unicode.IsLetter(c) }) {
		words = append(words, strings.ToLower(w))
		if len(words) == 7 {
			break
		}
	}
	if len(words) == 0 {
		return "panic"
	}
	return strings.Join(words, "-")
}

// ---------- destinations with canaries ----------

type dest struct {
	arg   interface{}          // what Unmarshal receives
	val   func() reflect.Value // the decoded value
	check func() string        // "" or what was overwritten
	desc  string               // state of a slice receiver before decoding
}

func canaryElem(t reflect.Type) reflect.Value {
	v := reflect.New(t).Elem()
	switch t.Kind() {
	case reflect.Uint8:
		v.SetUint(0xA5)
	case reflect.Int:
		v.SetInt(0x5AC35AC35AC3)
	case reflect.String:
		v.SetString("\x00CANARY\x00")
	default:
		panic("canary element " + t.String())
	}
	return v
}

// oldElem is the pattern a receiver is pre-filled with (distinct from the canary).
func oldElem(t reflect.Type) reflect.Value {
	v := reflect.New(t).Elem()
	switch t.Kind() {
	case reflect.Uint8:
		v.SetUint(0x5C)
	case reflect.Int:
		v.SetInt(0x0DD00DD0)
	case reflect.String:
		v.SetString("OLD")
	}
	return v
}

func newDest(s *spec, r *core.Rand, encLen int, roundtrip bool) *dest {
	if s.dest == destHolder {
		h := reflect.New(s.holder).Elem()
		for i := 0; i < 4; i++ {
			h.Field(0).Index(i).SetUint(canaryWord)
			h.Field(2).Index(i).SetUint(canaryWord)
		}
		return &dest{
			arg: h.Field(1).Addr().Interface(),
			val: func() reflect.Value { return h.Field(1) },
			check: func() string {
				for i := 0; i < 4; i++ {
					if h.Field(0).Index(i).Uint() != canaryWord {
						return fmt.Sprintf("canary word %d before the destination changed", i)
					}
					if h.Field(2).Index(i).Uint() != canaryWord {
						return fmt.Sprintf("canary word %d after the destination changed", i)
					}
				}
				return ""
			},
		}
	}
	// a slice over the middle of a backing array: [guard | len L | spare S | guard]
	var L, S int
	if s.dest == destSliceVal {
		L, S = encLen, []int{0, 3, 64}[r.Intn(3)]
		if !roundtrip {
			L = r.Intn(24)
		}
	} else {
		L = []int{0, encLen, encLen + 5, encLen / 2, 3}[r.Intn(5)]
		S = []int{0, 4, encLen + 8}[r.Intn(3)]
		short := 0
		if encLen > 0 {
			short = r.Intn(encLen)
		}
		switch s.dclass {
		case "fresh":
			L = 0
		case "longer":
			L, S = encLen+1+r.Intn(40), []int{0, 4}[r.Intn(2)]
		case "equal":
			L, S = encLen, []int{0, 4}[r.Intn(2)]
		case "shorter-cap":
			L, S = short, encLen-short+r.Intn(8)
		case "shorter-nocap":
			L, S = short, 0
			if encLen-short > 1 {
				S = r.Intn(encLen - short)
			}
		case "nil":
			pv := reflect.New(s.typ)
			return &dest{arg: pv.Interface(), val: func() reflect.Value { return pv.Elem() }, check: func() string { return "" }, desc: "nil slice"}
		}
	}
	can := canaryElem(s.typ.Elem())
	old := oldElem(s.typ.Elem())
	back := reflect.MakeSlice(s.typ, guard+L+S+guard, guard+L+S+guard)
	for i := 0; i < back.Len(); i++ {
		if i < guard || i >= guard+L {
			back.Index(i).Set(can)
		} else {
			back.Index(i).Set(old) // what the receiver held before
		}
	}
	d := back.Slice3(guard, guard+L, guard+L+S)
	pv := reflect.New(s.typ)
	pv.Elem().Set(d)
	byVal := s.dest == destSliceVal
	out := &dest{arg: pv.Interface(), val: func() reflect.Value { return pv.Elem() },
		desc: fmt.Sprintf("len %d cap %d, pre-filled with %v", L, L+S, old.Interface())}
	if byVal {
		out.arg = d.Interface()
		out.val = func() reflect.Value { return d }
	}
	out.check = func() string {
		bad := func(i int) bool { ok, _ := deq(back.Index(i), can, eqOpts{}); return !ok }
		for i := 0; i < guard; i++ {
			if bad(i) {
				return fmt.Sprintf("element %d before the destination slice changed", i-guard)
			}
			if bad(guard + L + S + i) {
				return fmt.Sprintf("element %d beyond the destination slice's capacity changed", i)
			}
		}
		from := guard + L
		if !byVal {
			fin := pv.Elem()
			if fin.Cap() == 0 || fin.Pointer() != d.Pointer() {
				return "" // the decoder moved to a new array: what it wrote within the old capacity before is its business
			}
			if fin.Len() > L {
				from = guard + fin.Len()
			}
		}
		for i := from; i < guard+L+S; i++ {
			if bad(i) {
				return fmt.Sprintf("spare capacity element %d (beyond the resulting length) changed", i-guard)
			}
		}
		return ""
	}
	return out
}

// ---------- the oracle ----------

type failure struct {
	symptom string
	what    string
	witness map[string]interface{}
	tclass  string // overrides the group's type class in the fingerprint (numeric probes)
}

// detail is off while the bulk of the evaluations run: witnesses are only rendered for the
// failures that are reported (the evaluation is repeated with detail on; it is deterministic).
var detail bool

func show(v interface{}) string {
	if !detail {
		return ""
	}
	s := fmt.Sprintf("%+v", v)
	if len(s) > 600 {
		s = s[:600] + fmt.Sprintf("...(%d more)", len(s)-600)
	}
	return s
}

func showBytes(b []byte) map[string]interface{} {
	if !detail {
		return nil
	}
	t := b
	if len(t) > 400 {
		t = t[:400]
	}
	return map[string]interface{}{"len": len(b), "quoted": fmt.Sprintf("%q", t), "hex": hex.EncodeToString(t)}
}

// held encodings: per codec the slices returned by the last Marshal calls (not copies) with a digest of their
// content at the time they were returned.
type heldEnc struct {
	b   []byte
	sum [16]byte
	n   int
}

var held = map[string][]heldEnc{}

func heldCheck(codecName string, enc []byte) *failure {
	hs := held[codecName]
	for i, h := range hs {
		if len(h.b) != h.n || md5.Sum(h.b) != h.sum {
			held[codecName] = nil
			return &failure{"encoding-changed-by-later-marshal", fmt.Sprintf("the bytes returned by an earlier Marshal call (%d bytes, %d calls ago) changed after later Marshal calls of the same codec", h.n, len(hs)-i),
				map[string]interface{}{"earlier_len": h.n}, ""}
		}
	}
	core.Add("earlier_encodings_rechecked", int64(len(hs)))
	if len(enc) > 0 {
		hs = append(hs, heldEnc{enc, md5.Sum(enc), len(enc)})
		if len(hs) > 6 {
			hs = hs[1:]
		}
		held[codecName] = hs
	}
	return nil
}

// roundtrip encodes *p and decodes into a fresh destination. byValue: Marshal gets T instead of *T.
func roundtrip(s *spec, p reflect.Value, byValue bool, r *core.Rand) *failure {
	var in interface{} = p.Interface()
	if byValue {
		in = p.Elem().Interface()
	}
	var enc []byte
	err, pn := safely(func() error {
		b, e := s.cd.Marshal(in)
		enc = b
		return e
	})
	w := map[string]interface{}{"type": fmt.Sprintf("%T", in), "value": show(p.Elem().Interface())}
	if pn != nil {
		w["panic"], w["where"] = pn.msg, pn.where
		return &failure{"marshal-panic:" + pn.class, "Marshal panicked: " + pn.msg + " at " + pn.where, w, ""}
	}
	if err != nil {
		w["error"] = err.Error()
		return &failure{"marshal-error", "Marshal refused a value of the supported domain: " + err.Error(), w, ""}
	}
	// the encodings handed out by earlier Marshal calls of this codec are still what they were: an encoding belongs to
	// its caller (it is decoded, or written to a connection, after other messages have been encoded)
	if f := heldCheck(s.codec, enc); f != nil {
		return f
	}
	data := append([]byte(nil), enc...) // Marshal may alias the value (plain codec, []byte)
	keep := append([]byte(nil), data...)
	w["encoded"] = showBytes(data)
	d := newDest(s, r, len(data), true)
	if d.desc != "" {
		w["receiver_before"] = d.desc
	}
	err, pn = safely(func() error { return s.cd.Unmarshal(data, d.arg) })
	if pn != nil {
		w["panic"], w["where"] = pn.msg, pn.where
		return &failure{"panic:" + pn.class, "Unmarshal of a valid encoding panicked: " + pn.msg + " at " + pn.where, w, ""}
	}
	if c := d.check(); c != "" {
		w["canary"] = c
		return &failure{"canary", "Unmarshal wrote outside the destination: " + c, w, ""}
	}
	if !bytes.Equal(data, keep) {
		return &failure{"input-modified", "Unmarshal changed its input buffer", w, ""}
	}
	if err != nil {
		w["error"] = err.Error()
		return &failure{"unmarshal-error", "Unmarshal refused the encoding of a supported value: " + err.Error(), w, ""}
	}
	got := d.val()
	ok, path := deq(p.Elem(), got, s.cfg.eq)
	if ok {
		return nil
	}
	if s.codec == "bypass" && len(data) == 0 {
		// Message.UnmarshalBody returns before looking at the receiver when the body is empty: a
		// receiver that held something keeps it. Recorded, not judged (nothing was decoded).
		core.Add("bypass_empty_body_receiver_left_untouched dest-"+s.dclass, 1)
		return nil
	}
	w["decoded"] = show(got.Interface())
	w["first_difference_at"] = path
	if ok, _ := deq(clone(p.Elem(), true), got, s.cfg.eq); ok {
		return &failure{"order-reversed", fmt.Sprintf("decoded value has its slices/arrays back to front (first difference at %s)", path), w, ""}
	}
	return &failure{"mismatch", fmt.Sprintf("decoded value differs at %s", path), w, ""}
}

// decodeGarbage decodes data into destination number di of the spec (odd destinations) or a fresh holder.
func decodeGarbage(s *spec, data []byte, r *core.Rand, di int) *failure {
	keep := append([]byte(nil), data...)
	w := map[string]interface{}{"input": showBytes(keep)}
	var d *dest
	if s.oddDest {
		l := oddDests()
		arg := l[di%len(l)]
		d = &dest{arg: arg, check: func() string { return "" }}
		w["dest_type"] = fmt.Sprintf("%T", arg)
	} else {
		d = newDest(s, r, len(data), false)
		w["dest_type"] = fmt.Sprintf("%T", d.arg)
	}
	_, pn := safely(func() error { return s.cd.Unmarshal(data, d.arg) })
	if pn != nil {
		w["panic"], w["where"] = pn.msg, pn.where
		return &failure{"panic:" + pn.class, fmt.Sprintf("Unmarshal(%q, %s) panicked: %s at %s", trunc(keep, 80), w["dest_type"], pn.msg, pn.where), w, ""}
	}
	if c := d.check(); c != "" {
		w["canary"] = c
		return &failure{"canary", "Unmarshal wrote outside the destination: " + c, w, ""}
	}
	if !bytes.Equal(data, keep) {
		return &failure{"input-modified", "Unmarshal changed its input buffer", w, ""}
	}
	return nil
}

func trunc(b []byte, n int) []byte {
	if len(b) > n {
		return b[:n]
	}
	return b
}

// ---------- plan ----------

type group struct {
	name string // codec/mode/tclass
	mode string
	s    *spec
	n    int
}

func plan(specs []*spec, tier string) []*group {
	total := 20000
	if tier == "thorough" {
		total = 2000000
	}
	cnt := map[string]int{}
	for _, s := range specs {
		if !s.garbOnly {
			cnt[s.codec+"/roundtrip"]++
		}
		if !s.oddDest && !s.numeric {
			cnt[s.codec+"/garbage"]++
		}
	}
	var out []*group
	for _, mode := range []string{"roundtrip", "garbage"} {
		for _, c := range codecOrder {
			for _, s := range specs {
				if s.codec != c || (mode == "roundtrip" && s.garbOnly) {
					continue
				}
				n := int(float64(total)*s.cfg.weight)/cnt[c+"/"+mode] + 1
				if mode == "roundtrip" && n < len(s.vclasses) {
					n = len(s.vclasses)
				}
				if s.oddDest {
					n = n/4 + 1
				}
				if s.numeric {
					// the whole probe table, then random digit strings
					n = len(numTable(s.codec)) + 600
					if tier == "thorough" {
						n = len(numTable(s.codec)) + 60000
					}
				}
				out = append(out, &group{name: c + "/" + mode + "/" + s.tclass, mode: mode, s: s, n: n})
			}
		}
	}
	return out
}

func hashName(s string) int64 {
	h := fnv.New64a()
	h.Write([]byte(s))
	return int64(h.Sum64() >> 1)
}

// ---------- evaluation ----------

type engine struct {
	g        *garbler
	seen     map[string]int
	forceRep bool
	failed   int
}

// evalOne runs evaluation k of a group. Returns false if the input was left out (not an evaluation).
func (e *engine) evalOne(g *group, k int) bool {
	r := core.NewRand(*seed, hashName(g.name), int64(k))
	s := g.s
	if b, ok := s.cd.(*bypass); ok {
		b.id = bypassIDs[(k/7)%len(bypassIDs)].id
	}
	if g.mode == "roundtrip" {
		vclass := s.vclasses[k%len(s.vclasses)]
		core.Distinct("nontrivial", s.codec+"/"+s.tclass+"/"+vclass)
		if _, ok := s.cd.(*bypass); ok {
			core.Distinct("bypass_codec_ids", s.tclass+"/id="+bypassIDs[(k/7)%len(bypassIDs)].name)
		}
		p := generate(s, r, vclass)
		byValue := s.pass == "value" || (s.pass == "either" && r.Intn(2) == 0)
		rr := core.NewRand(*seed, hashName(g.name), int64(k), 7)
		if k == 0 && *batch == 0 && ((s.codec == "form" && s.tclass == "slices") || s.tclass == "TStruct") {
			detail = true
			core.Sample(map[string]interface{}{"group": g.name, "vclass": vclass, "value": show(p.Elem().Interface())})
			detail = false
		}
		f := roundtrip(s, p, byValue, rr)
		if f != nil {
			again := func() *failure {
				return roundtrip(s, p, byValue, core.NewRand(*seed, hashName(g.name), int64(k), 7))
			}
			e.report(g, k, vclass, f, again, func() *failure {
				// minimise: simplify the value while the same symptom persists
				budget := 400
				q := clone(p.Elem(), false)
				pq := reflect.New(s.typ)
				pq.Elem().Set(q)
				var last *failure = f
				test := func() bool {
					ff := roundtrip(s, pq, byValue, core.NewRand(1))
					if ff != nil && ff.symptom == f.symptom {
						last = ff
						return true
					}
					return false
				}
				shrink(pq.Elem(), test, &budget)
				if ff := roundtrip(s, pq, byValue, core.NewRand(1)); ff != nil && ff.symptom == f.symptom {
					last = ff
				}
				return last
			})
			return true
		}
		if usedEligible(s) {
			// second decode: into a receiver that already holds another value of the type
			ru := core.NewRand(*seed, hashName(g.name), int64(k), 11)
			used := generateUsed(s, ru)
			viaMsg := ru.Intn(2) == 0 && s.typ.Kind() != reflect.Slice
			core.Distinct("nontrivial", s.codec+"/"+s.tclass+"/used:"+vclass)
			core.Add("evaluations", 1)
			core.Add("evaluations_roundtrip_used", 1)
			if k == 1 && *batch == 1%*nbatch && s.tclass == "Payload" {
				detail = true
				core.Sample(map[string]interface{}{"group": g.name, "vclass": vclass, "value": show(p.Elem().Interface()), "used_receiver": show(used.Elem().Interface())})
				detail = false
			}
			if fu := usedRoundtrip(s, p, byValue, used, viaMsg); fu != nil {
				again := func() *failure { return usedRoundtrip(s, p, byValue, used, viaMsg) }
				e.report(g, k, vclass, fu, again, func() *failure {
					budget := 300
					pq := reflect.New(s.typ)
					pq.Elem().Set(clone(p.Elem(), false))
					last := fu
					test := func() bool {
						ff := usedRoundtrip(s, pq, byValue, used, viaMsg)
						if ff != nil && ff.symptom == fu.symptom {
							last = ff
							return true
						}
						return false
					}
					shrink(pq.Elem(), test, &budget)
					test()
					return last
				})
			}
		}
		return true
	}
	if s.numeric {
		pr, f := numericEval(s, k, r)
		core.Distinct("nontrivial", s.codec+"/num-"+pr.ctx.name+"-"+pr.kind.String()+"/"+pr.label)
		core.Add("numeric_probes", 1)
		if k == 3 && s.codec == "form" {
			core.Sample(map[string]interface{}{"group": g.name, "context": pr.ctx.name, "kind": pr.kind.String(), "text_class": pr.label, "text": pr.text})
		}
		if f != nil {
			again := func() *failure { return numericProbe(s, pr) }
			e.report(g, k, pr.label, f, again, func() *failure {
				// the canonical witness: the first text of the boundary table with the same symptom
				for _, t := range numTexts(pr.kind) {
					q := pr
					q.label, q.text = t.label, t.text
					if ff := numericProbe(s, q); ff != nil && ff.symptom == f.symptom {
						return ff
					}
				}
				return numericProbe(s, pr)
			})
		}
		return true
	}
	gclass := gclasses[k%len(gclasses)]
	data := e.g.make(gclass, s, r)
	if s.codec == "thrift" && thriftSlow(data, 200000) {
		core.Add("thrift_inputs_left_out_slow_skip", 1)
		return false
	}
	if !s.oddDest {
		core.Distinct("nontrivial", s.codec+"/"+s.tclass+"/garbage:"+gclass)
	}
	di := k / len(gclasses)
	rr := core.NewRand(*seed, hashName(g.name), int64(k), 7)
	if k < 2 && *batch == 0 && s.codec == "form" && s.tclass == "arrays" {
		detail = true
		core.Sample(map[string]interface{}{"group": g.name, "gclass": gclass, "input": showBytes(data)})
		detail = false
	}
	f := decodeGarbage(s, data, rr, di)
	if s.oddDest {
		// Destinations outside every codec's supported types (nil pointers, pointers to non-empty
		// interfaces, channels, ...): the property quantifies over byte strings, not over
		// destination types, so whatever happens here is recorded, not judged.
		core.Add("outside_domain_dest_decodes", 1)
		if f != nil {
			detail = true
			ff := decodeGarbage(s, data, core.NewRand(1), di)
			detail = false
			if ff != nil {
				core.Add(fmt.Sprintf("outside_domain_dest %s Unmarshal into %v: %s @%v", s.codec, ff.witness["dest_type"], ff.symptom, ff.witness["where"]), 1)
			}
		}
		return false
	}
	if f != nil {
		again := func() *failure {
			return decodeGarbage(s, data, core.NewRand(*seed, hashName(g.name), int64(k), 7), di)
		}
		e.report(g, k, gclass, f, again, func() *failure {
			last := f
			min := shrinkBytes(data, func(c []byte) bool {
				ff := decodeGarbage(s, c, core.NewRand(1), di)
				if ff != nil && ff.symptom == f.symptom {
					last = ff
					return true
				}
				return false
			}, 2000)
			_ = min
			return last
		})
	}
	return true
}

func (e *engine) report(g *group, k int, vclass string, f *failure, again func() *failure, minimise func() *failure) {
	tclass := g.s.tclass
	if f.tclass != "" {
		tclass = f.tclass
	}
	fp := fmt.Sprintf("C11/%s/%s/%s/%s", g.s.codec, g.mode, tclass, f.symptom)
	e.failed++
	core.Add("failures_total", 1)
	core.Add("failures "+fp, 1)
	if e.seen[fp] >= 1 && !e.forceRep {
		return
	}
	e.seen[fp]++
	detail = true
	defer func() { detail = false }()
	if ff := again(); ff != nil && ff.symptom == f.symptom {
		f = ff
	}
	m := minimise()
	id := fmt.Sprintf("b%d-%s-k%d", *batch, g.name, k)
	desc := map[string]interface{}{"class": g.name, "codec": g.s.codec, "mode": g.mode, "tclass": tclass,
		"vclass": vclass, "group": g.name, "k": k, "seed": *seed}
	w := map[string]interface{}{"as_generated": f.witness, "minimal": m.witness}
	core.Begin(id, desc)
	core.Result(core.R{ID: id, Verdict: core.Violated, FP: fp, What: fmt.Sprintf("%s %s (%s): %s", g.s.codec, g.mode, tclass, m.what),
		Witness: w, Sig: g.name + "/" + vclass, Desc: desc})
}

func main() {
	flag.Parse()
	core.Prop = *prop
	specs := buildSpecs()
	groups := plan(specs, *tier)
	e := &engine{g: newGarbler(specs), seen: map[string]int{}}

	if *replay != "" {
		raw, err := os.ReadFile(*replay)
		if err != nil {
			core.Fatalf("replay: %v", err)
		}
		var rf struct {
			Desc struct {
				Group string `json:"group"`
				K     int    `json:"k"`
				Seed  int64  `json:"seed"`
			} `json:"desc"`
		}
		if err := json.Unmarshal(raw, &rf); err != nil || rf.Desc.Group == "" {
			core.Fatalf("replay: no case description in %s (%v)", *replay, err)
		}
		*seed = rf.Desc.Seed
		e.forceRep = true
		for _, g := range groups {
			if g.name == rf.Desc.Group {
				id := fmt.Sprintf("replay-%s-k%d", g.name, rf.Desc.K)
				core.Begin(id, map[string]interface{}{"class": g.name, "k": rf.Desc.K})
				if e.evalOne(g, rf.Desc.K) {
					core.Add("evaluations", 1)
				}
				if e.failed == 0 {
					core.Result(core.R{ID: id, Verdict: core.Held})
				}
				core.Finish()
				return
			}
		}
		core.Fatalf("replay: unknown group %q", rf.Desc.Group)
	}

	for _, g := range groups {
		// a bracket per group, so that a crash that cannot be recovered (checkptr, fatal error) is attributed
		id := fmt.Sprintf("b%d-%s", *batch, g.name)
		core.Begin(id, map[string]interface{}{"class": g.name, "codec": g.s.codec, "mode": g.mode, "tclass": g.s.tclass, "bracket": true})
		before := e.failed
		n := 0
		for k := *batch; k < g.n; k += *nbatch {
			if e.evalOne(g, k) {
				n++
			}
		}
		core.Add("evaluations", int64(n))
		core.Add("evaluations_"+g.mode, int64(n))
		core.Add("evaluations_"+g.mode+"_"+g.s.codec, int64(n))
		if e.failed == before {
			core.Result(core.R{ID: id, Verdict: core.Held})
		}
	}
	core.Finish()
}
