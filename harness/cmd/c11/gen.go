package main

import (
	"math"
	"reflect"
	"strings"

	"verifharness/core"
)

// ctx is the state of one value generation: a PRNG plus the value class of every factor.
// A factor set to "" is drawn per leaf ("mixed").
type ctx struct {
	r   *core.Rand
	cfg *codecCfg
	str string // string class
	bin string // []byte class
	num string // integer class
	flt string // float class
	ln  string // slice / map length class
	ptr string // "set" | "nil"
	// no nil slice / map / pointer directly under a pointer (json and xml encode both levels the same way)
	underPtr bool
}

func baseCtx(r *core.Rand, cfg *codecCfg) *ctx {
	return &ctx{r: r, cfg: cfg, str: "ascii", bin: "ascii", num: "small", flt: "frac", ln: "2", ptr: "set"}
}

// apply sets the factor named in a value class label ("base", "mixed", "str=ctrl", ...).
func (c *ctx) apply(vclass string) {
	switch {
	case vclass == "base":
	case vclass == "mixed":
		c.str, c.bin, c.num, c.flt, c.ln, c.ptr = "", "", "", "", "", ""
	case strings.HasPrefix(vclass, "str="):
		c.str = vclass[4:]
	case strings.HasPrefix(vclass, "bin="):
		c.bin = vclass[4:]
	case strings.HasPrefix(vclass, "num="):
		c.num = vclass[4:]
	case strings.HasPrefix(vclass, "flt="):
		c.flt = vclass[4:]
	case strings.HasPrefix(vclass, "len="):
		c.ln = vclass[4:]
	case strings.HasPrefix(vclass, "ptr="):
		c.ptr = vclass[4:]
	default:
		panic("vclass " + vclass)
	}
}

// valueClasses lists the value classes applicable to a spec's type (one factor at a time, plus mixed).
func valueClasses(s *spec) []string {
	var hasStr, hasBin, hasInt, hasFlt, hasLen, hasPtr bool
	seen := map[reflect.Type]bool{}
	var walk func(t reflect.Type)
	walk = func(t reflect.Type) {
		switch t.Kind() {
		case reflect.String:
			hasStr = true
		case reflect.Int, reflect.Int8, reflect.Int16, reflect.Int32, reflect.Int64,
			reflect.Uint, reflect.Uint8, reflect.Uint16, reflect.Uint32, reflect.Uint64:
			hasInt = true
		case reflect.Float32, reflect.Float64:
			hasFlt = true
		case reflect.Slice:
			if t.Elem().Kind() == reflect.Uint8 && !s.cfg.bytesAsNums {
				hasBin = true
				return
			}
			hasLen = true
			walk(t.Elem())
		case reflect.Array:
			walk(t.Elem())
		case reflect.Map:
			hasLen = true
			walk(t.Key())
			walk(t.Elem())
		case reflect.Ptr:
			hasPtr = true
			walk(t.Elem())
		case reflect.Struct:
			if seen[t] {
				return
			}
			seen[t] = true
			for i := 0; i < t.NumField(); i++ {
				f := t.Field(i)
				if f.PkgPath != "" || strings.HasPrefix(f.Name, "XXX_") {
					continue
				}
				walk(f.Type)
			}
		}
	}
	walk(s.typ)
	out := []string{"base"}
	if hasStr {
		for _, c := range s.cfg.strSet {
			out = append(out, "str="+c)
		}
	}
	if hasBin {
		for _, c := range binAll {
			out = append(out, "bin="+c)
		}
	}
	if hasInt {
		for _, c := range numAll {
			out = append(out, "num="+c)
		}
	}
	if hasFlt {
		for _, c := range fltFin {
			out = append(out, "flt="+c)
		}
		if s.cfg.nonfinite {
			for _, c := range fltNon {
				out = append(out, "flt="+c)
			}
		}
	}
	if hasLen {
		for _, c := range lenAll {
			out = append(out, "len="+c)
		}
	}
	if hasPtr {
		out = append(out, "ptr=nil")
	}
	for i, n := 0, len(out)/2+1; i < n; i++ {
		out = append(out, "mixed")
	}
	return out
}

func pickLen(r *core.Rand) int {
	switch r.Intn(6) {
	case 0:
		return 1
	case 1:
		return 255
	case 2:
		return 256
	case 3:
		return 2 + r.Intn(30)
	case 4:
		return 30 + r.Intn(300)
	}
	return 1 + r.Intn(8)
}

func fromAlphabet(r *core.Rand, al []rune, n int) string {
	var sb strings.Builder
	for sb.Len() < n {
		sb.WriteRune(al[r.Intn(len(al))])
	}
	return sb.String()
}

var (
	alASCII   = []rune("abcdefghijklmnopqrstuvwxyzABCDEFGHIJKLMNOPQRSTUVWXYZ0123456789_")
	alPunct   = []rune(`&=%+"\'<>/?#;:,.- ~!@$^*()[]{}|` + "`")
	alUTF8    = []rune("äßçπЖ中文日本語한글🙂𝄞é  ")
	alSpecial = []rune("\u2028\u2029\ufffd\"\\/\x00\x7f\U0010ffff\ufeff\u00a0\u0085<>&")
	alXMLSpec = []rune("\ufffd\ud7ff\ue000\U00010000\U0010ffff\u0085\u00a0\u2028]>&<'\"")
	numerics  = []string{"0", "1", "-1", "123", "-0", "1e5", "0x10", "+5", "007", "true", "false", "null", "NaN", "1.50", "9223372036854775808", "١٢٣"}
)

func (c *ctx) strOf(class string) string {
	r := c.r
	n := pickLen(r)
	switch class {
	case "empty":
		return ""
	case "ascii":
		return fromAlphabet(r, alASCII, n)
	case "punct":
		return fromAlphabet(r, alPunct, n)
	case "ctrl":
		b := make([]byte, n)
		for i := range b {
			b[i] = byte(r.Intn(32))
		}
		return string(b)
	case "utf8":
		return fromAlphabet(r, alUTF8, n)
	case "special":
		return fromAlphabet(r, alSpecial, 1+n%40)
	case "xmlspecial":
		return fromAlphabet(r, alXMLSpec, 1+n%40)
	case "xmlws":
		return fromAlphabet(r, []rune("\t\n\r a"), 1+n%20)
	case "bytes":
		return string(r.Bytes(n))
	case "allbytes":
		b := make([]byte, 256)
		for i := range b {
			b[i] = byte(i)
		}
		return string(b)
	case "zeros":
		return string(make([]byte, n))
	case "numeric":
		return numerics[r.Intn(len(numerics))]
	case "space":
		return fromAlphabet(r, []rune("  \t"), 1+r.Intn(3)) + fromAlphabet(r, alASCII, r.Intn(4)) + fromAlphabet(r, []rune(" \n"), 1+r.Intn(3))
	case "long":
		l := []int{300, 300, 300, 300, 300, 5000, 5000, 5000, 33000, 70000}[r.Intn(10)]
		return fromAlphabet(r, alASCII, l)
	}
	panic("string class " + class)
}

func (c *ctx) strVal() string {
	cl := c.str
	if cl == "" {
		cl = c.cfg.strSet[c.r.Intn(len(c.cfg.strSet))]
		if cl == "long" && c.r.Intn(4) != 0 {
			cl = "ascii"
		}
	}
	return c.strOf(cl)
}

func (c *ctx) binVal() []byte {
	cl := c.bin
	if cl == "" {
		cl = binAll[c.r.Intn(len(binAll))]
		if cl == "long" && c.r.Intn(4) != 0 {
			cl = "bytes"
		}
	}
	return []byte(c.strOf(cl))
}

func (c *ctx) intVal(bits int, signed bool) (int64, uint64) {
	cl := c.num
	if cl == "" {
		cl = numAll[c.r.Intn(len(numAll))]
	}
	if signed {
		min := int64(-1) << uint(bits-1)
		max := -(min + 1)
		switch cl {
		case "zero":
			return 0, 0
		case "one":
			return 1, 0
		case "neg1":
			return -1, 0
		case "min":
			return min, 0
		case "max":
			return max, 0
		case "small":
			return int64(c.r.Intn(201)) - 100, 0
		}
		return int64(c.r.Uint64()) >> uint(64-bits), 0
	}
	max := ^uint64(0) >> uint(64-bits)
	switch cl {
	case "zero", "min":
		return 0, 0
	case "one":
		return 0, 1
	case "neg1", "max":
		return 0, max
	case "small":
		return 0, uint64(c.r.Intn(101))
	}
	return 0, c.r.Uint64() >> uint(64-bits)
}

func (c *ctx) floatVal(bits int) float64 {
	cl := c.flt
	if cl == "" {
		if c.cfg.nonfinite && c.r.Intn(5) == 0 {
			cl = fltNon[c.r.Intn(len(fltNon))]
		} else {
			cl = fltFin[c.r.Intn(len(fltFin))]
		}
	}
	switch cl {
	case "zero":
		return 0
	case "negzero":
		return math.Copysign(0, -1)
	case "one":
		return 1
	case "negfrac":
		return -1.5
	case "frac":
		return float64(c.r.Intn(2000)-1000) / 8
	case "third":
		if bits == 32 {
			return float64(float32(1) / 3)
		}
		return 1.0 / 3
	case "max":
		if bits == 32 {
			return math.MaxFloat32
		}
		return math.MaxFloat64
	case "negmax":
		if bits == 32 {
			return -math.MaxFloat32
		}
		return -math.MaxFloat64
	case "tiny":
		if bits == 32 {
			return math.SmallestNonzeroFloat32
		}
		return math.SmallestNonzeroFloat64
	case "bigint":
		if bits == 32 {
			return 16777217 * 3 // not representable: rounded by the float32 conversion below
		}
		return 9007199254740993
	case "inf":
		return math.Inf(1)
	case "neginf":
		return math.Inf(-1)
	case "nan":
		return math.NaN()
	}
	for {
		var f float64
		if bits == 32 {
			f = float64(math.Float32frombits(uint32(c.r.Uint64())))
		} else {
			f = math.Float64frombits(c.r.Uint64())
		}
		if !math.IsNaN(f) && !math.IsInf(f, 0) {
			return f
		}
	}
}

func (c *ctx) lenVal() (n int, isNil bool) {
	cl := c.ln
	if cl == "" {
		cl = lenAll[c.r.Intn(len(lenAll))]
		if cl == "40" && c.r.Intn(3) != 0 {
			cl = "3"
		}
	}
	switch cl {
	case "nil":
		return 0, true
	case "0":
		return 0, false
	case "1":
		return 1, false
	case "2":
		return 2, false
	case "3":
		return 3, false
	case "7":
		return 7, false
	}
	return 40, false
}

// fill sets v (addressable) to a generated value.
func (c *ctx) fill(v reflect.Value, depth int) {
	under := c.underPtr
	c.underPtr = false
	switch v.Kind() {
	case reflect.Bool:
		v.SetBool(c.r.Intn(2) == 0)
	case reflect.Int, reflect.Int8, reflect.Int16, reflect.Int32, reflect.Int64:
		i, _ := c.intVal(v.Type().Bits(), true)
		v.SetInt(i)
	case reflect.Uint, reflect.Uint8, reflect.Uint16, reflect.Uint32, reflect.Uint64:
		_, u := c.intVal(v.Type().Bits(), false)
		v.SetUint(u)
	case reflect.Float32, reflect.Float64:
		f := c.floatVal(v.Type().Bits())
		if v.Kind() == reflect.Float32 {
			f = float64(float32(f))
		}
		v.SetFloat(f)
	case reflect.String:
		v.SetString(c.strVal())
	case reflect.Slice:
		if v.Type().Elem().Kind() == reflect.Uint8 && !c.cfg.bytesAsNums {
			b := c.binVal()
			if len(b) == 0 && !under && c.r.Intn(2) == 0 {
				b = nil
			}
			v.SetBytes(b)
			return
		}
		n, isNil := c.lenVal()
		if depth > 2 && n > 3 {
			n = 3
		}
		if isNil && !under {
			v.Set(reflect.Zero(v.Type()))
			return
		}
		s := reflect.MakeSlice(v.Type(), n, n)
		for i := 0; i < n; i++ {
			c.fill(s.Index(i), depth+1)
		}
		v.Set(s)
	case reflect.Array:
		for i := 0; i < v.Len(); i++ {
			c.fill(v.Index(i), depth+1)
		}
	case reflect.Map:
		n, isNil := c.lenVal()
		if depth > 2 && n > 3 {
			n = 3
		}
		if isNil && !under {
			v.Set(reflect.Zero(v.Type()))
			return
		}
		m := reflect.MakeMapWithSize(v.Type(), n)
		for i := 0; i < n; i++ {
			k := reflect.New(v.Type().Key()).Elem()
			c.fill(k, depth+1)
			if m.MapIndex(k).IsValid() {
				continue // duplicate key: the map is just smaller
			}
			e := reflect.New(v.Type().Elem()).Elem()
			c.fill(e, depth+1)
			m.SetMapIndex(k, e)
		}
		v.Set(m)
	case reflect.Ptr:
		cl := c.ptr
		if cl == "" {
			cl = []string{"set", "set", "nil"}[c.r.Intn(3)]
		}
		if cl == "nil" && !under {
			v.Set(reflect.Zero(v.Type()))
			return
		}
		p := reflect.New(v.Type().Elem())
		c.underPtr = true
		c.fill(p.Elem(), depth+1)
		c.underPtr = false
		v.Set(p)
	case reflect.Struct:
		t := v.Type()
		for i := 0; i < t.NumField(); i++ {
			f := t.Field(i)
			if f.PkgPath != "" || strings.HasPrefix(f.Name, "XXX_") {
				continue
			}
			c.fill(v.Field(i), depth+1)
		}
	}
}

// genValues generates url.Values / map[string][]string in the form codec's domain: every key
// carries at least one value (a key with an empty list has no urlencoded representation).
func genValues(c *ctx) reflect.Value {
	return reflect.Value{}
}

func (c *ctx) fillValues(v reflect.Value) {
	n, isNil := c.lenVal()
	if isNil {
		v.Set(reflect.Zero(v.Type()))
		return
	}
	m := reflect.MakeMap(v.Type())
	for i := 0; i < n; i++ {
		k := c.strVal()
		if len(k) > 64 {
			k = k[:64]
		}
		cnt, _ := c.lenVal()
		if cnt == 0 {
			cnt = 1
		}
		if cnt > 7 {
			cnt = 7
		}
		vals := make([]string, cnt)
		for j := range vals {
			vals[j] = c.strVal()
		}
		m.SetMapIndex(reflect.ValueOf(k), reflect.ValueOf(vals))
	}
	v.Set(m)
}

// generate returns a *T holding a generated value of the spec's type for the value class.
func generate(s *spec, r *core.Rand, vclass string) reflect.Value {
	c := baseCtx(r, s.cfg)
	c.apply(vclass)
	p := reflect.New(s.typ)
	if s.gen != nil {
		c.fillValues(p.Elem())
	} else {
		c.fill(p.Elem(), 0)
	}
	return p
}
