package main

import (
	"fmt"
	"io"

	"git.apache.org/thrift.git/lib/go/thrift"
)

// TStruct is a hand-written thrift struct (i32, i64, string, binary, list<i32>); a copy of
// harness/wire.TStruct (which cannot be imported here: wire links the root package).
//
// Difference to the copy in wire: the binary field is read with a length check against the
// transport's RemainingBytes. thrift v0.13.0 TBinaryProtocol.ReadBinary allocates the
// DECLARED length (up to 2 GiB) before it reads a single byte; a mutated length prefix
// would take the worker down with an out-of-memory error, which is not what C11 is about.
type TStruct struct {
	A int32
	B int64
	S string
	D []byte
	L []int32
}

func (t *TStruct) Write(p thrift.TProtocol) error {
	if err := p.WriteStructBegin("TStruct"); err != nil {
		return err
	}
	w := func(name string, typ thrift.TType, id int16, f func() error) error {
		if err := p.WriteFieldBegin(name, typ, id); err != nil {
			return err
		}
		if err := f(); err != nil {
			return err
		}
		return p.WriteFieldEnd()
	}
	if err := w("a", thrift.I32, 1, func() error { return p.WriteI32(t.A) }); err != nil {
		return err
	}
	if err := w("b", thrift.I64, 2, func() error { return p.WriteI64(t.B) }); err != nil {
		return err
	}
	if err := w("s", thrift.STRING, 3, func() error { return p.WriteString(t.S) }); err != nil {
		return err
	}
	if err := w("d", thrift.STRING, 4, func() error { return p.WriteBinary(t.D) }); err != nil {
		return err
	}
	if err := w("l", thrift.LIST, 5, func() error {
		if err := p.WriteListBegin(thrift.I32, len(t.L)); err != nil {
			return err
		}
		for _, v := range t.L {
			if err := p.WriteI32(v); err != nil {
				return err
			}
		}
		return p.WriteListEnd()
	}); err != nil {
		return err
	}
	if err := p.WriteFieldStop(); err != nil {
		return err
	}
	return p.WriteStructEnd()
}

func (t *TStruct) Read(p thrift.TProtocol) error {
	if _, err := p.ReadStructBegin(); err != nil {
		return err
	}
	for {
		_, typ, id, err := p.ReadFieldBegin()
		if err != nil {
			return err
		}
		if typ == thrift.STOP {
			break
		}
		switch {
		case id == 1 && typ == thrift.I32:
			t.A, err = p.ReadI32()
		case id == 2 && typ == thrift.I64:
			t.B, err = p.ReadI64()
		case id == 3 && typ == thrift.STRING:
			t.S, err = p.ReadString()
		case id == 4 && typ == thrift.STRING:
			var n int32
			n, err = p.ReadI32()
			if err != nil {
				return err
			}
			if n < 0 || uint64(n) > p.Transport().RemainingBytes() {
				return fmt.Errorf("bad binary size %d", n)
			}
			t.D = make([]byte, n)
			_, err = io.ReadFull(p.Transport(), t.D)
		case id == 5 && typ == thrift.LIST:
			var n int
			_, n, err = p.ReadListBegin()
			if err != nil {
				return err
			}
			if n < 0 || uint64(n)*4 > p.Transport().RemainingBytes() {
				return fmt.Errorf("bad list size %d", n)
			}
			t.L = make([]int32, 0, n)
			for i := 0; i < n; i++ {
				v, e := p.ReadI32()
				if e != nil {
					return e
				}
				t.L = append(t.L, v)
			}
			err = p.ReadListEnd()
		default:
			err = p.Skip(typ)
		}
		if err != nil {
			return err
		}
		if err = p.ReadFieldEnd(); err != nil {
			return err
		}
	}
	return p.ReadStructEnd()
}

// thriftSlow mirrors thrift.Skip (v0.13.0) over data with a step budget. The library ignores
// the error of ReadFieldBegin while skipping a struct, so a struct element "skips" successfully
// at end of input without consuming anything: a container header declaring 2^31-1 struct
// elements followed by EOF spins for about a minute on a 10-byte input. That is a matter of
// decoding TIME, on which C11 states nothing; such inputs are counted and left out so that the
// batch watchdog is not what decides the run.
func thriftSlow(data []byte, budget int) bool {
	pos, steps := 0, 0
	over := false
	need := func(n int) bool {
		if n < 0 || pos+n > len(data) {
			pos = len(data)
			return false
		}
		pos += n
		return true
	}
	i32 := func() (int, bool) {
		if pos+4 > len(data) {
			pos = len(data)
			return 0, false
		}
		v := int32(uint32(data[pos])<<24 | uint32(data[pos+1])<<16 | uint32(data[pos+2])<<8 | uint32(data[pos+3]))
		pos += 4
		return int(v), true
	}
	var skip func(t byte, depth int) bool
	loop := func(n int, depth int, k, v byte, isMap bool) bool {
		for i := 0; i < n; i++ {
			if pos >= len(data) && k == 12 {
				steps += n - i
				if steps > budget {
					over = true
				}
				return true
			}
			if !skip(k, depth-1) {
				return false
			}
			if isMap {
				skip(v, 64)
			}
			if over {
				return false
			}
		}
		return true
	}
	skip = func(t byte, depth int) bool {
		steps++
		if steps > budget {
			over = true
		}
		if over || depth <= 0 {
			return false
		}
		switch t {
		case 2, 3:
			return need(1)
		case 6:
			return need(2)
		case 8:
			return need(4)
		case 10, 4:
			return need(8)
		case 11:
			n, ok := i32()
			if !ok || n < 0 {
				return false
			}
			return need(n)
		case 12:
			for {
				if pos >= len(data) {
					break
				}
				ft := data[pos]
				pos++
				if ft == 0 {
					break
				}
				need(2)
				if !skip(ft, depth-1) {
					return false
				}
			}
			return true
		case 13:
			if pos+2 > len(data) {
				pos = len(data)
				return false
			}
			k, v := data[pos], data[pos+1]
			pos += 2
			n, ok := i32()
			if !ok || n < 0 {
				return false
			}
			return loop(n, depth, k, v, true)
		case 14, 15:
			if pos+1 > len(data) {
				return false
			}
			e := data[pos]
			pos++
			n, ok := i32()
			if !ok || n < 0 {
				return false
			}
			return loop(n, depth, e, 0, false)
		}
		return false
	}
	skip(12, 65)
	return over
}
