package main

import (
	"net/url"
	"reflect"
	"time"

	"github.com/henrylee2cn/erpc/v6/codec"
	benchmsg "github.com/henrylee2cn/erpc/v6/examples/bench/msg"
	wspayload "github.com/henrylee2cn/erpc/v6/mixer/websocket/pbSubProto/pb"
	pbpayload "github.com/henrylee2cn/erpc/v6/proto/pbproto/pb"
	"github.com/henrylee2cn/erpc/v6/socket"
	pbtest "github.com/henrylee2cn/erpc/v6/socket/example/pb"
)

// ---------- value types of the generator (named, exported fields only) ----------

// Scalars is used by form (untagged fields), json and xml.
type Scalars struct {
	B   bool
	I   int
	I8  int8
	I16 int16
	I32 int32
	I64 int64
	U   uint
	U8  uint8
	U16 uint16
	U32 uint32
	U64 uint64
	F32 float32
	F64 float64
	S   string
}

// form

type FTagged struct {
	B   bool    `form:"b"`
	I   int     `form:"i"`
	I8  int8    `form:"i_8"`
	I16 int16   `form:"i 16"`
	I32 int32   `form:"i&32"`
	I64 int64   `form:"i=64"`
	U   uint    `form:"u%"`
	U8  uint8   `form:"ü8"`
	U16 uint16  `form:"u16"`
	U32 uint32  `form:"u+32"`
	U64 uint64  `form:"u;64"`
	F32 float32 `form:"f.32"`
	F64 float64 `form:"f/64"`
	S   string  `form:"s"`
}

type (
	NInt8    int8
	NUint16  uint16
	NInt64   int64
	NFloat32 float32
	NFloat64 float64
	NStr     string
	NBytes   []byte
	NBool    bool
)

type FNamed struct {
	E  NInt8
	N  NStr `form:"n"`
	K  NUint16
	F  NFloat64
	G  NFloat32 `form:"g"`
	Bo NBool
	W  NInt64
}

type FStrings struct {
	S string
	T string `form:"t"`
	N NStr
}

type FSlices struct {
	LI   []int
	LS   []string `form:"ls"`
	LB   []bool
	LF   []float64
	LU8  []uint8
	LI64 []int64 `form:"li64"`
	LN   []NStr
}

type FArrays struct {
	A1 [1]int
	A2 [2]int
	A3 [3]string `form:"a3"`
	A4 [4]uint8
	AF [2]float64
	A0 [0]int
	AB [5]bool
}

// same field names as FArrays, other shapes (cross-type garbage; also round-trip types of their own)
type FArraysWide struct {
	A1 [3]int
	A2 [5]int
	A3 [7]string `form:"a3"`
	A4 [9]uint8
	AF [4]float64
	A0 [2]int
	AB [8]bool
}

type FArraysAsSlices struct {
	A1 []int
	A2 []int
	A3 []string `form:"a3"`
	A4 []uint8
	AF []float64
	A0 []int
	AB []bool
}

type FArraysKinds struct {
	A1 string
	A2 [2]string
	A3 [3]int `form:"a3"`
	A4 bool
	AF []string
	A0 float64
	AB uint8
}

type FInner1 struct {
	Y string
	Z []int
}
type FInner3 struct {
	V uint8 `form:"v"`
}
type FInner2 struct {
	W    [2]string
	Deep FInner3
}
type FEmb struct {
	EmbA int
	EmbS string `form:"embs"`
}
type FNested struct {
	X   int
	In  FInner1
	In2 FInner2
	FEmb
	Q string `form:"q"`
}

type FMixed struct {
	Sc Scalars
	Tg FTagged
	Sl FSlices
	Ar FArrays
}

// FOdd is a garbage-only destination: fields the form codec does not support.
type FOdd struct {
	P  *int
	M  map[string]string
	I  interface{}
	T  time.Time `time_format:"2006-01-02"`
	T2 time.Time
	T3 time.Time `time_format:"15:04" time_utc:"1" time_location:"Nowhere/Land"`
	SS [][]int
	SP []*int
	AS [2]FInner3
	AP [2]*int
	Fn func()
	C  chan int
	u  int
	E  error
	PS *FInner1
	X  int `form:"x"`
}

// json

type JStrings struct {
	S string
	L []string
	M map[string]string
	A [2]string
	P *string
}
type JSlices struct {
	LI  []int
	LS  []string
	LB  []bool
	LF  []float64
	LL  [][]int
	LU8 []byte
	LI8 []int8
}
type JArrays struct {
	A0 [0]int
	A1 [1]int
	A3 [3]string
	AA [2][2]int
	AB [4]byte
	AF [2]float32
}
type JArraysWide struct {
	A0 [2]int
	A1 [4]int
	A3 [6]string
	AA [3][3]int
	AB [7]byte
	AF [5]float32
}
type JArraysKinds struct {
	A0 string
	A1 []string
	A3 map[string]int
	AA [2]string
	AB float64
	AF bool
}
type JMaps struct {
	MS map[string]int
	MI map[int]string
	ML map[string][]int
	MM map[string]map[string]bool
	MU map[uint8]float64
}
type JInner struct {
	X int    `json:"x"`
	Y string `json:"y,omitempty"`
	Z []int
}
type JEmb struct {
	EmbA int
	EmbS string
}
type JNested struct {
	In JInner
	L  []JInner
	M  map[string]JInner
	P  *JInner
	JEmb
	T JInner `json:"t"`
}
type JPointers struct {
	PI *int
	PS *string
	PP **int
	LP []*int
	PL *[]string
	PB *bool
	PF *float64
	PM *map[string]int
}

// xml

type XText struct {
	A string `xml:"a,attr"`
	N int    `xml:"n,attr"`
	C string `xml:",chardata"`
}
type XStrings struct {
	S string
	T string `xml:"t"`
	A string `xml:"a,attr"`
	L []string
	P *string
}
type XInner struct {
	X  int     `xml:"x"`
	Y  string  `xml:"y"`
	Z  []int   `xml:"z"`
	At int8    `xml:"at,attr"`
	F  float64 `xml:"f"`
}
type XRepeated struct {
	LS  []string `xml:"ls"`
	LI  []int
	LF  []float64
	LB  []bool
	LIn []XInner `xml:"in"`
	LU  []uint16
}
type XDeep struct {
	In XInner   `xml:"inner"`
	L  []XInner `xml:"l>item"`
}
type XNested struct {
	In   XInner
	D    XDeep
	P    *XInner
	PS   *string
	Path string `xml:"a>b>c"`
	Q    bool
}

// same element names as XRepeated, other shapes
type XRepeatedKinds struct {
	LS  int `xml:"ls"`
	LI  []bool
	LF  string
	LB  []XInner
	LIn []float32 `xml:"in"`
	LU  int8
}

// ---------- specs ----------

const (
	destHolder   = iota // *T between canary fields of a holder struct
	destSlicePtr        // *[]E over a backing array with spare capacity and guards
	destSliceVal        // []E passed by value (plain codec copies into it)
)

type eqOpts struct {
	nilEmpty bool // nil and empty slices / maps are the same value
	skipXXX  bool // protobuf bookkeeping fields
}

type spec struct {
	codec    string
	tclass   string
	typ      reflect.Type
	pass     string // "value", "ptr", "either": how the value goes into Marshal
	dest     int
	dclass   string   // state of a destSlicePtr receiver before decoding (destClasses); "" = drawn per evaluation
	garbOnly bool     // garbage destination only
	oddDest  bool     // "typ" is ignored: a list of unsupported destinations
	numeric  bool     // "typ" is ignored: the numeric boundary probe table of the codec (numeric.go)
	siblings []string // tclasses of the same codec with the same field names and other shapes
	gen      func(c *ctx) reflect.Value
	vclasses []string
	holder   reflect.Type
	names    []string // field / key / element names (crafted garbage)
	cd       codec.Codec
	cfg      *codecCfg
}

type codecCfg struct {
	id          byte
	strSet      []string
	nonfinite   bool
	bytesAsNums bool
	eq          eqOpts
	weight      float64
}

var (
	strAll  = []string{"empty", "ascii", "punct", "ctrl", "utf8", "bytes", "allbytes", "numeric", "space", "long"}
	strUTF8 = []string{"empty", "ascii", "punct", "ctrl", "utf8", "special", "numeric", "space", "long"}
	strXML  = []string{"empty", "ascii", "punct", "utf8", "xmlspecial", "xmlws", "numeric", "space", "long"}
	binAll  = []string{"empty", "ascii", "bytes", "allbytes", "zeros", "long"}
	numAll  = []string{"zero", "one", "neg1", "min", "max", "small", "rand"}
	fltFin  = []string{"zero", "negzero", "one", "negfrac", "frac", "third", "max", "negmax", "tiny", "bigint", "rand"}
	fltNon  = []string{"inf", "neginf", "nan"}
	lenAll  = []string{"nil", "0", "1", "2", "3", "7", "40"}
)

var codecs = map[string]*codecCfg{
	"json":  {id: codec.ID_JSON, strSet: strUTF8, eq: eqOpts{}, weight: 0.15},
	"xml":   {id: codec.ID_XML, strSet: strXML, eq: eqOpts{nilEmpty: true}, weight: 0.10},
	"form":  {id: codec.ID_FORM, strSet: strAll, bytesAsNums: true, eq: eqOpts{nilEmpty: true}, weight: 0.28},
	"plain": {id: codec.ID_PLAIN, strSet: strAll, nonfinite: true, eq: eqOpts{nilEmpty: true}, weight: 0.23},
	// not a codec: socket.Message.MarshalBody / UnmarshalBody hand []byte and *[]byte bodies through
	// whatever the body codec id says (anchor "byte-slice bodies bypass codecs")
	"bypass":   {strSet: strAll, eq: eqOpts{nilEmpty: true}, weight: 0.04},
	"protobuf": {id: codec.ID_PROTOBUF, strSet: strUTF8, eq: eqOpts{nilEmpty: true, skipXXX: true}, weight: 0.10},
	"thrift":   {id: codec.ID_THRIFT, strSet: strUTF8, eq: eqOpts{nilEmpty: true}, weight: 0.10},
}
var codecOrder = []string{"form", "plain", "json", "xml", "protobuf", "thrift", "bypass"}

// bypass drives socket.Message.MarshalBody / UnmarshalBody; the body codec id (irrelevant for
// byte-slice bodies, which is the point) is set per evaluation from bypassIDs.
type bypass struct{ id byte }

var bypassIDs = []struct {
	name string
	id   byte
}{{"json", codec.ID_JSON}, {"protobuf", codec.ID_PROTOBUF}, {"nil", codec.NilCodecID}, {"unregistered", 0xEE}}

// destClasses are the states of a *[]byte receiver before decoding (relative to the body length).
var destClasses = []string{"fresh", "longer", "equal", "shorter-cap", "shorter-nocap", "nil"}

func (b *bypass) ID() byte     { return b.id }
func (b *bypass) Name() string { return "bypass" }
func (b *bypass) Marshal(v interface{}) ([]byte, error) {
	return socket.NewMessage(socket.WithBodyCodec(b.id), socket.WithBody(v)).MarshalBody()
}
func (b *bypass) Unmarshal(data []byte, v interface{}) error {
	return socket.NewMessage(socket.WithBodyCodec(b.id), socket.WithBody(v)).UnmarshalBody(data)
}

func buildSpecs() []*spec {
	var out []*spec
	add := func(codecName, tclass string, zero interface{}, mods ...func(*spec)) {
		s := &spec{codec: codecName, tclass: tclass, pass: "either", cfg: codecs[codecName]}
		if zero != nil {
			s.typ = reflect.TypeOf(zero)
		}
		for _, m := range mods {
			m(s)
		}
		out = append(out, s)
	}
	byValue := func(s *spec) { s.pass = "value" }
	byPtr := func(s *spec) { s.pass = "ptr" }
	slicePtr := func(s *spec) { s.dest = destSlicePtr }
	sliceVal := func(s *spec) { s.dest = destSliceVal; s.pass = "value" }
	garbOnly := func(s *spec) { s.garbOnly = true }
	odd := func(s *spec) { s.garbOnly = true; s.oddDest = true }
	sib := func(t ...string) func(*spec) { return func(s *spec) { s.siblings = t } }
	gen := func(f func(c *ctx) reflect.Value) func(*spec) { return func(s *spec) { s.gen = f } }

	// form
	add("form", "scalars-untagged", Scalars{})
	add("form", "scalars-tagged", FTagged{})
	add("form", "scalars-named", FNamed{})
	add("form", "strings", FStrings{})
	add("form", "slices", FSlices{})
	add("form", "arrays", FArrays{}, sib("arrays-wide", "arrays-as-slices", "arrays-kinds"))
	add("form", "arrays-wide", FArraysWide{}, sib("arrays", "arrays-as-slices", "arrays-kinds"))
	add("form", "arrays-as-slices", FArraysAsSlices{}, sib("arrays", "arrays-wide", "arrays-kinds"))
	add("form", "arrays-kinds", FArraysKinds{}, sib("arrays", "arrays-wide", "arrays-as-slices"))
	add("form", "nested", FNested{})
	add("form", "mixed", FMixed{})
	add("form", "url.Values", url.Values{}, gen(genValues))
	add("form", "map", map[string][]string{}, gen(genValues))
	add("form", "unsupported-fields", FOdd{}, garbOnly)
	add("form", "odd-dest", nil, odd)

	// plain
	add("plain", "string", "", byValue)
	add("plain", "*string", "", byPtr)
	add("plain", "[]byte", []byte{}, sliceVal)
	add("plain", "*[]byte", []byte{}, slicePtr)
	add("plain", "named-string", NStr(""))
	add("plain", "named-bytes", NBytes{})
	add("plain", "bool", false)
	add("plain", "named-bool", NBool(false))
	add("plain", "int", int(0))
	add("plain", "int8", int8(0))
	add("plain", "int16", int16(0))
	add("plain", "int32", int32(0))
	add("plain", "int64", int64(0))
	add("plain", "uint", uint(0))
	add("plain", "uint8", uint8(0))
	add("plain", "uint16", uint16(0))
	add("plain", "uint32", uint32(0))
	add("plain", "uint64", uint64(0))
	add("plain", "named-int8", NInt8(0))
	add("plain", "named-uint16", NUint16(0))
	add("plain", "named-int64", NInt64(0))
	add("plain", "float32", float32(0))
	add("plain", "float64", float64(0))
	add("plain", "named-float32", NFloat32(0))
	add("plain", "named-float64", NFloat64(0))
	add("plain", "odd-dest", nil, odd)

	// json
	add("json", "scalars", Scalars{})
	add("json", "strings", JStrings{})
	add("json", "slices", JSlices{})
	add("json", "arrays", JArrays{}, sib("arrays-wide", "arrays-kinds"))
	add("json", "arrays-wide", JArraysWide{}, sib("arrays", "arrays-kinds"))
	add("json", "arrays-kinds", JArraysKinds{}, sib("arrays", "arrays-wide"))
	add("json", "maps", JMaps{})
	add("json", "nested", JNested{})
	add("json", "pointers", JPointers{})
	add("json", "top-slice-int", []int{}, slicePtr)
	add("json", "top-slice-string", []string{}, slicePtr)
	add("json", "top-bytes", []byte{}, slicePtr)
	add("json", "top-map", map[string][]int{})
	add("json", "top-int64", int64(0))
	add("json", "top-string", "")
	add("json", "top-float64", float64(0))
	add("json", "top-array", [3]int{})
	add("json", "odd-dest", nil, odd)

	// xml
	add("xml", "scalars", Scalars{})
	add("xml", "text-attr", XText{})
	add("xml", "strings", XStrings{})
	add("xml", "repeated", XRepeated{}, sib("repeated-kinds"))
	add("xml", "repeated-kinds", XRepeatedKinds{}, sib("repeated"))
	add("xml", "nested", XNested{})
	add("xml", "odd-dest", nil, odd)

	// protobuf (pointer receivers)
	add("protobuf", "PbEmpty", codec.PbEmpty{}, byPtr)
	add("protobuf", "PbTest", pbtest.PbTest{}, byPtr)
	add("protobuf", "Payload", pbpayload.Payload{}, byPtr)
	add("protobuf", "Payload-websocket", wspayload.Payload{}, byPtr)
	add("protobuf", "BenchmarkMessage", benchmsg.BenchmarkMessage{}, byPtr)
	add("protobuf", "empty-struct", struct{}{})
	add("protobuf", "odd-dest", nil, odd)

	// thrift
	add("thrift", "ThriftEmpty", codec.ThriftEmpty{}, byPtr)
	add("thrift", "TStruct", TStruct{}, byPtr)
	add("thrift", "empty-struct", struct{}{})
	add("thrift", "odd-dest", nil, odd)

	// numeric boundary probes of the text codecs
	for _, c := range []string{"form", "plain", "json", "xml"} {
		add(c, "numeric", nil, func(s *spec) { s.garbOnly = true; s.numeric = true })
	}

	// receivers of the byte-slice fast paths in every state a caller can hand them over in:
	// socket.Message body bypass ([]byte / *[]byte sent, *[]byte received) and plain codec *[]byte
	for _, dc := range destClasses {
		dc := dc
		add("bypass", "dest-"+dc, []byte{}, func(s *spec) { s.cd = &bypass{}; s.dest = destSlicePtr; s.dclass = dc })
		add("plain", "bytes-ptr-dest-"+dc, []byte{}, func(s *spec) { s.dest = destSlicePtr; s.dclass = dc })
	}

	canary := reflect.TypeOf([4]uint64{})
	for _, s := range out {
		if s.cd == nil {
			cd, err := codec.Get(s.cfg.id)
			if err != nil {
				panic(err)
			}
			s.cd = cd
		}
		if s.oddDest || s.numeric {
			continue
		}
		s.holder = reflect.StructOf([]reflect.StructField{
			{Name: "Pre", Type: canary}, {Name: "V", Type: s.typ}, {Name: "Post", Type: canary}})
		s.vclasses = valueClasses(s)
		s.names = fieldNames(s.typ, s.codec)
	}
	return out
}

// oddDests are destinations no codec supports (or supports as a no-op); decoding into them
// must fail cleanly. A fresh list per call: a decoder may (legitimately) store into *interface{}.
func oddDests() []interface{} {
	var ni *int
	var ns *Scalars
	var np **int = &ni
	var ifc interface{}
	var ifp interface{} = new(int)
	var e error
	ch := make(chan int)
	f := func() {}
	m := map[string]int{}
	arr := [3]byte{}
	var nm map[string][]string
	var nu *url.Values
	return []interface{}{
		nil, 0, "s", Scalars{}, ni, ns, np, &ifc, &ifp, &e, &ch, &f, &m, m, &arr, arr, &nm, nu,
		new(*Scalars), new([]int), new([][]byte), new(complex128), new(uintptr), new(struct{}), struct{}{},
		new(***int), []byte(nil), (*[]byte)(nil), new(*[]byte), new(*string), new([2]string), new([]string),
	}
}

// fieldNames lists the names under which a codec looks fields of t up (for crafted garbage).
func fieldNames(t reflect.Type, codecName string) []string {
	var out []string
	seen := map[reflect.Type]bool{}
	var walk func(t reflect.Type)
	walk = func(t reflect.Type) {
		for t.Kind() == reflect.Ptr || t.Kind() == reflect.Slice || t.Kind() == reflect.Array {
			t = t.Elem()
		}
		if t.Kind() != reflect.Struct || seen[t] {
			return
		}
		seen[t] = true
		for i := 0; i < t.NumField(); i++ {
			f := t.Field(i)
			name := f.Name
			tag := f.Tag.Get(codecName)
			if tag != "" {
				n := tag
				for j := 0; j < len(n); j++ {
					if n[j] == ',' && codecName != "form" {
						n = n[:j]
						break
					}
				}
				if n != "" {
					name = n
				}
			}
			out = append(out, name)
			walk(f.Type)
		}
	}
	walk(t)
	return out
}
